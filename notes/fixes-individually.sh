#!/bin/bash
# each proposed patch alone in the private worktree, then a regression of fix 729671e (must be a VIOLATION)
cd /work/vars-repo || exit 1
LOG=/work/vars/notes/fixes-individually.log; : > $LOG
for k in 3 4 5; do
  git checkout -q src; git apply /work/vars/notes/C09-fix-$k.patch
  echo "=== only C09-fix-$k.patch" >> $LOG
  (cd /work/vars && rm -rf replays && CICADA_REPO=/work/vars-repo ./check C09 quick 2>&1 | cut -c1-110 | tail -4 >> $LOG
   python3 -c "import json; print('detected flags:', json.load(open('/work/vars/evidence/C09.json'))['coverage']['fix_flags'])" >> $LOG)
done
git checkout -q src
sed -i '/.filter(|(k, _)| !cl.envs.contains_key(k))/d' src/core.rs
echo "=== regression: 729671e undone (per-command pairs appended again)" >> $LOG
git diff --stat | tail -1 >> $LOG
(cd /work/vars && rm -rf replays && CICADA_REPO=/work/vars-repo ./check C09 quick 2>&1 | cut -c1-110 | tail -5 >> $LOG
 for f in replays/*.json; do python3 - "$f" >> $LOG <<'PY'
import json,sys
r=json.load(open(sys.argv[1]))
print("  replay:", {k: str(r.get(k))[:170] for k in ("kind","layer","op","expected","observed","failing_input")})
PY
 done)
git checkout -q src
