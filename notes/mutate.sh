#!/bin/bash
# mutation runs for C09 (private worktree /work/vars-repo); output -> /work/vars/notes/mutations.log
cd /work/vars-repo || exit 1
run() { # name file old new
  python3 - "$2" "$3" "$4" <<'PY'
import sys
p,old,new=sys.argv[1:4]
s=open(p).read()
assert old in s, "pattern not found"
open(p,'w').write(s.replace(old,new,1))
PY
  echo "=== $1" >> /work/vars/notes/mutations.log
  git diff --stat | tail -1 >> /work/vars/notes/mutations.log
  (cd /work/vars && rm -rf replays && CICADA_REPO=/work/vars-repo ./check C09 quick 2>&1 | grep -v "^KNOWN" | cut -c1-200 | tail -6 >> /work/vars/notes/mutations.log; echo "exit=$?" >> /work/vars/notes/mutations.log
   for f in replays/*.json; do python3 - "$f" >> /work/vars/notes/mutations.log <<'PY'
import json,sys
r=json.load(open(sys.argv[1]))
print("  replay:", {k: str(r.get(k))[:160] for k in ("kind","layer","op","expected","observed","failing_input")})
PY
   done)
  git checkout -q src
}
: > /work/vars/notes/mutations.log
run M1-set_env-never-updates-environment src/shell.rs 'if env::var(name).is_ok() {' 'if false && env::var(name).is_ok() {'
run M2-cd-previous_dir-always-set src/builtins/cd.rs 'if str_current_dir != dir_to {' 'if true {'
run M3-read-last-name-gets-one-field src/builtins/read.rs 'value_list[idx_2rd_last..].join(" ")' 'value_list[idx_2rd_last].clone()'
run M4-unset-keeps-shell-variable src/shell.rs '        self.envs.remove(name);
        self.remove_func(name);' '        self.remove_func(name);'
run FIX2-cd-message src/builtins/cd.rs 'No such file or directory", &args[1]);' 'No such file or directory", &dir_to);'
echo "=== clean" >> /work/vars/notes/mutations.log
(cd /work/vars && rm -rf replays && CICADA_REPO=/work/vars-repo ./check C09 quick 2>&1 | grep -c "^KNOWN" >> /work/vars/notes/mutations.log; CICADA_REPO=/work/vars-repo ./check C09 quick 2>&1 | tail -1 >> /work/vars/notes/mutations.log)
