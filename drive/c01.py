"""C01 -- quoted and escaped arguments reach the program verbatim.
L1a tokenizer (parse_line) vs extracted model on exhaustive short strings; L1b
tokens_to_redirections / from_tokens on short token lists; L1c the real
CommandLine::from_line on the property's domain (styles x texts x positions):
model plan_tokens applied to the implementation's own expanded tokens must
equal the implementation's plan, and the property oracle (argv = texts, one
command, foreground, no redirections) must hold outside the known classes;
L2 argv seen by a helper through `cicada -c`."""
import itertools, os, shutil, subprocess, tempfile
import common as C

EXTRACT = ["C01"]
BINS = ["c01"]
NEEDS_CICADA = True
ALLOWED_AXIOMS = []
PINNED = ["C01_tokenize", "C01_tokenize_escaped", "C01_tokenize_mixed", "C01_plan_mixed_partial", "C01_plan_quoted", "C01_plan_full", "C01_post_passes", "C01_split", "C01_esc_refuted",
          "C01_is_an_env_is_source_regex", "C01_split_env_is_source_regex", "C01_redir_fd_is_source_regex", "C01_redir_gt_is_source_regex",
          "C01_redir_ptn1_is_source_regex", "C01_redir_ptn2_is_source_regex", "C01_is_arithmetic_is_source_regex"]
TRUSTED = [
    "Coq 8.16.1 kernel; vm_compute in witnesses/examples only",
    "hand transcription of parse_line / is_arithmetic (Model/Tokenizer.v), tokens_to_redirections, from_tokens, "
    "split_tokens_by_pipes, drain_env_tokens, from_line glue (Model/Redirect.v), tied by differential execution",
    "tools/tables2coq.py (Unicode Nd table for \\d from the vendored regex-syntax)",
    "extraction ExtrOcamlBasic; ocaml/c01/drv.ml; harness/src/bin/c01.rs; helpers/hp.c; drive/c01.py",
]
ASSUMES = ["expansion passes are taken from the implementation's own output in layer L1c (their model belongs to C10-C12)",
           "execve receives the planned token texts (core.rs:469-489), validated by L2"]



def gen(ctx=None):
    """Gen/ParserLineRegexes.v from the regex literals of parser_line.rs / types.rs (round 9; proofs in
    Proofs/ParserLineRegexProofs.v)"""
    import regexsites
    regexsites.gen_parser_line()
    regexsites.gen_tools()


META = list("|&;<>()$`\\\"'*?[]{},~#!=%^")
ALPHA = META + [" ", "\t", "a", "é"]
SPECIAL = set(META + [" ", "\t"])
TOKALPHA = ["a", " ", "'", '"', "`", "\\", "|", "$", "(", ")", "<", ">", "#", "=", "&", ";", "1", "é"]


def style_ok(style, text):
    if style == "sq":
        return "'" not in text
    if style == "dq":
        return not any(c in text for c in '$`\\"')
    return text != ""


def render_arg(style, text):
    if style == "sq":
        return "'" + text + "'"
    if style == "dq":
        return '"' + text + '"'
    return "".join(("\\" + c) if c in SPECIAL else c for c in text)


def known_class(args, pos, layer="L1c"):
    """Known-finding classes of C01 (mirrors Known_C01 in Properties/C01.v). args = [(style, text)],
    pos = kind of position. Returns class name or None. Only the backslash-escaped style has any left:
    the tokenizer drops the backslash and keeps no mark on the token, so later passes see plain text."""
    n = len(args)
    for i, (st, tx) in enumerate(args):
        last = i == n - 1
        if st == "esc":
            if "$" in tx or "`" in tx or "*" in tx or "~" == tx[0] or "{" in tx:
                return "esc-expanded"
            if tx == "&" and last and pos == "plain":
                return "esc-amp-last"
    return None


def gen_cases(ctx):
    rng = ctx.rng
    texts = []
    maxlen = 3 if ctx.thorough else 2
    for n in range(0, maxlen + 1):
        for t in itertools.product(ALPHA, repeat=n):
            texts.append("".join(t))
    extra = []
    for _ in range(40000 if ctx.thorough else 4000):
        n = rng.randint(maxlen + 1, 8)
        extra.append("".join(rng.choice(ALPHA) for _ in range(n)))
    cases = []   # (args, pos)
    for tx in texts + extra:
        for st in ("sq", "dq", "esc"):
            if not style_ok(st, tx):
                continue
            k = rng.randrange(6)
            for pos, mk in (("only", lambda a: [a]), ("first", lambda a: [a, ("sq", "z")]),
                            ("middle", lambda a: [("dq", "y"), a, ("esc", "z")]),
                            ("last", lambda a: [("sq", "y"), a])):
                cases.append((mk((st, tx)), "plain"))
            cases.append(([("sq", "y"), (st, tx)], "pipe"))
            cases.append(([("sq", "y"), (st, tx)], "list"))
    for _ in range(20000 if ctx.thorough else 3000):
        n = rng.randint(0, 6)
        args = []
        for _ in range(n):
            st = rng.choice(["sq", "dq", "esc"])
            while True:
                tx = "".join(rng.choice(ALPHA) for _ in range(rng.randint(0, 5)))
                if style_ok(st, tx):
                    break
            args.append((st, tx))
        cases.append((args, rng.choice(["plain", "pipe", "list"])))
    return cases


def render_line(args, pos, cmd="prog"):
    l = cmd + "".join(" " + render_arg(s, t) for s, t in args)
    if pos == "pipe":
        l += " | sink"
    elif pos == "list":
        l += " && next"
    return l


def parse_tokens(s):
    """'[("","a"),("'","b")]' -> list of (tag, text) decoded"""
    out = []
    i = 1
    while i < len(s) and s[i] == "(":
        j = s.index('"', i + 2)
        tag = C.dec(s[i + 2:j])
        k = j + 3
        e = s.index('"', k)
        out.append((tag, C.dec(s[k:e])))
        i = e + 3
    return out


def run(ctx, res):
    rng = ctx.rng
    known = {k["class"]: k for k in C.known_findings("C01")}
    res.rule = ("L1a: parse_line on every string up to length %d over %r (+ random longer); L1b: redirection parser on short "
                "token lists; L1c: from_line on rendered (style, text) arguments: every text up to length %d over the %d-symbol "
                "alphabet of the property x 3 styles x 6 positions + random lists of 0..6 arguments; non-trivial = distinct "
                "argument text with at least one shell-special character" % (5 if ctx.thorough else 4, TOKALPHA, 3 if ctx.thorough else 2, len(ALPHA)))
    model, impl = ctx.model["C01"], ctx.bins["c01"]
    work = tempfile.mkdtemp(prefix="c01_")
    cwd0 = os.getcwd()
    try:
        os.chdir(work)
        # ---------- L1a tokenizer
        toks = []
        for n in range(0, (5 if ctx.thorough else 4) + 1):
            for t in itertools.product(TOKALPHA, repeat=n):
                toks.append("".join(t))
        for _ in range(30000 if ctx.thorough else 5000):
            toks.append("".join(rng.choice(TOKALPHA + ["\t", "x=", "$(", "2>&1", "*"]) for _ in range(rng.randint(6, 40))))
        p = C.write_cases("c01_tok.txt", [C.case("tok", s) for s in toks])
        mo, io = C.run_model(model, p), C.run_impl(impl, p, len(toks))
        res.count("L1a_parse_line", len(toks))
        nb = 0
        for s, a, b in zip(toks, mo, io):
            if a != b:
                nb += 1
                if nb <= 2:
                    res.violate(kind="correspondence", layer="L1a", function="parse_line", input=s, model=a, impl=b,
                                failing_input=False, note="tokenizer differs from the model the C01 theorems are about")
        res.sample({"layer": "L1a", "input": toks[777], "model": mo[777], "impl": io[777]})
        # ---------- L1b redirections
        words = [""]
        RA = ["a", "1", "2", "3", ">", "&", "٣"]
        for n in range(1, 5 if ctx.thorough else 4):
            for t in itertools.product(RA, repeat=n):
                words.append("".join(t))
        rcases = []
        for w in words:
            rcases.append(C.case("redir", "", w))
            rcases.append(C.case("redir", "", "x", "", w, "", "t"))
            rcases.append(C.case("redir", "", w, "'", "&1"))
            rcases.append(C.case("fromtok", "", "c", "", w, "", "<", "'", "f"))
        for _ in range(5000 if ctx.thorough else 1500):
            n = rng.randint(1, 5)
            f = []
            for _ in range(n):
                f += [rng.choice(["", "", "", "'", '"', "\\"]), rng.choice(["a", ">", ">>", "2>", "2>&1", "1>&2", "&1", "<", "<<<", "f", ">f", "3>f", "a>b", ">&2", "&", "|"])]
            rcases.append(C.case(rng.choice(["redir", "fromtok"]), *f))
        p = C.write_cases("c01_redir.txt", rcases)
        mo, io = C.run_model(model, p), C.run_impl(impl, p, len(rcases))
        res.count("L1b_redirections", len(rcases))
        nb = 0
        for s, a, b in zip(rcases, mo, io):
            if a != b:
                nb += 1
                if nb <= 2:
                    res.violate(kind="correspondence", layer="L1b", function="tokens_to_redirections/from_tokens", input=s,
                                model=a, impl=b, failing_input=False, note="redirection parser differs from the model")
        # ---------- L1c plan on the property's domain
        cases = gen_cases(ctx)
        lines = [render_line(a, pos) for a, pos in cases]
        p = C.write_cases("c01_plan.txt", [C.case("plan", l) for l in lines])
        io = C.run_impl(impl, p, len(lines))
        mcases = []
        for o in io:
            if o.startswith("exp="):
                exp = o[4:o.index(" plan=")]
                fl = []
                for tg, tx in parse_tokens(exp):
                    fl += [tg, tx]
                mcases.append(C.case("plantok", *fl) if fl else "plantok\t")
            else:
                mcases.append("plantok\t")
        p2 = C.write_cases("c01_plantok.txt", mcases)
        mo = C.run_model(model, p2)
        res.count("L1c_from_line", len(lines))
        nv = 0
        stats = {}
        for (args, pos), line, o, m in zip(cases, lines, io, mo):
            texts = [t for _, t in args]
            if any(c in SPECIAL for t in texts for c in t):
                res.nontrivial(repr(texts))
            if not o.startswith("exp="):
                kc = known_class(args, pos)
                stats[("crash", kc)] = stats.get(("crash", kc), 0) + 1
                if kc is None:
                    nv += 1
                    if nv <= 3:
                        res.violate(kind="oracle", layer="L1c", input=line, observed=o, failing_input=True,
                                    note="from_line panicked / crashed on a well-formed quoted command line")
                continue
            plan = o[o.index(" plan=") + 6:]
            if plan != m:
                nv += 1
                if nv <= 3:
                    res.violate(kind="correspondence", layer="L1c", function="from_line glue", input=line, model=m, impl=plan,
                                failing_input=False, note="planner differs from Model/Redirect.v plan_tokens")
                continue
            argv = ["prog"] + texts
            exp_cmd = "C(tokens=[%s],redirs=[],from=None)"
            # oracle: compare token TEXTS only (tags are internal)
            want = [argv] + ([["sink"]] if pos == "pipe" else [])
            got = None
            if plan.startswith("P(bg=0,envs=[],cmds=["):
                body = plan[len("P(bg=0,envs=[],cmds=["):-2]
                cmds = body.split("),C(") if body else []
                got = []
                okshape = True
                for c in cmds:
                    if not c.startswith("C("):
                        c = "C(" + c
                    if not c.endswith(")"):
                        c = c + ")"
                    if ",redirs=[],from=None)" not in c:
                        okshape = False
                        break
                    tk = c[len("C(tokens="):c.index(",redirs=")]
                    got.append([t for _, t in parse_tokens(tk)])
                if not okshape:
                    got = None
            if pos == "list":
                want = None  # `&&` is not split by from_line; this position is judged through line_to_cmds (L2 / theorem)
                continue
            kc = known_class(args, pos)
            if got == want:
                continue
            stats[kc] = stats.get(kc, 0) + 1
            if kc is None:
                nv += 1
                if nv <= 3:
                    res.violate(kind="oracle", layer="L1c", input=line, expected=repr(want), observed=plan, failing_input=True,
                                note="planned argv differs from the written arguments outside every known-finding class")
            elif kc in known:
                res.known(kc, "class=%s e.g. %s -> %s" % (kc, line, plan[:120]))
            else:
                nv += 1
                if nv <= 3:
                    res.violate(kind="oracle", layer="L1c", input=line, expected=repr(want), observed=plan, failing_input=True,
                                note="class %s is not listed in known_findings.txt" % kc)
        res.extra["l1c_failure_classes"] = {str(k): v for k, v in stats.items()}
        res.sample({"layer": "L1c", "input": lines[4321 % len(lines)], "impl": io[4321 % len(lines)], "model_plan": mo[4321 % len(lines)]})
        # ---------- L2: argv of a helper through `cicada -c`
        hp = os.path.join(ctx.helpers, "hp")
        idx = list(range(len(cases)))
        rng.shuffle(idx)
        pick = idx[:(1500 if ctx.thorough else 250)]
        from concurrent.futures import ThreadPoolExecutor

        def one(ix):
            args, pos = cases[ix]
            line = hp + " @" + "".join(" " + render_arg(s_, t_) for s_, t_ in args)
            if pos == "pipe":
                line += " | " + hp + " @r"
            elif pos == "list":
                line += " && " + hp + " @ next"
            d = tempfile.mkdtemp(prefix="w", dir=work)
            tr = os.path.join(d, "trace")
            env = dict(os.environ)
            env.update({"VERIF_TRACE": tr, "HOME": d, "XDG_CONFIG_HOME": d, "PATH": "/usr/bin:/bin"})
            try:
                pr = subprocess.run([ctx.cicada, "-c", line], cwd=d, env=env, stdin=subprocess.DEVNULL,
                                    stdout=subprocess.PIPE, stderr=subprocess.PIPE, timeout=20)
                rc = pr.returncode
            except subprocess.TimeoutExpired:
                rc = "TIMEOUT"
            recs = []
            if os.path.exists(tr):
                for l in open(tr):
                    kv = dict(f.split("=", 1) for f in l.rstrip("\n").split("\t") if "=" in f)
                    recs.append([C.dec(a) for a in kv.get("argv", "").split(",")])
            files = sorted(os.listdir(d))
            shutil.rmtree(d, ignore_errors=True)
            return line, rc, recs, files

        with ThreadPoolExecutor(max_workers=C.NCPU) as ex:
            outs = list(ex.map(one, pick))
        res.count("L2_cicada_c", len(pick))
        for ix, (line, rc, recs, files) in zip(pick, outs):
            args, pos = cases[ix]
            want = [[hp, "@"] + [t for _, t in args]]
            if pos == "pipe":
                want.append([hp, "@r"])
            elif pos == "list":
                want.append([hp, "@", "next"])
            ok = recs == want and rc == 0 and files in ([], ["trace"])
            if ok:
                continue
            kc = known_class(args, pos, "L2")
            if kc is None:
                nv += 1
                if nv <= 3:
                    res.violate(kind="oracle", layer="L2", input=line, expected=repr(want), observed=repr((rc, recs, files)),
                                failing_input=True, note="argv received by the program differs from the written arguments")
            elif kc in known:
                res.known(kc, "class=%s e.g. %s" % (kc, line[len(hp) - 2:]))
            else:
                nv += 1
                if nv <= 3:
                    res.violate(kind="oracle", layer="L2", input=line, expected=repr(want), observed=repr((rc, recs)),
                                failing_input=True, note="class %s is not listed in known_findings.txt" % kc)
        res.sample({"layer": "L2", "input": outs[0][0], "argv_seen": outs[0][2], "status": outs[0][1]})
        # ---------- L2w: the same in a world that HAS aliases (the theorems quantify over every world): a quoted or
        # escaped operator-like argument followed by a word that spells an alias name -- the quoted text must not act
        # as a stage boundary for the alias pass either (seed C01-alias-pass-ignores-quote-tag-of-pipe)
        wcases = []
        for tx in ["|", "||", "&&", ";", "&", ">", "<", "|x", "a|", "(", "`"]:
            for st in ("sq", "dq", "esc"):
                if not style_ok(st, tx):
                    continue
                for shape in (0, 1, 2):
                    a = [(st, tx), ("esc", "zz")] if shape == 0 else [("sq", "k"), (st, tx), ("esc", "zz"), (st, tx), ("esc", "zz")] \
                        if shape == 1 else [(st, tx), ("esc", "zz"), ("dq", "zz")]
                    wcases.append((a, "plain" if shape != 2 else "pipe"))

        def one_w(case):
            args, pos = case
            pre = "alias zz='%s @ ALIASED' ; " % hp
            line = pre + hp + " @" + "".join(" " + render_arg(s_, t_) for s_, t_ in args)
            if pos == "pipe":
                line += " | zz"
            d = tempfile.mkdtemp(prefix="ww", dir=work)
            tr = os.path.join(d, "trace")
            env = dict(os.environ)
            env.update({"VERIF_TRACE": tr, "HOME": d, "XDG_CONFIG_HOME": d, "PATH": "/usr/bin:/bin"})
            try:
                pr = subprocess.run([ctx.cicada, "-c", line], cwd=d, env=env, stdin=subprocess.DEVNULL,
                                    stdout=subprocess.PIPE, stderr=subprocess.PIPE, timeout=20)
                rc = pr.returncode
            except subprocess.TimeoutExpired:
                rc = "TIMEOUT"
            recs = []
            if os.path.exists(tr):
                for l in open(tr):
                    kv = dict(f.split("=", 1) for f in l.rstrip("\n").split("\t") if "=" in f)
                    recs.append([C.dec(a) for a in kv.get("argv", "").split(",")])
            files = sorted(os.listdir(d))
            shutil.rmtree(d, ignore_errors=True)
            return line, rc, recs, files

        with ThreadPoolExecutor(max_workers=C.NCPU) as ex:
            wouts = list(ex.map(one_w, wcases))
        res.count("L2w_alias_world", len(wcases))
        for (args, pos), (line, rc, recs, files) in zip(wcases, wouts):
            want = [[hp, "@"] + [t for _, t in args]]
            if pos == "pipe":
                want.append([hp, "@", "ALIASED"])       # a genuine pipe: the word after it IS a command word
            if sorted(recs) == sorted(want) and rc == 0 and files in ([], ["trace"]):
                res.nontrivial("L2w:" + line[-40:])
                continue
            kc = known_class(args, pos, "L2")
            if kc is not None and kc in known:
                res.known(kc, "class=%s e.g. %s" % (kc, line[-60:]))
                continue
            nv += 1
            if nv <= 6:
                res.violate(kind="oracle", layer="L2w", input=line, expected=repr(want), observed=repr((rc, recs, files)),
                            failing_input=True, note="with an alias defined, argv received differs from the written arguments")
    finally:
        os.chdir(cwd0)
        shutil.rmtree(work, ignore_errors=True)
