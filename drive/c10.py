"""C10 -- parameter expansion: current values, once, terminates (one-pass scan since e586def).
L0: env_in_token / expand_env_once on every string up to length 4/5 over the characters the six gate
patterns and the scan mention (ties the generated regex ASTs and the transcription of the scan to the code).
L1: expand_env (in-process, hooks) vs the extracted model on every word of <= 3 (quick) / 4 (thorough)
segments plus random words to 6 segments, under 10 variable environments (values with references, self and
mutual references, newlines, quotes, parens), in the unquoted / double-quoted / single-quoted form.  The
property's oracle (one left-to-right pass, written independently here and cross-checked against the extracted
den_pieces / gate_ok) is applied to the implementation's output; a case that does not return is reported by
the harness watchdog as HANG, which is a violation with that word as failing input.
L2: argv of helpers/hp through `cicada -c` for sampled words."""
import itertools, os, re, shutil, subprocess, tempfile
import common as C
import expand_common as X

EXTRACT = ["C10"]
BINS = ["c10"]
NEEDS_CICADA = True
ALLOWED_AXIOMS = []
PINNED = ["C10_scan", "C10_full", "C10_refuted", "C10_partial", "C10_double_quoted", "C10_gate_whole_word", "C10_refs_before_cmdsub", "C10_status_is_last_executed", "C10_line", "C10_index_buffer", "C10_single_quoted", "C10_do_expansion_inert",
          "C10_values_not_rescanned"]
TRUSTED = [
    "Coq 8.16.1 kernel (coqc; coqchk in thorough); vm_compute only in concrete witnesses / non-vacuity examples",
    "hand transcription of env_in_token / env_ref_at / expand_env_once / expand_env (coq/theories/Model/Expand.v), "
    "tied by differential execution (L0 exhaustive on short strings, L1)",
    "tools/regex2coq.py (regex literal -> AST for the six yes/no patterns of env_in_token, regenerated every run); "
    "the derivative matcher is proved equivalent to the denotational Matches (Base/Regex.v), that Matches is the regex "
    "crate's is_match is checked by layer L0",
    "extraction: ExtrOcamlBasic only; OCaml 4.13.1; ocaml/c10/drv.ml; harness/src/expand_ops.rs; drive/c10.py",
    "variable lookup, $? and $$ are World oracles (env_var first, then sh_var: the order of expand_env_once)",
]
ASSUMES = [
    "C10_partial / C10_line speak about words that are renderings of well-formed segment lists (every dollar starts a "
    "well-formed reference, unbraced names are maximal); VALUES are unrestricted; excluded are only the gate's DELIBERATE "
    "exemption shapes: literal text with an open paren, or with '=' together with a backquote (and, for tokens that are "
    "not double-quoted, '=' together with a single quote: the alias-definition case)",
]

SEGS_Q = ["a", "B", "$A", "${A}", "$AB", "${AB}", "$?", "$$", "{", "}", "$1", " ", ".", "$"]
SEGS_T = SEGS_Q + ["${", "=", "'", "\n", "$B", "(", "`"]
ENVS = [  # (process env, shell-local)
    ({"A": "v"}, {"AB": "w"}),
    ({}, {"A": "x$B", "B": "y"}),
    ({}, {"A": "$A"}),
    ({"A": "$B"}, {"B": "$A"}),
    ({"A": "a.*[b"}, {"AB": "p q"}),
    ({}, {"A": "${B}", "B": "$1"}),
    ({}, {"AB": ""}),
    ({}, {"A": "l1\nl2", "B": "z"}),
    ({"A": "it's=("}, {"B": "k"}),
    ({"A": "envv"}, {"A": "shv", "AB": "}{"}),
]
NAME1 = re.compile(r"[A-Za-z_][A-Za-z0-9_]*")


def lookup(env, name):
    e, s = env
    return e.get(name, s.get(name, ""))


def ref_subst(word, env, status, pid):
    """The property's oracle: one left-to-right pass. Returns (text, pieces or None, flags)."""
    out, pieces, flags = [], [], set()
    i = 0
    n = len(word)
    while i < n:
        c = word[i]
        if c != "$":
            out.append(c); pieces.append("L" + c); i += 1; continue
        r = word[i + 1:]
        m = NAME1.match(r)
        if m:
            k = m.group(0)
            out.append(lookup(env, k)); pieces.append("U" + k); i += 1 + len(k); continue
        if r[:1] in ("?", "$"):
            out.append(str(status) if r[0] == "?" else str(pid)); pieces.append("U" + r[0]); i += 2; continue
        if r[:1] == "{":
            m = NAME1.match(r[1:])
            if m and r[1 + len(m.group(0)):2 + len(m.group(0))] == "}":
                k = m.group(0)
                out.append(lookup(env, k)); pieces.append("B" + k); i += 3 + len(k); continue
            if r[1:2] in ("?", "$") and r[2:3] == "}":
                out.append(str(status) if r[1] == "?" else str(pid)); pieces.append("B" + r[1]); i += 4; continue
            flags.add("malformed_reference")
        elif r[:1].isdigit():
            flags.add("malformed_reference")
        else:
            flags.add("lone_dollar")
        out.append("$"); pieces = None if pieces is None else pieces; pieces_ok = False
        pieces.append(None); i += 1
    if any(p is None for p in pieces):
        pieces = None
    return "".join(out), pieces, flags


_NAME = r"[a-zA-Z_][a-zA-Z0-9_]*"
EXEMPT_SHAPES = [re.compile(r"^%s=`.*`\Z" % _NAME),            # NAME=`cmd ...`          (whole word)
                 re.compile(r"^%s=\$\(.*\)\Z" % _NAME),       # NAME=$(cmd ...)         (whole word)
                 re.compile(r"^\$\(.+\)\Z")]                  # $(cmd ...)              (whole word)
EXEMPT_ALIAS = re.compile(r"='.*\$\{?%s\}?.*'\Z" % _NAME)      # ...='.. $NAME ..'       (at the end; not in double quotes)


def classify(word, env, pieces, flags, tag=""):
    """The DELIBERATE exemptions of the gate (not findings), stated here independently of the model: a word that IS,
    from its first to its last character, a command substitution or an assignment of one (the inner line is expanded
    when it runs), and -- for tokens that are not double-quoted -- the alias-definition shape (the user single-quoted
    that text).  Anything else, in particular a reference FOLLOWED by a command substitution ($A/$(cmd)), must be
    expanded.  For exempt words only model == implementation is demanded."""
    if any(r.search(word) for r in EXEMPT_SHAPES):
        return {"by_design_exemption"}
    if tag != '"' and EXEMPT_ALIAS.search(word):
        return {"by_design_exemption"}
    return set()


# words in which plain references stand next to a command substitution (both orders, both spellings, assignments)
CMDSUB_SHAPES = ["$A/$(echo sub)", "${A}$(x)", "$A and $(echo sub)", "p$A$(x)", "$(x)$A", "$(x)", "$(x $A)", "A=$(x $A)",
                 "B=$A$(x)", "x$A=$(y)", "$A$(x)$(y)", "$(x)/$A/$(y)", "$A`x`", "B=`x $A`", "$A=`x`", "`x`$A", "${AB}-$(x)-$A",
                 "$A/$(echo 'q')", "x='$A'$(y)"]


def world_field(env, status=0, extra=()):
    e, s = env
    ents = [("E", k, v) for k, v in sorted(e.items())] + [("S", k, v) for k, v in sorted(s.items())]
    ents.append(("Q", "", str(status)))
    ents += list(extra)
    return "\x1e".join(k + a + "\x1d" + b for k, a, b in ents)


def split_pid(line):
    if line is not None and line.startswith("pid="):
        p, rest = line.split("\t", 1)
        return p[4:], rest
    return None, line


def tok_text(line):
    """second component of the single token of a tokens line"""
    m = re.match(r'^\[\("[^"]*","([^"]*)"\)\]$', line or "")
    return C.dec(m.group(1)) if m else None


FUEL = 40
MODEL_PID = "99999989"


def gen(ctx=None):
    """regenerates Gen/ShellRegexes.v from the regex literals of the current source (write-if-changed)"""
    X.gen(ctx)


def run(ctx, res):
    rng = ctx.rng
    known = {k["class"]: k for k in C.known_findings("C10")}
    segs = SEGS_T if ctx.thorough else SEGS_Q
    maxk = 4 if ctx.thorough else 3
    res.rule = ("L1: expand_env on every word of <= %d segments from %r plus random words to 6 segments, under %d "
                "environments (values: plain, with $NAME / ${NAME} / $1, self and mutual reference, regex-special, "
                "blanks, newline, quote/paren), tags none / double / single; non-trivial = distinct (word, env) whose "
                "model result differs from the input token; L0: env_in_token + expand_one_env on all strings up to "
                "length %d over %r" % (maxk, segs, len(ENVS), 5 if ctx.thorough else 4, "$ { } A 1 ? = ' ` ( ) \\n"))
    # ------------------------------------------------------------ L0: token-level functions, exhaustive
    alpha = ["$", "{", "}", "A", "1", "?", "=", "'", "`", "(", ")", "\n", "x"]
    n0 = 5 if ctx.thorough else 4
    strs = [""]
    for n in range(1, n0 + 1):
        if n == n0 and not ctx.thorough:
            strs += ["".join(t) for t in itertools.product(alpha, repeat=n) if rng.random() < 0.5]
        elif n == n0:
            strs += ["".join(t) for t in itertools.product(alpha, repeat=n) if rng.random() < 0.35]
        else:
            strs += ["".join(t) for t in itertools.product(alpha, repeat=n)]
    for _ in range(3000):
        strs.append("".join(rng.choice(alpha + ["A=", "$A", "${A}", "$(", "='", "é"]) for _ in range(rng.randint(5, 12))))
    w0 = world_field(({"A": "v$1"}, {"x": "q"}), 7)
    l0 = [C.case("eit", s) for s in strs] + [C.case("once", w0, s) for s in strs]
    p0 = C.write_cases("c10_l0.txt", l0)
    m0 = C.run_model(ctx.model["C10"], p0)
    i0 = C.run_impl(ctx.bins["c10"], p0, len(l0), timeout=600)
    res.count("L0_env_in_token_expand_one_env", len(l0))
    bad = 0
    for cs, a, b in zip(l0, m0, i0):
        pid, b2 = split_pid(b)
        a2 = a.replace(MODEL_PID, pid) if pid else a
        if a2 != b2:
            bad += 1
            if bad <= 3:
                res.violate(kind="correspondence", layer="L0", input=cs, model=a2, impl=b2, failing_input=False,
                            note="env_in_token / expand_one_env of the implementation differ from the model (generated "
                                 "regex AST or first-match function no longer describes the code)")
    # ------------------------------------------------------------ L1
    words = []
    for k in range(1, maxk + 1):
        # thorough: length 4 over the quick segment kinds only (21^4 words x 10 environments is out of budget)
        for t in itertools.product(segs if k <= 3 else SEGS_Q, repeat=k):
            words.append("".join(t))
    for _ in range(6000 if ctx.thorough else 1500):
        words.append("".join(rng.choice(SEGS_T) for _ in range(rng.randint(4, 6))))
    words = sorted(set(words))
    cases = []  # (word, env index, tag)
    for w in words:
        for ei in range(len(ENVS)):
            if len(w) > 6 and rng.random() < (0.7 if ctx.thorough else 0.5):
                continue
            cases.append((w, ei, rng.choice(["", "", '"'])))
    for w in rng.sample(words, min(len(words), 400)):
        cases.append((w, rng.randrange(len(ENVS)), "'"))
    for w in CMDSUB_SHAPES:
        for ei in range(len(ENVS)):
            for tg in ("", '"'):
                cases.append((w, ei, tg))
    status = 3
    lines = [C.case("env", world_field(ENVS[ei], status), str(FUEL), X.toks_field([(tg, w)])) for w, ei, tg in cases]
    p1 = C.write_cases("c10_l1.txt", lines)
    m1 = C.run_model(ctx.model["C10"], p1)
    hang_ix = [i for i, a in enumerate(m1) if a == "HANG"]
    run_ix = [i for i, a in enumerate(m1) if a != "HANG"]
    p1b = C.write_cases("c10_l1_run.txt", [lines[i] for i in run_ix])
    # a short per-case watchdog: should the loop ever come back, thousands of words would hang
    i1 = dict(zip(run_ix, C.run_impl(ctx.bins["c10"], p1b, len(run_ix), timeout=900, env={"HX_CASE_TIMEOUT_MS": "700"})))
    # inputs on which the model diverges: a sample goes to the implementation, whose per-case watchdog
    # (hx::main_loop) answers HANG after HX_CASE_TIMEOUT_MS and C.run_impl restarts the shard
    nprobe = 320 if ctx.thorough else 48
    probe = rng.sample(hang_ix, min(nprobe, len(hang_ix)))
    from concurrent.futures import ThreadPoolExecutor
    if probe:
        pp = C.write_cases("c10_l1_probe.txt", [lines[i] for i in probe])
        probed = C.run_impl(ctx.bins["c10"], pp, len(probe), shards=min(C.NCPU, len(probe)), timeout=900,
                            env={"HX_CASE_TIMEOUT_MS": "1500"})
        for i, r in zip(probe, probed):
            i1[i] = r
    # reference via the extracted den_pieces for the words that are segment lists
    refs = {}
    dl, dix = [], []
    for i, (w, ei, tg) in enumerate(cases):
        exp, pieces, flags = ref_subst(w, ENVS[ei], status, MODEL_PID)
        refs[i] = (exp, pieces, flags)
        if pieces:
            dl.append(C.case("den", world_field(ENVS[ei], status), "\x1f".join(pieces)))
            dix.append(i)
    pd = C.write_cases("c10_den.txt", dl)
    md = dict(zip(dix, C.run_model(ctx.model["C10"], pd)))
    res.count("L1_expand_env", len(i1))
    res.extra["model_diverges_not_sent"] = len(hang_ix) - len(probe)
    nviol = 0

    def violate(**kw):
        nonlocal nviol
        nviol += 1
        if nviol <= 4:
            res.violate(**kw)

    accepted = 0
    for i, (w, ei, tg) in enumerate(cases):
        if i not in i1:
            continue
        a = m1[i]
        pid, b = split_pid(i1[i])
        if pid:
            a = a.replace(MODEL_PID, pid)
        exp, pieces, flags = refs[i]
        if pid:
            exp = exp.replace(MODEL_PID, pid)
        env_desc = {"env": ENVS[ei][0], "shell": ENVS[ei][1], "status": status}
        if tg == "'":
            exp = w
        got = "HANG" if b == "HANG" else tok_text(b)
        cls = classify(w, ENVS[ei], pieces, flags, tg) if tg != "'" else set()
        if i in md and tg != "'":
            # the extracted reference must agree with the oracle written here, and dom=T with "no known class"
            mm = re.match(r'^"([^"]*)" "([^"]*)" wf=(.) gate=(.) gateq=(.)$', md[i])
            if not mm or C.dec(mm.group(1)) != w or C.dec(mm.group(2)) != refs[i][0]:
                violate(kind="oracle-self-check", input=w, env=env_desc, model=md[i], python=refs[i][0],
                        failing_input=False, note="extracted den_pieces and the driver's one-pass reference disagree")
            elif mm.group(5 if tg == '"' else 4) == "T" and cls:
                violate(kind="oracle-self-check", input=w, env=env_desc, model=md[i], classes=sorted(cls),
                        failing_input=False, note="gate_ok / gate_ok_dq (Coq: sufficient for 'not exempt') holds of a word the driver calls exempt")
        if a != b:
            # model and implementation differ
            if got == exp:
                violate(kind="correspondence", layer="L1", input=w, tag=tg, env=env_desc, model=a, impl=b,
                        failing_input=False, note="implementation meets the oracle here but differs from the model")
            else:
                violate(kind="oracle", layer="L1", input=w, tag=tg, env=env_desc, expected=exp, observed=got, model=a,
                        failing_input=True, note="expand_env result differs from both the one-pass reference and the model")
            continue
        if a != lines[i].split("\t")[-1]:
            res.nontrivial("l1:%s:%d" % (w, ei))
        if got == exp:
            continue
        # implementation == model, both differ from the reference: must be inside a recorded class
        if not cls:
            violate(kind="oracle", layer="L1", input=w, tag=tg, env=env_desc, expected=exp, observed=got, model=a,
                    classes=sorted(cls), failing_input=True,
                    note="parameter expansion differs from the one-pass reference (no finding is recorded for C10)")
        else:
            accepted += 1
    res.extra["by_design_exemption_cases"] = accepted
    mid = len(cases) // 2
    res.sample({"layer": "L1", "input": cases[mid][0], "env": ENVS[cases[mid][1]], "model": m1[mid],
                "impl": i1.get(mid), "reference": refs[mid][0]})
    # ------------------------------------------------------------ L1l: whole token LISTS (index buffer + write-back)
    # every order of 2..3 tokens (sampled 4..5) over tags x texts: a quoted / skipped token in front of an expanded
    # one must not shift the write-back.  Oracle per token, positions preserved.
    ltexts = ["$A", "x", "p${AB}q", "$B$A", "x='$A'", "$A/$(x)", "~", "a{b,c}"]
    ltags = ["", '"', "'", "`", "\\"]
    kinds = [(tg, tx) for tg in ltags for tx in ltexts[:6]]
    lists = [list(t) for n in (2, 3) for t in itertools.product(kinds, repeat=n)
             if n == 2 or rng.random() < (0.5 if ctx.thorough else 0.12)]
    for _ in range(4000 if ctx.thorough else 800):
        lists.append([(rng.choice(ltags), rng.choice(ltexts[:6])) for _ in range(rng.randint(4, 5))])
    lenv = ({"A": "va"}, {"B": "$A", "AB": "w w"})
    lw = world_field(lenv, 0)
    ll = [C.case("env", lw, str(FUEL), X.toks_field(t)) for t in lists]
    # do_expansion on lists without backquote-tagged tokens (those would be run as commands)
    dlists = [[("", "echo")] + [(tg, tx) for tg, tx in t] for t in lists
              if all(tg != "`" and "$(" not in tx for tg, tx in t)]      # no token that would run a command
    dlists = [t for t in dlists if rng.random() < 0.5]
    ll += [C.case("dx", lw + "\x1eH\x1d/home/u", "8", X.toks_field(t)) for t in dlists]
    pl = C.write_cases("c10_l1l.txt", ll)
    ml = C.run_model(ctx.model["C10"], pl)
    il = C.run_impl(ctx.bins["c10"], pl, len(ll), timeout=900, env={"HX_CASE_TIMEOUT_MS": "1500"})
    res.count("L1l_token_lists", len(ll))

    def tok_oracle(tg, tx):
        if tg in ("'", "`") or classify(tx, lenv, None, set(), tg):
            return tx       # quoted, or one of the gate's deliberate exemptions (untagged x='$A')
        return ref_subst(tx, lenv, 0, MODEL_PID)[0]

    for k, (t, a, b) in enumerate(zip(lists + dlists, ml, il)):
        pid, b = split_pid(b)
        a = a.split(" calls=")[0]
        if pid:
            a = a.replace(MODEL_PID, pid)
        got = [(C.dec(x), C.dec(y)) for x, y in re.findall(r'\("([^"]*)","([^"]*)"\)', b or "")]
        want = [(tg, tok_oracle(tg, tx).replace(MODEL_PID, pid or "")) for tg, tx in t]
        # the backslash tag is C01's subject: there only model == implementation is demanded
        ok = len(got) == len(want) and all(g == w or w[0] == "\\" for g, w in zip(got, want))
        res.nontrivial("l1l:%r" % (t,))
        if not ok:
            violate(kind="oracle", layer="L1l", op="expand_env" if k < len(lists) else "do_expansion", input=repr(t),
                    env={"env": lenv[0], "shell": lenv[1]}, expected=repr(want), observed=repr(got), model=a,
                    failing_input=True,
                    note="in a token list every token must be expanded (or left alone) in its own place")
        elif a != b:
            violate(kind="correspondence", layer="L1l", input=repr(t), model=a, impl=b, failing_input=False,
                    note="expand_env / do_expansion on a token list differs from the model")
    # ------------------------------------------------------------ recorded findings, replayed at L1 and L2
    # the one recorded class, and the six classes repaired by e586def as regression cases (fixed:<name>):
    # for those the oracle must hold, nothing is tolerated
    replays = {
        "fixed:exemption_dq": ("x='$A'", ({}, {"A": "v"}), '"', None),
        "fixed:value_rescanned": ("$A", ({}, {"A": "x$B", "B": "y"}), "", None),
        "fixed:self_reference_hang": ("$A", ({}, {"A": "$A"}), "", None),
        "fixed:mutual_reference_hang": ("$A", ({"A": "$B"}, {"B": "$A"}), "", None),
        "fixed:newline_hang": ("a\n$A", ({}, {"A": "v"}), '"', None),
        "fixed:unterminated_brace_hang": ("${A", ({}, {"A": "v"}), "", None),
        "fixed:newline_drops_lines": ("a\n${A}", ({}, {"A": "v"}), '"', None),
        "fixed:malformed_reference": ("$9x$A", ({}, {"A": "v"}), "", None),
        "fixed:rescan_builds_reference": ("${$A}", ({}, {"A": "HOME"}), "", None),
    }
    for cls, (w, env, tg, recorded) in sorted(replays.items()):
        line = C.case("env", world_field(env, 0), str(FUEL), X.toks_field([(tg, w)]))
        pm = C.write_cases("c10_replay.txt", [line])
        mo = C.run_model(ctx.model["C10"], pm)[0]
        r = C.run_impl(ctx.bins["c10"], pm, 1, shards=1, env={"HX_CASE_TIMEOUT_MS": "2500"})[0]
        _, r = split_pid(r)
        got = "HANG" if r == "HANG" else tok_text(r)
        mgot = "HANG" if mo == "HANG" else tok_text(mo)
        exp, _, _ = ref_subst(w, env, 0, MODEL_PID)
        res.count("known_finding_replays", 1)
        if got == exp:
            if not cls.startswith("fixed:"):
                res.extra.setdefault("findings_no_longer_reproducing", []).append(cls)
            continue
        if cls not in known:
            violate(kind="oracle", layer="L1", input=w, env=env, expected=exp, observed=got, failing_input=True,
                    note="defect class %s is not recorded in known_findings.txt" % cls)
        elif got == recorded and mgot == recorded:
            res.known(cls, "class=%s input=%s what=%s" % (cls, known[cls].get("input", ""), known[cls].get("what", "")))
        else:
            violate(kind="oracle", layer="L1", input=w, env=env, expected=exp, observed=got, model=mgot, recorded=recorded,
                    failing_input=True, note="inside known class %s but neither the recorded behaviour nor a repair" % cls)
    # ------------------------------------------------------------ L2: the real binary
    hp = os.path.join(ctx.helpers, "hp")
    work = tempfile.mkdtemp(prefix="c10_")
    try:
        l2 = []
        pool = [c for i, c in enumerate(cases) if m1[i] != "HANG" and "\n" not in c[0] and "'" not in c[0]
                and '"' not in c[0] and "`" not in c[0] and "(" not in c[0] and c[2] != "'"
                and not any("\n" in v or "'" in v for v in list(ENVS[c[1]][0].values()) + list(ENVS[c[1]][1].values()))]
        for w, ei, tg in rng.sample(pool, min(len(pool), 160 if ctx.thorough else 40)):
            l2.append((w, ei, '"'))

        def one(job):
            ix, (w, ei, tg) = job
            d = os.path.join(work, "w%d" % ix)
            os.makedirs(d)
            env = {"PATH": "/usr/bin:/bin", "HOME": d, "XDG_CONFIG_HOME": d, "VERIF_TRACE": os.path.join(d, "trace")}
            env.update(ENVS[ei][0])
            assigns = "".join("%s='%s'; " % (k, v) for k, v in sorted(ENVS[ei][1].items()) if k not in ENVS[ei][0])
            line = '%s%s @o "%s"' % (assigns, hp, w)
            try:
                p = subprocess.run([ctx.cicada, "-c", line], cwd=d, env=env, stdin=subprocess.DEVNULL,
                                   stdout=subprocess.PIPE, stderr=subprocess.PIPE, timeout=10)
                out = p.stdout.decode("utf-8", "replace")
            except subprocess.TimeoutExpired:
                out = "HANG"
            return line, out

        with ThreadPoolExecutor(max_workers=C.NCPU) as ex:
            outs = list(ex.map(one, enumerate(l2)))
        res.count("L2_cicada_argv", len(l2))
        # ---------------------------------------------------- L2s: what $? reads INSIDE a line
        # segments `hp @o,x<N> <word with $?>` joined by ; && || : every executed segment must see the status of
        # the segment executed just before it (reference semantics = Model/StatusThread.v, C10_status_is_last_executed),
        # through -c, as a script, and sourced.
        forms = ["$?", "${?}", '"$?"', "s$?e", '"<${?}>"', "$?$?"]
        progs = []
        for k in (2, 3):
            for ops in itertools.product([";", "&&", "||"], repeat=k - 1):
                progs.append([((";" if j == 0 else ops[j - 1]), rng.choice([0, 1, 2, 3, 7, 42, 127]), rng.choice(forms)) for j in range(k)])
        for _ in range(60 if ctx.thorough else 18):
            k = rng.randint(4, 6)
            progs.append([((";" if j == 0 else rng.choice([";", "&&", "||"])), rng.choice([0, 0, 1, 2, 3, 7, 42, 127, 255]), rng.choice(forms))
                          for j in range(k)])

        def status_ref(prog):
            """(expected stdout, final status): prev = sh.previous_status (0 in a fresh shell)"""
            prev, out = 0, []
            for j, (op, n, form) in enumerate(prog):
                if j == 0 or op == ";" or (op == "&&" and prev == 0) or (op == "||" and prev != 0):
                    out.append(form.replace('"', "").replace("${?}", str(prev)).replace("$?", str(prev)))
                    prev = n
            return "".join(x + "\n" for x in out), prev

        def render_status(prog):
            return "".join(("" if j == 0 else " %s " % op) + "%s @o,x%d %s" % (hp, n, form) for j, (op, n, form) in enumerate(prog))

        jobs = [(pi, mode) for pi in range(len(progs)) for mode in ("c", "script", "source")]

        def one_s(job):
            pi, mode = job
            d = tempfile.mkdtemp(prefix="l2st_", dir=work)
            line = render_status(progs[pi])
            env = {"PATH": "/usr/bin:/bin", "HOME": d, "XDG_CONFIG_HOME": d}
            if mode == "c":
                cmd = [ctx.cicada, "-c", line]
            else:
                sp = os.path.join(d, "s.sh")
                open(sp, "w").write(line + "\n")
                cmd = [ctx.cicada, sp] if mode == "script" else [ctx.cicada, "-c", "source %s" % sp]
            try:
                pr = subprocess.run(cmd, cwd=d, env=env, stdin=subprocess.DEVNULL, stdout=subprocess.PIPE,
                                    stderr=subprocess.PIPE, timeout=15)
                return pr.stdout.decode("utf-8", "replace"), pr.returncode
            except subprocess.TimeoutExpired:
                return "HANG", None

        with ThreadPoolExecutor(max_workers=C.NCPU) as ex:
            outs_s = list(ex.map(one_s, jobs))
        res.count("L2s_status_inside_a_line", len(jobs))
        for (pi, mode), (out, rc) in zip(jobs, outs_s):
            want, fin = status_ref(progs[pi])
            res.nontrivial("l2s:%r" % (progs[pi],))
            if out != want or (mode == "c" and rc != fin):
                violate(kind="oracle", layer="L2s", entry=mode, input=render_status(progs[pi]).replace(hp, "hp"),
                        expected={"stdout": want, "status": fin}, observed={"stdout": out, "status": rc}, failing_input=True,
                        note="$? inside a line must be the status of the pipeline executed just before")
        # references next to a command substitution (the gate must let such words through)
        for arg, want in [("$A/$(/bin/echo sub)", "va/sub"), ('"$A and $(/bin/echo sub)"', "va and sub"),
                          ("${A}$(/bin/echo sub)", "vasub"), ("$(/bin/echo $A)", "va"), ("p$A`/bin/echo sub`", "pvasub"),
                          ('"$(/bin/echo sub)/$A"', "sub/va")]:
            d = tempfile.mkdtemp(prefix="l2s_", dir=work)
            try:
                pr = subprocess.run([ctx.cicada, "-c", "%s @o %s" % (hp, arg)], cwd=d, stdin=subprocess.DEVNULL,
                                    env={"PATH": "/usr/bin:/bin", "HOME": d, "XDG_CONFIG_HOME": d, "A": "va"},
                                    stdout=subprocess.PIPE, stderr=subprocess.PIPE, timeout=10)
                out = pr.stdout.decode("utf-8", "replace")
            except subprocess.TimeoutExpired:
                out = "HANG"
            res.count("L2_reference_next_to_substitution", 1)
            if out != want + "\n":
                violate(kind="oracle", layer="L2", input="A=va; hp @o " + arg, expected=want, observed=out, failing_input=True,
                        note="a reference next to a command substitution must be replaced, the adjacent text preserved")
        # several arguments with different quoting on one line (write-back positions)
        q2 = {"": "%s", '"': '"%s"', "'": "'%s'"}
        l2l = [t for t in lists if all(tg in q2 for tg, _ in t) and all(tx not in ("~", "x='$A'", "$A/$(x)") for _, tx in t)]
        l2l = rng.sample(l2l, min(len(l2l), 120 if ctx.thorough else 40))

        def one_l(t):
            d = tempfile.mkdtemp(prefix="l2l_", dir=work)
            env = {"PATH": "/usr/bin:/bin", "HOME": d, "XDG_CONFIG_HOME": d, "A": "va"}
            line = "B='$A'; AB='w w'; %s @o %s" % (hp, " ".join(q2[tg] % tx for tg, tx in t))
            try:
                p = subprocess.run([ctx.cicada, "-c", line], cwd=d, env=env, stdin=subprocess.DEVNULL,
                                   stdout=subprocess.PIPE, stderr=subprocess.PIPE, timeout=10)
                return line, p.stdout.decode("utf-8", "replace")
            except subprocess.TimeoutExpired:
                return line, "HANG"

        with ThreadPoolExecutor(max_workers=C.NCPU) as ex:
            outs_l = list(ex.map(one_l, l2l))
        res.count("L2_cicada_argv_lists", len(l2l))
        for t, (line, out) in zip(l2l, outs_l):
            want = "".join(tok_oracle(tg, tx) + "\n" for tg, tx in t)
            if out != want:
                violate(kind="oracle", layer="L2", input=line, expected=want, observed=out, failing_input=True,
                        note="argv of the helper: each argument must be expanded (or left alone) in its own place")
        for (w, ei, tg), (line, out) in zip(l2, outs):
            env2 = (ENVS[ei][0], {k: v for k, v in ENVS[ei][1].items() if k not in ENVS[ei][0]})
            exp, pieces, flags = ref_subst(w, env2, 0, "PID")
            if "$$" in w or "${$}" in w:
                continue
            got = out[:-1] if out.endswith("\n") else out
            if got != exp:
                if not classify(w, env2, pieces, flags, '"'):
                    violate(kind="oracle", layer="L2", input=line, expected=exp, observed=got, failing_input=True,
                            note="argv seen by the helper differs from the one-pass reference outside the recorded classes")
    finally:
        shutil.rmtree(work, ignore_errors=True)
