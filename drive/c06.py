"""C06 -- the job table tracks exactly the live jobs under every order of child events.

Layer L1 (in-process, deterministic): histories of {launch job, wait_fg_job with a list of
wait statuses, prompt-time poll with a list of pending wait statuses} are run through the real
Shell / jobc / signals code (wait statuses injected through the cfg(cicada_verif) queue) and
through the extracted model; after every operation both print the job table, the four parked
maps, the wait result and how many statuses were left unconsumed; the lines must be identical.
The property's oracle (ground truth = process states updated by the consumed statuses) is
evaluated on the IMPLEMENTATION's snapshots."""
import itertools, re
import common as C

EXTRACT = ["C06"]
BINS = ["c06"]
NEEDS_CICADA = False
ALLOWED_AXIOMS = []
PINNED = ["C06_full_statement", "C06_full", "C06_invariant", "C06_ids", "C06_remove_pid", "C06_regressions", "C06_nonvacuous"]
TRUSTED = [
    "Coq 8.16.1 kernel (coqc; coqchk in thorough); vm_compute only in refutation witnesses / Examples",
    "hand transcription of shell.rs job methods, jobc.rs, signals.rs maps, types.rs Job/WaitStatus and of "
    "(coq/theories/Model/Jobs.v), tied by differential execution (L1)",
    "HashMap / HashSet modelled as strictly sorted association lists; the id-scan loops' upper bound 65535 and the "
    "job command text are not modelled",
    "extraction: ExtrOcamlBasic only; OCaml 4.13.1; ocaml/c06/drv.ml",
    "harness/src/bin/c06.rs (injected wait statuses, sentinel status to observe a wait that would still block), "
    "drive/c06.py (history generator, ground truth, oracle)",
    "the cfg(cicada_verif) hooks in jobc::waitpidx / signals::handle_sigchld replace waitpid by a queue; the kernel "
    "is represented by the order of the injected statuses",
]
ASSUMES = [
    "process ids of one history are pairwise distinct and positive; the group id of a job is its first process id",
    "a foreground wait directly follows the launch of its job; statuses not consumed by an operation stay pending "
    "and are delivered first to the next one",
    "per process the kernel reports (stop cont)* then exit|kill",
]

SNAP = re.compile(r"jobs=\[(.*?)\] reap=\[(.*?)\] stop=\[(.*?)\] cont=\[(.*?)\] kill=\[(.*?)\] st=(-?\d+) blk=(\d) left=(\d+)$")


# ------------------------------------------------------------------ wire
def ev_txt(e):
    return "c%d" % e[1] if e[0] == "c" else "%s%d.%d" % (e[0], e[1], e[2])


def op_txt(o):
    if o[0] == "L":
        return "L:%d:%d:%s" % (o[1], 1 if o[2] else 0, ",".join(map(str, o[3])))
    if o[0] == "W":
        return "W:%d:%s:%s" % (o[1], ",".join(map(str, o[2])), ";".join(ev_txt(e) for e in o[3]))
    return "P:" + ";".join(ev_txt(e) for e in o[1])


def hist_case(h):
    return C.case("hist", *[op_txt(o) for o in h])


def parse_snap(s):
    m = SNAP.match(s)
    if not m:
        return None
    jobs = []
    if m.group(1):
        for j in m.group(1).split(";"):
            i, g, p, st, status, bg = j.split(":")
            jobs.append({"id": i, "gid": int(g), "pids": [int(x) for x in p[1:-1].split(",") if x],
                         "stopped": [int(x) for x in st[1:-1].split(",") if x], "status": status, "bg": bg})

    def ks(t):
        return [int(x.split("=")[0]) for x in t.split(",") if x]
    return {"jobs": jobs, "reap": ks(m.group(2)), "stop": ks(m.group(3)), "cont": ks(m.group(4)),
            "kill": ks(m.group(5)), "st": int(m.group(6)), "blk": int(m.group(7)), "left": int(m.group(8))}


# ------------------------------------------------------------------ ground truth and oracle
def ev_status(e):
    return e[2] if e[0] == "x" else e[2] + 128


def apply_truth(truth, e):
    k, p = e[0], e[1]
    truth[p] = {"x": "D", "k": "D", "s": "S", "c": "R"}[k]


def oracle(h, snaps):
    """Property C06 evaluated on the implementation's snapshots. Returns a list of
    (op index, kind, text); kind names the violated clause."""
    bad = []
    truth = {}
    job_of = {}
    pending = []
    prev_ids = []
    for ix, (o, s) in enumerate(zip(h, snaps)):
        if s is None:
            bad.append((ix, "crash", "no snapshot"))
            break
        ids = [j["id"] for j in s["jobs"]]
        if any("/" in i for i in ids) or len(set(ids)) != len(ids):
            bad.append((ix, "ids", "job ids not unique / key differs from id field: %r" % ids))
        if o[0] == "L":
            for p in o[3]:
                truth[p] = "R"
                job_of[p] = o[1]
            # the new job takes the smallest unused id (gid is fresh in generated histories)
            want = 1
            while str(want) in prev_ids:
                want += 1
            new = [j for j in s["jobs"] if j["gid"] == o[1]]
            if len(new) != 1 or new[0]["id"] != str(want):
                bad.append((ix, "ids", "new job should take id %d: %r" % (want, new)))
            consumed = []
        else:
            evs = o[3] if o[0] == "W" else o[1]
            allev = pending + list(evs)
            ncons = len(allev) - s["left"]
            if ncons < 0:
                bad.append((ix, "wait", "more statuses left than delivered"))
                break
            consumed, pending = allev[:ncons], allev[ncons:]
            if o[0] == "W":
                fg = o[2]
                # expected return point: first status after which every fg process is dead or stopped
                t2 = dict(truth)
                want_n, last_status = None, 0
                for k, e in enumerate(allev):
                    apply_truth(t2, e)
                    if e[1] == fg[-1] and e[0] != "c":
                        last_status = ev_status(e)
                    if all(t2[p] != "R" for p in fg):
                        want_n = k + 1
                        break
                if want_n is None:
                    if not s["blk"]:
                        bad.append((ix, "wait_early", "wait returned after %d statuses while a foreground process "
                                    "still runs" % ncons))
                else:
                    if s["blk"] or ncons > want_n:
                        bad.append((ix, "wait_late", "wait still blocks / consumed %d statuses, all foreground processes "
                                    "were dead or stopped after %d" % (ncons, want_n)))
                    elif ncons < want_n:
                        bad.append((ix, "wait_early", "wait returned after %d statuses while a foreground process "
                                    "still runs (expected %d)" % (ncons, want_n)))
                    elif s["st"] != last_status:
                        bad.append((ix, "wait_status", "wait yields %d, last process's status is %d" % (s["st"], last_status)))
            for e in consumed:
                apply_truth(truth, e)
        # table against ground truth, modulo the parked (consumed, not yet applied) statuses
        view = {}
        for j in s["jobs"]:
            for p in j["pids"]:
                view[p] = "S" if p in j["stopped"] else "R"
        parked_any = set(s["reap"]) | set(s["kill"]) | set(s["stop"]) | set(s["cont"])
        if o[0] == "P":
            # a poll applies everything that is parked: afterwards the table itself must be exact
            parked_any = set()
        for p, t in truth.items():
            v = view.get(p, "D")
            if v != "D" and o[0] != "P":
                if p in s["reap"] or p in s["kill"]:
                    v = "D"
                elif p in s["stop"] and p in s["cont"]:
                    v = "?"
                elif p in s["stop"]:
                    v = "S"
                elif p in s["cont"]:
                    v = "R"
            if v == "?":
                bad.append((ix, "parked_order", "pid %d has a stop and a continue parked at once; their order is lost" % p))
            elif v != t:
                if t == "D":
                    bad.append((ix, "zombie", "pid %d is dead but still a member of a job" % p))
                elif v == "D":
                    bad.append((ix, "lost", "pid %d is alive (%s) but in no job" % (p, t)))
                else:
                    bad.append((ix, "pstate", "pid %d is %s, the table (with parked statuses) says %s" % (p, t, v)))
        for j in s["jobs"]:
            if any(p in parked_any for p in j["pids"]):
                continue   # judged after the poll that applies the parked statuses
            live = [p for p in j["pids"] if truth.get(p, "D") != "D"]
            if not live:
                continue   # reported as zombie above
            allstopped = all(truth[p] == "S" for p in live)
            if allstopped and j["status"] != "Stopped":
                bad.append((ix, "status_running", "job %s shown %s, all its live processes are stopped" % (j["id"], j["status"])))
            if not allstopped and j["status"] != "Running":
                bad.append((ix, "status_stopped", "job %s shown %s, a live process of it is running" % (j["id"], j["status"])))
        prev_ids = ids
    return bad


# ------------------------------------------------------------------ history generation
POOL_SORTED = [[40, 50, 60], [10, 20, 30], [5, 7, 8]]          # ascending inside a job, jobs not monotone
POOL_MIXED = [[9, 3, 6], [50, 2, 20], [8, 4, 1]]               # not ascending inside a job


def configs(max_jobs, max_procs):
    out = []
    for nj in range(1, max_jobs + 1):
        for sizes in itertools.product(range(1, max_procs + 1), repeat=nj):
            for bgs in itertools.product([False, True], repeat=nj):
                for pool in (POOL_SORTED, POOL_MIXED):
                    if pool is POOL_MIXED and all(k == 1 for k in sizes):
                        continue
                    out.append([(pool[i][:sizes[i]], bgs[i]) for i in range(nj)])
    return out


def enumerate_histories(cfg, max_atoms, max_events, both_ends, out, cap):
    """DFS over atoms: launch next job of cfg / status of a live process / poll."""
    def emit(ops):
        out.append(list(ops))

    def rec(ops, truth, nl, wait, natoms, nev, buf):
        # ops: closed ops; buf: statuses that occurred since the last op that takes statuses
        if len(out) >= cap:
            return
        moves = 0
        if natoms < max_atoms:
            # statuses
            if nev < max_events:
                for p in sorted(truth):
                    t = truth[p]
                    if t == "D":
                        continue
                    if t == "S":
                        cand = [("c", p)]
                    else:
                        cand = [("s", p, 19), ("x", p, p % 5)]
                        if both_ends or p % 2 == 0:
                            cand.append(("k", p, 9))
                    for e in cand:
                        moves += 1
                        t2 = dict(truth)
                        apply_truth(t2, e)
                        if wait is not None:
                            w = ops[-1]
                            ops2 = ops[:-1] + [("W", w[1], w[2], w[3] + [e])]
                            done = all(t2[q] != "R" for q in w[2])
                            rec(ops2, t2, nl, None if done else wait, natoms + 1, nev + 1, [])
                        else:
                            rec(ops, t2, nl, None, natoms + 1, nev + 1, buf + [e])
            if wait is None:
                # poll
                moves += 1
                rec(ops + [("P", buf)], truth, nl, None, natoms + 1, nev, [])
                # launch
                if nl < len(cfg):
                    pids, bg = cfg[nl]
                    moves += 1
                    t2 = dict(truth)
                    for p in pids:
                        t2[p] = "R"
                    if bg:
                        rec(ops + [("L", pids[0], True, pids)], t2, nl + 1, None, natoms + 1, nev, buf)
                    else:
                        rec(ops + [("L", pids[0], False, pids), ("W", pids[0], pids, list(buf))], t2, nl + 1,
                            pids[0], natoms + 1, nev, [])
        if moves == 0 or wait is not None:
            # maximal history, or a wait that is still blocking: close it
            if ops and (buf == [] or wait is not None):
                emit(ops)
            elif ops:
                emit(ops + [("P", buf)])
    rec([], {}, 0, None, 0, 0, [])


def random_history(rng, max_events, njobs_max):
    pids_all = rng.sample(range(2, 400), 12)
    ops, truth, wait, buf, nev = [], {}, None, [], 0
    nl = 0
    njobs = rng.randint(1, njobs_max)
    sorted_jobs = rng.random() < 0.7
    single_stops = rng.random() < 0.6     # keep stop/continue to single-process jobs (the proved domain)
    multi = set()
    steps = 0
    while steps < 60:
        steps += 1
        live = [p for p in truth if truth[p] != "D"]
        choices = []
        if live and nev < max_events:
            choices += ["ev"] * 6
        if wait is None:
            if buf or not ops or ops[-1][0] != "P" or (len(ops) >= 2 and ops[-2][0] != "P"):
                choices += ["poll"]
            if nl < njobs and len(live) <= 6:
                choices += ["launch"] * 2
        if not choices:
            break
        c = rng.choice(choices)
        if c == "ev":
            p = rng.choice(live)
            if truth[p] == "S":
                e = ("c", p)
            else:
                k = rng.choice("sxxk") if not (single_stops and p in multi) else rng.choice("xxk")
                e = ("s", p, rng.choice([19, 20, 21, 22])) if k == "s" else ("x", p, rng.choice([0, 0, 1, 2, 127, 255])) \
                    if k == "x" else ("k", p, rng.choice([2, 3, 9, 15, 1]))
            apply_truth(truth, e)
            nev += 1
            if wait is not None:
                w = ops[-1]
                ops[-1] = ("W", w[1], w[2], w[3] + [e])
                if all(truth[q] != "R" for q in w[2]):
                    wait = None
            else:
                buf.append(e)
        elif c == "poll":
            ops.append(("P", buf))
            buf = []
        else:
            k = rng.randint(1, 3)
            pids = [pids_all.pop() for _ in range(k)]
            if sorted_jobs:
                pids.sort()
            if k >= 2:
                multi.update(pids)
            bg = rng.random() < 0.5
            nl += 1
            for p in pids:
                truth[p] = "R"
            ops.append(("L", pids[0], bg, pids))
            if not bg:
                ops.append(("W", pids[0], pids, buf))
                buf = []
                wait = pids[0]
    if buf:
        ops.append(("P", buf))
    if wait is None and rng.random() < 0.5:
        ops.append(("P", []))
    return ops


# ------------------------------------------------------------------ run
def run(ctx, res):
    rng = ctx.rng
    thorough = ctx.thorough
    # ---------------- L1: histories
    hs = []
    if ctx.replay:
        import json
        r = json.load(open(ctx.replay))
        if "history" in r:
            hs.append([tuple(o) for o in r["history"]])
    corpus = [
        # the witness of the repaired binary_search defect (fixed: bbf8fc1) as a regression case, then the recorded witnesses
        [("L", 9, False, [9, 3]), ("W", 9, [9, 3], [("x", 9, 0), ("x", 3, 0)]), ("P", [])],
        [("L", 3, False, [3, 9]), ("W", 3, [3, 9], [("s", 3, 19), ("c", 3), ("x", 3, 0), ("x", 9, 5)]), ("P", [])],
        [("L", 5, True, [5]), ("P", [("s", 5, 19), ("c", 5)]), ("P", []), ("P", [("x", 5, 0)])],
        [("L", 5, True, [5, 6]), ("P", [("s", 5, 19)]), ("P", [("x", 6, 0)]), ("P", [])],
        [("L", 5, True, [5, 6]), ("P", [("s", 5, 19), ("s", 6, 19)]), ("P", [("c", 5)]), ("P", [])],
    ]
    hs += corpus
    max_atoms = 7 if thorough else 6
    max_events = 11 if thorough else 9
    cap_per_cfg = 10000 if thorough else 2500
    cfgs = configs(3, 3)
    n_exh = 0
    for cfg in cfgs:
        out = []
        nproc = sum(len(p) for p, _ in cfg)
        # small configurations are enumerated completely, larger ones up to the cap
        enumerate_histories(cfg, max_atoms, max_events, thorough or nproc <= 2, out, cap_per_cfg)
        n_exh += len(out)
        hs += out
    nrand = 60000 if thorough else 8000
    for _ in range(nrand):
        hs.append(random_history(rng, max_events if rng.random() < 0.5 else 25, 3))
    # de-duplicate
    seen = set()
    uniq = []
    for h in hs:
        k = hist_case(h)
        if k not in seen:
            seen.add(k)
            uniq.append((h, k))
    hs = [h for h, _ in uniq]
    path = C.write_cases("c06_l1.txt", [k for _, k in uniq])
    mo = C.run_model(ctx.model["C06"], path, timeout=3000)
    io = C.run_impl(ctx.bins["c06"], path, len(hs), timeout=3000)
    res.count("L1_histories", len(hs))
    res.extra["histories_enumerated"] = n_exh
    res.extra["histories_random"] = nrand
    res.rule = ("L1: every history of at most %d atoms (launch / status / poll) for every "
                "configuration of <= 3 jobs x <= 3 processes x fg/bg with ascending and non-ascending pid vectors (capped at %d "
                "per configuration, depth first), plus %d random histories of up to %d or 25 statuses; per operation the job "
                "table, the four parked maps, the wait status, blocked flag and unconsumed count are compared; non-trivial = "
                "distinct final snapshot in which a job is present or a status is parked"
                % (max_atoms, cap_per_cfg, nrand, max_events))
    ncorr = 0
    nviol = 0
    stats = {"oracle_ok": 0, "with_stop_or_continue": 0, "multi_process_stop": 0}
    for h, a, b in zip(hs, mo, io):
        last = a.split(" | ")[-1]
        if "jobs=[]" not in last or "reap=[] stop=[] cont=[] kill=[]" not in last:
            res.nontrivial(last)
        snaps = [parse_snap(x) for x in b.split(" | ")] if b not in ("PANIC", "CRASH", "NOT-RUN", "HANG", None) else []
        while len(snaps) < len(h):
            snaps.append(None)
        bad = oracle(h, snaps)
        hist_txt = "\t".join(op_txt(o) for o in h)
        if "s" in hist_txt.replace("\t", " ").split(":", 1)[-1] and any(e[0] in "sc" for o in h if o[0] != "L" for e in (o[3] if o[0] == "W" else o[1])):
            stats["with_stop_or_continue"] += 1
        if bad:
            nviol += 1
            if nviol <= 3:
                res.violate(kind="oracle", layer="L1", input=hist_txt, history=[list(o) for o in h],
                            expected="C06 oracle holds after every operation", observed="; ".join(
                                "op %d: %s: %s" % x for x in bad[:4]), model=a, impl=b, failing_input=True,
                            note="job table / wait result of the implementation contradicts the ground truth")
        elif a != b:
            ncorr += 1
            if ncorr <= 3:
                res.violate(kind="correspondence", layer="L1", input=hist_txt, history=[list(o) for o in h], model=a,
                            impl=b, failing_input=False, note="model and implementation print different snapshots")
        else:
            stats["oracle_ok"] += 1
    res.extra["l1_stats"] = stats
    for ix in (0, 2, len(hs) // 2):
        res.sample({"layer": "L1", "input": op_txt(hs[ix][0]) + " ...", "history": [op_txt(o) for o in hs[ix]],
                    "model": mo[ix], "impl": io[ix], "oracle": [list(x) for x in oracle(hs[ix], [parse_snap(x) for x in (io[ix] or "").split(" | ")])]})
