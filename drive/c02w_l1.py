"""C02, layer L1 for jobc::wait_fg_job: the extracted model (Model/WaitFg.v)
against the real function driven through the wait-status injection hook
(harness/src/bin/c02w.rs), plus the oracle of theorem wait_fg_job_spec on the
implementation's output for every in-scope schedule.

Case line:  wait<TAB>pids<TAB>events   pids = "p,p,..."  events = "pid:kind:val,..."
Output   :  status=<int> consumed=<int> left=<int>
"""
import itertools
import common as C

EXIT_CODES = [0, 1, 2, 255]
SIGNALS = [9, 13, 15]
TERMINALS = [(0, c) for c in EXIT_CODES] + [(1, s) for s in SIGNALS]   # (kind, val)
BG_PIDS = [200, 201, 202, 350]

# pid lists in stage order: ascending ones and ones whose numeric order
# differs from the stage order (the status must follow the STAGE order).
ASCENDING = {1: [101], 2: [101, 102], 3: [101, 102, 103], 4: [101, 102, 103, 104]}
UNSORTED = {1: [5], 2: [7, 2], 3: [9, 3, 7], 4: [40, 10, 30, 20]}


def ev(pid, kind, val):
    return "%d:%d:%d" % (pid, kind, val)


def nonfg_event(rng):
    """Any non-error event of a child that is not in the fg job (constructor-
    canonical: continued has val 0, others is 0:9:9)."""
    k = rng.choice(["exited", "signaled", "stopped", "continued", "others", "exited"])
    pid = rng.choice(BG_PIDS)
    if k == "exited":
        if rng.random() < 0.05:
            return (0, 0, rng.choice(EXIT_CODES))      # WaitStatus::empty()-like, pid 0
        return (pid, 0, rng.choice(EXIT_CODES))
    if k == "signaled":
        return (pid, 1, rng.choice(SIGNALS))
    if k == "stopped":
        return (pid, 2, rng.choice([19, 20]))
    if k == "continued":
        return (pid, 3, 0)
    return (0, 9, 9)


def any_event(rng, pids):
    pool = list(pids) + BG_PIDS + [0]
    kind = rng.choice([0, 0, 1, 1, 2, 3, 9, 255])
    if kind == 9:
        return (0, 9, 9)
    if kind == 255:
        return (0, 255, rng.choice([10, 4]))
    pid = rng.choice(pool)
    if kind == 0:
        return (pid, 0, rng.choice(EXIT_CODES))
    if kind == 1:
        return (pid, 1, rng.choice(SIGNALS))
    if kind == 2:
        return (pid, 2, rng.choice([19, 20]))
    return (pid, 3, 0)


def schedule(rng, pids, order, terms):
    """order: tuple of indices into pids (termination order); terms[i] =
    (kind, val) of pids[i]. Returns (events of the schedule, rest)."""
    fg = [(pids[i], terms[i][0], terms[i][1]) for i in order]
    evs = list(fg)
    for _ in range(rng.randint(0, 3)):
        # any position except after the last fg event
        evs.insert(rng.randint(0, len(evs) - 1), nonfg_event(rng))
    rest = [any_event(rng, pids) for _ in range(rng.choice([0, 0, 1, 2]))]
    return evs, rest


def mk_case(pids, events):
    return C.case("wait", ",".join(str(p) for p in pids), ",".join(ev(*e) for e in events))


def in_scope_cases(rng, thorough):
    """(case line, meta) with meta = dict(pids, order, terms, nsched, nrest)."""
    out = []
    reps = 55 if thorough else 5
    full_upto = 3 if thorough else 2
    for fam in (ASCENDING, UNSORTED):
        for n in range(1, 5):
            pids = fam[n]
            perms = list(itertools.permutations(range(n)))
            # every termination order x every terminal event of the LAST stage,
            # the other stages' terminal events random, `reps` interleavings each
            for order in perms:
                for last_term in TERMINALS:
                    for _ in range(reps):
                        terms = [rng.choice(TERMINALS) for _ in range(n)]
                        terms[n - 1] = last_term
                        out.append((pids, order, terms))
            # every termination order x every combination of terminal events
            if n <= full_upto:
                for order in perms:
                    for terms in itertools.product(TERMINALS, repeat=n):
                        out.append((pids, order, list(terms)))
    cases = []
    for pids, order, terms in out:
        evs, rest = schedule(rng, pids, order, terms)
        meta = {"pids": pids, "order": order, "terms": terms, "nsched": len(evs), "nrest": len(rest)}
        cases.append((mk_case(pids, evs + rest), meta))
    return cases


def out_of_scope_cases(rng, thorough):
    cases = []
    n = 8000 if thorough else 700
    for _ in range(n):
        r = rng.random()
        if r < 0.05:
            pids = []
        else:
            k = rng.randint(1, 4)
            pool = [101, 102, 103, 104, 9, 3, 7]
            if rng.random() < 0.15:
                pids = [rng.choice(pool) for _ in range(k)]          # duplicates possible
            else:
                pids = rng.sample(pool, k)
            if rng.random() < 0.03:
                pids[rng.randrange(len(pids))] = 0                   # pid 0 (matches others/error events)
        evs = [any_event(rng, pids) for _ in range(rng.randint(0, 9))]
        cases.append((mk_case(pids, evs), None))
    return cases


def parse(line):
    try:
        d = dict(x.split("=") for x in line.split(" "))
        return int(d["status"]), int(d["consumed"]), int(d["left"])
    except Exception:
        return None


def run_l1(ctx, res):
    rng = ctx.rng
    allc = in_scope_cases(rng, ctx.thorough) + out_of_scope_cases(rng, ctx.thorough)
    lines = [c for c, _ in allc]
    path = C.write_cases("c02w_l1.txt", lines)
    mo = C.run_model(ctx.model["C02W"], path)
    io = C.run_impl(ctx.bins["c02w"], path, len(lines))
    if len(mo) != len(lines):
        raise C.Infra("c02w model driver printed %d lines for %d cases" % (len(mo), len(lines)))
    res.count("L1_wait_fg_job", len(lines))
    n_corr = n_orc = n_scope = n_nonlast = 0
    sampled = 0
    for (line, meta), a, b in zip(allc, mo, io):
        if a != b:
            n_corr += 1
            if n_corr <= 3:
                res.violate(kind="correspondence", layer="L1", function="wait_fg_job", input=line,
                            model=a, impl=b, failing_input=False,
                            note="extracted wait_fg_job and jobc::wait_fg_job (injected wait statuses) disagree")
        if meta is None:
            continue
        n_scope += 1
        pids, order, terms = meta["pids"], meta["order"], meta["terms"]
        kind, val = terms[len(pids) - 1]
        exp = (val if kind == 0 else 128 + val, meta["nsched"], meta["nrest"])
        got = parse(b) if b is not None else None
        if got != exp:
            n_orc += 1
            if n_orc <= 3:
                res.violate(kind="oracle", layer="L1", function="wait_fg_job", input=line,
                            expected="status=%d consumed=%d left=%d" % exp, observed=b, failing_input=True,
                            note="every fg pid terminates exactly once; the status must be the one of the last "
                                 "stage (pid %d) whatever the termination order, and exactly the schedule is consumed"
                                 % pids[-1])
        if len(pids) > 1 and order[0] == len(pids) - 1 and meta["terms"][-1][0] == 1:
            # the LAST stage is killed by a signal and is the FIRST to terminate: the wait must go on until every
            # other member is settled, the status is 128 + that signal
            res.extra["wait_last_signaled_first"] = res.extra.get("wait_last_signaled_first", 0) + 1
        if order[-1] != len(pids) - 1:
            n_nonlast += 1
            res.nontrivial("wait:" + a + " n=%d order=%s" % (len(pids), ",".join(str(i) for i in order)))
            if sampled < 2 and len(pids) >= 3 and got == exp and exp[0] != 0:
                sampled += 1
                res.sample({"layer": "L1", "function": "wait_fg_job", "input": line, "model": a, "impl": b,
                            "termination_order": [pids[i] for i in order], "last_stage": pids[-1]})
    res.extra["c02w_l1"] = {"cases": len(lines), "in_scope": n_scope, "last_stage_not_last": n_nonlast,
                            "out_of_scope": len(lines) - n_scope, "correspondence_mismatches": n_corr,
                            "oracle_failures": n_orc}
