"""C16 -- a line means the same at the prompt, with -c, in a script, function or source.
L1a  the script path's pass (scripting::expand_args) vs the extracted model and the LAW itself on the
     implementation's own output: for every complete line without positional parameters the list segments and
     their tokens after the pass equal those of the line as written (no exception classes since 032e44d);
     every short string over the tokenizer alphabet. The re-rendering (tokens_to_line o parse_line), still
     used for lines with positional parameters, is compared with the model on the same strings.
L1b  same on the C01 / C03 line generators plus redirection, $VAR, brace, substitution words; the pass with
     script arguments present must not touch a positional-free line; lines WITH positional parameters
     are compared with the model on the same observable.
L1c  is_args_in_token, expand_args_for_single_token, wrap_sep_string, tokens_to_line on short inputs.
L2   real binary: each line through -c, script file, function body, sourced file (and a sample through the
     interactive prompt on a pty); argv seen by the helper, stdout, files, status compared pairwise with -c.
     Script texts with continuation lines: cicada on the text vs cicada on the model's folding of it
     (run_script's fold is inline code, no hook: process level only). Known class trailing-backslash:
     three-way against the model's fold.
Out of the domain at the prompt: lines containing `!!` (history expansion exists only there) and lines
whose helper reads stdin (a terminal there)."""
import itertools, os, re, shutil, subprocess, tempfile, time
from concurrent.futures import ThreadPoolExecutor
import common as C
import c01 as G1
import c03 as G3

EXTRACT = ["C16"]
BINS = ["c16"]
NEEDS_CICADA = True
ALLOWED_AXIOMS = []
PINNED = ["C16_full", "C16_full_any_pass", "C16_positional_pass", "C16_partial", "C16_partial_plan", "C16_inverse",
          "C16_spaced", "C16_quoted", "C16_regression_esc_op", "C16_regression_esc_blank", "C16_regression_esc_hash",
          "C16_regression_glue", "C16_regression_orglue", "C16_regression_paren", "C16_fold_full", "C16_fold_refuted",
          "C16_fold_fixed_full", "C16_lines_reach_parser", "C16_body_lines_reach_function", "C16_quote_hash_lines"]
TRUSTED = [
    "Coq 8.16.1 kernel; vm_compute only in witnesses / examples",
    "hand transcription of expand_args, expand_args_in_tokens, expand_args_for_single_token (first-match function for its "
    "capture regex), is_args_in_token, tokens_to_line, wrap_sep_string (Model/Rerender.v), parse_line (Model/Tokenizer.v), "
    "line_to_cmds (Model/Cmds.v); tied by differential execution on every run",
    "extraction ExtrOcamlBasic; ocaml/c16/drv.ml; harness/src/bin/c16.rs; helpers/hp.c; drive/c16.py",
    "run_script's continuation folding (Model/Rerender.v fold_lines: a scanner for its two replace_all calls) is tied "
    "at process level only (inline code, no hook)",
]
ASSUMES = [
    "everything after tokenizing is a function of (list segments, their tokens): the law is judged on those at L1 and on "
    "argv / stdout / files / status of helper programs at L2",
    "the interactive path adds only trim_multiline_prompts (identity without newline) and extend_bangbang (identity "
    "without a double bang / on the first line); sampled through a pty",
    "function definitions, `source` and the block grammar deliver each physical line to expand_args unchanged "
    "(trimmed): validated at L2, modelled by C14/C15",
]

TOKALPHA = G1.TOKALPHA
HXENV = {"HX_CASE_TIMEOUT_MS": "30000"}      # the cases take microseconds; a loaded machine must not look like a hang
REGRESSION = ["echo a\\;b", "echo a\\ b", "echo a\\#b", "echo 'a';echo b", "true||echo b", "(a;b)", "echo a\\|b", "echo \\'", "a\\\\"]
LAW = re.compile(r"c=(\d) p=(\d) (?:k=(\d{4}) )?D=(.*) S=(.*)$")


def gen_domain_lines(ctx, hp="prog"):
    """lines of the property's domain (C01 / C03 generators + redirections, variables, braces, substitutions)"""
    rng = ctx.rng
    lines = []
    cases = G1.gen_cases(ctx)
    rng.shuffle(cases)
    for args, pos in cases[:(60000 if ctx.thorough else 12000)]:
        l = hp + " @" + "".join(" " + G1.render_arg(s, t) for s, t in args)
        if pos == "pipe":
            l += " | " + hp + " @r"
        elif pos == "list":
            l += " && " + hp + " @ next"
        lines.append(l)
    progs = G3.gen_programs(ctx)
    for p in progs:
        lines.append(G3.render(p, hp, rng, False))
        lines.append(G3.render(p, hp, rng, True))
    words = ["a", "'a b'", '"a b"', '"a\\"b"', '"a\\\\b"', '"$V"', "$V", "${V}", "'$V'", "x$V.y", "a{1,2}b", "{1..3}",
             "'{1,2}'", "> o1", ">o1", ">> o1", "2> o2", "2>&1", "1>&2", "< in", "<<< 'h s'", "$(" + hp + " @o q)",
             "`" + hp + " @o q`", '"$(' + hp + ' @o q r)"', "~", "*.t", "'*.t'", "A=1", "a=b", "-x", "--", "é日", "a;b", "'a;b'",
             "a\\ b", "\\;", "a\\|b", "\\#", "#c", "'#'", "a#b", "\\$V", "1", "+", "2>&1;", "x='a b'", "x=\"a b\"", "'a'b", "a'b'",
             '"a"\'b\'', "'a';", "\"it's #1\"", "'say \"hi #2'", "\"a #b\"", "''", '""', "|", "||", "&&", ";", "&", "!", "%", "^"]
    for _ in range(20000 if ctx.thorough else 4000):
        n = rng.randint(0, 6)
        ws = [rng.choice(words) for _ in range(n)]
        sep = [" " * rng.choice([1, 1, 1, 2, 3]) for _ in range(n + 1)]
        l = hp + " @"
        for w, s in zip(ws, sep):
            l += s + w
        if rng.random() < 0.2:
            l += rng.choice(["", " ", "  "])
        if rng.random() < 0.3:
            l += rng.choice([" ; ", ";", " && ", "&&", " || ", "||", " | ", "|"]) + hp + " @r " + rng.choice(words)
        lines.append(l)
    return lines


def check_law(res, layer, lines, mo, io, st, V):
    """model == implementation on `law` cases, and the property's oracle on the implementation's output"""
    for s, a, b in zip(lines, mo, io):
        if a != b:
            mb = LAW.match(b)
            failing = bool(mb and mb.group(1) == "1" and mb.group(2) == "0" and mb.group(4) != mb.group(5))
            V("oracle" if failing else "correspondence", layer, s, a, b, failing,
              "script path changes the meaning of a line without positional parameters" if failing
              else "expand_args / parse_line / line_to_cmds differ from the model")
            continue
        mb = LAW.match(b)
        if mb is None:
            continue                      # PANIC on both sides ($@ with an empty argument slice)
        comp, posi, _, di, si = mb.groups()
        if posi == "1" or comp == "0":
            continue                      # outside the property's domain: model agreement only
        if si != di:
            V("oracle", layer, s, "segments/tokens unchanged: " + di, si, True,
              "script path changes the meaning of a line without positional parameters")
        else:
            st["law_holds"] = st.get("law_holds", 0) + 1


def run(ctx, res):
    rng = ctx.rng
    known = {k["class"]: k for k in C.known_findings("C16")}
    model, impl = ctx.model["C16"], ctx.bins["c16"]
    nviol = {True: 0, False: 0}
    st = {}

    def V(kind, layer, inp, exp, obs, failing, note):
        # at most 3 replays with a concrete failing input and 2 without
        nviol[failing] += 1
        if nviol[failing] <= (3 if failing else 2):
            res.violate(kind=kind, layer=layer, input=inp, expected=exp, observed=obs, failing_input=failing, note=note)

    maxlen = 5 if ctx.thorough else 4
    res.rule = ("L1a: law + correspondence of scripting::expand_args, and the re-rendering tokens_to_line o parse_line, on every "
                "string up to length %d over %r; L1b: the C01 / C03 generators and word-soup lines (redirections, variables, "
                "braces, substitutions, operators, 1-3 blanks), with and without script arguments, and lines with positional "
                "parameters; L1c: is_args_in_token, expand_args_for_single_token, wrap_sep_string, tokens_to_line on short "
                "inputs; L2: lines through -c / script / function / source (+ pty sample), argv+stdout+files+status pairwise "
                "against -c; script texts with continuation lines against the model's fold. non-trivial = distinct complete "
                "positional-free line whose bare re-rendering would have changed its segments/tokens (L1), distinct line (L2)"
                % (maxlen, TOKALPHA))
    work = tempfile.mkdtemp(prefix="c16_")
    try:
        # ------------------------------------------------------------ the former witnesses: regression cases that must pass
        p = C.write_cases("c16_wit.txt", [C.case("law", s) for s in REGRESSION])
        check_law(res, "L1-regression", REGRESSION, C.run_model(model, p), C.run_impl(impl, p, len(REGRESSION), env=HXENV), st, V)
        res.count("L1_regression_witnesses", len(REGRESSION))
        # ------------------------------------------------------------ L1a exhaustive short lines
        toks = []
        for n in range(0, maxlen + 1):
            for t in itertools.product(TOKALPHA, repeat=n):
                toks.append("".join(t))
        for _ in range(40000 if ctx.thorough else 6000):
            toks.append("".join(rng.choice(TOKALPHA + ["a", "a", " ", " ", "\t", "x=", "$(", "2>&1", "*", "||", "&&", "$1", "${2}", "$@"])
                                for _ in range(rng.randint(maxlen + 1, 24))))
        p = C.write_cases("c16_law.txt", [C.case("law", s) for s in toks])
        mo, io = C.run_model(model, p), C.run_impl(impl, p, len(toks), env=HXENV)
        res.count("L1a_law_short_lines", len(toks))
        check_law(res, "L1a", toks, mo, io, st, V)
        res.sample({"layer": "L1a", "input": toks[4242], "model": mo[4242], "impl": io[4242]})
        # the re-rendering itself (what lines with positional parameters still go through)
        tt = [s for s in toks if len(s) != 5]          # (the length-5 block is left out in thorough runs)
        pr = C.write_cases("c16_rt.txt", [C.case("rt", s) for s in tt])
        ma, ia = C.run_model(model, pr), C.run_impl(impl, pr, len(tt), env=HXENV)
        res.count("L1a_rerender", len(tt))
        for s, a, b in zip(tt, ma, ia):
            if a != b:
                V("correspondence", "L1a", s, a, b, False, "tokens_to_line o parse_line differs from the model (Model/Rerender.v rerender)")
            elif " R=" in a and a[2:a.index(" R=")] != a[a.index(" R=") + 3:a.index(" L=")]:
                res.nontrivial(s) if len(s) <= 4 else None       # a line the bare round trip would change
        # ------------------------------------------------------------ L1b domain lines
        lines = gen_domain_lines(ctx)
        p = C.write_cases("c16_law2.txt", [C.case("law", s) for s in lines])
        mo, io = C.run_model(model, p), C.run_impl(impl, p, len(lines), env=HXENV)
        res.count("L1b_law_domain_lines", len(lines))
        check_law(res, "L1b", lines, mo, io, st, V)
        for s, a in zip(lines, mo):
            m = LAW.match(a)
            if m and m.group(1) == "1" and m.group(2) == "0":
                res.nontrivial(s)
        res.sample({"layer": "L1b", "input": lines[99], "model": mo[99], "impl": io[99]})
        # script arguments present: a positional-free line must come out the same
        sub = lines[::7]
        p2 = C.write_cases("c16_law3.txt", [C.case("law", s, "S", "A", "B C") for s in sub])
        io2 = C.run_impl(impl, p2, len(sub), env=HXENV)
        res.count("L1b_with_script_args", len(sub))
        for s, b0, b1 in zip(sub, io[::7], io2):
            m = LAW.match(b0)
            if m and m.group(2) == "0" and b0 != b1:
                V("oracle", "L1b", s, b0, b1, True, "a line without positional parameters depends on the script's arguments")
        # positional parameters: text-for-text against the model
        pw = ["$1", "${1}", "$2", "$@", "${@}", "\"$1\"", "'$1'", "`$1`", "$1$2", "a$1b", "$10", "$0", "$9", "${1", "$1}", "$12345678901234567890123",
              "$ 1", "$a1", "\\$1", "$$1", "$@@", "$1@", "${}", "${a}", "x$", "\"a $2 b\"", "\"$@\"", "$1\n$2"]
        pl = []
        for _ in range(6000 if ctx.thorough else 1500):
            n = rng.randint(1, 4)
            pl.append("echo " + " ".join(rng.choice(pw + ["a", "'q'"]) for _ in range(n)))
        argsets = [[], ["s"], ["s", "A"], ["s", "A", "B b"], ["s", "$2", "'", "x y"]]
        pc = [C.case("law", l, *rng.choice(argsets)) for l in pl]
        p3 = C.write_cases("c16_xa.txt", pc)
        mo3, io3 = C.run_model(model, p3), C.run_impl(impl, p3, len(pc), env=HXENV)
        res.count("L1b_positional", len(pc))
        for s, a, b in zip(pc, mo3, io3):
            if a != b:
                V("correspondence", "L1b", s, a, b, False, "expand_args with positional parameters differs from the model")
        # ------------------------------------------------------------ L1c small functions
        sc = []
        A1 = ["$", "{", "}", "@", "0", "1", "a", "\n"]
        for n in range(0, (6 if ctx.thorough else 5) + 1):
            for t in itertools.product(A1, repeat=n):
                w = "".join(t)
                sc.append(C.case("isargs", w))
                if n <= 4:
                    sc.append(C.case("xone", w, "s", "A", "B"))
        A2 = ["a", " ", "'", '"', "`", "\\"]
        for n in range(0, 5):
            for t in itertools.product(A2, repeat=n):
                w = "".join(t)
                for tg in ["", "'", '"', "`", "\\"]:
                    sc.append(C.case("wrap", tg, w))
        for _ in range(3000 if ctx.thorough else 800):
            f = []
            for _ in range(rng.randint(0, 4)):
                f += [rng.choice(["", "", "'", '"', "`", "\\"]), "".join(rng.choice(A2 + ["|", ";"]) for _ in range(rng.randint(0, 4)))]
            sc.append(C.case("t2l", *f) if f else "t2l\t")
        p4 = C.write_cases("c16_small.txt", sc)
        mo4, io4 = C.run_model(model, p4), C.run_impl(impl, p4, len(sc), env=HXENV)
        res.count("L1c_small_functions", len(sc))
        for s, a, b in zip(sc, mo4, io4):
            if a != b:
                V("correspondence", "L1c", s, a, b, False, "helper function differs from the model")
        res.extra["l1_counts"] = {k: v for k, v in st.items()}
        # ------------------------------------------------------------ L2 entry points
        layer2(ctx, res, known, V, work, lines)
    finally:
        shutil.rmtree(work, ignore_errors=True)


# ---------------------------------------------------------------------- L2
def observe(ctx, d, cmd, stdin=None):
    tr = os.path.join(d, "trace")
    home = os.path.join(os.path.dirname(d), "home")      # the same for every run: ~ must expand alike
    os.makedirs(home, exist_ok=True)
    env = {"VERIF_TRACE": tr, "HOME": home, "XDG_CONFIG_HOME": home, "PATH": "/usr/bin:/bin", "V": "v w", "LANG": "C.UTF-8"}
    try:
        pr = subprocess.run(cmd, cwd=d, env=env, stdin=subprocess.DEVNULL, stdout=subprocess.PIPE, stderr=subprocess.PIPE, timeout=20)
        rc, out = pr.returncode, pr.stdout.decode("utf-8", "replace")
    except subprocess.TimeoutExpired:
        rc, out = "TIMEOUT", ""
    return collect(d, rc, out)


def collect(d, rc, out):
    recs = [r["argv"] for r in G3.read_trace(os.path.join(d, "trace"))]
    files = {}
    for n in sorted(os.listdir(d)):
        if n in ("trace", "s.sh", "inc.sh", "in") or n.startswith("."):
            continue
        fp = os.path.join(d, n)
        try:
            files[n] = open(fp, "rb").read().decode("utf-8", "replace")[:200] if os.path.isfile(fp) else "<dir>"
        except OSError:
            files[n] = "?"
    return {"status": rc, "argv": recs, "stdout": out, "files": files}


def fresh(work, tag):
    d = tempfile.mkdtemp(prefix=tag, dir=work)
    open(os.path.join(d, "in"), "w").write("input\n")
    open(os.path.join(d, "k.t"), "w").write("")
    return d


def entry_text(line, entry):
    """the text of the file run_script reads (and folds) for this entry point"""
    if entry == "function":
        return "function f() {\n" + line + "\n}\nf\n"
    return line + "\n"


def run_entry(ctx, work, line, entry, text=None):
    d = fresh(work, entry)
    sd = tempfile.mkdtemp(prefix="scr", dir=work)     # script files live OUTSIDE the cwd: a glob must list the same files
    try:
        if entry == "c":
            return observe(ctx, d, [ctx.cicada, "-c", line])
        text = entry_text(line, entry) if text is None else text
        sp = os.path.join(sd, "s.sh")
        if entry == "source":
            open(os.path.join(sd, "inc.sh"), "w").write(text)
            open(sp, "w").write("source " + os.path.join(sd, "inc.sh") + "\n")
        else:
            open(sp, "w").write(text)
        return observe(ctx, d, [ctx.cicada, sp])
    finally:
        shutil.rmtree(d, ignore_errors=True)
        shutil.rmtree(sd, ignore_errors=True)


def run_pty(ctx, work, line):
    import pty, select
    d = fresh(work, "pty")
    home = os.path.join(work, "home")
    os.makedirs(home, exist_ok=True)
    env = {"VERIF_TRACE": os.path.join(d, "trace"), "HOME": home, "XDG_CONFIG_HOME": home, "PATH": "/usr/bin:/bin", "V": "v w",
           "LANG": "C.UTF-8", "TERM": "xterm"}
    pid, fd = pty.fork()
    if pid == 0:
        import fcntl, struct, termios
        fcntl.ioctl(0, termios.TIOCSWINSZ, struct.pack("HHHH", 24, 200, 0, 0))
        os.chdir(d)
        os.execve(ctx.cicada, ["cicada"], env)

    def rd(t):
        end = time.time() + t
        while time.time() < end:
            r, _, _ = select.select([fd], [], [], 0.05)
            if r:
                try:
                    b = os.read(fd, 4096)
                except OSError:
                    break
                if not b:
                    break
                end = max(end, time.time() + 0.15)
    rd(1.0)
    os.write(fd, line.encode() + b"\r")
    rd(0.8)
    os.write(fd, (os.path.join(ctx.helpers, "hp") + " @ STATUS $?\r").encode())
    for _ in range(40):           # wait until the status probe has been recorded
        rd(0.15)
        try:
            if "STATUS" in open(os.path.join(d, "trace")).read():
                break
        except OSError:
            pass
    os.write(fd, b" exit\r")
    rd(0.3)
    try:
        os.close(fd)
    except OSError:
        pass
    for _ in range(60):
        try:
            q, _ = os.waitpid(pid, os.WNOHANG)
        except ChildProcessError:
            break
        if q:
            break
        time.sleep(0.05)
    else:
        try:
            os.kill(pid, 9)
            os.waitpid(pid, 0)
        except OSError:
            pass
    o = collect(d, None, "")
    shutil.rmtree(d, ignore_errors=True)
    st = None
    if o["argv"] and o["argv"][-1][1:3] == ["@", "STATUS"]:
        st = int(o["argv"][-1][3])
        o["argv"] = o["argv"][:-1]
    o["status"] = st
    o["stdout"] = None
    return o


def same(a, b, with_stdout=True, with_status=True):
    # the stages of a pipeline run concurrently: the order of their trace records is a race, so records are compared
    # as a multiset (the order of list segments is C03's subject)
    return (sorted(a["argv"]) == sorted(b["argv"]) and a["files"] == b["files"] and (not with_stdout or a["stdout"] == b["stdout"])
            and (not with_status or a["status"] == b["status"]))


def model_strs(model, op, texts, name):
    p = C.write_cases(name, [C.case(op, t) for t in texts])
    return [C.dec(x[1:-1]) if x.startswith('"') else x for x in C.run_model(model, p)]


def quote_hash_lines(rng, n):
    """prog @ <quoted argument holding blank+hash, usually after the OTHER quote character> <observable tail>"""
    out = []
    for _ in range(n):
        q = rng.choice("'\"")
        o = "'" if q == '"' else '"'
        pre = rng.choice(["it" + o + "s", "say " + o + "hi", o, "a" + o + o + o + "b", "a", "", o + " x " + o + " " + o])
        post = rng.choice(["1", " x", "", "c " + o + "d", "#", " # y"])
        arg = q + pre + " #" + post + q
        more = rng.choice(["", " x", " " + q + "y" + q, " " + o + "z #w" + o, " a#b", " '#'"])
        tail = rng.choice([" && prog @ ok", " > f", " ; prog @ z", " | prog @r", " || prog @ no", " x", " >> g ; prog @ t", " # tail comment", ""])
        head = rng.choice(["prog @", "prog @o", "prog @ p", "prog @x3"])
        out.append(head + " " + arg + more + tail)
    return out


def layer2(ctx, res, known, V, work, lines):
    rng = ctx.rng
    hp = os.path.join(ctx.helpers, "hp")
    model = ctx.model["C16"]
    # not comparable between processes: the shell's pid ($$)
    pool = [l for l in lines if "\t" not in l and "\n" not in l and "$$" not in l.replace("\\", "")]
    rng.shuffle(pool)
    fixed = ["prog @ a\\\\", "prog @ 'a\\'", "prog @ a\\;b", "prog @ a\\ b", "prog @ a\\#b", "prog @ 'a';prog @ b", "prog @x0||prog @ b",
             "prog @ 'a b' \"c d\" e", "prog @ \"a\\\"b\" ; prog @x3 || prog @ z", "prog @o hello > out.txt", "prog @ $V \"$V\" '$V'",
             "prog @ a{1,2}b", "prog @x1 && prog @ no ; prog @ yes", "prog @o a | prog @r", "prog @   spaced    out  ",
             "prog @ a # comment", "prog @ $(prog @o q)", "(prog @ a;prog @ b)", "prog @ x='a b'", "prog @ 'a'b", "prog @x7",
             "prog @ a\\|b \\& \\> x", "prog @ a!b !", "prog @ a\\ "]
    # a hash after a blank INSIDE quotes, with the other quote character before it (a reader that tracks quoting with
    # one flag takes it for a comment), and something after the argument that makes a cut observable
    fixed += ["prog @ \"it's #1\" x", "prog @ 'say \"hi #2' && prog @ ok", "prog @o \"don't # x\" > f", "prog @ \"a #b\" ; prog @ z",
              "prog @ 'a #b' 'c' | prog @r", "prog @ 'x' # real comment"]
    qh = quote_hash_lines(rng, 120 if ctx.thorough else 24)
    fixed += qh
    pick = fixed + pool[:(700 if ctx.thorough else 110)]
    pick = [l.replace("prog", hp) for l in pick]
    pm = C.write_cases("c16_l2.txt", [C.case("law", l) for l in pick])
    mo = C.run_model(model, pm)
    ENT = ("script", "function", "source")

    def one(i):
        l = pick[i]
        return {e: run_entry(ctx, work, l, e) for e in ("c",) + ENT}
    with ThreadPoolExecutor(max_workers=max(2, C.NCPU // 2)) as ex:
        outs = list(ex.map(one, range(len(pick))))
    res.count("L2_lines_x_entry_points", len(pick) * 4)
    st = {}
    for l, a, o in zip(pick, mo, outs):
        m = LAW.match(a)
        if m is None:
            continue
        comp, posi, _, dm, sm = m.groups()
        if comp == "0" or posi == "1":
            continue
        if any(o[e]["status"] == "TIMEOUT" for e in o):
            st["inconclusive_timeout"] = st.get("inconclusive_timeout", 0) + 1      # machine overloaded: no verdict
            continue
        short = l.replace(hp, "hp")
        res.nontrivial("L2:" + short)
        # class trailing-backslash: the physical line ends in a backslash, run_script's fold joins it with the next one
        # (a complete line can only end in an EVEN number of backslashes: the last one is escaped)
        tb = l.endswith("\\")
        tbc = "trailing-backslash"
        for e in ENT:
            if same(o[e], o["c"]):
                st["same_as_c"] = st.get("same_as_c", 0) + 1
                continue
            if not tb:
                V("oracle", "L2", l, {"entry": "-c", **o["c"]}, {"entry": e, **o[e]}, True,
                  "the line behaves differently through entry point %s than through -c" % e)
                continue
            # three-way: as the model's fold of the file predicts -> recorded; as -c -> repaired (above); else violation
            txt = entry_text(l, e)
            folded = model_strs(model, "fold", [txt], "c16_tb.txt")[0]
            pred = run_entry(ctx, work, l, e, text=folded)
            if not same(o[e], pred):
                V("oracle", "L2", l, {"entry": e + " on the model's folding %r" % folded, **pred}, {"entry": e, **o[e]}, True,
                  "a line ending in a backslash differs from -c, and not in the way recorded for class trailing-backslash")
            elif tbc not in known:
                V("oracle", "L2", l, o["c"], o[e], True, "class %s is not listed in known_findings.txt" % tbc)
            else:
                res.known(tbc, "class=%s e.g. %s line %r: argv %r, with -c: %r" % (tbc, e, short, o[e]["argv"], o["c"]["argv"]))
                st[tbc] = st.get(tbc, 0) + 1
    res.sample({"layer": "L2", "line": pick[5].replace(hp, "hp"), "c": outs[5]["c"], "script": outs[5]["script"],
                "function": outs[5]["function"], "source": outs[5]["source"]})
    res.sample({"layer": "L2", "line": pick[2].replace(hp, "hp"), "c": outs[2]["c"], "script": outs[2]["script"]})
    # ---- script texts with continuation lines: cicada on the text vs cicada on the model's fold of it
    pieces = [hp + " @ a", " b", "  c", " \\\n", "\\\n", "\\\n  ", " \t\\\n\t ", "\\\\\n", "\\\\\\\n", "\n", "\n" + hp + " @ d", " 'q\\\n r'", " e\\"]
    texts = [hp + " @ a \\\n  b\n", hp + " @ a\\\nb\n", hp + " @ a\\\\\n" + hp + " @ b\n", hp + " @ a\\\\\\\nb\n",
             hp + " @ a \\\n\\\n b\n", hp + " @ a\\\n"]
    for _ in range(150 if ctx.thorough else 30):
        texts.append(hp + " @ a" + "".join(rng.choice(pieces) for _ in range(rng.randint(1, 6))) + "\n")
    fo = model_strs(model, "fold", texts, "c16_fold.txt")
    ff = model_strs(model, "foldfix", texts, "c16_foldfix.txt")

    def two(i):
        return (run_entry(ctx, work, "", "script", text=texts[i]), run_entry(ctx, work, "", "script", text=fo[i]),
                run_entry(ctx, work, "", "script", text=ff[i]))
    with ThreadPoolExecutor(max_workers=max(2, C.NCPU // 2)) as ex:
        fouts = list(ex.map(two, range(len(texts))))
    res.count("L2_fold_texts", len(texts))
    for t, f1, f2, (a, b, c) in zip(texts, fo, ff, fouts):
        if "TIMEOUT" in (a["status"], b["status"], c["status"]):
            continue
        if "\\\n" in f1:
            continue                       # (not a fixed point of the fold: running it again would fold again)
        if same(a, b):
            st["fold_as_model"] = st.get("fold_as_model", 0) + 1
            if f1 != t:
                res.nontrivial("fold:" + t.replace(hp, "hp"))
        elif same(a, c):
            st["fold_as_fixed_model"] = st.get("fold_as_fixed_model", 0) + 1
        else:
            V("correspondence", "L2-fold", t, {"text": f1, **b}, a, False,
              "run_script's continuation folding differs from Model/Rerender.v fold_lines (and from fold_lines_fixed)")
    # ---- -c joins its arguments without separator
    for parts in (["%s @ a" % hp, "b"], ["%s @" % hp, " 'x y'", " z"]):
        d1, d2 = fresh(work, "cj"), fresh(work, "cj")
        a = observe(ctx, d1, [ctx.cicada, "-c"] + parts)
        b = observe(ctx, d2, [ctx.cicada, "-c", "".join(parts)])
        res.count("L2_c_joined_argv", 1)
        if not same(a, b):
            V("correspondence", "L2", repr(parts), b, a, False, "-c with several arguments is not their concatenation (env_args_to_command_line)")
    # interactive prompt (sample)
    # out of the domain at the prompt: `!!` (history expansion exists only there; extend_bangbang), and lines whose
    # helper reads stdin (the terminal there, /dev/null under -c). trim_multiline_prompts only acts on a newline.
    ip = [i for i, l in enumerate(pick) if all(ord(ch) < 127 for ch in l) and "!!" not in l and len(l) < 150 and "@r" not in l
          and "<" not in l]
    ip = ip[:len(fixed)] + ip[len(fixed):][:(30 if ctx.thorough else 6)]
    with ThreadPoolExecutor(max_workers=4) as ex:
        pouts = list(ex.map(lambda i: run_pty(ctx, work, pick[i]), ip))
    res.count("L2_pty_lines", len(ip))
    for i, po in zip(ip, pouts):
        m = LAW.match(mo[i])
        if m is None or m.group(1) == "0" or m.group(2) == "1":
            continue
        if po["status"] is None:
            st["inconclusive_pty"] = st.get("inconclusive_pty", 0) + 1             # the status probe never ran: no verdict
            continue
        if not same(po, outs[i]["c"], with_stdout=False):
            V("oracle", "L2-pty", pick[i], {"entry": "-c", **outs[i]["c"]}, {"entry": "prompt", **po}, True,
              "the line typed at the prompt behaves differently from -c")
    res.extra["l2_counts"] = st
