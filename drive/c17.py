"""C17 -- aliases replace exactly the command word, once; listing and removal.

L1 in-process: one Shell per scenario; table methods, the alias / unalias builtins
   (argument texts handed over directly) and expand_alias on tokens produced by the
   REAL parse_line.  The model (coq/theories/Model/Alias.v) takes the tokenizer and
   unquote as function parameters: the harness prints the tokenised alias values and
   the unquote results, and the extracted model is run with exactly these as data.
L2 real `cicada <script>` runs: histories (<= 20) of define / redefine / unalias /
   list / use; argv of helper programs reached through aliases at line start, after
   a pipe, after ; and &&, and as a non-first word; the final listing is fed to a
   fresh shell and listed again."""
import json, os, shlex, shutil, subprocess, tempfile
from concurrent.futures import ThreadPoolExecutor
import common as C

EXTRACT = ["C17"]
BINS = ["c17"]
NEEDS_CICADA = True
ALLOWED_AXIOMS = []
PINNED = ["C17_once", "C17_head", "C17_nonhead", "C17_stages", "C17_table", "C17_listing_iff", "C17_listing_refuted",
          "C17_listing_full", "C17_listing",
          "C17_alias_read_is_source_regex", "C17_alias_add_is_source_regex"]


def gen(ctx=None):
    """Gen/BuiltinRegexes.v from the regex literals of alias.rs (round 9; proofs in Proofs/AliasRegexProofs.v)"""
    import regexsites
    regexsites.gen_builtins()


TRUSTED = [
    "Coq 8.16.1 kernel (coqc; coqchk in thorough); vm_compute only in the Example",
    "hand transcription of expand_alias, the alias table methods and the alias / unalias builtins "
    "(coq/theories/Model/Alias.v), tied by L1",
    "the tokenizer (parse_line) and tools::unquote are PARAMETERS of the model: the theorems hold for every tokenizer; "
    "C17_listing assumes two stated equations about unquote, which L1 checks on every definition it generates",
    "extraction: ExtrOcamlBasic only; ocaml/c17/drv.ml; harness/src/bin/c17.rs; helpers/hp.c; drive/c17.py "
    "(python reference of the property for L2: dict + shlex)",
]
ASSUMES = [
    "HashMap iteration order is unspecified: listings are compared as sets of lines",
    "L2 values are drawn from words, options, quoted words of the other kind, pipes and alias names (the property's alphabet); "
    "what the tokenizer does with other characters is C01's subject",
]
US = "\x1f"
NAMES = ["p1", "p2", "p3", "ll", "a.b", "x-y", "g_1", "Q", "xargs", "ls"]
SEPS = {"": "", "'": "'", '"': '"', "`": "`", "\\": "\\"}


# ------------------------------------------------------------------ L1
def rand_value(rng):
    pieces = ["p1", "p2", "ll", "ls", "-l", "@", "'a b'", '"c d"', "|", " ", " ", "x", "it's", "''", "\\", "xargs", "a.b",
              "=", "\n", "é", "$X", ";", "`", "\\|"]
    return "".join(rng.choice(pieces) + rng.choice(["", " "]) for _ in range(rng.randint(0, 5))).strip("\n")


def rand_line(rng):
    words = NAMES + ["|", "|", "x", "'ll'", '"p1"', "\\|", '"|"', "y z", "-l", "xargs", "é"]
    return " ".join(rng.choice(words) for _ in range(rng.randint(1, 7)))


def gen_l1(rng):
    ops = []
    for _ in range(rng.randint(3, 20)):
        r = rng.random()
        n = rng.choice(NAMES)
        if r < 0.25:
            # (a value with a newline cannot enter the table through the builtin; listings are compared line-wise)
            ops.append(["S", n, rng.choice([rand_value(rng), rand_value(rng), "", "p1 @ -l", n + " -l"]).replace("\n", "")])
        elif r < 0.45:
            v = rand_value(rng).replace("\n", rng.choice(["", "\n"]))
            form = rng.choice(["N" + n + "=" + v, "N" + n + "='" + v + "'", "N" + n + '="' + v + '"', "N=" + v, "N" + n + " =" + v,
                               "N" + n + "!=" + v, "S" + n + "=" + v, "D" + n + "=" + v, "S" + n + '="' + v + '" x',
                               "D" + n + "='" + v + "' x"])
            ops.append(["B", form])
        elif r < 0.52:
            ops.append(["B"])
        elif r < 0.60:
            ops.append(["B", "N" + rng.choice(NAMES)])
        elif r < 0.63:
            ops.append(["B", "N" + n, "Nx"])
        elif r < 0.73:
            ops.append(rng.choice([["U", n], ["U", n], ["U"], ["U", n, "x"]]))
        else:
            ops.append(["E", rand_line(rng)])
    return ops


def fixed_l1():
    """Scripted scenarios (run first, independent of the random draw): lines with 2..5 aliased pipeline stages whose values
    have 0 / 1 / 2 / 3 words, in every order -- the replacement of one stage must not move the place where a later (or
    earlier) stage is replaced.  (Seed C17-splice-shift-not-accumulated: an index offset that forgets all but the previous
    replacement shows only from the third aliased stage on.)"""
    import itertools
    vals = {"p1": "hp @ -a one", "p2": "hp", "p3": "hp 'a b' -c", "ll": "ls -l", "Q": "x-y", "g_1": "p1 | p2"}
    defs = [["S", k, v] for k, v in vals.items()]
    out = []
    names = ["p1", "p2", "p3", "ll", "Q", "g_1"]
    for k in (2, 3, 4, 5):
        combos = list(itertools.product(names, repeat=k))
        step = max(1, len(combos) // 40)
        for ci, combo in enumerate(combos[::step]):
            line = " | ".join("%s arg%d" % (nm, i) if (ci + i) % 3 else nm for i, nm in enumerate(combo))
            out.append(defs + [["E", line], ["E", "xargs " + line], ["E", "zz 1 | " + line + " | zz 2"]])
    return out


def toks_fields(toks):
    out = [str(len(toks))]
    for s, t in toks:
        out += [C.enc(s), C.enc(t)]
    return out


def show_tokens(toks):
    return "[" + ",".join('("%s","%s")' % (C.enc(s), C.enc(t)) for s, t in toks) + "]"


def dj(x):
    """decode the percent-encoded strings of a harness JSON value"""
    if isinstance(x, str):
        return C.dec(x)
    if isinstance(x, list):
        return [dj(y) for y in x]
    if isinstance(x, dict):
        return {k: dj(v) for k, v in x.items()}
    return x


def ref_expand(table, tokmap, before):
    """the property, written independently of the Coq model: per stage, the first word (after any
    leading xargs words) is replaced by the tokens of its alias value, once; nothing else changes"""
    out, head = [], True
    for s, t in before:
        if s == "" and t == "|":
            out.append([s, t]); head = True
        elif head and t == "xargs":
            out.append([s, t])
        elif head:
            head = False
            if table.get(t):
                out.extend(tokmap[table[t]])
            else:
                out.append([s, t])
        else:
            out.append([s, t])
    return out


def errkind(err):
    err = err.strip()
    if not err:
        return ""
    if "not found" in err:
        return "notfound:" + err.split(": ")[-2] if err.count(": ") >= 2 else "notfound:?"
    if "syntax error" in err:
        return "syntax"
    return "other:" + err


def layer1(ctx, res):
    rng = ctx.rng
    n = 2500 if ctx.thorough else 500
    scns = fixed_l1() + [gen_l1(rng) for _ in range(n)]
    if ctx.replay_ops:
        scns = [ctx.replay_ops]
    path = C.write_cases("c17_l1.txt", ["scn\t" + "\t".join(C.enc(US.join(o)) for o in ops) for ops in scns])
    io = C.run_impl(ctx.bins["c17"], path, len(scns))
    mcases, back = [], []
    skipped = 0
    for i, ops in enumerate(scns):
        try:
            recs = dj(json.loads(io[i]))
        except Exception:
            skipped += 1      # PANIC / CRASH of parse_line on a generated value: C05's subject, nothing to compare
            continue
        table = {}
        for j, (o, rec) in enumerate(zip(ops, recs)):
            tb = {e[0]: e[1] for e in rec["table"]}
            tokmap = {e[1]: e[2] for e in rec["table"]}
            if o[0] == "S":
                table[o[1]] = o[2]
                if tb != table:
                    res.violate(kind="oracle", layer="L1", failing_input=True, ops=ops[:j + 1], expected=table, observed=tb,
                                note="add_alias does not define / redefine exactly that name")
                    break
            elif o[0] == "E":
                f = ["exp", str(len(rec["table"]))]
                for e in rec["table"]:
                    f += [C.enc(e[0]), C.enc(e[1])] + toks_fields(e[2])
                f += toks_fields(rec["before"])
                mcases.append("\t".join(f))
                back.append((i, j, "E", rec, dict(table), tokmap))
            else:
                f = ["bi" if o[0] == "B" else "un", str(len(table))]
                for k in sorted(table):
                    f += [C.enc(k), C.enc(table[k])]
                if o[0] == "B":
                    f += [str(len(o) - 1)] + [x for a in o[1:] for x in (C.enc({"N": "", "S": "'", "D": '"'}[a[0]]), C.enc(a[1:]))]
                else:
                    f += [str(len(o) - 1)] + [x for a in o[1:] for x in ("", C.enc(a))]
                f += [str(len(rec["unq"]))] + [C.enc(x) for p in rec["unq"] for x in p]
                mcases.append("\t".join(f))
                back.append((i, j, o[0], rec, dict(table), tokmap))
                table = tb    # continue from the implementation's table
    mpath = C.write_cases("c17_l1m.txt", mcases)
    mo = C.run_model(ctx.model["C17"], mpath)
    nviol = 0
    for (i, j, kind, rec, table, tokmap), m in zip(back, mo):
        ops = scns[i]
        if kind == "E":
            impl = show_tokens(rec["after"])
            want = show_tokens(ref_expand(table, tokmap, rec["before"]))
            if impl != want:
                nviol += 1
                if nviol <= 3:
                    res.violate(kind="oracle", layer="L1", failing_input=True, ops=ops[:j + 1], input=ops[j][1], table=table,
                                before=rec["before"], expected=want, observed=impl, model=m,
                                note="expand_alias does not replace exactly the head word of each stage, once")
            elif m != impl:
                nviol += 1
                if nviol <= 3:
                    res.violate(kind="correspondence", layer="L1", failing_input=False, function="expand_alias", ops=ops[:j + 1],
                                model=m, impl=impl)
            elif rec["after"] != rec["before"]:
                res.nontrivial("exp:" + impl)
        else:
            o = ops[j]
            impl = "out=%s|err=%s|table=%s" % (C.enc(rec["out"]), C.enc(errkind(rec["err"])),
                                               ";".join(sorted(C.enc(e[0]) + "=" + C.enc(e[1]) for e in rec["table"])))
            if m != impl:
                nviol += 1
                if nviol <= 3:
                    res.violate(kind="correspondence", layer="L1", failing_input=False, function="alias/unalias builtin",
                                ops=ops[:j + 1], model=m, impl=impl, unquote=rec["unq"],
                                note="the builtin does not do what the transcription does (given the real unquote results)")
            else:
                res.nontrivial("bi:" + m)
            # the two equations C17_listing assumes about unquote, on every definition generated
            for a, b in rec["unq"]:
                if a and all(ch.isalnum() and ord(ch) < 128 or ch in "_.-" for ch in a) and a != b:
                    res.violate(kind="correspondence", layer="L1", failing_input=False, function="unquote(name)", input=a, impl=b)
                if len(a) >= 2 and a[0] == "'" and a[-1] == "'" and "'" not in a[1:-1] and "\n" not in a and b != a[1:-1]:
                    res.violate(kind="correspondence", layer="L1", failing_input=False, function="unquote('v')", input=a, impl=b)
                if len(a) >= 2 and a[0] == '"' and a[-1] == '"' and not any(ch in a[1:-1] for ch in '"$`\\') and "\n" not in a \
                        and b != a[1:-1]:
                    res.violate(kind="correspondence", layer="L1", failing_input=False, function='unquote("v")', input=a, impl=b)
    res.count("L1_scenarios", len(scns))
    res.count("L1_model_vs_impl_ops", len(back))
    res.extra["L1_scenarios_skipped_tokenizer_panic"] = skipped
    if back:
        res.sample({"layer": "L1", "op": scns[back[0][0]][back[0][1]], "impl": str(back[0][3])[:400], "model": mo[0][:400]})


# ------------------------------------------------------------------ L2
PROGS = ["p1", "p2", "p3"]
L2NAMES = ["p1", "p2", "p3", "ll", "a.b", "x-y"]


def gen_l2(rng):
    """-> list of ops: ('def', name, value, quote) ('una', name) ('list',) ('one', name) ('use', form, name, args)"""
    ops = []
    defined = set()
    for i in range(rng.randint(4, 20)):
        r = rng.random()
        if r < 0.35 or not defined:
            n = rng.choice(L2NAMES)
            p = rng.choice(PROGS)
            tmpl = rng.choice(["%s @ w%d" % (p, i), "%s @ -o --x=%d" % (p, i), '%s @ "c d" e' % p, "%s @ 'a b' f" % p,
                               "%s @ u%d | %s @r v" % (p, i, rng.choice(PROGS)), "%s @ self" % n if n in PROGS else "%s @ k" % p,
                               "%s @ m %s" % (p, rng.choice(L2NAMES))])
            q = '"' if "'" in tmpl else "'"
            ops.append(("def", n, tmpl, q))
            defined.add(n)
        elif r < 0.45:
            ops.append(("una", rng.choice(L2NAMES)))
            defined.discard(ops[-1][1])
        elif r < 0.55:
            ops.append(("list",))
        elif r < 0.62:
            ops.append(("one", rng.choice(L2NAMES)))
        else:
            n = rng.choice(sorted(defined | set(PROGS)))
            form = rng.choice(["start", "pipe", "semi", "and", "nonfirst"])
            args = rng.sample(["a%d" % i, "-z", "'q r'", n, rng.choice(L2NAMES)], rng.randint(0, 3))
            if n in PROGS and n not in defined:
                args = ["@"] + args
            ops.append(("use", form, n, args))
    ops.append(("list",))
    return ops


def l2_script(ops, hp):
    lines, table, exp = [], {}, []
    for i, o in enumerate(ops):
        lines.append("%s @ SEP%d" % (hp, i))
        if o[0] == "def":
            lines.append("alias %s=%s%s%s" % (o[1], o[3], o[2], o[3]))
            table[o[1]] = o[2]
            exp.append(("none",))
        elif o[0] == "una":
            lines.append("unalias %s" % o[1])
            table.pop(o[1], None)
            exp.append(("none",))
        elif o[0] == "list":
            lines.append("echo ==%d==" % i)
            lines.append("alias")
            lines.append("echo")
            lines.append("echo ==end==")
            exp.append(("list", sorted(listing_line(*kv) for kv in table.items())))
        elif o[0] == "one":
            lines.append("echo ==%d==" % i)
            lines.append("alias %s" % o[1])
            lines.append("echo")
            lines.append("echo ==end==")
            exp.append(("list", [listing_line(o[1], table[o[1]])] if table.get(o[1]) else []))
        else:
            _, form, n, args = o
            rest = " ".join(args)
            body = table[n] if table.get(n) else n
            stages = []
            if form == "start":
                line, text = "%s %s" % (n, rest), "%s %s" % (body, rest)
            elif form == "pipe":
                line, text = "%s @ first | %s %s" % (hp, n, rest), "%s @ first | %s %s" % (hp, body, rest)
            elif form == "semi":
                line, text = "true; %s %s" % (n, rest), "%s %s" % (body, rest)
            elif form == "and":
                line, text = "true && %s %s" % (n, rest), "%s %s" % (body, rest)
            else:
                line, text = "%s @ %s %s" % (hp, n, rest), "%s @ %s %s" % (hp, n, rest)
            lines.append(line)
            for st in text.split("|"):
                stages.append(shlex.split(st))
            exp.append(("argv", sorted(stages)))
    return lines, exp, table


def run_script(ctx, d, name, lines, trace):
    sp = os.path.join(d, name)
    open(sp, "w").write("\n".join(lines) + "\n")
    env = {"HOME": d, "XDG_CONFIG_HOME": d, "PATH": os.path.join(d, "bin") + ":/usr/bin:/bin", "VERIF_TRACE": trace,
           "LANG": "C.UTF-8"}
    try:
        p = subprocess.run([ctx.cicada, sp], cwd=d, env=env, stdin=subprocess.DEVNULL, stdout=subprocess.PIPE,
                           stderr=subprocess.PIPE, timeout=60)
        return p.returncode, p.stdout.decode("utf-8", "replace"), p.stderr.decode("utf-8", "replace")
    except subprocess.TimeoutExpired:
        return "TIMEOUT", "", ""


def one_l2(ctx, work, ix, ops):
    d = os.path.join(work, "s%d" % ix)
    os.makedirs(os.path.join(d, "bin"))
    hp = os.path.join(ctx.helpers, "hp")
    for p in PROGS:
        os.symlink(hp, os.path.join(d, "bin", p))
    lines, exp, table = l2_script(ops, hp)
    tr = os.path.join(d, "trace")
    rc, out, err = run_script(ctx, d, "s.sh", lines, tr)
    # trace records partitioned by the SEP markers
    parts, cur = {}, None
    if os.path.exists(tr):
        for l in open(tr):
            kv = dict(f.split("=", 1) for f in l.rstrip("\n").split("\t") if "=" in f)
            argv = [C.dec(a) for a in kv.get("argv", "").split(",")]
            if len(argv) == 3 and argv[2].startswith("SEP"):
                cur = int(argv[2][3:])
                parts[cur] = []
            elif cur is not None:
                parts[cur].append([os.path.basename(argv[0])] + argv[1:])
    # listing blocks
    blocks = {}
    cur = None
    for l in out.split("\n"):
        if l.startswith("==") and l.endswith("==") and l != "==end==":
            cur = int(l.strip("="))
            blocks[cur] = []
        elif l == "==end==":
            cur = None
        elif cur is not None and l != "":
            blocks[cur].append(l)
    # feed the final listing to a fresh shell
    final = blocks.get(len(ops) - 1, [])
    rc2, out2, err2 = run_script(ctx, d, "relist.sh", final + ["echo ==0==", "alias", "echo", "echo ==end=="], tr + "2")
    again = [l for l in out2.split("\n") if l.startswith("alias ")]
    shutil.rmtree(d, ignore_errors=True)
    return rc, parts, blocks, sorted(again), exp, table, lines, err


def layer2(ctx, res, known):
    rng = ctx.rng
    n = 200 if ctx.thorough else 48
    scns = [gen_l2(rng) for _ in range(n)]
    work = tempfile.mkdtemp(prefix="c17_")
    hpbase = "hp"
    try:
        with ThreadPoolExecutor(max_workers=C.NCPU) as ex:
            outs = list(ex.map(lambda a: one_l2(ctx, work, a[0], a[1]), enumerate(scns)))
    finally:
        shutil.rmtree(work, ignore_errors=True)
    nviol = 0
    repaired = False
    for ops, (rc, parts, blocks, again, exp, table, lines, err) in zip(scns, outs):
        bad = None
        for i, (o, e) in enumerate(zip(ops, exp)):
            if e[0] == "argv":
                want = sorted([[os.path.basename(w[0])] + w[1:] for w in e[1]])
                got = sorted(parts.get(i, []))
                if got != want:
                    bad = ("use", i, want, got)
                    break
                if o[2] in table or True:
                    res.nontrivial("use:%s:%r" % (o[1], want))
            elif e[0] == "list":
                got = sorted(blocks.get(i, []))
                if got != e[1]:
                    bad = ("list", i, e[1], got)
                    break
        if bad:
            nviol += 1
            if nviol <= 3:
                res.violate(kind="oracle", layer="L2", failing_input=True, input=lines, at=lines[[k for k, l in enumerate(lines) if
                            l.endswith("SEP%d" % bad[1])][0] + 1:][:4], what=bad[0], expected=bad[2], observed=bad[3],
                            stderr=err[-300:], note="real shell: argv reached through aliases / alias listing differs from the property")
            continue
        # feeding the listing back
        want = sorted(listing_line(*kv) for kv in table.items())
        in_class = any("'" in v and any(ch in v for ch in '"$`\\') for v in table.values())
        if again == want:
            if in_class:
                repaired = True
            elif want:
                res.nontrivial("relist:%r" % (want,))
        elif in_class:
            k = [f for f in known if f.get("class") == "listing-single-quote"]
            ex = [l for l in want if l.count("'") > 2][0]
            if k:
                res.known("listing-single-quote", "class=listing-single-quote input=%s fed back to a fresh shell gives %r what=%s" % (
                    ex, [l for l in again if l.split("=")[0] == ex.split("=")[0]], k[0].get("what", "")))
            else:
                res.violate(kind="oracle", layer="L2", failing_input=True, input=want, observed=again,
                            note="listing with a single quote in a value is not re-readable, and the finding is not recorded")
        else:
            nviol += 1
            if nviol <= 3:
                res.violate(kind="oracle", layer="L2", failing_input=True, input=want, observed=again, script=lines,
                            note="feeding the printed listing to a fresh shell does not recreate the definitions")
    res.count("L2_script_histories", len(scns))
    res.count("L2_ops", sum(len(s) for s in scns))
    res.extra["findings_no_longer_reproducing"] = ["listing-single-quote"] if repaired and "listing-single-quote" not in res.known_hits else []
    res.sample({"layer": "L2", "script": outs[0][6][:14], "trace_partitions": str(outs[0][1])[:500]})


def listing_line(n, v):
    """builtins/alias.rs show_alias_list / show_single_alias"""
    if "'" in v and not any(ch in v for ch in '"$`\\'):
        return 'alias %s="%s"' % (n, v)
    return "alias %s='%s'" % (n, v)


def probes_quoted_head(ctx, res, known):
    """alias NAME=<quoted value> where the value itself starts with a quote of the other kind.  For names holding
    - or . the tokenizer strips the outer quotes (token text NAME=value, tagged), and alias.rs then unquotes the value
    a second time because it starts with a quote: the definition is truncated to its first word."""
    work = tempfile.mkdtemp(prefix="c17p_")
    cases = []
    for n in ["x-y", "a.b", "ll", "g_1"]:
        for v, q in [('"c d" e', "'"), ("'c d' e", '"'), ('"c"', "'"), ("'c' | p1 @", '"')]:
            cases.append((n, v, q))
    try:
        for i, (n, v, q) in enumerate(cases):
            d = os.path.join(work, "p%d" % i)
            os.makedirs(os.path.join(d, "bin"))
            rc, out, err = run_script(ctx, d, "s.sh", ["alias %s=%s%s%s" % (n, q, v, q), "alias %s" % n], os.path.join(d, "tr"))
            pre = "alias %s=" % n
            got = out.strip("\n")
            body = got[len(pre) + 1:-1] if got.startswith(pre) and len(got) >= len(pre) + 2 else None
            faithful = v
            res.count("L2_quoted_head_probes", 1)
            if body == v:
                if faithful != v:
                    res.extra.setdefault("findings_no_longer_reproducing", [])
                    if "define-quoted-head" not in res.extra["findings_no_longer_reproducing"]:
                        res.extra["findings_no_longer_reproducing"].append("define-quoted-head")
                res.nontrivial("probe:%s=%s" % (n, v))
            elif body == faithful and [f for f in known if f.get("class") == "define-quoted-head"]:
                k = [f for f in known if f.get("class") == "define-quoted-head"][0]
                res.known("define-quoted-head", "class=define-quoted-head input=alias %s=%s%s%s defines %r what=%s" % (
                    n, q, v, q, body, k.get("what", "")))
            else:
                res.violate(kind="oracle", layer="L2", failing_input=True, input="alias %s=%s%s%s" % (n, q, v, q),
                            expected=v, observed=got, stderr=err[-200:],
                            note="after `alias n=v` the listed value is not v")
    finally:
        shutil.rmtree(work, ignore_errors=True)


def run(ctx, res):
    res.rule = ("L1: random scenarios (3-20 ops) of add_alias / alias builtin argument forms / unalias / expand_alias on lines over "
                "alias names, pipes (plain, quoted, escaped), xargs; values with quotes of both kinds, pipes, newlines, other alias "
                "names; L2: script histories <= 20 ops through the real binary. non-trivial = distinct expansion that changes the "
                "tokens, distinct builtin outcome, distinct argv set reached through an alias, distinct re-fed listing")
    known = C.known_findings("C17")
    ctx.replay_ops = None
    if ctx.replay:
        r = json.load(open(ctx.replay))
        ctx.replay_ops = r.get("ops")
    layer1(ctx, res)
    if not ctx.replay_ops:
        layer2(ctx, res, known)
        probes_quoted_head(ctx, res, known)
