"""C13 -- results of expansions are data and are never re-read as shell syntax.

L1 (in-process, harness op `plan`): the real CommandLine::from_line under a world (variables,
cwd) for the property's value list x delivery ($NAME, ${NAME}, $(..), backquotes, `*` matches)
x unquoted / double-quoted x affixes x argument positions.  Three comparisons per case:
  glue : Model/Redirect.v plan_tokens applied to the implementation's OWN expanded tokens must
         equal the implementation's plan (the passes after the expansions);
  full : Model/FullPlan.v plan (tokenizer + expansion passes + planner, variables / glob answers /
         inner-command outputs given as the World) must equal the implementation's expanded tokens
         and plan;
  oracle (the property): the implementation's plan has the shape it has for the value `x` --
         one command, foreground, no output / input redirection, no assignment -- and its words
         carry the produced text (inside double quotes as exactly one word).
L2 (real binary, `cicada -c`): helper hp as the program: exit status 7 comes back (the helper ran
in the foreground and was waited for), exactly the expected helper runs were recorded, argv
carries the produced text, the set of files in the scratch directory is unchanged.
Mixed lines (L1 and L2-mixed): the operator-only values (`<`, `<<<`, `>`, `>>`, `|`, `&`, `2>&1`, ...) double-quoted on
lines that ALSO carry one genuine operator (`< f`, `<<< w`, `> f`, `>> f`, `2>&1`, `| sink`, trailing `&`), value before
and after it: the plan / the observable behaviour must be exactly that of a harmless value in the same place.
Alias bodies: the same values through a double-quoted `"$A"` / `"${A}"` / `"$(cmd)"` written in the VALUE of an alias used
as the command word (first / middle / last word of the body), L1 with the alias table in the shell, L2 through a script.
Known-finding classes (mirroring Known_C13 of Properties/C13.v) are handled three-way."""
import os, re, shutil, subprocess, tempfile
import common as C
import expand_common as X

EXTRACT = ["C13"]
BINS = ["c13"]
NEEDS_CICADA = True
ALLOWED_AXIOMS = []
PINNED = ["C13_dq", "C13_unquoted_full", "C13_refuted", "C13_unquoted_partial", "C13_unquoted_exact", "Known_C13",
          "C13_subst_refuted", "C13_glob_refuted", "C13_output_refuted", "C13_post_passes", "C13_post_passes_exact",
          "C13_known_is_not_inert", "C13_unquoted_exact_text", "C13_tokenize_unquoted", "C13_post_passes_from",
          "C13_dq_with_input", "C13_witness_value_and_genuine_lt", "C13_glob_blank", "C13_glob_tag_whole_path",
          "C13_expand_glob_one", "C13_witness_glob_dir", "C13_dq_in_alias_body", "C13_witness_alias_body", "C13_witness_pipe", "C13_witness_gt", "C13_witness_amp", "C13_witness_lt", "C13_nonvacuous"]
TRUSTED = [
    "Coq 8.16.1 kernel (coqc; coqchk in thorough); vm_compute only in concrete witnesses / non-vacuity examples",
    "hand transcriptions composed by Model/FullPlan.v: parse_line (Model/Tokenizer.v), do_expansion and its passes "
    "(Model/Expand.v), drain_env_tokens / background test / split_tokens_by_pipes / from_tokens / tokens_to_redirections "
    "(Model/Redirect.v); all tied to the code by differential execution (layers glue and full)",
    "tools/regex2coq.py (yes/no regex literals of shell.rs -> ASTs, regenerated every run)",
    "World oracles: variable lookup, glob::glob answers (taken from the glob crate itself through harness op globraw), "
    "outputs of inner commands",
    "extraction ExtrOcamlBasic; OCaml 4.13.1; ocaml/c13/drv.ml; harness/src/bin/c13.rs + expand_ops.rs; helpers/hp.c, "
    "helpers/csub.c; drive/c13.py",
]
ASSUMES = [
    "the planned command line is what gets executed (core.rs run_pipeline: words -> execve argv, redirections -> open, "
    "background flag -> no wait); validated by layer L2 only",
    "line splitting (`;` `&&` `||`, comments) happens on the raw text before from_line (Model/Cmds.v, C01/C03): a value "
    "can not reach it; validated by L2 for the values `;x` and `#c`",
]

PROG = "prog"

# ---------------------------------------------------------------- the property's value list
VALUES_OP = ["a>b", ">", ">>", "a>", ">f", "1>f", "2>f", "3>f", "2>&1", "1>&2", ">&2", "a>>b", "a>b>c", "|", "a|b", "||",
             "|x", "&", "a&", "&&", "&1", "<f", "<", "<<<", "<<", "a<b", ";x", ";", "a;b", "#c", "#", "a#b"]
VALUES_TXT = ["x", "", "a b", " ", " a", "a ", "a  b", "'", '"', "a'b", 'a"b', "'a b'", '"a b"', "$", "a$", "$X", "${X}",
              "$$", "$?", "{", "}", "{}", "a}b", "a\nb", "\n", "a\n>b", "\\", "a\\b", "~", "~/x", "A=1", "=", "é>",
              "x=y>z", "-l -a", "\t", "a\tb", "(", ")", "()", "!", "?", "[a]", ","]
VALUES_EXP = ["*", "a*", "{a,b}", "{1..3}", "a{b,c}d", "$(echo hi)", "`echo hi`", "a$(echo hi)b", "a`echo hi`b", "$(", "`",
              "$(x", "a`b", "$()", "``"]
RAND_ALPHA = [">", "|", "&", "<", ";", "#", " ", "a", "1", "2", "'", '"', "$", "\n", "{", "}", "=", "X"]
AFFIXES = [("", ""), ("p", ""), ("", ".q"), ("p", ".q")]
# "escw": after a word that starts with an escaped bar (token tag backslash) and an untagged plain word -- a pass that
# skips the tagged word without advancing its index writes the produced value over the plain word, where it keeps the
# empty tag and is re-read as syntax (seed C13-expand-env-skip-without-index-advance)
POSITIONS = ["only", "first", "middle", "last", "escw"]
INNER = {"echo hi": "hi\n"}   # inner command lines that values may smuggle in, with their output


def token_classes(tag, text, last):
    """Known_C13 of Properties/C13.v on one token after expansion"""
    out = set()
    if tag == "":
        if ">" in text:
            out.add("untagged_gt")
        if text == "|":
            out.add("untagged_pipe")
        if text in ("<", "<<<"):
            out.add("untagged_lt")
        if len(text) > 1 and text[0] == "<" and text[1] != "<":
            out.add("untagged_lt_file")     # /repo 543507e: from_tokens splits an untagged word <file into < file
        if text == "&" and last:
            out.add("untagged_amp_last")
    return out


def subst_classes(text):
    if re.search(r"\$\([^)]+\)", text) or re.search(r"`[^`]+`", text):
        return {"value_cmd_substituted"}
    return set()


def place(arg, pos, prog=PROG):
    """line and (number of words before, after) for one written argument at a position"""
    if pos == "only":
        return "%s %s" % (prog, arg), [], []
    if pos == "first":
        return "%s %s 'z'" % (prog, arg), [], ["z"]
    if pos == "middle":
        return "%s \"y\" %s 'z'" % (prog, arg), ["y"], ["z"]
    if pos == "escw":
        return "%s \\|x w %s 'z'" % (prog, arg), ["|x", "w"], ["z"]
    return "%s 'y' %s" % (prog, arg), ["y"], []


def tree(d):
    """every file and directory below d, relative"""
    out = []
    for root, dirs, files in os.walk(d):
        for n in dirs + files:
            out.append(os.path.relpath(os.path.join(root, n), d))
    return sorted(out)


def world_field(ents):
    return "\x1e".join(k + a + "\x1d" + b for k, a, b in ents)


TOK = re.compile(r'\("([^"]*)","([^"]*)"\)')


def parse_tokens(s):
    return [(C.dec(a), C.dec(b)) for a, b in TOK.findall(s)]


def parse_plan(s):
    """P(bg=..,envs=[..],cmds=[C(tokens=[..],redirs=[..],from=..),..]) -> dict, or None (error / crash line)"""
    m = re.match(r"P\(bg=(\d),envs=\[(.*?)\],cmds=\[(.*)\]\)$", s)
    if not m:
        return None
    cmds = []
    body = m.group(3)
    for part in (body.split("C(tokens=")[1:] if body else []):
        part = part.rstrip(",")
        mm = re.match(r"(\[.*?\]),redirs=(\[.*?\]),from=(.*)\)$", part)
        if not mm:
            return None
        cmds.append({"tokens": parse_tokens(mm.group(1)), "redirs": mm.group(2), "from": mm.group(3)})
    return {"bg": m.group(1) == "1", "envs": m.group(2), "cmds": cmds}


def shape_ok(plan, prog=PROG):
    return (plan is not None and not plan["bg"] and plan["envs"] == "" and len(plan["cmds"]) == 1
            and plan["cmds"][0]["redirs"] == "[]" and plan["cmds"][0]["from"] == "None"
            and len(plan["cmds"][0]["tokens"]) >= 1 and plan["cmds"][0]["tokens"][0][1] == prog)


def argv_alternatives(quoted, text):
    """acceptable word lists for the produced text; None = only the shape is judged (glob / brace
    characters in an unquoted value legitimately produce other argument text)"""
    if quoted:
        return [[text]]
    if any(c in text for c in "*{") or "$(" in text or "`" in text:
        return None
    alts = [[text]]
    sp = text.split()
    if sp != [text]:
        alts.append(sp)     # the property does not say whether an unquoted value is split at blanks
    return alts


def judge(plan, before, after, alts, prog=PROG):
    if not shape_ok(plan, prog):
        return False
    words = [t for _, t in plan["cmds"][0]["tokens"]][1:]
    if alts is None:
        return words[:len(before)] == before and (not after or words[-len(after):] == after)
    return any(words == before + a + after for a in alts)


# ---------------------------------------------------------------- case generation
def var_cases(ctx):
    rng = ctx.rng
    values = VALUES_OP + VALUES_TXT + VALUES_EXP
    rnd = set()
    for _ in range(4000 if ctx.thorough else 250):
        rnd.add("".join(rng.choice(RAND_ALPHA) for _ in range(rng.randint(1, 4))))
    values = values + sorted(rnd - set(values))
    cases = []
    for vi, v in enumerate(values):
        listed = vi < len(VALUES_OP) + len(VALUES_TXT) + len(VALUES_EXP)
        for braces in (False, True):
            for quoted in (False, True):
                for pre, post in (AFFIXES if listed else [rng.choice(AFFIXES)]):
                    ref = "${A}" if braces else "$A"
                    arg = pre + ref + post
                    if quoted:
                        arg = '"' + arg + '"'
                    for pos in (POSITIONS if listed else [rng.choice(POSITIONS)]):
                        store = "E" if (len(cases) % 3) else "S"
                        line, before, after = place(arg, pos)
                        text = pre + v + post
                        last = not after
                        ents = [(store, "A", v), ("S", "X", "WRONG")] + [("R", c, o) for c, o in INNER.items()]
                        cases.append({"kind": "var", "line": line, "ents": ents, "quoted": quoted, "text": text, "value": v,
                                      "before": before, "after": after,
                                      "classes": token_classes('"' if quoted else "", text, last) | subst_classes(text),
                                      "alts": argv_alternatives(quoted, text)})
    return cases


OUTS = [v for v in VALUES_OP] + ["x", "a b", "a'b", '"', "{", "}", "a\nb", "=", "A=1", "é>", "a\n>b"]


def subst_cases(ctx, work):
    csub = os.path.join(ctx.helpers, "csub")
    cases = []
    for i, o in enumerate(OUTS):
        f = os.path.join(work, "o%d" % i)
        open(f, "wb").write((o + "\n").encode())
        inner = "%s %s" % (csub, f)
        for spelling in ("dollar", "bq"):
            sub = "$(%s)" % inner if spelling == "dollar" else "`%s`" % inner
            for quoted in (False, True):
                for pre, post in AFFIXES:
                    if spelling == "bq" and not pre and post:
                        continue   # a word that STARTS with a backquote is one backquote token up to the blank: the suffix joins the command
                    arg = pre + sub + post
                    if quoted:
                        arg = '"' + arg + '"'
                    for pos in POSITIONS:
                        line, before, after = place(arg, pos)
                        text = pre + o + post
                        # a whole-token backquote substitution keeps the backquote tag
                        tag = '"' if quoted else ("`" if spelling == "bq" and not pre and not post else "")
                        cases.append({"kind": spelling, "line": line, "ents": [("R", inner, o + "\n")], "quoted": quoted or tag == "`",
                                      "text": text, "value": o, "before": before, "after": after,
                                      "classes": token_classes(tag, text, not after),
                                      "alts": [[text]] if (quoted or tag == "`") else argv_alternatives(False, text)})
    return cases


POPS = [["a>b"], ["x|y"], ["|"], ["&"], ["<"], ["<<<"], ["z z"], ["2>&1"], [">o"], ["#c"], [";x"], ["a", "&"], ["&", "!"],
        ["plain", "a>b", "x|y", "&", "z z", "#c", ";x", "|", "<", "~", "zzz"], ["p q>r"], ["1>f", "2"], ["a>", "b"],
        ["<f", "f"], ["<<x"]]
# directory components holding a blank AND an operator character: the glob star is in a NON-final component, the produced
# word is dir/name -- it contains a blank, so expand_glob must give it the double-quote tag (whole path, not only the last
# component).  q/keep exists so that a redirection to q/f could really create a file.  (files, patterns)
DIRPOPS = [(["p >q/f", "q/keep"], ["*/f", "p*/f", "p*/*", "*/*"]),
           (["<a b/f", "f"], ["*/f", "*/*"]),
           (["a | b/x1", "a | b/x2"], ["*/x1", "a*/x*", "*/*"]),
           (["d 2>&1/x1", "d >>y/x1", "d &/x1", "my dir/x1", "dz/x1"], ["d*/x*", "*/x1", "m*/x1"]),
           (["p>q/f", "r <s/f", "t;u #v/f"], ["*/f"])]


def glob_cases(ctx, work):
    """populations of files whose names hold operator characters; the glob crate's own answer is the oracle table"""
    cases = []
    for pi, pop in enumerate(POPS + DIRPOPS):
        d = os.path.join(work, "pop%d" % pi)
        os.makedirs(d)
        explicit = None
        if isinstance(pop, tuple):
            pop, explicit = pop
        for n in pop:
            os.makedirs(os.path.dirname(os.path.join(d, n)), exist_ok=True)
            open(os.path.join(d, n), "w").close()
        pats = explicit or (["*"] + sorted(set((n[0] if n[0] not in "*[?" else "") + "*" for n in pop if n[0] not in " '\"|<>&;#~$`(){}\\")) + ["./*"])
        raw_cases = [C.case("globraw", "D\x1d" + d, p) for p in pats]
        raw = C.run_impl(ctx.bins["c13"], C.write_cases("c13_raw.txt", raw_cases), len(raw_cases), shards=1)
        for p, r in zip(pats, raw):
            if r == "ERR" or not r.startswith("["):
                continue
            items = [C.dec(x) for x in re.findall(r'"([^"]*)"', r)]
            if not items:
                continue
            for pos in POSITIONS:
                line, before, after = place(p, pos)
                classes = set()
                for k, n in enumerate(items):
                    classes |= token_classes('"' if " " in n else "", n, not after and k == len(items) - 1)
                cases.append({"kind": "glob", "line": line, "ents": [("D", "", d), ("G", p, "\x1c".join(items))], "quoted": False,
                              "text": " ".join(items), "value": repr(items), "before": before, "after": after,
                              "classes": classes, "alts": [items], "dir": d, "pop": pop, "must": explicit is not None})
    return cases


# ---------------------------------------------------------------- a value next to a GENUINE operator on the same line
MIXVALS = ["<", "<<<", ">", ">>", "|", "&", "2>&1", "a>b", "<f", ";x", "#c", "a b", "", "<<", "&&", "||", "1>&2", ">f", "x"]
MIX_HARMLESS_UNQUOTED = ["x", ";x", "#c"]
P_, SINK_ = ("", PROG), ("", "sink")
# (name, line with {V}, builder of (bg, [(tokens, redirs, from)]) from the value token V)
MIX_TEMPLATES = [
    ("in_after", "prog {V} < f", lambda V: (0, [([P_, V], [], ("<", "f"))])),
    ("in_before", "prog < f {V}", lambda V: (0, [([P_, V], [], ("<", "f"))])),
    ("in_mid", "prog 'y' {V} < f 'z'", lambda V: (0, [([P_, ("'", "y"), V, ("'", "z")], [], ("<", "f"))])),
    ("here_after", "prog {V} <<< w", lambda V: (0, [([P_, V], [], ("<<<", "w"))])),
    ("here_before", "prog <<< w {V}", lambda V: (0, [([P_, V], [], ("<<<", "w"))])),
    ("out_after", "prog {V} > f", lambda V: (0, [([P_, V], [("1", ">", "f")], None)])),
    ("out_before", "prog > f {V}", lambda V: (0, [([P_, V], [("1", ">", "f")], None)])),
    ("append", "prog {V} >> f", lambda V: (0, [([P_, V], [("1", ">>", "f")], None)])),
    ("dup", "prog {V} 2>&1", lambda V: (0, [([P_, V], [("2", ">", "&1")], None)])),
    ("pipe_left", "prog {V} | sink", lambda V: (0, [([P_, V], [], None), ([SINK_], [], None)])),
    ("pipe_right", "prog x | sink {V}", lambda V: (0, [([P_, ("", "x")], [], None), ([SINK_, V], [], None)])),
    ("bg", "prog {V} &", lambda V: (1, [([P_, V], [], None)])),
    ("bg_mid", "prog {V} x &", lambda V: (1, [([P_, V, ("", "x")], [], None)])),
    ("in_out", "prog {V} < f > g", lambda V: (0, [([P_, V], [("1", ">", "g")], ("<", "f"))])),
    ("two_values", "prog {V} < f {V}", lambda V: (0, [([P_, V, V], [], ("<", "f"))])),
]
# the same shapes for the real binary: {HP} = helper path, files f (input) / g (output) in the scratch directory
MIX_L2 = [
    ("in_after", "{HP} @r,x7 {V} < f"), ("in_before", "{HP} @r,x7 < f {V}"), ("in_mid", "{HP} @r,x7 'y' {V} < f 'z'"),
    ("here_after", "{HP} @r,x7 {V} <<< w"), ("here_before", "{HP} @r,x7 <<< w {V}"),
    ("out_after", "{HP} @w5,x7 {V} > g"), ("out_before", "{HP} @w5,x7 > g {V}"), ("append", "{HP} @w5,x7 {V} >> g"),
    ("dup", "{HP} @e5,x7 {V} 2>&1"),
    ("pipe_left", "{HP} @w5,x7 {V} | {HP} @r,x3"), ("pipe_right", "{HP} @w5,x7 x | {HP} @r,x3 {V}"),
    ("bg", "{HP} @x7 {V} &"), ("in_out", "{HP} @r,w5,x7 {V} < f > g"), ("two_values", "{HP} @r,x7 {V} < f {V}"),
]
BASEVAL = "BASEVAL"


def plan_string(bg, cmds):
    def tok(t):
        return '("%s","%s")' % (C.enc(t[0]), C.enc(t[1]))
    out = []
    for toks, redirs, frm in cmds:
        out.append("C(tokens=[%s],redirs=[%s],from=%s)" % (
            ",".join(tok(t) for t in toks),
            ",".join('("%s","%s","%s")' % tuple(C.enc(x) for x in r) for r in redirs),
            "None" if frm is None else '("%s","%s")' % (C.enc(frm[0]), C.enc(frm[1]))))
    return "P(bg=%d,envs=[],cmds=[%s])" % (bg, ",".join(out))


def mixed_specs():
    """(written argument, tag of the resulting token, function value -> produced text)"""
    specs = [('"$A"', '"', "", ""), ('"${A}"', '"', "", ""), ('"p${A}.q"', '"', "p", ".q")]
    return specs


def mixed_cases(ctx, empty):
    cases = []
    for name, tpl, build in MIX_TEMPLATES:
        for v in MIXVALS:
            for arg, tag, pre, post in mixed_specs():
                text = pre + v + post
                cases.append({"kind": "mixed:" + name, "line": tpl.replace("{V}", arg), "ents": [("E", "A", v), ("D", "", empty)],
                              "quoted": True, "text": text, "value": v, "before": [], "after": [], "classes": set(), "alts": None,
                              "expect_plan": plan_string(*build((tag, text)))})
        for v in MIX_HARMLESS_UNQUOTED:
            cases.append({"kind": "mixed:" + name, "line": tpl.replace("{V}", "$A"), "ents": [("S", "A", v), ("D", "", empty)],
                          "quoted": False, "text": v, "value": v, "before": [], "after": [], "classes": set(), "alts": None,
                          "expect_plan": plan_string(*build(("", v)))})
    return cases


# ---------------------------------------------------------------- a double-quoted expansion written INSIDE AN ALIAS BODY
ALIAS = "show"
ALIAS_BODY_POS = [("first", "{V} y z", [], ["y", "z"]), ("middle", "y {V} z", ["y"], ["z"]), ("last", "y z {V}", ["y", "z"], [])]
ALIAS_LINES = [(ALIAS, []), (ALIAS + " 'w'", ["w"])]


def alias_cases(ctx, work, empty):
    """alias show='prog .. "$A" ..'; the line is `show` / `show 'w'`.  expand_alias runs BEFORE the other passes and
    must insert the body's tokens WITH their tags, so the double-quoted word of the body behaves as one written on the line."""
    rng = ctx.rng
    cases = []
    values = VALUES_OP + VALUES_TXT + VALUES_EXP
    for v in values:
        for pre, ref, post in (("", "$A", ""), ("", "${A}", ""), ("p", "${A}", ".q")):
            for bname, btpl, b_before, b_after in ALIAS_BODY_POS:
                for line, extra in (ALIAS_LINES if v in VALUES_OP else [rng.choice(ALIAS_LINES)]):
                    body = PROG + " " + btpl.replace("{V}", '"' + pre + ref + post + '"')
                    text = pre + v + post
                    cases.append({"kind": "alias", "line": line, "body": body,
                                  "ents": [("A", ALIAS, body), ("E", "A", v), ("S", "X", "WRONG"), ("D", "", empty)]
                                          + [("R", c, o) for c, o in INNER.items()],
                                  "quoted": True, "text": text, "value": v, "before": b_before, "after": b_after + extra,
                                  "classes": subst_classes(text), "alts": [[text]]})
    csub = os.path.join(ctx.helpers, "csub")
    for i, o in enumerate(OUTS):
        f = os.path.join(work, "o%d" % i)     # written by subst_cases
        inner = "%s %s" % (csub, f)
        for sub in ("$(%s)" % inner, "`%s`" % inner):
            for bname, btpl, b_before, b_after in ALIAS_BODY_POS:
                line, extra = ALIAS_LINES[(i + len(bname)) % 2]
                body = PROG + " " + btpl.replace("{V}", '"' + sub + '"')
                cases.append({"kind": "alias", "line": line, "body": body,
                              "ents": [("A", ALIAS, body), ("R", inner, o + "\n"), ("D", "", empty)],
                              "quoted": True, "text": o, "value": o, "before": b_before, "after": b_after + extra,
                              "classes": set(), "alts": [[o]], "subst": True})
    return cases


# ---------------------------------------------------------------- run
def run(ctx, res):
    rng = ctx.rng
    known = {k["class"]: k for k in C.known_findings("C13")}
    model, impl = ctx.model["C13"], ctx.bins["c13"]
    pending = []

    def violate(**kw):
        if os.environ.get("C13_DEBUG") and kw.get("kind") == "oracle":
            print("DBG", kw.get("layer"), kw.get("input"), "=>", kw.get("observed"), "| exp:", kw.get("expected"))
        pending.append(kw)

    def flush():
        # at most 6 replays; those that name a concrete failing input first
        pending.sort(key=lambda kw: 0 if kw.get("failing_input", True) else 1)
        for kw in pending[:6]:
            res.violate(**kw)
        res.extra["violations_found"] = len(pending)

    def hit(cls, example):
        res.known(cls, "class=%s input=%s what=%s (observed: %s)" % (cls, known[cls].get("input", ""), known[cls].get("what", ""), example))

    work = tempfile.mkdtemp(prefix="c13_")
    cwd0 = os.getcwd()
    try:
        empty = os.path.join(work, "empty")
        os.makedirs(empty)
        cases = var_cases(ctx)
        for c in cases:
            c["ents"].append(("D", "", empty))
        cases += subst_cases(ctx, work)
        cases += glob_cases(ctx, work)
        cases += mixed_cases(ctx, empty)
        cases += alias_cases(ctx, work, empty)
        res.rule = ("L1: %d listed values (every operator character alone and embedded, blanks, quotes, dollar, braces, newlines, "
                    "glob / brace / substitution syntax) + random values over %r, delivered through $NAME and ${NAME} (process "
                    "environment or shell variable), $(..) and backquotes (%d outputs), `*` matches (%d directory populations), each "
                    "unquoted and double-quoted, bare and with a prefix / suffix, at the positions only / first / middle / last among "
                    "quoted arguments; L2: a sample of the same cases through the real binary; non-trivial = distinct (delivery, "
                    "produced text) pairs whose text holds at least one operator character"
                    % (len(VALUES_OP) + len(VALUES_TXT) + len(VALUES_EXP), "".join(RAND_ALPHA), len(OUTS), len(POPS)))
        # ---------- L1: implementation, full model, glue model
        plines = [C.case("plan", world_field(c["ents"]), "60", c["line"]) for c in cases]
        pp = C.write_cases("c13_plan.txt", plines)
        io = C.run_impl(impl, pp, len(plines), timeout=900)
        mo = C.run_model(model, pp)
        glue = []
        for o in io:
            if o.startswith("exp="):
                glue.append(C.case("plantok", X.toks_field(parse_tokens(o[4:o.index(" plan=")]))))
            else:
                glue.append("plantok\t")
        go = C.run_model(model, C.write_cases("c13_glue.txt", glue))
        res.count("L1_from_line", len(cases))
        stats = {}
        for c, o, m, g in zip(cases, io, mo, go):
            if any(ch in c["text"] for ch in "|&;<>#"):
                res.nontrivial("%s:%s" % (c["kind"], c["text"]))
            inp = {"line": c["line"], "world": [(k, a, b) for k, a, b in c["ents"] if k in "ESRG"], "delivery": c["kind"]}
            if c["kind"] == "glob":
                inp["files_in_cwd"] = c["pop"]
            if c["kind"] == "alias":
                inp["aliases"] = {ALIAS: c["body"]}
            if not o.startswith("exp="):
                violate(kind="oracle", layer="L1", input=inp, observed=o, failing_input=True,
                        note="from_line panicked / hung / crashed on a command line of the property's domain")
                continue
            iplan_s = o[o.index(" plan=") + 6:]
            iplan = parse_plan(iplan_s)
            ok = (iplan_s == c["expect_plan"]) if "expect_plan" in c else judge(iplan, c["before"], c["after"], c["alts"])
            kcs = c["classes"]
            if iplan_s != g:
                if not (ok and kcs):
                    violate(kind="correspondence", layer="L1-glue", function="from_line after do_expansion", input=inp, model=g,
                            impl=iplan_s, failing_input=not ok,
                            note="the planner differs from Model/Redirect.v plan_tokens on the implementation's own expanded tokens")
                    continue
            agree = (o == m)
            if ok:
                if kcs:
                    stats["accepted:" + "+".join(sorted(kcs))] = stats.get("accepted:" + "+".join(sorted(kcs)), 0) + 1
                elif not agree:
                    violate(kind="correspondence", layer="L1-full", function="CommandLine::from_line", input=inp, model=m, impl=o,
                            failing_input=False, note="from_line differs from Model/FullPlan.v plan (tokenizer + expansions + planner)")
                continue
            # the property's oracle fails on the implementation
            key = "+".join(sorted(kcs)) or "none"
            stats["fail:" + key] = stats.get("fail:" + key, 0) + 1
            if not kcs:
                violate(kind="oracle", layer="L1", input=inp, expected=c.get("expect_plan") or "one foreground command, no redirection, "
                        "words = %r + %r + %r" % (c["before"], c["alts"], c["after"]), observed=iplan_s, failing_input=True,
                        note="text produced by an expansion was re-read as shell syntax (or lost) outside every known-finding class")
            elif not all(k in known for k in kcs):
                violate(kind="oracle", layer="L1", input=inp, observed=iplan_s, failing_input=True,
                        note="class %s is not listed in known_findings.txt" % key)
            elif not agree:
                violate(kind="correspondence", layer="L1-full", function="CommandLine::from_line", input=inp, model=m, impl=o,
                        failing_input=True, note="inside known class %s the implementation neither satisfies the property nor does "
                                                 "what the faithful model predicts" % key)
            else:
                for k in kcs:
                    hit(k, "%s with %s -> %s" % (c["line"], [(a, b) for kk, a, b in c["ents"] if kk in "ESG"][:1], iplan_s[:110]))
        res.extra["l1_outcomes"] = stats
        for k in (5, 1234 % len(cases), len(cases) - 7):
            res.sample({"layer": "L1", "line": cases[k]["line"], "value": cases[k]["value"], "impl": io[k], "model": mo[k]})

        # ---------- L2: the real binary
        hp = os.path.join(ctx.helpers, "hp")
        l2 = []
        listed_n = len(VALUES_OP)
        pick_var = [c for c in cases if c["kind"] == "var" and ("E", "A", c["value"]) in c["ents"]]
        must = [c for c in pick_var if c["value"] in VALUES_OP + ["x", "a b", "", "a\nb", "$X", "{", "'", '"', "$(echo hi)"]]
        rng.shuffle(must)
        rng.shuffle(pick_var)
        l2 += must[:(1200 if ctx.thorough else 170)] + pick_var[:(600 if ctx.thorough else 40)]
        others = [c for c in cases if c["kind"] in ("dollar", "bq") and not any(x in c["value"] for x in "'\"\n")]
        rng.shuffle(others)
        l2 += others[:(500 if ctx.thorough else 60)]
        al = [c for c in cases if c["kind"] == "alias"]
        rng.shuffle(al)
        # through the binary the alias is DEFINED by a script line: a backquote substitution inside the definition word would
        # run at definition time (the word show='..' is untagged), and a quote character in an output meets argv unquoting --
        # neither is the delivery path under test; both stay in L1, where the alias table is set directly
        al = [c for c in al if not (c.get("subst") and ("`" in c["body"] or any(x in c["value"] for x in "'\"\n")))]
        l2 += [c for c in al if c["value"] in VALUES_OP][:(700 if ctx.thorough else 90)] + [c for c in al if c["value"] not in VALUES_OP][:(300 if ctx.thorough else 30)]
        gl = [c for c in cases if c["kind"] == "glob"]
        rng.shuffle(gl)
        l2 += [c for c in gl if c.get("must")] + [c for c in gl if not c.get("must")][:(200 if ctx.thorough else 40)]
        from concurrent.futures import ThreadPoolExecutor

        def one(job):
            ix, c = job
            d = os.path.join(work, "w%d" % ix)
            os.makedirs(d)
            tr = os.path.join(work, "t%d" % ix)
            env = {"VERIF_TRACE": tr, "HOME": d, "XDG_CONFIG_HOME": d, "PATH": "/usr/bin:/bin", "X": "WRONG"}
            line = c["line"].replace(PROG, hp + " @x7", 1)
            expect_inner = []
            if c["kind"] == "var":
                env["A"] = c["value"]
            elif c["kind"] in ("dollar", "bq"):
                inner_old = c["ents"][0][1]
                inner_new = "%s @o '%s'" % (hp, c["value"])
                line = line.replace(inner_old, inner_new)
                expect_inner = [[hp, "@o", c["value"]]]
            elif c["kind"] == "glob":
                for n in c["pop"]:
                    os.makedirs(os.path.dirname(os.path.join(d, n)), exist_ok=True)
                    open(os.path.join(d, n), "w").close()
            argv = [ctx.cicada, "-c", line]
            if c["kind"] == "alias":
                # a script: the alias definition (body between single quotes), then the line that uses it
                if not c.get("subst"):
                    env["A"] = c["value"]
                script = os.path.join(work, "s%d.sh" % ix)
                line = "alias %s='%s'\n%s\n" % (ALIAS, c["body"].replace(PROG, hp + " @x7", 1), c["line"])
                open(script, "w").write(line)
                argv = [ctx.cicada, script]
            before = tree(d)
            try:
                pr = subprocess.run(argv, cwd=d, env=env, stdin=subprocess.DEVNULL,
                                    stdout=subprocess.PIPE, stderr=subprocess.PIPE, timeout=20)
                rc = pr.returncode
            except subprocess.TimeoutExpired:
                rc = "TIMEOUT"
            recs = []
            if os.path.exists(tr):
                for l in open(tr):
                    kv = dict(f.split("=", 1) for f in l.rstrip("\n").split("\t") if "=" in f)
                    recs.append([C.dec(a) for a in kv.get("argv", "").split(",")])
            after = tree(d)
            return line, rc, recs, before, after, expect_inner

        with ThreadPoolExecutor(max_workers=C.NCPU) as ex:
            outs = list(ex.map(one, list(enumerate(l2))))
        res.count("L2_cicada_c", len(l2))
        stats2 = {}
        for c, (line, rc, recs, before, after, expect_inner) in zip(l2, outs):
            alts = c["alts"]
            outer = recs[len(expect_inner):]
            ok = rc == 7 and before == after and recs[:len(expect_inner)] == expect_inner and len(outer) == 1
            if ok:
                words = outer[0][2:]
                ok = outer[0][:2] == [hp, "@x7"]
                if alts is None:
                    ok = ok and words[:len(c["before"])] == c["before"] and (not c["after"] or words[-len(c["after"]):] == c["after"])
                else:
                    ok = ok and any(words == c["before"] + a + c["after"] for a in alts)
            if c["kind"] == "var" and subst_classes(c["text"]) and alts is None:
                # an unquoted value with substitution syntax: the helper must still have run exactly once
                ok = ok and len(recs) == 1
            if ok:
                continue
            kcs = c["classes"]
            key = "+".join(sorted(kcs)) or "none"
            stats2["fail:" + key] = stats2.get("fail:" + key, 0) + 1
            obs = {"status": rc, "helper_runs": recs, "files_before": before, "files_after": after}
            inp = {"line": line, "env": {"A": c["value"]} if c["kind"] in ("var", "alias") and not c.get("subst") else {}, "files": c.get("pop", [])}
            if not kcs:
                violate(kind="oracle", layer="L2", input=inp, observed=obs, failing_input=True,
                        expected="status 7, one run of the helper with words %r + %r + %r, no file created" % (c["before"], alts, c["after"]),
                        note="text produced by an expansion changed what was executed (pipe / background / redirection / extra command)")
            elif not all(k in known for k in kcs):
                violate(kind="oracle", layer="L2", input=inp, observed=obs, failing_input=True,
                        note="class %s is not listed in known_findings.txt" % key)
            else:
                for k in kcs:
                    hit(k, "%s A=%r -> %s" % (line[len(hp) - 2:], c["value"], str(obs)[:100]))
        res.extra["l2_outcomes"] = stats2
        res.sample({"layer": "L2", "input": outs[0][0], "status": outs[0][1], "helper_runs": outs[0][2]})

        # ---------- L2-mixed: a double-quoted value next to a genuine operator; reference = the same line with a harmless value
        import time

        def run_mixed(job):
            ix, name, tpl, arg, v = job
            d = os.path.join(work, "m%d" % ix)
            os.makedirs(d)
            open(os.path.join(d, "f"), "w").write("hello\n")
            tr = os.path.join(work, "mt%d" % ix)
            env = {"VERIF_TRACE": tr, "HOME": d, "XDG_CONFIG_HOME": d, "PATH": "/usr/bin:/bin", "A": v}
            line = tpl.replace("{HP}", hp).replace("{V}", arg)
            try:
                pr = subprocess.run([ctx.cicada, "-c", line], cwd=d, env=env, stdin=subprocess.DEVNULL,
                                    stdout=subprocess.PIPE, stderr=subprocess.PIPE, timeout=20)
                rc, out = pr.returncode, pr.stdout
            except subprocess.TimeoutExpired:
                rc, out = "TIMEOUT", b""
            want = line.count(hp)
            for _ in range(60):      # a background helper may still be starting
                if os.path.exists(tr) and len(open(tr).read().split("\n")) - 1 >= want:
                    break
                if name != "bg":
                    break
                time.sleep(0.05)
            recs = []
            if os.path.exists(tr):
                for l in open(tr):
                    kv = dict(f.split("=", 1) for f in l.rstrip("\n").split("\t") if "=" in f)
                    recs.append(([C.dec(a) for a in kv.get("argv", "").split(",")], kv.get("stdin", "")))
            files = {n: open(os.path.join(d, n), "rb").read() for n in sorted(os.listdir(d))}
            return line, (rc, out, recs, files)

        mjobs = []
        mvals = MIXVALS if ctx.thorough else ["<", "<<<", ">", ">>", "|", "&", "2>&1", "a>b", ";x", "#c", "a b"]
        for name, tpl in MIX_L2:
            for arg, tag, pre, post in (mixed_specs() if ctx.thorough else mixed_specs()[:1]):
                mjobs.append((len(mjobs), name, tpl, arg, BASEVAL))
                for v in mvals:
                    mjobs.append((len(mjobs), name, tpl, arg, v))
        with ThreadPoolExecutor(max_workers=C.NCPU) as ex:
            mouts = list(ex.map(run_mixed, mjobs))
        res.count("L2_mixed_cicada_c", len(mjobs))
        base = {}
        for (ix, name, tpl, arg, v), (line, obs) in zip(mjobs, mouts):
            if v == BASEVAL:
                base[(name, arg)] = obs
        for (ix, name, tpl, arg, v), (line, obs) in zip(mjobs, mouts):
            if v == BASEVAL:
                rc0, _, recs0, _ = obs
                good = rc0 in (0, 3, 7) and len(recs0) == line.count(hp)
                if not good:
                    violate(kind="oracle", layer="L2-mixed", input={"line": line, "env": {"A": v}}, observed=str(obs)[:300],
                            failing_input=True, note="the reference run (harmless value) of a line with a genuine operator did not run its helpers")
                continue
            brc, bout, brecs, bfiles = base[(name, arg)]
            want = (brc, bout, [([a.replace(BASEVAL, v) for a in argv], st) for argv, st in brecs], bfiles)
            res.nontrivial("mixed:%s:%s" % (name, v))
            if obs != want:
                violate(kind="oracle", layer="L2-mixed", input={"line": line, "env": {"A": v}, "files": {"f": "hello\n"}},
                        expected="as with a harmless value: status %r, helper runs %r, files %r" % (want[0], want[2], sorted(want[3])),
                        observed="status %r, helper runs %r, files %r" % (obs[0], obs[2], sorted(obs[3])), failing_input=True,
                        note="a double-quoted produced value changed how a genuine operator of the same line acts (or was not passed as one argument)")
    finally:
        flush()
        os.chdir(cwd0)
        shutil.rmtree(work, ignore_errors=True)


def gen(ctx=None):
    X.gen(ctx)
