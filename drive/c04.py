"""C04 -- redirections connect exactly the named descriptors to the named files.
Layers: L1 tokens_to_redirections / Command::from_tokens vs the extracted parser model (exhaustive short words);
L2 random commands with up to 4 redirections on helpers and builtins, first/middle/last position, targets
absent / present / unopenable, followed by sentinels (descriptor identity of 0/1/2 per stage against the POSIX
fold, status, shell unaffected); builtin path: where the text of a builtin lands; L3 strace."""
import os, re, shutil, tempfile
import common as C
import fdslib as F
import fds_run as R
import c04r_l1

EXTRACT = ["FDS", "C04R"]
BINS = ["c04r"]
NEEDS_CICADA = True
ALLOWED_AXIOMS = []
PINNED = ["C04_full", "C04_holds", "C04_sinks", "C04_builtin_sinks", "C04_builtin_probe",  "C04_unopenable", "C04_herestring_payload", "C04_parse", "C04_parse_from", "C04_parse_from_attached", "C04_shell_unaffected"]
TRUSTED = R.TRUSTED
ASSUMES = R.ASSUMES + ["file contents: create/truncate/append are observed on the real binary (L2), the model records the open mode only"]
WEIGHTS = {"builtin": 0.15, "notfound": 0.03, "here": 0.12, "from": 0.15, "redir": 0.9, "maxredir": 4, "capture": 0.1,
           "unopenable": 0.15}


def builtin_sinks(ctx, res):
    """where does the text of a builtin that is alone on its line land, vs the model of _get_std_fds and vs POSIX"""
    known = R.known_classes("C04")
    rng = ctx.rng
    forms = ["1t%d", "1a%d", "2t%d", "2a%d", "2&1", "1&2"]
    cases = []
    for _ in range(120 if ctx.thorough else 40):
        k = rng.randint(1, 3)
        rs, p = [], 4
        for _ in range(k):
            f = rng.choice(forms)
            if "%d" in f:
                f = f % p
                p += 1
            rs.append(f)
        cases.append((rs, rng.choice(["out", "err"])))
    cases += [(["2&1"], "err"), (["1t4", "2&1"], "err"), (["1&2"], "out"), (["2t4", "1&2"], "out")]
    bad = 0
    for rs, which in cases:
        b = "alias" if which == "out" else "cd /no_such_dir_zq"
        marker = b"alias zq=" if which == "out" else b"no_such_dir_zq"
        st = F.mk_stage("B", redirs=rs, prints="o" if which == "out" else "e", builtin=b)
        step = {"stages": [st], "capture": False, "unop": set()}
        mo = F.parse_model(C.run_model(ctx.model["FDS"], C.write_cases("c04b_%d.txt" % os.getpid(), [F.step_case(step, False, "0,1,2")]))[0])
        mo3 = F.parse_model(C.run_model(ctx.model["FDS"], C.write_cases("c04b3_%d.txt" % os.getpid(), [F.step_case(step, "1111110", "0,1,2")]))[0])
        work = tempfile.mkdtemp(prefix="c04b_")
        try:
            F.setup_work(work, ())
            line = "alias zq=1 ; " + F.render_step(step, "hp", None, "B")
            rc, recs = F.run_real(ctx.cicada, line, work)
            where = set()
            for n in os.listdir(work):
                if re.match(r"^(f\d+|out.txt|err.txt)$", n) and marker in open(os.path.join(work, n), "rb").read():
                    where.add({"out.txt": "inh1", "err.txt": "inh2"}.get(n, n))
        finally:
            shutil.rmtree(work, ignore_errors=True)
        res.count("L2_builtin_sinks", 1)
        res.nontrivial("c04b:%s:%s" % (",".join(rs), which))
        msink = mo["sinks"][0].split(".")[0] if mo["sinks"] else "none"
        psink = mo["posix"][0]["sinks"][1 if which == "out" else 2].split(".")[0]
        if where != {psink}:
            # the property's oracle first: the text must land where the POSIX fold of the list says
            bad += 1
            if bad <= 2:
                res.violate(kind="oracle", layer="L2", input=line, expected="text on " + psink, observed=sorted(where),
                            model=msink, failing_input=True,
                            note="the output of a builtin that is alone on its line does not follow its redirections left to right")
        elif msink != psink:
            bad += 1
            if bad <= 2:
                res.violate(kind="correspondence", layer="L2", input=line, model=msink, observed=sorted(where), failing_input=False,
                            note="the model of _get_std_fds disagrees with the implementation (which meets the oracle)")


def herestring_payload_runs(ctx, res):
    """`<<< word` delivers word + newline for every word, the EMPTY one included, in the three spellings of an empty word, on a
    lone command, on the first / a later stage of a pipeline, and on the builtin `read`."""
    hp = os.path.join(ctx.helpers, "hp")
    words = [('""', ""), ("''", ""), ("$EMPTY_ZQ", ""), ("a", "a"), ("'a b'", "a b"), ('"x"', "x")]
    shapes = [("lone", "%s @r A <<< %%s" % hp), ("last", "%s @ X | %s @r A <<< %%s" % (hp, hp)),
              ("first", "%s @r A <<< %%s | %s @r B" % (hp, hp)), ("middle", "%s @ X | %s @r A <<< %%s | %s @r B" % (hp, hp, hp))]
    bad = 0
    for spelled, word in words:
        exp = "%d:%s" % (len(word) + 1, F.fnv((word + "\n").encode()))
        for name, tmpl in shapes + [("read", "read zq_var <<< %s")]:
            work = tempfile.mkdtemp(prefix="c04h_")
            try:
                F.setup_work(work, ())
                line = "%s ; %s @x$? S.0" % (tmpl % spelled, hp)
                rc, recs = F.run_real(ctx.cicada, line, work)
            finally:
                shutil.rmtree(work, ignore_errors=True)
            res.count("L2_herestring_payload", 1)
            res.nontrivial("c04h:%s:%s" % (name, spelled))
            probs = []
            if name == "read":
                got = recs.get("S.0", {}).get("argv", [None, None])[1]
                if got != "@x0":
                    probs.append("`read` on the here-string ended with status %s (a line, even an empty one, ends in a newline: 0)" % got)
            else:
                got = recs.get("A", {}).get("stdin")
                if got != exp:
                    probs.append("the command received %s on stdin, the word and a newline are %s" % (got, exp))
            if probs:
                bad += 1
                if bad <= 3:
                    res.violate(kind="oracle", layer="L2", input=(tmpl % spelled).replace(hp, "hp"), word=word, observed=probs,
                                failing_input=True, note="`<<<` does not supply the word followed by a newline")


def run(ctx, res):
    res.rule = ("L1: redirection parser on every word <= 4/5 chars over {a 1 2 3 > & U+0661} and random token lists; every "
                "spelling of the property through the real tokenizer; L2: random commands with <= 4 redirections, all positions, "
                "targets absent/present/unopenable, sentinel afterwards; builtin text placement; L3 strace")
    c04r_l1.run_l1(ctx, res)
    builtin_sinks(ctx, res)
    herestring_payload_runs(ctx, res)
    replays = [[R.PRELUDE()] + R.REPLAYS[c]() for c in ("capture-with-redirect", "captured-builtin-last-stage")] + [[R.PRELUDE(), R.S([R.E(0), R.E(1, True, frm="h")])]]
    R.run_sequences(ctx, res, "C04", replays, "replay")
    R.run_sequences(ctx, res, "C04", R.captured_builtin_seqs(ctx), "builtin")
    R.run_sequences(ctx, res, "C04", R.builtin_empty_text_seqs(ctx), "builtinempty")
    R.run_sequences(ctx, res, "C04", R.builtin_truncate_seqs(ctx), "builtintrunc")
    R.run_sequences(ctx, res, "C04", R.gen_sequences(ctx, 200 if ctx.thorough else 35, 3, WEIGHTS, maxn=4), "seq")
    R.run_sequences(ctx, res, "C04", R.l3_cases(ctx)[-4:], "l3", strace=True)
