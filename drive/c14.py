"""C14 -- scripts execute exactly the command sequence their block structure prescribes.

gen: tools/pest2coq.py regenerates coq/theories/Gen/LocustGrammar.v from the
current src/parsers/grammar.pest (so the theorems that compute on the grammar are
re-checked against it).
Layers:
 L1a parse_lines (pest) vs the generic PEG interpreter on the generated grammar:
     full pair trees with positions, on every sequence of <= k script lines over a
     keyword-heavy line alphabet, on rendered random ASTs and on mutated /
     truncated / unbalanced variants of them;
 L1b the ideal pair tree `tree_of_script ast` (what C14_interp is stated on) vs
     pest's tree of `render ast` (this carries the unproved part of C14_parse);
 L2  the real binary on the rendered script, helpers answering the commands and
     the scripted condition sequences: ordered trace + exit status vs the
     structured semantics `sem_block` of the same AST (extracted), and vs the
     transcribed interpreter on the model's own parse;
 NEG unbalanced variants through the real binary: must be diagnosed (syntax error on stderr, nothing run)."""
import itertools, os, shutil, subprocess, tempfile, json
import common as C

EXTRACT = ["C14"]
BINS = ["c14"]
NEEDS_CICADA = True
ALLOWED_AXIOMS = []
PINNED = ["C14_interp", "C14_interp_inv", "C14_cond_list", "C14_parse_full", "C14_parse_partial", "C14_parse_partial_from", "C14_parse_indented", "C14_parse_indented_from", "C14_parse_indented_extends", "C14_parse_semicolon", "C14_parse_full_nosemi", "C14_parse_total_partial", "C14_trim_cmd", "C14_anchored", "C14_unbalanced_diagnosed",
          "C14_anchor_sound", "C14_full",
          "C14_grammar_wf", "C14_ev_fuel_adequate", "C14_peg_fuel_adequate", "C14_parse_from_fuel_gap",
          "C14_parse_total_at_bound", "C14_parse_total_partial_gap",
          "C14_peg_fuel_above_bound", "C14_parse_never_fuel", "C14_parse_total"]
TRUSTED = [
    "Coq 8.16.1 kernel (coqc; coqchk in thorough); vm_compute in Example witnesses, in C14_unbalanced_refuted and in the "
    "instances C14_parse_instances; C14_anchored and C14_unbalanced_examples compute on the regenerated grammar",
    "Base/Peg.v: pest semantics written from pest_generator-2.8.0/generator.rs and pest-2.8.0/parser_state.rs (implicit "
    "WHITESPACE, atomicity, EOI pair); pest's optimizer assumed semantics-preserving; tied by L1a",
    "tools/pest2coq.py (grammar.pest -> Gen/LocustGrammar.v), run on every check",
    "hand transcription of scripting.rs run_lines/run_exp/run_exp_if/run_exp_test_br/run_exp_for/run_exp_while/get_for_* "
    "(Model/Script.v), tied by L2",
    "oracles: run_line = expand_args + run_command_line of one line (statuses of the pipelines run) -- in the checks it is "
    "the extracted C03 model (Model/ListExec.v via Model/CondLine.v run_line_of) over a per-pipeline helper oracle, so "
    "condition lines that are and-or lists are decided by the last EXECUTED pipeline (C14_cond_list); for_words = the word "
    "list of a `for`, set_var = set_env; their behaviour for helper commands is assumed and compared with the binary in L2",
    "extraction: ExtrOcamlBasic only; OCaml 4.13.1; ocaml/c14/drv.ml (codec, AST reader, helper oracle)",
    "harness/src/bin/c14.rs, helpers/hp.c, helpers/seq.c, drive/c14.py",
]
ASSUMES = [
    "C14_interp assumes the set -e flag constant during the run; C14_interp_inv replaces that by an invariant of the state "
    "preserved by every oracle step (flag on once on: C15_sete_combined); the enclosing bodies of the body in which the flag "
    "is switched on are not described by one equation (C15_sete_rest_of_body covers the rest of that body)",
    "the parser-correctness statement C14_parse_full is PROVED (unbounded, any nesting depth, for all sufficiently large "
    "fuel) for the whole syntax-tree language -- command lines, if with any number of else-if arms and optional else, for, "
    "while -- with any indentation (spaces / tabs before every statement line, arm keyword and closing keyword), blank lines, "
    "both head spellings (newline and `; then` / `; do`) and command lines exactly as pest accepts them (C14_parse_indented, "
    "C14_parse_semicolon, fragI_block); C14_parse_full_nosemi: every wfp_block script without `;` inside a condition / word "
    "list is parsed to its ideal tree or the computed fuel runs out. Still carried only by L1b / instances: `;` inside a "
    "condition or word list, adequacy of peg_fuel; outside the AST altogether (L1a only): trailing blanks before a newline, "
    "CR / CRLF, a last line without final newline",
    "the pair tree carries trim(as_str); the code reads trim_cmd(as_str) (d2f4d24): equal unless the trimmed text ends in "
    "a backslash (C14_trim_cmd); generated scripts hold no backslash",
    "while loops: the model bounds the iterations of one loop by n (OutOfFuel beyond); generated condition sequences end",
]

LINE_ALPHA = ["echo a\n", "if t\n", "fi\n", "else\n", "done\n", "for i in 1\n", "while t\n", "else if t\n", "\n",
              "  ", "fi", "if t; then\n", "while t ;do\n", "echo b", "done", "\r\n", " fi \n", "if  t;then\n"]


# ---------------------------------------------------------------- AST generation
def tok(s):
    return "=" + C.enc(s).replace(" ", "%20")


class Gen:
    def __init__(self, rng, hp, seq):
        self.rng, self.hp, self.seq = rng, hp, seq
        self.k = 0
        self.nodes = 0

    def fresh(self, p):
        self.k += 1
        return "%s%d" % (p, self.k)

    def ind(self):
        return self.rng.choice(["", "", "  ", "\t", "    ", " \t "])

    def cmd_line(self, scope):
        st = self.rng.choice([0, 0, 0, 1, 2, 7])
        l = "%s @x%d %s" % (self.hp, st, self.fresh("m"))
        if scope and self.rng.random() < 0.5:
            l += " $" + self.rng.choice(scope)
        return l

    def atom(self, in_loop, st=None):
        """one pipeline of a condition: hp with a fixed status, or (in loops) seq with a status sequence"""
        if st is None and in_loop and self.rng.random() < 0.35:
            n = self.rng.randint(1, 4)
            return "%s %s %s" % (self.seq, self.fresh("k"), ",".join(str(self.rng.choice([0, 1, 0, 3])) for _ in range(n)))
        if st is None:
            st = self.rng.choice([0, 1, 0, 2])
        return "%s @x%d %s" % (self.hp, st, self.fresh("c"))

    def cond(self, in_loop):
        """condition line of an if / else-if head: a single pipeline or an and-or list (`||` `&&` `;`) of up to three,
        every failure pattern: the line's status is that of its last EXECUTED pipeline"""
        r = self.rng.random()
        if r < 0.35:
            return self.atom(in_loop)
        k = 2 if r < 0.75 else 3
        parts = [self.atom(in_loop)]
        for _ in range(k - 1):
            parts.append(self.rng.choice([" || ", " && ", " ; ", " || ", " && "]))
            parts.append(self.atom(in_loop))
        return "".join(parts)

    def wcond(self):
        """condition line of a while head; the scripted sequence S ends non-zero, and every shape makes the line's
        status non-zero once S is: the loop ends"""
        n = self.rng.randint(0, 3)
        S = "%s %s %s" % (self.seq, self.fresh("k"), ",".join(["0"] * n + [str(self.rng.choice([1, 2, 255]))]))
        r = self.rng.random()
        if r < 0.35:
            return S
        if r < 0.5:
            return "%s || %s" % (self.atom(False, self.rng.choice([1, 2])), S)          # a failing first pipeline, then S decides
        if r < 0.65:
            return "%s ; %s" % (self.atom(False, self.rng.choice([0, 1, 3])), S)        # S is the last executed
        if r < 0.8:
            return "%s && %s" % (S, self.atom(False, 0))                                 # S fails: && skipped, status S
        if r < 0.9:
            return "%s || %s && %s" % (self.atom(False, 1), S, self.atom(False, 0))
        return "%s && %s" % (self.atom(False, 0), S)

    def block(self, depth, in_loop, scope, budget):
        """returns wire string of a block with 1..4 statements"""
        out = []
        n = self.rng.randint(1, 4)
        for _ in range(n):
            if self.nodes >= budget:
                break
            out.append(self.stmt(depth, in_loop, scope, budget))
        if not any(s[0] in "cbnifw" for s in out):   # a body needs at least one non-blank line
            self.nodes += 1
            out.append("c %s %s" % (tok(self.ind()), tok(self.cmd_line(scope))))
        return "[ " + " ".join(out) + " ]"

    def stmt(self, depth, in_loop, scope, budget):
        r = self.rng.random()
        self.nodes += 1
        if depth <= 1 or r < 0.35:
            if r < 0.04:
                return "k %s" % tok(self.rng.choice(["", " ", "\t", "  "]))
            if (in_loop and r < 0.16) or r < 0.06:
                return "%s %s" % (self.rng.choice("bn"), tok(self.ind()))
            return "c %s %s" % (tok(self.ind()), tok(self.cmd_line(scope)))
        sp = self.rng.choice("01")
        if r < 0.65:
            s = "i %s %s %s %s" % (tok(self.ind()), sp, tok(self.cond(in_loop)), self.block(depth - 1, in_loop, scope, budget))
            for _ in range(self.rng.randint(0, 3)):
                if self.rng.random() < 0.6:
                    s += " l %s %s %s %s" % (tok(self.ind()), self.rng.choice("01"), tok(self.cond(in_loop)),
                                             self.block(depth - 1, in_loop, scope, budget))
            if self.rng.random() < 0.5:
                s += " e %s %s %s" % (tok(self.ind()), self.block(depth - 1, in_loop, scope, budget), tok(self.ind()))
            else:
                s += " x %s" % tok(self.ind())
            return s
        if r < 0.85:
            var = self.rng.choice(["v", "_x", "Ab_2", "i"]) + str(depth)
            nw = self.rng.randint(0, 4)
            words = " ".join(self.rng.choice(["a", "b2", "c-d", "7", "x_y"]) for _ in range(nw)) if nw else "$NOPE"
            return "f %s %s %s %s %s" % (tok(self.ind()), sp, tok(var), tok(words),
                                         self.block(depth - 1, True, scope + [var], budget))
        return "w %s %s %s %s" % (tok(self.ind()), sp, tok(self.wcond()), self.block(depth - 1, True, scope, budget))


def gen_asts(ctx, hp, seq, count):
    out = []
    for _ in range(count):
        g = Gen(ctx.rng, hp, seq)
        g.nodes = 0
        out.append(g.block(4, False, [], 30))
    return out


def mutate(rng, text):
    lines = text.split("\n")
    kind = rng.randint(0, 6)
    if kind == 0 and len(lines) > 1:       # drop a line
        i = rng.randrange(len(lines) - 1)
        return "\n".join(lines[:i] + lines[i + 1:])
    if kind == 1:                          # truncate
        return text[:rng.randrange(len(text) + 1)]
    if kind == 2:                          # stray keyword line
        i = rng.randrange(len(lines))
        return "\n".join(lines[:i] + [rng.choice(["fi", "done", "else", "  fi", "if x", "else if y; then", "for z in 1; do", "while q"])] + lines[i:])
    if kind == 3:                          # no final newline
        return text.rstrip("\n")
    if kind == 4:                          # CRLF
        return text.replace("\n", "\r\n", rng.randint(1, 3))
    if kind == 5:                          # trailing blanks before a newline, blanks around ; then
        return text.replace("\n", " \t\n", rng.randint(1, 3)).replace("; then", " ;then ", 1).replace("; do", ";  do", 1)
    i = rng.randrange(len(text) + 1)       # insert a non-ASCII char
    return text[:i] + rng.choice(["é", "中", " "]) + text[i:]


def unbalance(rng, text):
    lines = text.split("\n")
    closers = [i for i, l in enumerate(lines) if l.strip() in ("fi", "done")]
    if closers and rng.random() < 0.6:
        i = rng.choice(closers)
        return "\n".join(lines[:i] + lines[i + 1:])
    i = rng.randrange(len(lines))
    return "\n".join(lines[:i] + [rng.choice(["fi", "done"])] + lines[i:])


# ---------------------------------------------------------------- running the binary
def run_script(cicada, text, workdir, timeout=60, args=()):
    r_ = run_script1(cicada, text, workdir, timeout, args)
    if r_[0] == "TIMEOUT":   # a loaded machine, not a verdict: once more, alone-ish and with a generous limit
        for fn in os.listdir(workdir):
            os.remove(os.path.join(workdir, fn))
        r_ = run_script1(cicada, text, workdir, 600, args)
    return r_


def run_script1(cicada, text, workdir, timeout, args=()):
    env = {"VERIF_TRACE": os.path.join(workdir, "trace"), "HOME": workdir, "XDG_CONFIG_HOME": workdir,
           "PATH": "/usr/bin:/bin", "LANG": "C.UTF-8"}
    sp = os.path.join(workdir, "s.sh")
    with open(sp, "w") as f:
        f.write(text)
    try:
        p = subprocess.run([cicada, sp] + list(args), cwd=workdir, env=env, stdin=subprocess.DEVNULL,
                           stdout=subprocess.PIPE, stderr=subprocess.PIPE, timeout=timeout)
        rc, out, err = p.returncode, p.stdout.decode("utf-8", "replace"), p.stderr.decode("utf-8", "replace")
    except subprocess.TimeoutExpired:
        rc, out, err = "TIMEOUT", "", ""
    log = []
    tp = env["VERIF_TRACE"]
    if os.path.exists(tp):
        for l in open(tp):
            kv = dict(f.split("=", 1) for f in l.rstrip("\n").split("\t") if "=" in f)
            a = [C.dec(x) for x in kv.get("argv", "").split(",")]
            log.append(os.path.basename(a[0]) + ":" + ",".join(a[1:]))
    return rc, log, out, err


def expected_of(model_line):
    """model outcome line -> (log list, rc) or None"""
    if not model_line.startswith("log=["):
        return None
    body, rest = model_line[5:].split("] crs=[", 1)
    crs = rest.split("]", 1)[0]
    log = body.split(";") if body else []
    rc = int(crs.split(",")[-1]) if crs else 0
    return log, rc


def gen(ctx):
    import sys
    sys.path.insert(0, os.path.join(C.VERIF, "tools"))
    import pest2coq
    text = pest2coq.translate(os.path.join(C.REPO, "src/parsers/grammar.pest"), "L")
    pest2coq.write_if_changed(os.path.join(C.COQ, "theories/Gen/LocustGrammar.v"), text)


def run(ctx, res):
    rng = ctx.rng
    hp = os.path.join(ctx.helpers, "hp")
    seq = os.path.join(ctx.helpers, "seq")
    known = {k["class"]: k for k in C.known_findings("C14")}
    WFUEL = "60"
    n_ast = 1500 if ctx.thorough else 220
    maxk = 4 if ctx.thorough else 3
    res.rule = ("L1a: pest pair trees (rule, char span, children) of parse_lines vs the PEG interpreter on the regenerated grammar for "
                "every sequence of <= %d lines over %d keyword-heavy line fragments, the renderings of %d random ASTs and 3 mutants "
                "of each (dropped line, truncation, stray keyword, CRLF, no final newline, non-ASCII); L1b: tree_of_script vs pest's "
                "trimmed tree for each rendering; L2: each AST (depth <= 4, <= 30 nodes; if with 0..3 else-if arms and optional else, "
                "for over 0..4 words, while with a scripted status sequence, condition lines that are and-or lists (`||` `&&` `;`, up to three pipelines, every "
                "failure pattern, in if / else-if / while heads, guarding break / continue), break/continue inside and outside loops, both spellings, "
                "varied indentation, blank lines) run by the real binary, ordered helper trace and exit status vs sem_block; "
                "non-trivial = distinct trace with a skipped branch or a loop; NEG: unbalanced variants through the binary"
                % (maxk, len(LINE_ALPHA), n_ast))
    asts = gen_asts(ctx, hp, seq, n_ast)
    if ctx.replay:
        r = json.load(open(ctx.replay))
        if "ast" in r:
            asts = [r["ast"]] + asts[:5]
    # ---------------- model: render + ideal tree + sem
    p_ast = C.write_cases("c14_ast.txt", [C.case("ast", a) for a in asts])
    m_ast = C.run_model(ctx.model["C14"], p_ast)
    texts, ideal = [], []
    for a, l in zip(asts, m_ast):
        if not l.startswith("wf=1 text=\""):
            raise C.Infra("generator produced an AST the model rejects: %s -> %s" % (a, l[:200]))
        t, tr = l[len("wf=1 text=\""):].split("\" tree=", 1)
        texts.append(C.dec(t))
        ideal.append(tr)
    p_sem = C.write_cases("c14_sem.txt", [C.case("sem", a, WFUEL) for a in asts])
    m_sem = C.run_model(ctx.model["C14"], p_sem)
    p_run = C.write_cases("c14_run.txt", [C.case("run", t, WFUEL) for t in texts])
    m_run = C.run_model(ctx.model["C14"], p_run)
    bad = 0
    for a, s, r in zip(asts, m_sem, m_run):
        if s != r:
            bad += 1
            if bad <= 2:
                res.violate(kind="model-self-check", layer="L2", ast=a, sem=s, run=r, failing_input=False,
                            note="transcribed interpreter on the model's parse of render(ast) differs from sem_block(ast): "
                                 "an instance of C14_parse/C14_interp fails on the regenerated grammar")
    # ---------------- L1a
    cases = []
    for k in range(0, maxk + 1):
        for t in itertools.product(LINE_ALPHA, repeat=k):
            cases.append("".join(t))
    for t in texts:
        cases.append(t)
        for _ in range(3):
            cases.append(mutate(rng, t))
    corpus = os.path.join(C.VERIF, "corpus", "C14")
    if os.path.isdir(corpus):
        for fn in sorted(os.listdir(corpus)):
            cases.append(open(os.path.join(corpus, fn)).read())
    tests_dir = os.path.join(C.REPO, "tests", "locusts")
    if os.path.isdir(tests_dir):
        for fn in sorted(os.listdir(tests_dir)):
            try:
                cases.append(open(os.path.join(tests_dir, fn)).read())
            except Exception:
                pass
    if ctx.replay and "input" in r and r.get("layer") == "L1a":
        cases.insert(0, r["input"])
    path = C.write_cases("c14_l1a.txt", [C.case("parse", s) for s in cases])
    mo = C.run_model(ctx.model["C14"], path)
    io = C.run_impl(ctx.bins["c14"], path, len(cases))
    res.count("L1a_parse_tree", len(cases))
    bad = 0
    for s, a, b in zip(cases, mo, io):
        if a.count("(") >= 4:
            res.nontrivial("l1a:" + a.split(" ", 2)[-1][:200] if len(a) < 400 else "l1a:" + str(hash(a)))
        if a != b:
            bad += 1
            if bad <= 3:
                res.violate(kind="correspondence", layer="L1a", function="parse_lines", input=s, model=a[:2000], impl=b[:2000],
                            failing_input=False,
                            note="pest's pair tree differs from the PEG model on the grammar regenerated from grammar.pest")
    res.sample({"layer": "L1a", "input": cases[len(cases) // 2], "model": mo[len(cases) // 2][:300], "impl": io[len(cases) // 2][:300]})
    # ---------------- L1b
    path = C.write_cases("c14_l1b.txt", [C.case("ptree", t) for t in texts])
    io = C.run_impl(ctx.bins["c14"], path, len(texts))
    res.count("L1b_ideal_tree", len(texts))
    bad = 0

    def strip_eoi(s):
        return s.replace(' (EOI "")', "")
    for a, t, tr, b in zip(asts, texts, ideal, io):
        if strip_eoi(b) != "OK " + tr:
            bad += 1
            if bad <= 3:
                res.violate(kind="correspondence", layer="L1b", function="parse_lines vs tree_of_script", ast=a, input=t,
                            model=tr[:2000], impl=b[:2000], failing_input=False,
                            note="pest does not parse the rendering of a well-formed AST to the ideal tree (C14_parse_full instance)")
    # ---------------- L2
    work = tempfile.mkdtemp(prefix="c14_")
    try:
        from concurrent.futures import ThreadPoolExecutor

        def one(ix):
            d = os.path.join(work, "w%d" % ix)
            os.makedirs(d)
            r_ = run_script(ctx.cicada, texts[ix], d)
            shutil.rmtree(d, ignore_errors=True)
            return r_
        with ThreadPoolExecutor(max_workers=C.NCPU) as ex:
            outs = list(ex.map(one, range(len(texts))))
        res.count("L2_cicada_script_runs", len(texts))
        nviol = 0
        for ix, (rc, log, out, err) in enumerate(outs):
            exp = expected_of(m_sem[ix])
            if exp is None:
                raise C.Infra("sem gave no outcome for a generated AST: %s" % m_sem[ix])
            elog, erc = exp
            if len(set(elog)) < len(elog) or any(("c" in x or "k" in x) for x in elog):
                res.nontrivial("l2:" + ";".join(x.split("/")[-1] for x in elog)[:300])
            if (log, rc) != (elog, erc):
                nviol += 1
                if nviol <= 3:
                    res.violate(kind="oracle", layer="L2", entry="script", ast=asts[ix], input=texts[ix],
                                expected="trace=%r status=%r" % (elog, erc), observed="trace=%r status=%r" % (log, rc),
                                stderr=err[-400:], failing_input=True,
                                note="the real binary does not run the command sequence the structured semantics prescribe")
            if ix in (3, len(texts) - 1):
                res.sample({"layer": "L2", "input": texts[ix], "reference": m_sem[ix][:400], "impl": "trace=%r status=%r" % (log, rc)})
        # ---------------- L2s: fixed scripted texts (do not depend on the random stream); reference = the transcribed
        # interpreter on the model's parse with the helper oracle (run_lines)
        scripted = [
            # a condition that is an and-or list: status of the LAST executed pipeline
            "if {hp} @x1 a || {hp} @x0 b\n{hp} @x0 then\nelse\n{hp} @x0 else\nfi\nwhile {hp} @x1 w || {seq} kw 0,1\n{hp} @x0 body\ndone\n"
            "if {hp} @x0 a ; {hp} @x2 b\n{hp} @x0 then2\nelse if {hp} @x3 c && {hp} @x0 d || {hp} @x0 e\n{hp} @x0 elif2\nfi\n",
            # break / continue in the else arm (and in an arm after else-if) of an if inside a loop
            "for v in a b c\nif {hp} @x1 c1\n{hp} @x0 t\nelse\nbreak\nfi\n{hp} @x0 after $v\ndone\n"
            "for v in a b\nif {hp} @x1 c\n{hp} @x0 t\nelse if {hp} @x2 d\n{hp} @x0 u\nelse\ncontinue\nfi\n{hp} @x0 after2 $v\ndone\n"
            "while {seq} kk 0,0,1\nif {hp} @x1 c\n{hp} @x0 t\nelse\nif {hp} @x0 inner\nbreak\nfi\nfi\n{hp} @x0 after3\ndone\n",
            # both spellings on every head, else-if included
            "if {hp} @x1 c; then\n{hp} @x0 a\nelse if {hp} @x0 d; then\n{hp} @x0 b\nelse\n{hp} @x0 e\nfi\n"
            "for v in x y; do\n{hp} @x0 f $v\ndone\nwhile {seq} k2 0,1; do\n{hp} @x0 w\ndone\n"
            "if {hp} @x2 c\n{hp} @x0 a\nelse if {hp} @x1 d\n{hp} @x0 b\nelse if {hp} @x0 e; then\n{hp} @x0 cc\nfi\n",
            # a for list with a word that expands to nothing between others
            "for x in a $NOPE b\n{hp} @x0 m $x\ndone\nfor y in $NOPE\n{hp} @x0 never\ndone\n{hp} @x0 end\n",
        ]
        stexts = [t.replace("{hp}", hp).replace("{seq}", seq) for t in scripted]
        m_s = C.run_model(ctx.model["C14"], C.write_cases("c14_scripted.txt", [C.case("run", t, WFUEL) for t in stexts]))
        for ix, t in enumerate(stexts):
            d = os.path.join(work, "s%d" % ix)
            os.makedirs(d)
            rc, log, out, err = run_script(ctx.cicada, t, d)
            shutil.rmtree(d, ignore_errors=True)
            exp = expected_of(m_s[ix])
            if exp is None:
                # the grammar regenerated from grammar.pest rejects (or the interpreter panics on) a fixed well-formed text
                res.violate(kind="oracle", layer="L2s", entry="script", input=t, expected="a run of the script (it is well formed)",
                            observed="model: %s ; binary: trace=%r status=%r stderr=%s" % (m_s[ix][:80], log, rc, err[-200:]),
                            failing_input=True,
                            note="a fixed well-formed scripted text is not accepted by the script grammar as it is in the source tree")
                continue
            res.nontrivial("l2s:%d" % ix)
            if (log, rc) != exp:
                res.violate(kind="oracle", layer="L2s", entry="script", input=t, expected="trace=%r status=%r" % exp,
                            observed="trace=%r status=%r" % (log, rc), stderr=err[-300:], failing_input=True,
                            note="a fixed scripted text is not run as the transcribed interpreter / structured semantics prescribe")
        res.count("L2s_scripted_runs", len(stexts))
        # ---------------- NEG: unbalanced variants
        negs = []
        negs.append("echo start\nif true\necho x\necho after\n")      # the replay of the defect fixed in 44451af: must be diagnosed
        negs.append("echo one\nfi\necho two\n")
        negs.append("%s @x0 start\nif %s @x0 c\n%s @x0 x\n%s @x0 after\n" % (hp, hp, hp, hp))
        negs.append("%s @x0 one\nfi\n%s @x0 two\n" % (hp, hp))
        negs.append("%s @x0 s\nif %s @x0 c\n%s @x0 x\n" % (hp, hp, hp))                                  # the open if reaches the end of input
        negs.append("if %s @x1 c; then\n%s @x0 a\nelse\nif %s @x0 d\n%s @x0 b\n" % (hp, hp, hp, hp))     # two trailing fi missing
        n_fixed_negs = len(negs)
        for t in texts[: (200 if ctx.thorough else 40)]:
            # (a first line keeps an indented keyword off position 0, where pest tests !KW_LIST before the
            # implicit skip and would run the keyword line as a command -- its status is not the oracle's business)
            negs.append("%s @x0 start\n" % hp + unbalance(rng, t))
        p_neg = C.write_cases("c14_neg.txt", [C.case("parse", t) for t in negs])
        m_neg = C.run_model(ctx.model["C14"], p_neg)
        p_negr = C.write_cases("c14_negrun.txt", [C.case("run", t, WFUEL) for t in negs])
        m_negr = C.run_model(ctx.model["C14"], p_negr)

        def oneneg(ix):
            d = os.path.join(work, "n%d" % ix)
            os.makedirs(d)
            r_ = run_script(ctx.cicada, negs[ix], d)
            shutil.rmtree(d, ignore_errors=True)
            return r_
        with ThreadPoolExecutor(max_workers=C.NCPU) as ex:
            nouts = list(ex.map(oneneg, range(len(negs))))
        res.count("NEG_unbalanced_runs", len(negs))
        nviol = 0
        for ix, (rc, log, out, err) in enumerate(nouts):
            t = negs[ix]
            mp = m_neg[ix]
            diagnosed = "syntax error" in err and log == []
            nchars = len(t)
            balanced = mp.startswith("OK ") and int(mp.split(" ")[1]) == nchars
            if ix < n_fixed_negs:
                balanced = False          # unbalanced by construction: must be diagnosed whatever the regenerated grammar says
            if balanced:                 # still balanced after the mutation: a plain L2 case
                exp = expected_of(m_negr[ix])
                ok = exp is not None and (log, rc) == exp
            else:
                # the property's oracle: diagnosed, nothing run.  (The model agrees -- ERR -- as long as the
                # regenerated start rule is anchored; if it is not, C14_anchored fails as a proof obligation.)
                ok = diagnosed
                if ok:
                    res.nontrivial("neg:" + str(hash(t)))
            if not ok:
                nviol += 1
                if nviol <= 3:
                    res.violate(kind="oracle", layer="NEG", entry="script", input=t, model_parse=mp[:500], model_run=m_negr[ix][:500],
                                observed="trace=%r status=%r" % (log, rc), stderr=err[-400:], failing_input=True,
                                note="a script whose block keywords do not balance is not diagnosed as a syntax error "
                                     "(or runs part of it)")
    finally:
        shutil.rmtree(work, ignore_errors=True)
