"""C12 -- brace / range / tilde / glob expansion.
L1 (in-process, hooks) against the extracted model:
  a. expand_brace, brace_getitem (depth 0), brace_getgroup (depth 1) on every string up to length
     5/6 (+ sample of 6/7) over { a b { } , . 1 - } and strings with blank / quote / backslash;
  b. grammar-generated terms (depth <= 3, <= 4 alternatives, <= 3 groups, empty alternatives): the
     implementation's brace_getitem against the left-to-right product computed here AND by the
     extracted den_term;
  c. expand_brace_range over boundary operands, steps, affixes, several ranges per line;
  d. expand_home over homes (plain, with dollar) and tokens; e. expand_glob in prepared directories with
     the glob crate's raw answer (harness op globraw) as the model's oracle table, checked against
     Python's glob as the property's oracle; f. do_expansion on mixed lines (pass order).
L2: argv of helpers/hp through `cicada -c` in a prepared directory."""
import glob as pyglob
import itertools, os, re, shutil, subprocess, tempfile
import common as C
import expand_common as X

EXTRACT = ["C12"]
BINS = ["c12"]
NEEDS_CICADA = True
ALLOWED_AXIOMS = []
PINNED = ["C12_brace", "C12_brace_any_group", "C12_order", "C12_order_range", "C12_range", "C12_range_affixes", "C12_range_total",
          "C12_home", "C12_glob", "C12_glob_hidden_dir", "C12_pass_order_brace_glob"]
TRUSTED = [
    "Coq 8.16.1 kernel (coqc; coqchk in thorough); vm_compute only in concrete witnesses / non-vacuity examples",
    "hand transcription of need_expand_brace / brace_getitem / brace_getgroup / expand_brace / expand_brace_range / "
    "expand_home / expand_glob / do_expansion (coq/theories/Model/Expand.v), tied by differential execution",
    "tools/regex2coq.py for the gate patterns (need_expand_brace, needs_globbing, the range pattern's is_match); the "
    "range pattern's captures (find_range) and the tilde replace are hand-written first-match functions, literals pinned",
    "the glob crate is an oracle of the model (World.glob); that it returns the sorted matches is checked against "
    "Python's glob by layer L1e, not proved",
    "extraction: ExtrOcamlBasic only; OCaml 4.13.1; ocaml/c12/drv.ml; harness/src/expand_ops.rs; drive/c12.py",
]
ASSUMES = [
    "C12_brace / C12_brace_any_group: well-formed terms (plain characters are not { } , backslash); a group with a "
    "single alternative keeps its braces",
    "C12_range: all i32 operands; stated for range_list (the loop), the token-level parsing of the operands is "
    "covered by correspondence only",
    "C12_order: the pass does not take its early return (range operand that does not parse, glob pattern error)",
]

ALPHA = ["a", "b", "{", "}", ",", ".", "1", "-"]
I32MAX, I32MIN = 2147483647, -2147483648
X_TAGS = {v: k for k, v in X.TAGS.items()}


# ------------------------------------------------------------------ reference semantics (the property's oracle)
def gen_term(rng, depth, top=True):
    """tree: list of items; item = str (plain char) | list of alternatives (each a tree)"""
    items = []
    ngroups = 0
    for _ in range(rng.randint(0, 4 if top else 2)):
        if depth > 0 and ngroups < 3 and rng.random() < 0.4:
            alts = [gen_term(rng, depth - 1, False) if rng.random() < 0.85 else []
                    for _ in range(1 if rng.random() < 0.12 else rng.randint(2, 4))]
            items.append(alts)
            ngroups += 1
        else:
            items.append(rng.choice(["a", "b", "c", ".", "-", "1", "_", "é"]))
    return items


def render(t):
    return "".join(x if isinstance(x, str) else "{" + ",".join(render(a) for a in x) + "}" for x in t)


def den(t):
    out = [""]
    for x in t:
        if isinstance(x, str):
            out = [o + x for o in out]
        else:
            alts = [w for a in x for w in den(a)]
            if len(x) == 1:
                alts = ["{" + w + "}" for w in alts]   # a group with one alternative is not an expansion
            out = [o + w for o in out for w in alts]
    return out


def count_den(t):
    n = 1
    for x in t:
        if not isinstance(x, str):
            n *= sum(count_den(a) for a in x)
    return n


def all_multi(t):
    return all(isinstance(x, str) or (len(x) >= 2 and all(all_multi(a) for a in x)) for x in t)


def has_group(t):
    return any(not isinstance(x, str) for x in t)


def ref_getitem(s, depth=0):
    """brace expansion of an arbitrary string as the algorithm cicada ports intends it (the
    comma-less group keeps its braces AND consumes the closing one)"""
    out = [""]
    while s:
        c = s[0]
        if depth and c in ",}":
            return out, s
        if c == "{":
            x = ref_getgroup(s[1:], depth + 1)
            if x:
                out = [a + b for a in out for b in x[0]]
                s = x[1]
                continue
        if c == "\\" and len(s) > 1:
            s, c = s[1:], c + s[1]
        out = [a + c for a in out]
        s = s[1:]
    return out, s


def ref_getgroup(s, depth):
    out, comma = [], False
    while s:
        g, s = ref_getitem(s, depth)
        if not s:
            break
        out += g
        if s[0] == "}":
            if comma:
                return out, s[1:]
            return ["{" + a + "}" for a in out], s[1:]
        if s[0] == ",":
            comma, s = True, s[1:]
    return None


def ref_range(a, b, s):
    st = max(1, s)
    if a <= b:
        return list(range(a, b + 1, st))
    return list(range(a, b - 1, -st))


def qlist(l):
    return "[" + ",".join('"%s"' % C.enc(x) for x in l) + "]"


def toks_line(toks):
    return "[" + ",".join('("%s","%s")' % (C.enc(t), C.enc(s)) for t, s in toks) + "]"


def retag(s):
    return ('"' if " " in s else "", s)


def gen(ctx=None):
    """regenerates Gen/ShellRegexes.v from the regex literals of the current source (write-if-changed)"""
    X.gen(ctx)


def run(ctx, res):
    rng = ctx.rng
    known = {k["class"]: k for k in C.known_findings("C12")}
    nviol = [0]

    def violate(**kw):
        nviol[0] += 1
        if nviol[0] <= 4:
            res.violate(**kw)

    def known_or_violate(cls, ok_recorded, **kw):
        """inside a class: recorded behaviour -> KNOWN-FINDING; else violation"""
        if cls in known and ok_recorded:
            res.known(cls, "class=%s input=%s what=%s" % (cls, known[cls].get("input", ""), known[cls].get("what", "")))
        else:
            violate(**kw)

    n_ex = 6 if ctx.thorough else 5
    res.rule = ("L1a: every string up to length %d over %r (+ sampled longer / with blank, quotes, backslash) through "
                "expand_brace, brace_getitem, brace_getgroup; L1b: %d grammar-generated terms (depth <= 3); L1c: ranges "
                "over boundary operands; L1d-f: tilde, glob in prepared directories, do_expansion pass order; L2: argv "
                "through cicada -c; non-trivial = distinct inputs whose model output differs from the input"
                % (n_ex, ALPHA, 4000 if ctx.thorough else 1200))
    # ------------------------------------------------------------ L1a
    strs = [""]
    for n in range(1, n_ex + 1):
        strs += ["".join(t) for t in itertools.product(ALPHA, repeat=n)]
    frac = 0.25 if ctx.thorough else 0.08
    strs += ["".join(t) for t in itertools.product(ALPHA, repeat=n_ex + 1) if rng.random() < frac]
    for _ in range(6000 if ctx.thorough else 1500):
        strs.append("".join(rng.choice(ALPHA + ["{", ",", "}", " ", '"', "'", "\\", "\\,", "\\{", "$", "é"])
                            for _ in range(rng.randint(3, 12))))
    la = []
    for s in strs:
        la.append(C.case("eb", X.toks_field([("", "x"), ("", s), ('"', s), ("", "y")])))
        la.append(C.case("bgi", s, "0"))
        la.append(C.case("bgg", s, "1"))
    pa = C.write_cases("c12_a.txt", la)
    ma = C.run_model(ctx.model["C12"], pa)
    ia = C.run_impl(ctx.bins["c12"], pa, len(la), timeout=900)
    res.count("L1a_brace_strings", len(la))
    res.exhaustive = True
    for cs, a, b in zip(la, ma, ia):
        if a != b and cs.startswith("bgi") and "single_alternative_group" in known:
            s0 = C.dec(cs.split("\t")[1])
            o, r = ref_getitem(s0, 0)
            if b == "(%s,\"%s\")" % (qlist(o), C.enc(r)):
                res.extra["single_alternative_group_repaired_cases"] = res.extra.get("single_alternative_group_repaired_cases", 0) + 1
                continue
        if a != b and cs.startswith("bgg") and "single_alternative_group" in known:
            x = ref_getgroup(C.dec(cs.split("\t")[1]), 1)
            if b == ("None" if x is None else "Some(%s,\"%s\")" % (qlist(x[0]), C.enc(x[1]))):
                res.extra["single_alternative_group_repaired_cases"] = res.extra.get("single_alternative_group_repaired_cases", 0) + 1
                continue
        if a != b and cs.startswith("eb") and "single_alternative_group" in known:
            tk = [(X_TAGS[e[0]], e[1:]) for e in C.dec(cs.split("\t")[1]).split("\x1f")]
            if b == toks_line([tk[0]] + [retag(w) for w in ref_getitem(tk[1][1], 0)[0]] + tk[2:]):
                res.extra["single_alternative_group_repaired_cases"] = res.extra.get("single_alternative_group_repaired_cases", 0) + 1
                continue
        if a != b:
            violate(kind="correspondence", layer="L1a", input=cs, model=a, impl=b, failing_input=False,
                    note="brace expansion of the implementation differs from the model the C12 theorems are about")
        elif cs.startswith("bgi") and '","' in a:
            res.nontrivial("a:" + cs)
    # ------------------------------------------------------------ L1b
    terms = []
    for _ in range(4000 if ctx.thorough else 1200):
        t = gen_term(rng, 3)
        if has_group(t) and len(render(t)) <= 48 and count_den(t) <= 400:
            terms.append(t)
    lb = []
    for t in terms:
        lb.append(C.case("term", render(t)))
        lb.append(C.case("bgi", render(t), "0"))
        lb.append(C.case("eb", X.toks_field([("", "x"), ("", render(t)), ("'", render(t))])))
    pb = C.write_cases("c12_b.txt", lb)
    mb = C.run_model(ctx.model["C12"], pb)
    ib = C.run_impl(ctx.bins["c12"], pb, len(lb), timeout=600)
    res.count("L1b_grammar_terms", len(terms))
    for k, t in enumerate(terms):
        exp = den(t)
        mterm, mbgi, ibgi = mb[3 * k], mb[3 * k + 1], ib[3 * k + 1]
        meb, ieb = mb[3 * k + 2], ib[3 * k + 2]
        want_term = '"%s" %s wf=T' % (C.enc(render(t)), qlist(exp))
        want_bgi = "(%s,%s)" % (qlist(exp), '""')
        if all_multi(t) and mterm != want_term:
            violate(kind="oracle-self-check", input=render(t), model=mterm, python=want_term, failing_input=False,
                    note="extracted den_term / wf_term and the driver's product disagree")
        if ibgi != want_bgi:
            violate(kind="oracle", layer="L1b", input=render(t), expected=want_bgi, observed=ibgi, model=mbgi,
                    failing_input=True, note="brace expansion of a well-formed term is not the left-to-right product")
        elif mbgi != ibgi:
            violate(kind="correspondence", layer="L1b", input=render(t), model=mbgi, impl=ibgi, failing_input=False,
                    note="model and implementation disagree on a well-formed term")
        # through the gate (need_expand_brace) and the token replacement: every term has a group with a comma
        want_eb = toks_line([("", "x")] + [retag(w) for w in exp] + [("'", render(t))])
        if all_multi(t) or "," in render(t):
            if ieb != want_eb:
                violate(kind="oracle", layer="L1b", input=render(t), expected=want_eb, observed=ieb, model=meb,
                        failing_input=True, note="expand_brace on a line: the word is not replaced by the product, in place")
            elif meb != ieb:
                violate(kind="correspondence", layer="L1b", input=render(t), model=meb, impl=ieb, failing_input=False,
                        note="model and implementation disagree on expand_brace")
        res.nontrivial("b:" + render(t))
    res.sample({"layer": "L1b", "input": render(terms[0]), "reference": den(terms[0]), "impl": ib[1], "model": mb[1]})
    # single-alternative group: recorded finding
    for s, recorded in [("{a}{b,c}", '(["{a}}b","{a}}c"],"")')]:
        pc = C.write_cases("c12_k.txt", [C.case("bgi", s, "0")])
        m, i = C.run_model(ctx.model["C12"], pc)[0], C.run_impl(ctx.bins["c12"], pc, 1)[0]
        res.count("known_finding_replays", 1)
        if i != '(["{a}b","{a}c"],"")':
            known_or_violate("single_alternative_group", i == recorded and m == recorded, kind="oracle", layer="L1b",
                             input=s, expected='{a}b {a}c', observed=i, model=m, failing_input=True,
                             note="a group without a comma next to a real group")
    # ------------------------------------------------------------ L1c ranges
    ops = [I32MIN, I32MIN + 1, -11, -3, -1, 0, 1, 2, 3, 7, 10, 12, I32MAX - 1, I32MAX]
    steps = [None, 0, 1, 2, 3, 5, 100, I32MAX]
    rc = []
    for a in ops:
        for b in ops:
            for s in steps:
                st = max(1, s or 1)
                if abs(a - b) // st > 40:
                    continue
                rc.append((a, b, s, "", ""))
    for a, b, s in [(1, 3, None), (3, 1, 2), (-2, 2, None), (0, 9, 4)]:
        for pre, post in [("a", "b"), ("x", ""), ("", "y"), ("{", "}"), ("$", "")]:
            rc.append((a, b, s, pre, post))
    lc, meta = [], []
    for a, b, s, pre, post in rc:
        tok = "%s{%d..%d%s}%s" % (pre, a, b, "" if s is None else "..%d" % s, post)
        toks = [("", "echo"), ("", tok), ('"', tok), ("", "end")]
        lc.append(C.case("ebr", "1", X.toks_field(toks)))
        meta.append((a, b, s, pre, post, toks))
    odd = ["{1..2..}", "{01..03}", "{1..3}{5..6}", "{-0..2}", "{1..-1}", "{1..2..3..4}", "{1...3}", "{a..c}", "{1..}", "{..3}",
           "{+1..3}", "{1..3..-1}", "{١..٣}", "{1..99999999999}", "{1..3..99999999999}", "{-99999999999..1}"]
    for o in odd:
        toks = [("", "{5..6}"), ("", o), ("", "z")]
        lc.append(C.case("ebr", "1", X.toks_field(toks)))
        meta.append(None)
    pc = C.write_cases("c12_c.txt", lc)
    mc = C.run_model(ctx.model["C12"], pc)
    ic = C.run_impl(ctx.bins["c12"], pc, len(lc), timeout=600)
    res.count("L1c_ranges", len(lc))
    for cs, m, a, b in zip(lc, meta, mc, ic):
        if a != b and m is not None and a == "PANIC" and "range_i32_overflow" in known and not m[3] and not m[4] and \
                b == toks_line([m[5][0]] + [retag(str(v)) for v in ref_range(m[0], m[1], m[2] or 1)] + m[5][2:]):
            res.extra.setdefault("findings_no_longer_reproducing", []).append("range_i32_overflow")
            continue
        if a != b and m is None:
            violate(kind="correspondence", layer="L1c", input=cs, model=a, impl=b, failing_input=False,
                    note="expand_brace_range of the implementation differs from the model")
            continue
        if m is None:
            continue
        x, y, s, pre, post, toks = m
        exp = toks_line([toks[0]] + [retag(pre + str(v) + post) for v in ref_range(x, y, s or 1)] + toks[2:])
        if a != b:
            bad = b != exp
            violate(kind="oracle" if bad else "correspondence", layer="L1c", input=toks[1][1], expected=exp, observed=b, model=a,
                    failing_input=bad, note="expand_brace_range of the implementation differs from the model"
                    + (" and from the inclusive sequence with the text around the braces kept" if bad else ""))
            continue
        res.nontrivial("c:%s" % (m[:5],))
        if b == exp:
            continue
        st = max(1, s or 1)
        if b == "PANIC":
            near = (x <= y and y + st > I32MAX) or (x > y and y - st < I32MIN)
            known_or_violate("range_i32_overflow", near, kind="oracle", layer="L1c", input=toks[1][1], expected=exp,
                             observed=b, failing_input=True, note="range expansion panicked away from the i32 bounds")
        elif pre or post:
            rec = toks_line([toks[0]] + [retag(str(v)) for v in ref_range(x, y, s or 1)] + toks[2:])
            known_or_violate("range_affixes_dropped", b == rec, kind="oracle", layer="L1c", input=toks[1][1],
                             expected=exp, observed=b, failing_input=True, note="range with surrounding text")
        else:
            violate(kind="oracle", layer="L1c", input=toks[1][1], expected=exp, observed=b, failing_input=True,
                    note="range expansion is not the inclusive arithmetic sequence")
    # several ranges on one line, with and without a step, in every order: each word is its own inclusive sequence with
    # its own step (1 when none is written) -- nothing carries over from one word to the next
    # (seed C12-range-step-leaks-to-later-words)
    rs = [(1, 10, 3), (1, 4, None), (0, 6, 2), (7, 5, None), (9, 1, 4), (-2, 2, None), (3, 3, 5), (2, 8, 1)]
    multi = []
    for r1 in rs:
        for r2 in rs:
            multi.append([r1, None, r2])
    for r1, r2, r3 in itertools.product(rs[:5], repeat=3):
        multi.append([r1, r2, None, r3])
    lm, mm = [], []
    for combo in multi:
        toks, exp = [("", "echo")], [("", "echo")]
        for r in combo:
            if r is None:
                toks.append(("'", "{1..3..2}")); exp.append(("'", "{1..3..2}"))
                continue
            x, y, st = r
            toks.append(("", "{%d..%d%s}" % (x, y, "" if st is None else "..%d" % st)))
            exp += [retag(str(v)) for v in ref_range(x, y, st or 1)]
        lm.append(C.case("ebr", "1", X.toks_field(toks)))
        mm.append((toks, toks_line(exp)))
    pm = C.write_cases("c12_cm.txt", lm)
    mo_, io_ = C.run_model(ctx.model["C12"], pm), C.run_impl(ctx.bins["c12"], pm, len(lm), timeout=600)
    res.count("L1c_multi_range_lines", len(lm))
    nv = 0
    for (toks, exp), a, b in zip(mm, mo_, io_):
        if b != exp or a != b:
            nv += 1
            if nv <= 3:
                violate(kind="oracle" if b != exp else "correspondence", layer="L1c-multi", input=toks_line(toks), expected=exp,
                        observed=b, model=a, failing_input=b != exp,
                        note="several brace ranges on one line: each must expand with its own step")
        else:
            res.nontrivial("cm:" + toks_line(toks))
    # an operand that does not parse aborts every range of the line (recorded)
    pk = C.write_cases("c12_k2.txt", [C.case("ebr", "1", X.toks_field([("", "{1..2}"), ("", "{1..99999999999}")]))])
    mk, ik = C.run_model(ctx.model["C12"], pk)[0], C.run_impl(ctx.bins["c12"], pk, 1)[0]
    res.count("known_finding_replays", 1)
    if ik != toks_line([("", "1"), ("", "2"), ("", "{1..99999999999}")]):
        known_or_violate("range_abort_drops_all", ik == mk == toks_line([("", "{1..2}"), ("", "{1..99999999999}")]),
                         kind="oracle", layer="L1c", input="{1..2} {1..99999999999}", observed=ik, model=mk,
                         failing_input=True, note="a range operand outside i32 on the same line")
    # ------------------------------------------------------------ L1d tilde
    homes = ["/home/u", "/h x", "", "/h$tail", "/a$$b", "/p${tail}q", "/é"]
    htoks = [("", "~"), ("", "~/x"), ("", "~/a b"), ('"', "~"), ("'", "~/x"), ("", "a~"), ("", "~~"), ("", "~x"),
             ("", "~/l1\nl2"), ("\\", "~"), ("", "x"), ("`", "~")]
    ld = [C.case("eh", "H\x1d" + h, X.toks_field(htoks)) for h in homes]
    pd = C.write_cases("c12_d.txt", ld)
    md = C.run_model(ctx.model["C12"], pd)
    idd = C.run_impl(ctx.bins["c12"], pd, len(ld), shards=1)
    res.count("L1d_tilde", len(ld))
    for h, a, b in zip(homes, md, idd):
        if a != b and "$" in h and "home_is_a_template" in known and b == toks_line(
                [(t, (h + x[1:]) if (t == "" and x.startswith("~")) else x) for t, x in htoks]):
            res.extra.setdefault("findings_no_longer_reproducing", []).append("home_is_a_template")
            continue
        if a != b:
            violate(kind="correspondence", layer="L1d", input=h, model=a, impl=b, failing_input=False,
                    note="expand_home of the implementation differs from the model")
            continue
        exp = toks_line([(t, (h + s[1:]) if (t == "" and (s == "~" or s.startswith("~/"))) else s) for t, s in htoks
                         if s in ("~", "~/x", "~/a b", "a~", "x") or t != ""])
        got = toks_line([p for p, (t, s) in zip(parse_toks(b), htoks) if s in ("~", "~/x", "~/a b", "a~", "x") or t != ""])
        res.nontrivial("d:" + h)
        if got != exp:
            known_or_violate("home_is_a_template", "$" in h, kind="oracle", layer="L1d", input="HOME=%r ~ ~/x" % h,
                             expected=exp, observed=got, failing_input=True, note="tilde expansion")
    # ------------------------------------------------------------ L1e glob, L1f do_expansion, L2
    work = tempfile.mkdtemp(prefix="c12_")
    try:
        pops = [["a.txt", "b.txt", ".hid.txt", "c d.txt", "sub/x.txt", "sub/.h", "sub/y z", "zz", ".bashrc", ".vimrc",
                 ".hdir/in.txt", ".hdir/.hin", ".hdir/two words", "x{1,2}.log", "c,d.md", "a.md"],
                [".only"], [], ["*star", "q[1]", "A", "a", "B", "b", "é.txt", "sub/deep/f.txt", ".dot", "sub/.s", "sub/t"]]
        pats = ["*", "*.txt", ".*", ".*.txt", "sub/*", "*/x.txt", "no*match", "a*", "*z", "sub/.*", "c*", "* ", "**", "*/*",
                "[*", "q[1]*", "'*'", "\\*", "x*x", "*/*/*", "/nonexistent/*", "../*star*",
                # directory part starting with a dot / containing "/." against populations with hidden entries
                "./*", "./*.txt", "./.*", ".*rc", "./sub/*", "../pop0/*", "../pop0/*.txt", "../pop0/sub/*", "../pop3/sub/*",
                ".hdir/*", ".hdir/.*", "./.hdir/*", "*/.*", "./no*match", "../pop1/*", "./*/*", "sub/../*.txt",
                # what brace + star words become after brace expansion, and names holding braces / commas
                "a*.txt", "b*.txt", "*.md", "x*.log", "x*", "*,*", "zz*.txt", "*{*"]
        le, emeta = [], []
        for pi, pop in enumerate(pops):       # all populations first: patterns reach into sibling directories
            d = os.path.join(work, "pop%d" % pi)
            os.makedirs(d)
            for n in pop:
                os.makedirs(os.path.dirname(os.path.join(d, n)), exist_ok=True)
                open(os.path.join(d, n), "w").close()
        for pi, pop in enumerate(pops):
            d = os.path.join(work, "pop%d" % pi)
            raw_cases = [C.case("globraw", "D\x1d" + d, p) for p in pats]
            pr = C.write_cases("c12_raw.txt", raw_cases)
            raw = C.run_impl(ctx.bins["c12"], pr, len(raw_cases), shards=1)
            ents = ["D\x1d" + d]
            table = {}
            for p, r in zip(pats, raw):
                if r == "ERR":
                    ents.append("g" + p + "\x1d")
                    table[p] = None
                else:
                    items = [C.dec(x) for x in re.findall(r'"([^"]*)"', r)]
                    ents.append("G" + p + "\x1d" + "\x1c".join(items))
                    table[p] = items
            wf = "\x1e".join(ents)
            if pi == 0:
                wf0, tbl0 = wf, table
            for p in pats:
                toks = [("", "ls"), ("", p), ('"', p), ("", "end")]
                le.append(C.case("eg", wf, X.toks_field(toks)))
                emeta.append((d, p, toks, table[p]))
            for combo in [["*.txt", "[*"], ["[*", "*.txt"], ["a*", "sub/*", "zz"]]:
                toks = [("", "ls")] + [("", p) for p in combo]
                le.append(C.case("eg", wf, X.toks_field(toks)))
                emeta.append((d, None, toks, None))
            # do_expansion: pass order on one line
            wdx = wf + "\x1eH\x1d/home/u\x1eSA\x1d{p,q}\x1eSB\x1dv w"
            # pass order glob -> command substitution: an output holding a star is NOT expanded into file names
            starf = os.path.join(work, "subst_output.txt")
            open(starf, "w").write("*\n")
            scmd = "%s %s" % (os.path.join(ctx.helpers, "csub"), starf)
            wdx += "\x1eR" + scmd + "\x1d*\n"
            # pass order brace -> glob: ONE word with a comma group and a star is first split, then each part globbed;
            # a file whose NAME holds a brace group is matched by a star and its name is not brace-expanded
            for bw in ["{a,b}*.txt", "*.{md,txt}", "x*.log", "{sub,.hdir}/*", "{zz,a}*.txt", "p{a,b}*.nomatch", "x*"]:
                btoks = [("", "echo"), ("", bw), ('"', bw), ("", "end")]
                le.append(C.case("dx", wdx, "30", X.toks_field(btoks)))
                emeta.append((d, bw, btoks, "dxbrace"))
            le.append(C.case("dx", wdx, "30", X.toks_field([("", "echo"), ("", "*.txt"), ("", "$(%s)" % scmd), ('"', "*")])))
            emeta.append((d, None, [("", "echo"), ("", "*.txt"), ("", "$(%s)" % scmd), ('"', "*")], "dxstar"))
            for toks in [[("", "echo"), ("", "~/x"), ("", "$B"), ("", "{a,b}$B"), ("", "*.txt"), ("", "{1..3}"), ("'", "{a,b}*~$B")],
                         [("", "echo"), ("", "$A"), ("", "{1..2}"), ('"', "~ $B {a,b} *")],
                         [("", "1"), ("", "+"), ("", "{1,2}")], [("", "export"), ("", "PROMPT=$B{a,b}")]]:
                le.append(C.case("dx", wdx, "30", X.toks_field(toks)))
                emeta.append((d, None, toks, "dx"))
        # ------------------------------------------------------------ L1g: token LISTS through each index-buffer pass
        # (idx counter + reverse write-back): every order of 2..3 tokens (sampled 4..5) over a selected word, the same
        # word under each tag, and a plain word; per-token oracle, positions preserved
        gp = {"eh": ("~/x", ["/home/u/x"], lambda t: C.case("eh", "H\x1d/home/u", X.toks_field(t))),
              "eb": ("{a,b}", ["a", "b"], lambda t: C.case("eb", X.toks_field(t))),
              "ebr": ("{1..2}", ["1", "2"], lambda t: C.case("ebr", "1", X.toks_field(t))),
              "eg": ("*.txt", tbl0["*.txt"] and [x for x in tbl0["*.txt"] if not x.startswith(".")], lambda t: C.case("eg", wf0, X.toks_field(t)))}
        lg, gmeta = [], []
        for op, (sel, expn, mk) in sorted(gp.items()):
            kinds = [("", sel), ('"', sel), ("'", sel), ("\\", sel), ("`", sel), ("", "plain")]
            ls = [list(t) for n in (2, 3) for t in itertools.product(kinds, repeat=n)]
            ls += [[rng.choice(kinds) for _ in range(rng.randint(4, 5))] for _ in range(150)]
            for t in ls:
                lg.append(mk(t))
                want = []
                for tg, x in t:
                    want += [retag(w) for w in expn] if (tg == "" and x == sel) else [(tg, x)]
                gmeta.append((op, t, toks_line(want)))
        pg_ = C.write_cases("c12_g.txt", lg)
        mg = C.run_model(ctx.model["C12"], pg_)
        ig = C.run_impl(ctx.bins["c12"], pg_, len(lg), shards=1)
        res.count("L1g_token_lists_per_pass", len(lg))
        for (op, t, want), a, b in zip(gmeta, mg, ig):
            if b != want:
                violate(kind="oracle", layer="L1g", op=op, input=toks_line(t), expected=want, observed=b, model=a,
                        failing_input=True, note="in a token list each selected token must be replaced in its own place")
            elif a != b:
                violate(kind="correspondence", layer="L1g", op=op, input=toks_line(t), model=a, impl=b, failing_input=False,
                        note="model and implementation disagree on a token list")
        pe = C.write_cases("c12_e.txt", le)
        me = C.run_model(ctx.model["C12"], pe)
        ie = C.run_impl(ctx.bins["c12"], pe, len(le), shards=1)
        res.count("L1e_glob_L1f_do_expansion", len(le))
        for (d, p, toks, tbl), a, b in zip(emeta, me, ie):
            if tbl in ("dx", "dxstar", "dxbrace"):
                b = b.split("\t", 1)[1] if b.startswith("pid=") else b
                a = a.split(" calls=")[0]
            if tbl == "dxbrace":
                # oracle: brace expansion first (reference expander), then each produced word globbed on its own
                want = [toks[0]]
                cwd_ = os.getcwd()
                os.chdir(d)
                try:
                    for wd in ref_getitem(p, 0)[0]:
                        if "*" in wd:
                            g = sorted(x for x in pyglob.glob(wd))
                            want += [retag(x) for x in g] if g else [retag(wd)]
                        else:
                            want.append(retag(wd))
                finally:
                    os.chdir(cwd_)
                want = toks_line(want + toks[2:])
                res.nontrivial("f:%s:%s" % (os.path.basename(d), p))
                if b != want:
                    violate(kind="oracle", layer="L1f", dir=d, directory_entries=sorted(pops[int(os.path.basename(d)[3:])]),
                            input=p, expected=want, observed=b, model=a, failing_input=True,
                            note="a word with a brace group and a star: braces first, then filename expansion of each part")
                elif a != b:
                    violate(kind="correspondence", layer="L1f", dir=d, input=toks_line(toks), model=a, impl=b, failing_input=False,
                            note="do_expansion of the implementation differs from the model")
                continue
            if tbl == "dxstar":
                got = parse_toks(b)
                if len(got) < 2 or got[-2] != ("", "*") or got[-1] != ('"', "*"):
                    violate(kind="oracle", layer="L1f", dir=d, directory_entries=sorted(pops[int(os.path.basename(d)[3:])]),
                            input=toks_line(toks), expected="... the untagged token * (the output) and the quoted *",
                            observed=b, model=a, failing_input=True,
                            note="the output of a command substitution was expanded into file names (pass order)")
                    continue
            differs = a != b
            if p is None or p in ("'*'", "\\*") or tbl is None:
                if differs:
                    violate(kind="correspondence", layer="L1e", dir=d, input=toks_line(toks), model=a, impl=b,
                            failing_input=False, note="expand_glob / do_expansion of the implementation differs from the model")
                continue
            # property oracle: Python's glob (sorted, hidden skipped unless the last component starts with a dot)
            cwd = os.getcwd()
            os.chdir(d)
            try:
                pg = [x for x in pyglob.glob(p) if os.path.basename(x.rstrip("/")) not in (".", "..")]
            finally:
                os.chdir(cwd)
            if p.startswith("./"):      # the glob crate yields paths without the leading ./
                pg = [x[2:] if x.startswith("./") else x for x in pg]
            pg = sorted(pg)
            if not pg:
                pg = [p]
            exp = toks_line([toks[0]] + [retag(x) for x in pg] + toks[2:])
            res.nontrivial("e:%s:%s" % (os.path.basename(d), p))
            if differs and (b == exp or "[" in p or "**" in p):
                violate(kind="correspondence", layer="L1e", dir=d, input=toks_line(toks), model=a, impl=b,
                        failing_input=False, note="expand_glob of the implementation differs from the model")
                continue
            if b != exp and "[" not in p and "**" not in p:
                got_paths = [x for _, x in parse_toks(b)][1:-2]
                extra = [x for x in got_paths if x not in pg]
                hidden_dir = lambda x: any(c.startswith(".") and c not in (".", "..") for c in x.split("/")[:-1])
                if a == b and extra and all(hidden_dir(x) for x in extra) and [x for x in got_paths if x in pg] == pg:
                    # recorded: a * component of the pattern matched a hidden DIRECTORY (only the last component is filtered)
                    known_or_violate("hidden_directory_component", True, kind="oracle", layer="L1e", dir=d, input=p,
                                     expected=exp, observed=b, failing_input=True,
                                     note="entries below a hidden directory are listed for a pattern whose directory part is a *")
                    continue
                violate(kind="oracle", layer="L1e", dir=d, directory_entries=sorted(pops[int(os.path.basename(d)[3:])]),
                        input=p, expected=exp, observed=b, model=a, failing_input=True,
                        note="filename expansion is not the sorted list of matching non-hidden paths")
        # ------------------------------------------------------------ L2
        hp = os.path.join(ctx.helpers, "hp")
        d0 = os.path.join(work, "pop0")
        l2 = [("pre{a,b}post", ["preapost", "prebpost"], None), ("{a,b}{c,d}", ["ac", "ad", "bc", "bd"], None),
              ("x{a,{b,c}d,}y", ["xay", "xbdy", "xcdy", "xy"], None), ("{1..4}", ["1", "2", "3", "4"], None),
              ("{10..4..3}", ["10", "7", "4"], None), ("*.txt", ["a.txt", "b.txt", "c d.txt"], None),
              ("sub/*", ["sub/x.txt", "sub/y z"], None), ("no*match", ["no*match"], None), ("~", [d0], None),
              ("./*.txt", ["a.txt", "b.txt", "c d.txt"], None), ("{a,b}*.txt", ["a.txt", "b.txt"], None),
              ("*.{md,txt}", ["a.md", "c,d.md", "a.txt", "b.txt", "c d.txt"], None), ("x*.log", ["x{1,2}.log"], None), ("../pop0/sub/*", ["../pop0/sub/x.txt", "../pop0/sub/y z"], None),
              (".hdir/*", [".hdir/in.txt", ".hdir/two words"], None), (".*rc", [".bashrc", ".vimrc"], None),
              ("pre ./sub/* 'q*' post", ["pre", "sub/x.txt", "sub/y z", "q*", "post"], None),
              ("~/q", [d0 + "/q"], None), ("'{a,b}' \"*.txt\" '~'", ["{a,b}", "*.txt", "~"], None),
              ("k {a,b} *.txt {1..2} m", ["k", "a", "b", "a.txt", "b.txt", "c d.txt", "1", "2", "m"], None),
              ("a{1..3}b", ["a1b", "a2b", "a3b"], None), ("x{3..1}y {1..99999999999} {1..2}", ["x3y", "x2y", "x1y", "{1..99999999999}", "1", "2"], None),
              ("{a}{b,c}", ["{a}b", "{a}c"], None), ("x{a}y", ["x{a}y"], None),
              ("{2147483646..2147483647}", ["2147483646", "2147483647"], None),
              ("{-2147483647..-2147483648}", ["-2147483647", "-2147483648"], None)]

        def one(job):
            line = "%s @o %s" % (hp, job[0])
            env = {"PATH": "/usr/bin:/bin", "HOME": d0, "XDG_CONFIG_HOME": work}
            try:
                p = subprocess.run([ctx.cicada, "-c", line], cwd=d0, env=env, stdin=subprocess.DEVNULL,
                                   stdout=subprocess.PIPE, stderr=subprocess.PIPE, timeout=15)
                return p.returncode, p.stdout.decode("utf-8", "replace").split("\n")[:-1]
            except subprocess.TimeoutExpired:
                return "TIMEOUT", []

        from concurrent.futures import ThreadPoolExecutor
        with ThreadPoolExecutor(max_workers=8) as ex:
            outs = list(ex.map(one, l2))
        res.count("L2_cicada_argv", len(l2))
        for (w, exp, cls), (rc, got) in zip(l2, outs):
            if got == exp and rc == 0:
                if cls:
                    res.extra.setdefault("findings_no_longer_reproducing", []).append(cls)
                continue
            if cls and cls in known:
                res.known(cls, "class=%s input=%s what=%s" % (cls, known[cls].get("input", ""), known[cls].get("what", "")))
            else:
                violate(kind="oracle", layer="L2", input="hp @o " + w, expected=exp, observed=got, status=rc,
                        failing_input=True, note="argv of the helper is not the specified expansion")
    finally:
        shutil.rmtree(work, ignore_errors=True)


def parse_toks(line):
    return [(C.dec(a), C.dec(b)) for a, b in re.findall(r'\("([^"]*)","([^"]*)"\)', line or "")]
