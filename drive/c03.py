"""C03 -- command lists: left to right, short-circuit, status.
Layers: L1 in-process line_to_cmds vs the extracted splitter (exhaustive short
strings + random); L2 `cicada -c` / script runs of generated operator programs
against the extracted run_command_line with the helper-status oracle, plus the
reference semantics (the oracle of the property) applied to the implementation's
own trace."""
import itertools, os, shutil, subprocess, tempfile
import common as C

EXTRACT = ["C03"]
BINS = ["c03"]
NEEDS_CICADA = True
ALLOWED_AXIOMS = []
PINNED = ["C03_full", "C03_split", "C03_exec"]
TRUSTED = [
    "Coq 8.16.1 kernel (coqc; coqchk in thorough); vm_compute only in Example witnesses",
    "hand transcription of line_to_cmds / run_command_line (coq/theories/Model/Cmds.v, ListExec.v), tied by differential execution",
    "extraction: ExtrOcamlBasic only; OCaml 4.13.1; ocaml/c03/drv.ml (codec + helper-status oracle)",
    "harness/src/bin/c03.rs, helpers/hp.c, drive/c03.py",
    "run_proc (one pipeline -> status) enters the model as a Section variable; its behaviour for helper pipelines "
    "(exit status of the program; $? reads previous_status) is assumed and compared with the real binary by layer L2",
]
ASSUMES = [
    "the status of one pipeline is whatever run_proc returns (oracle); only the list loop and the splitter are modelled",
    "process exit status of `cicada -c` is sh.previous_status (main.rs), validated by L2",
]

ALPHA = ["a", " ", ";", "&", "|", "'", '"', "\\", "#", "`"]


SPECIAL = {"assign": 0, "cdfail": 1, "nf": 127}
BG_MS, SLOW_MS = 150, 500


def st_value(st):
    """exit status of an element: int, ("slow", n) = helper that sleeps SLOW_MS first, "bg" = helper started
    in the background (`... &`: the list goes on at once with status 0), or a SPECIAL non-helper pipeline."""
    if isinstance(st, tuple):
        return st[1]
    if st == "bg":
        return 0
    return SPECIAL.get(st, st)


def ref_exec(prog):
    """Reference semantics of the property: prog = [(op, st, marker)], op of the first is ';'.
    st: int = helper exits with it; None = helper exits with $? (a probe); "assign" = assignment-only
    pipeline V=1 (status 0); "cdfail" = builtin `cd` to a missing directory (status 1); "nf" = command not
    found (status 127). Returns (executed elements as (marker, status seen before, st), final status)."""
    status = 0
    ran = []
    for op, st, m in prog:
        run = op == ";" or (op == "&&" and status == 0) or (op == "||" and status != 0)
        if run:
            ran.append((m, status, st))
            status = status if st is None else st_value(st)
    return ran, status


def render(prog, hp, rng, decoys):
    parts = []
    for i, (op, st, m) in enumerate(prog):
        if i:
            sp1 = rng.choice(["", " ", "  "]) if decoys else " "
            sp2 = rng.choice(["", " ", "  "]) if decoys else " "
            parts.append(sp1 + op + sp2)
        if st == "assign":
            parts.append("V%s=1" % m[1:])
            continue
        if st == "cdfail":
            parts.append("cd /nonexistent_zz_dir")
            continue
        if st == "nf":
            parts.append("nosuchcmd_zz")
            continue
        if st == "bg":
            parts.append("%s @s%d %s &" % (hp, BG_MS, m))
            continue
        ctl = "@x$?" if st is None else ("@s%d,x%d" % (SLOW_MS, st[1]) if isinstance(st, tuple) else "@x%d" % st)
        seg = "%s %s %s" % (hp, ctl, m)
        if decoys:
            d = rng.choice(["", " ';'", ' "&&"', " '||'", " \\;", " \\&\\&", ' "a;b"', " 'x && y'", " a\\|\\|b", ' "#"',
                            " p$?", " '&'x", " \\#", " '&'", ' "&"', " 'x' '&'",
                            " 'é€;'", " 日本語", ' "q\\"r;s"', ' "u\\" && v"', " é"])
            seg += d
        parts.append(seg)
    return "".join(parts)


def gen_programs(ctx):
    rng = ctx.rng
    progs = []
    maxk = 6 if ctx.thorough else 4
    for k in range(1, maxk + 1):
        for ops in itertools.product([";", "&&", "||"], repeat=k - 1):
            for sts in itertools.product([0, 1], repeat=k):
                progs.append([((";" if i == 0 else ops[i - 1]), sts[i], "m%d" % i) for i in range(k)])
    # pipelines that are not an external program: assignment-only, a failing builtin, command not found --
    # each after a pipeline that ended with a status other than 0/1, followed by a $? probe or the end of the line
    for sp in ("assign", "cdfail", "nf"):
        for st0 in (7, 42, 0):
            for op in (";", "&&", "||"):
                progs.append([(";", st0, "m0"), (op, sp, "m1"), (";", None, "m2")])
                progs.append([(";", st0, "m0"), (op, sp, "m1")])
                progs.append([(";", st0, "m0"), (op, sp, "m1"), ("&&", None, "m2"), ("||", None, "m3")])
    # a background pipeline earlier in the list that ENDS while a later foreground pipeline is still running:
    # the foreground pipeline's own status must decide the following operator, $? and the exit status
    for n in ((3, 5) if not ctx.thorough else (1, 3, 5, 42)):
        for op in ("&&", "||"):
            progs.append([(";", "bg", "m0"), (";", ("slow", n), "m1"), (op, 0, "m2"), (";", None, "m3")])
            progs.append([(";", "bg", "m0"), (";", ("slow", n), "m1")])
            progs.append([(";", 7, "m0"), (";", "bg", "m1"), (op, ("slow", n), "m2"), (op, 0, "m3"), (";", None, "m4")])
        progs.append([(";", "bg", "m0"), (";", "bg", "m1"), (";", ("slow", n), "m2"), ("&&", 0, "m3"), ("||", None, "m4")])
        progs.append([(";", "bg", "m0"), (";", ("slow", 0), "m1"), ("&&", ("slow", n), "m2"), ("||", None, "m3")])
    # every exit status 0..255 (deaths by a signal are C02's subject) in a position that is followed by more of the list:
    # whatever the number, `;` runs the next element, `||` runs it iff the status is non-zero, `&&` iff zero, and $? /
    # the final status carry it (seed C03-status-130-ends-the-list: one particular status ended the whole list)
    shapes = [lambda s: [(";", s, "m0"), (";", None, "m1")],
              lambda s: [(";", s, "m0"), ("||", None, "m1"), ("&&", 0, "m2"), (";", None, "m3")],
              lambda s: [(";", s, "m0"), ("&&", None, "m1"), (";", None, "m2")],
              lambda s: [(";", 0, "m0"), ("&&", s, "m1"), ("||", 3, "m2"), (";", None, "m3")]]
    for s in range(256):
        for j, sh in enumerate(shapes):
            if ctx.thorough or j == s % len(shapes) or s in (126, 127, 128, 129, 130, 131, 137, 141, 143, 255):
                progs.append(sh(s))
    nrand = 600 if ctx.thorough else 120
    for _ in range(nrand):
        k = rng.randint(2, 12)
        p = []
        for i in range(k):
            op = ";" if i == 0 else rng.choice([";", "&&", "||"])
            st = rng.choice([0, 0, 1, 1, 2, 3, 7, 42, 127, 255, None, None, "assign", "cdfail", "nf"])
            p.append((op, st, "m%d" % i))
        progs.append(p)
    return progs


def run_cicada(cicada, line, trace, mode, workdir, timeout=20):
    env = dict(os.environ)
    env.update({"VERIF_TRACE": trace, "HOME": workdir, "XDG_CONFIG_HOME": workdir, "PATH": "/usr/bin:/bin"})
    if mode == "c":
        cmd = [cicada, "-c", line]
    else:
        sp = os.path.join(workdir, "s.sh")
        open(sp, "w").write(line + "\n")
        cmd = [cicada, sp]
    try:
        p = subprocess.run(cmd, cwd=workdir, env=env, stdin=subprocess.DEVNULL, stdout=subprocess.PIPE,
                           stderr=subprocess.PIPE, timeout=timeout)
        return p.returncode, p.stdout.decode("utf-8", "replace"), p.stderr.decode("utf-8", "replace")
    except subprocess.TimeoutExpired:
        return "TIMEOUT", "", ""


def read_trace(path):
    recs = []
    if os.path.exists(path):
        for l in open(path):
            kv = dict(f.split("=", 1) for f in l.rstrip("\n").split("\t") if "=" in f)
            kv["argv"] = [C.dec(a) for a in kv.get("argv", "").split(",")]
            recs.append(kv)
    return recs


def run(ctx, res):
    rng = ctx.rng
    res.rule = ("L1: line_to_cmds on every string up to length %d over %r plus random longer strings; non-trivial = "
                "model output has >= 2 segments; L2: every operator/status program up to length %d plus random ones to "
                "length 12 (with quoted / escaped decoy operators, $? probes, statuses other than 1) through `cicada -c` "
                "and as a script; non-trivial = distinct (ops, statuses) program in which at least one pipeline is skipped"
                % (5 if ctx.thorough else 4, ALPHA, 6 if ctx.thorough else 4))
    # ---------------- replay
    if ctx.replay:
        import json
        r = json.load(open(ctx.replay))
        lines = [r["input"]] if "input" in r else []
    # ---------------- L1
    cases = []
    maxlen = 5 if ctx.thorough else 4
    for n in range(0, maxlen + 1):
        for t in itertools.product(ALPHA, repeat=n):
            cases.append("".join(t))
    extra = ["é", "　", "\t", "&&", "||", "true", "x y"]
    for _ in range(20000 if ctx.thorough else 3000):
        n = rng.randint(6, 30)
        cases.append("".join(rng.choice(ALPHA + ALPHA + extra) for _ in range(n)))
    corpus = os.path.join(C.VERIF, "corpus", "C03", "l2c.txt")
    if os.path.exists(corpus):
        cases = [l.rstrip("\n") for l in open(corpus)] + cases
    path = C.write_cases("c03_l1.txt", [C.case("l2c", s) for s in cases])
    mo = C.run_model(ctx.model["C03"], path)
    io = C.run_impl(ctx.bins["c03"], path, len(cases))
    res.count("L1_line_to_cmds", len(cases))
    res.exhaustive = True
    bad = 0
    for s, a, b in zip(cases, mo, io):
        if a.count('","') >= 1:
            res.nontrivial("l1:" + a)
        if a != b:
            bad += 1
            if bad <= 3:
                res.violate(kind="correspondence", layer="L1", function="line_to_cmds", input=s, model=a, impl=b,
                            failing_input=False,
                            note="splitter of the implementation differs from the model the C03 theorems are about")
    res.sample({"layer": "L1", "input": cases[len(cases) // 2], "model": mo[len(cases) // 2], "impl": io[len(cases) // 2]})
    # ---------------- L2
    hp = os.path.join(ctx.helpers, "hp")
    progs = gen_programs(ctx)
    work = tempfile.mkdtemp(prefix="c03_")
    try:
        lines = []
        for i, p in enumerate(progs):
            decoys = i % 3 == 2
            lines.append(render(p, hp, rng, decoys))
        mpath = C.write_cases("c03_l2.txt", [C.case("run", l) for l in lines])
        mo2 = C.run_model(ctx.model["C03"], mpath)
        from concurrent.futures import ThreadPoolExecutor

        def one(ix):
            p, line = progs[ix], lines[ix]
            # the script path re-renders every line (tokens_to_line), which is C16's subject:
            # scripts get the decoy-free renderings only
            mode = "script" if (ix % 4 == 3 and ix % 3 != 2) else "c"
            if any(c[1] == "bg" for c in p):
                mode = "script" if (ix % 2 and ix % 3 != 2) else "c"
            d = os.path.join(work, "w%d" % ix)
            os.makedirs(d)
            tr = os.path.join(d, "trace")
            rc, out, err = run_cicada(ctx.cicada, line, tr, mode, d)
            recs = read_trace(tr)
            shutil.rmtree(d, ignore_errors=True)
            return rc, recs, mode, err

        with ThreadPoolExecutor(max_workers=C.NCPU) as ex:
            outs = list(ex.map(one, range(len(progs))))
        res.count("L2_cicada_runs", len(progs))
        nviol = 0

        def observe(ix, rc, recs):
            """(implementation's observable, reference observable) of program ix"""
            p = progs[ix]
            exp_ran, exp_status = ref_exec(p)
            got = []
            bg_exp = sorted(m for (m, prev, st_) in exp_ran if st_ == "bg")
            bg_got = []
            for r in recs:
                a = r["argv"]
                if len(a) > 2 and a[2] in bg_exp and a[1] == "@s%d" % BG_MS:
                    bg_got.append(a[2])
                    continue
                got.append((a[2] if len(a) > 2 else "?", a[1] if len(a) > 1 else "?"))
            if sorted(bg_got) != bg_exp:
                got.append(("background helpers", repr(sorted(bg_got))))
            exp = []
            for (m, prev, st_) in exp_ran:
                if st_ == "bg" or (not isinstance(st_, tuple) and st_ in SPECIAL):
                    continue
                ctl = "@s%d,x%d" % (SLOW_MS, st_[1]) if isinstance(st_, tuple) else "@x%d" % (prev if st_ is None else st_)
                exp.append((m, ctl))
            return "ran=%r status=%r" % (got, rc), "ran=%r status=%r" % (exp, exp_status)

        # A disagreement seen in the parallel pass is run again, alone, before it is believed: the pass runs 16 shells at a
        # time next to whatever else the machine is doing, and a 20 s time limit on a line of three half-second helpers was
        # once exceeded under load (status 'TIMEOUT' on a build whose change could not cause it).  A deterministic defect
        # reproduces; what does not reproduce is counted in the evidence, not reported.
        unconfirmed = 0
        for ix, (rc, recs, mode, err) in enumerate(outs):
            a_, b_ = observe(ix, rc, recs)
            if a_ != b_:
                d = os.path.join(work, "again%d" % ix)
                os.makedirs(d, exist_ok=True)
                tr = os.path.join(d, "trace")
                rc2, out2, err2 = run_cicada(ctx.cicada, lines[ix], tr, mode, d, timeout=60)
                recs2 = read_trace(tr)
                shutil.rmtree(d, ignore_errors=True)
                a2, b2 = observe(ix, rc2, recs2)
                if a2 == b2:
                    unconfirmed += 1
                    outs[ix] = (rc2, recs2, mode, err2)
        res.extra["l2_disagreements_not_reproduced_alone"] = unconfirmed
        for ix, (rc, recs, mode, err) in enumerate(outs):
            p, line = progs[ix], lines[ix]
            exp_ran, exp_status = ref_exec(p)
            got = []
            bg_exp = sorted(m for (m, prev, st_) in exp_ran if st_ == "bg")
            bg_got = []
            for r in recs:
                a = r["argv"]
                if len(a) > 2 and a[2] in bg_exp and a[1] == "@s%d" % BG_MS:
                    bg_got.append(a[2])     # a background helper: started, but its record may land late
                    continue
                got.append((a[2] if len(a) > 2 else "?", a[1] if len(a) > 1 else "?"))
            if sorted(bg_got) != bg_exp:
                got.append(("background helpers", repr(sorted(bg_got))))
            # expected helper view: marker, control word after $? expansion
            exp = []
            for (m, prev, st_) in exp_ran:
                if st_ == "bg" or (not isinstance(st_, tuple) and st_ in SPECIAL):
                    continue        # not a (foreground) helper: no ordered trace record, only a status
                ctl = "@s%d,x%d" % (SLOW_MS, st_[1]) if isinstance(st_, tuple) else "@x%d" % (prev if st_ is None else st_)
                exp.append((m, ctl))
            impl_obs = "ran=%r status=%r" % (got, rc)
            ref_obs = "ran=%r status=%r" % (exp, exp_status)
            skipped = len(exp_ran) < len(p)
            if skipped:
                res.nontrivial("l2:" + repr([(c[0], c[1]) for c in p]))
            # model prediction (extracted run_command_line + oracle)
            mline = mo2[ix]
            mstat = int(mline.rsplit("status=", 1)[1])
            mran = mline.count('":')
            if impl_obs != ref_obs:
                nviol += 1
                if nviol <= 3:
                    res.violate(kind="oracle", layer="L2", entry=mode, input=line, expected=ref_obs, observed=impl_obs,
                                model=mline, stderr=err[-300:], failing_input=True,
                                note="the real binary does not run the list as the reference semantics prescribe")
            elif mstat != exp_status or mran != len(exp_ran):
                nviol += 1
                if nviol <= 3:
                    res.violate(kind="correspondence", layer="L2", input=line, model=mline, impl=impl_obs,
                                failing_input=False, note="model and implementation disagree on an observable of C03")
            if ix in (5, len(progs) - 1):
                res.sample({"layer": "L2", "entry": mode, "input": line, "reference": ref_obs, "impl": impl_obs, "model": mline})
    finally:
        shutil.rmtree(work, ignore_errors=True)
