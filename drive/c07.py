"""C07 -- the terminal belongs to the foreground job while it runs, else to the shell (PARTIAL).

Correspondence, L2/pty only: every session is a real interactive cicada on a pty, driven action by
action next to the extracted model (ocaml/c07/drv -i). Actions are chosen online from the model's
current state (all randomness from the seed). Every helper records, when it starts, its pgrp (and jc also
tcgetpgrp(2)) in the trace: the group of a stage is checked from there too (a stage may be gone before
the driver looks), and during a `&` launch the driver busy-samples tcgetpgrp(master) until the prompt is
back (O4: a background job never owns the terminal, not even for a moment).
After every action the driver waits until
the observation has converged to the model's prediction (or a timeout), then compares
  prompt / no prompt, tcgetpgrp(master), state (R/T/Z/gone) and pgrp of every helper from
  /proc/<pid>/stat, the job lines / notices the shell printed
and applies the property oracle to the observation alone (O1..O6 below).

Three-way decision per session:
  model == implementation, oracle holds                          -> fine
  model == implementation, oracle fails, session in known class  -> KNOWN-FINDING (class)
  model != implementation, session in a known class and the oracle holds on the implementation
                                                                 -> accepted as repaired (noted)
  anything else                                                  -> VIOLATION
"""
import json, os, random, re, select, signal, subprocess, sys, tempfile, time, shutil

sys.path.insert(0, os.path.dirname(os.path.abspath(__file__)))
import common as C  # noqa

EXTRACT = ["C07"]
BINS = []
NEEDS_CICADA = True
ALLOWED_AXIOMS = []
PINNED = ["C07_prompt_owner", "C07_owner_cases", "C07_bg_never_owner", "C07_groups_fixed", "C07_full", "C07_full_holds",
          "C07_mask_initial", "C07_give_terminal_mask", "C07_regress_failed_handover", "C07_simulation", "C07_table_is_C06", "C07_wait_exact", "C07_jobs_exact", "C07_lift_nonvacuous",
          "C07_regress_stage_outside_group", "C07_regress_count_waited", "C07_regress_stop_cont_parked",
          "C07_regress_exit_among_stopped", "C07_regress_partial_continue", "C07_nonvacuous",
          "C07_wait_returns_settled", "C07_wait_gives_back_terminal", "C07_wait_fuel_suffices", "C07_wait_nonvacuous", "C07_settle_is_oracle_wait",
          "C07_wait_returns_settled_fg", "C07_wait_fg_nonvacuous", "C07_kernel_K4", "C07_kernel_truthful",
          "C07_settle_returns_settled", "C07_settle_nonvacuous",
          "C07_wait_o_is_jobs_wait_loop", "C07_wait_fg_o_is_jobs_wait_fg_job", "C07_wait_o_echild_is_jobs_blocked", "C07_waitfg_is_jobs_wait_loop",
          "C07_settled_members_invariant", "C07_kernel_actions_kchange", "C07_resumed_wait_returns_settled",
          "C07_terminal_follows_settledness", "C07_resumed_nonvacuous",
          "C07_waitfg_consumed", "C07_waitfg_error_after_blocked"]
TRUSTED = ["Coq 8.16.1 kernel, extraction to OCaml, ocamlfind ocamlopt",
           "hand transcription of core.rs run_pipeline/run_single_program (setpgid, give_terminal_to, insert_job), "
           "execute.rs run_proc, jobc.rs, fg.rs, bg.rs, jobs.rs, main.rs read loop into Model/Term.v (tied by the pty sessions)",
           "the kernel rules K1-K6 of Model/Term.v (signals to groups, stop/continue/kill, order of waitpid(-1), ECHILD, "
           "setpgid/tcsetpgrp success) are ASSUMPTIONS of the model, sampled by the sessions, not proved",
           "helpers/jc.c, helpers/hp.c, the pty driver in drive/c07.py (prompt detection, /proc/<pid>/stat, tcgetpgrp)"]
ASSUMES = ["interactive shell on a Linux pty, CICADA_ENABLE_SIG_HANDLER unset (status changes are collected by the polls)",
           "a typed line is a list of pipelines / fg / bg / jobs / builtins separated by ';' (no && / ||), no capture, no "
           "functions; nothing is typed while the shell waits except Ctrl-Z / Ctrl-C",
           "pids of one session are pairwise distinct; at most one pending fatal signal per stopped process",
           "lineread's own terminal handling, real signal delivery latency and the races between setpgid / tcsetpgrp / waitpid "
           "are sampled, not modelled (since /repo b465168 a launch has no schedule oracle in the model)"]

PROMPT = b"c07> "
SIGNAME = {2: "Interrupt: 2", 3: "Quit: 3", 9: "Killed: 9", 15: "Terminated: 15"}
# session features -> the (formerly) recorded classes they can explain; all five are fixed in /repo now, so
# known_findings.txt holds no C07 class and every oracle failure is a violation. The three-way machinery stays.
FEATURE_CLASSES = {"stage_outside_group": ["stage_outside_group"], "parked_stop_cont": ["stop_cont_parked"],
                   "member_stop": ["count_waited", "exit_among_stopped", "partial_continue"]}


# ------------------------------------------------------------------ the model, online
class Model:
    def __init__(self, exe):
        self.p = subprocess.Popen([exe, "-i"], stdin=subprocess.PIPE, stdout=subprocess.PIPE)

    def ask(self, line):
        self.p.stdin.write((line + "\n").encode())
        self.p.stdin.flush()
        return self.p.stdout.readline().decode().rstrip("\n")

    def reset(self):
        assert self.ask("reset") == "ok"

    def close(self):
        try:
            self.p.stdin.close()
            self.p.wait(timeout=5)
        except Exception:
            self.p.kill()


def parse_state(line):
    """m=.. o=.. p=.. t=.. out=.. maps=.."""
    d = {}
    for f in line.split(" "):
        k, _, v = f.partition("=")
        d[k] = v
    st = {"raw": line, "prompt": d["m"] == "P", "mode": d["m"], "owner": int(d["o"]), "procs": {}, "order": [], "jobs": [],
          "outs": [x for x in d["out"].split(";") if x], "mask": int(d.get("k", "0")), "blk": {}}
    for p in [x for x in d["p"].split(",") if x]:
        pid, pg, s, b = p.split("/")
        st["procs"][int(pid)] = (int(pg), s)
        st["blk"][int(pid)] = 1 if b == "b" else 0
        st["order"].append(int(pid))
    for j in [x for x in d["t"].split(";") if x]:
        i, g, pids, stopped, s, bg = j.split(":")
        st["jobs"].append({"id": int(i), "gid": int(g), "pids": [int(x) for x in pids[1:-1].split(",") if x],
                           "stopped": [int(x) for x in stopped[1:-1].split(",") if x], "st": s, "bg": bg == "bg"})
    return st


def norm_outs(outs):
    """model outs -> comparable multiset of tuples (what can be recognised in the terminal text)"""
    r = []
    for o in outs:
        f = o.split(":")
        if f[0] == "done":
            n = int(f[3])
            txt = "Done" if n == -1 else "Killed" if n == -2 else SIGNAME.get(n, "Killed: %d" % n)
            r.append(("job", int(f[1]), int(f[2]), txt, 0))
        elif f[0] == "stopped":
            r.append(("job", int(f[1]), int(f[2]), "Stopped", 0))
        elif f[0] == "line":
            r.append(("job", int(f[1]), int(f[2]), f[3], int(f[4])))
        elif f[0] == "bglaunch":
            r.append(("bglaunch", int(f[1]), int(f[2])))
        elif f[0] == "bgcmd":
            r.append(("bgcmd", int(f[1])))
        elif f[0] == "alreadybg":
            r.append(("alreadybg", int(f[1])))
        elif f[0] in ("nojob", "nosuch"):
            r.append((f[0],))
        # fgcmd: the bare command text, not compared
    return sorted(r)


# ------------------------------------------------------------------ the real shell on a pty
ANSI = re.compile(rb"\x1b\[[0-9;?]*[A-Za-z]|\x01|\x02|\x08|\x07")


class Shell:
    def __init__(self, cicada, helpers, root):
        import pty, fcntl, struct, termios
        self.root = root
        self.trace = os.path.join(root, "trace")
        open(self.trace, "w").close()
        env = {"HOME": root, "XDG_CONFIG_HOME": root, "PATH": helpers + ":/usr/bin:/bin", "TERM": "xterm", "LANG": "C.UTF-8",
               "PROMPT": PROMPT.decode(), "VERIF_TRACE": self.trace, "HISTORY_FILE": os.path.join(root, "h.sqlite")}
        self.pid, self.fd = pty.fork()
        if self.pid == 0:
            try:
                fcntl.ioctl(0, termios.TIOCSWINSZ, struct.pack("HHHH", 24, 200, 0, 0))  # a 0x0 window makes lineread panic
                os.chdir(root)
                os.execve(cicada, ["cicada"], env)
            finally:
                os._exit(127)
        self.buf = b""
        self.mark = 0
        self.ntrace = 0

    def pump(self, t=0.0):
        r, _, _ = select.select([self.fd], [], [], t)
        if r:
            try:
                b = os.read(self.fd, 65536)
            except OSError:
                b = b""
            self.buf += b
            return bool(b)
        return False

    def prompts(self):
        return self.buf.count(PROMPT)

    def wait_prompts(self, n, timeout):
        end = time.time() + timeout
        while self.prompts() < n and time.time() < end:
            self.pump(0.02)
        return self.prompts() >= n

    def send(self, b):
        self.mark = len(self.buf)
        os.write(self.fd, b)

    def text_since_mark(self):
        return ANSI.sub(b"", self.buf[self.mark:]).decode("utf-8", "replace")

    def owner(self):
        try:
            return os.tcgetpgrp(self.fd)
        except OSError:
            return -1

    def sample_owners(self, nprompts, timeout):
        """busy-sample the terminal's foreground group until the n-th prompt is there; returns the groups
        other than the shell's that were seen"""
        seen = set()
        end = time.time() + timeout
        fd, me, get = self.fd, self.pid, os.tcgetpgrp
        while self.prompts() < nprompts and time.time() < end:
            try:
                for _ in range(100):
                    o = get(fd)
                    if o != me:
                        seen.add(o)
            except OSError:
                break
            self.pump(0)
        return seen

    def new_trace(self, n, timeout):
        """wait for n more trace records; returns them as dicts (pid, pgid, tag)"""
        end = time.time() + timeout
        while True:
            lines = [l for l in open(self.trace).read().split("\n") if l]
            if len(lines) >= self.ntrace + n or time.time() > end:
                break
            self.pump(0.01)
        new = lines[self.ntrace:self.ntrace + n] if len(lines) >= self.ntrace + n else None
        if new is None:
            return None
        self.ntrace += n
        recs = []
        for l in new:
            f = dict(x.split("=", 1) for x in l.split("\t") if "=" in x)
            recs.append({"pid": int(f["pid"]), "pgid": int(f["pgid"]), "tag": f["argv"].split(",")[-1],
                         "tpgid": int(f["tpgid"]) if f.get("tpgid", "").lstrip("-").isdigit() and "argv" in f and f["argv"].startswith("jc") else None})
        return recs

    def close(self, pids):
        for p in pids:
            try:
                os.kill(p, signal.SIGKILL)
            except OSError:
                pass
        try:
            os.kill(self.pid, signal.SIGKILL)
        except OSError:
            pass
        try:
            os.close(self.fd)
        except OSError:
            pass
        try:
            os.waitpid(self.pid, 0)
        except OSError:
            pass


def proc_stat(pid):
    """(state class, pgrp): R running/sleeping, T stopped, Z zombie, G gone"""
    try:
        s = open("/proc/%d/stat" % pid).read()
    except OSError:
        return ("G", None)
    f = s[s.rindex(")") + 2:].split(" ")
    c = f[0]
    return ({"T": "T", "t": "T", "Z": "Z", "X": "G"}.get(c, "R"), int(f[2]))


MASKBITS = (1 << 16) | (1 << 19) | (1 << 20) | (1 << 21)     # SIGCHLD 17, SIGTSTP 20, SIGTTIN 21, SIGTTOU 22


def sig_blocked(pid):
    """0: none of SIGCHLD/SIGTSTP/SIGTTIN/SIGTTOU blocked, 1: all four, else the hex SigBlk; None: no such process"""
    try:
        for l in open("/proc/%d/status" % pid):
            if l.startswith("SigBlk:"):
                v = int(l.split()[1], 16) & MASKBITS
                return 0 if v == 0 else 1 if v == MASKBITS else "0x%x" % v
    except OSError:
        pass
    return None


JOBLINE = re.compile(r"^\[(\d+)\] (\d+)  (.+?)   (.*)$")
BGLAUNCH = re.compile(r"^\[(\d+)\] (\d+)$")
BGCMD = re.compile(r"^\[(\d+)\]  (.*) &$")
ALREADY = re.compile(r"bg: job (\d+) already in background")


def parse_text(text):
    """recognisable shell output -> list of raw items (gid = real number, cmd text kept)"""
    items = []
    for line in text.replace("\r", "\n").split("\n"):
        line = line.strip()
        if line.startswith("^Z") or line.startswith("^C"):
            line = line[2:]
        m = JOBLINE.match(line)
        if m:
            cmd = m.group(4)
            amp = 0
            if m.group(3) == "Running" and cmd.endswith(" &"):
                amp, cmd = 1, cmd[:-2]
            items.append(["job", int(m.group(1)), int(m.group(2)), m.group(3), amp, cmd])
            continue
        m = BGLAUNCH.match(line)
        if m:
            items.append(["bglaunch", int(m.group(1)), int(m.group(2))])
            continue
        m = BGCMD.match(line)
        if m:
            items.append(["bgcmd", int(m.group(1))])
            continue
        m = ALREADY.search(line)
        if m:
            items.append(["alreadybg", int(m.group(1))])
            continue
        if "no job found" in line:
            items.append(["nojob"])
        elif "no such job" in line or "not such job" in line:
            items.append(["nosuch"])
    return items


# ------------------------------------------------------------------ one session
class Session:
    def __init__(self, env, rng, plan):
        self.env, self.rng, self.plan = env, rng, plan
        self.model = env["model"]
        self.acts = []          # model actions fed so far
        self.typed = []         # what was done to the real shell, readable
        self.r2m, self.m2r = {}, {}
        self.cmd_of_gid = {}    # model gid -> command text of the whole pipeline
        self.leader = {}        # model pid -> model pid of stage 0 of its launch
        self.resumed = None     # the job an fg / bg just named (oracle O7)
        self.pending_fg = None  # `cmd ; fg n`: the job the line will wait for after cmd
        self.fg_gid = None      # the job the shell should be waiting for (driver's own bookkeeping, for the oracle)
        self.nextpid = 101
        self.serial = 0
        self.exp_prompts = 1
        self.steps = []
        self.mismatch = None
        self.oracle_fail = []
        self.classes = set()
        self.st = None
        self.infra = None

    # ---- helpers
    def real(self, mpid):
        return self.m2r.get(mpid)

    def mpid_of(self, rpid):
        if rpid == self.sh.pid:
            return 1
        return self.r2m.get(rpid, -rpid)

    def begin(self):
        self.before_prompt = self.st["prompt"]

    def expect(self, typed):
        """how many new prompts this action produces, by the model"""
        if typed:
            if self.before_prompt and self.st["prompt"]:
                self.exp_prompts += 1
        elif not self.before_prompt and self.st["prompt"]:
            self.exp_prompts += 1

    def feed(self, a):
        self.acts.append(a)
        line = self.model.ask(a)
        if line.startswith("ERROR"):
            raise RuntimeError("model: " + line)
        self.st = parse_state(line)
        return self.st

    def observe(self):
        self.sh.pump(0)
        ob = {"prompts": self.sh.prompts(), "owner": self.mpid_of(self.sh.owner()), "procs": {},
              "mask": sig_blocked(self.sh.pid), "blk": {}}
        for mp, rp in self.m2r.items():
            s, pg = proc_stat(rp)
            ob["procs"][mp] = (self.mpid_of(pg) if pg is not None else None, s)
            if s in ("R", "T"):
                b = sig_blocked(rp)
                if b is not None:
                    ob["blk"][mp] = b
        return ob

    def agrees(self, ob, st):
        if ob["prompts"] != self.exp_prompts or ob["owner"] != st["owner"] or ob["mask"] != st["mask"]:
            return False
        for mp, b in ob["blk"].items():
            if st["blk"].get(mp, b) != b:
                return False
        for mp, (pg, s) in st["procs"].items():
            if mp not in ob["procs"]:
                continue                # a process without trace record (command not found)
            opg, os_ = ob["procs"][mp]
            if os_ != s or (opg is not None and opg != pg):
                return False
        return True

    def converge(self, st, timeout=4.0):
        end = time.time() + timeout
        ob = self.observe()
        while not self.agrees(ob, st) and time.time() < end:
            self.sh.pump(0.01)
            ob = self.observe()
        if self.agrees(ob, st) and not st["prompt"]:
            # the shell must still be waiting a little later (an early prompt is the thing to catch)
            t2 = time.time() + 0.12
            while time.time() < t2:
                self.sh.pump(0.02)
            ob = self.observe()
        return ob

    # ---- oracle on the observation alone
    def oracle(self, ob, at_prompt, items, action):
        bad = []
        if ob["mask"] not in (0, None):
            bad.append("O8: the shell has SIGCHLD/SIGTSTP/SIGTTIN/SIGTTOU blocked (%s)%s" %
                       ("all four" if ob["mask"] == 1 else ob["mask"], " at the prompt" if at_prompt else ""))
        for mp, b in sorted(ob["blk"].items()):
            if b != 0:
                bad.append("O8: process %d runs with SIGCHLD/SIGTSTP/SIGTTIN/SIGTTOU blocked (%s): inherited from the shell" %
                           (mp, "all four" if b == 1 else b))
        if self.fg_gid is not None and self.pending_fg is not None:
            if not [mp for mp in ob["procs"] if self.leader[mp] == self.fg_gid and ob["procs"][mp][1] == "R"]:
                self.fg_gid, self.pending_fg = self.pending_fg, None     # the line went on to its fg
        if at_prompt and ob["owner"] != 1:
            bad.append("O1: prompt shown while the terminal belongs to %s" % ob["owner"])
        for mp, (pg, s) in ob["procs"].items():
            if pg is not None and s != "G" and pg != self.leader[mp]:
                bad.append("O3: process %d is in group %s, its pipeline is led by %d" % (mp, pg, self.leader[mp]))
        if self.fg_gid is not None:
            members = [mp for mp in ob["procs"] if self.leader[mp] == self.fg_gid]
            running = [mp for mp in members if ob["procs"][mp][1] == "R"]
            if at_prompt and running:
                bad.append("O5: prompt returned while member(s) %s of the foreground job %d still run" % (running, self.fg_gid))
            if not at_prompt and running and ob["owner"] != self.fg_gid:
                bad.append("O2: foreground job %d runs, terminal belongs to %s" % (self.fg_gid, ob["owner"]))
        for it in items:
            if it[0] == "job" and it[3] in ("Running", "Stopped"):
                gid = it[2]
                live = [ob["procs"][mp][1] for mp in ob["procs"] if self.leader[mp] == gid and ob["procs"][mp][1] in ("R", "T")]
                if not live:
                    bad.append("O6dead: job %d is listed %s, it has no live process" % (gid, it[3]))
                elif it[3] == "Stopped" and "R" in live:
                    bad.append("O6stop: job %d is shown Stopped while a member runs" % gid)
                elif it[3] == "Running" and "R" not in live:
                    bad.append("O6run: job %d is shown Running while every live member is stopped" % gid)
            if it[0] == "job" and len(it) > 5 and self.cmd_of_gid.get(it[2]) not in (None, it[5]):
                bad.append("O6cmd: job %d is shown with command text %r" % (it[2], it[5]))
        if self.resumed is not None:
            still = [mp for mp in ob["procs"] if self.leader[mp] == self.resumed and ob["procs"][mp][1] == "T"]
            if still:
                bad.append("O7: member(s) %s of job %d are still stopped after fg/bg" % (still, self.resumed))
            self.resumed = None
        if action == "J" and at_prompt:
            listed = set(it[2] for it in items if it[0] == "job" and it[3] in ("Running", "Stopped"))
            livej = set(self.leader[mp] for mp in ob["procs"] if ob["procs"][mp][1] in ("R", "T"))
            # a stage that is not in its leader's group still belongs to that job
            for g in livej - listed:
                bad.append("O6missing: jobs does not list job %d, which has a live process" % g)
        return bad

    # ---- compare one step
    def check(self, label, action):
        st = self.st
        ob = self.converge(st)
        text = self.sh.text_since_mark()
        raw = parse_text(text)
        items = []
        for it in raw:
            it = list(it)
            if it[0] in ("job", "bglaunch"):
                it[2] = self.mpid_of(it[2])
            items.append(it)
        got = sorted(tuple(it[:5]) if it[0] == "job" else tuple(it) for it in items)
        want = norm_outs(st["outs"])
        ok = self.agrees(ob, st) and got == want
        # is the shell at a prompt now (by the terminal, not by the model)?
        shown = ob["prompts"] >= (self.exp_prompts if st["prompt"] else self.exp_prompts + 1)
        bad = self.oracle(ob, shown, items, action)
        if shown:
            self.fg_gid = None
            self.pending_fg = None
        self.steps.append({"do": label, "model": st["raw"], "observed": {"prompts": ob["prompts"], "owner": ob["owner"],
                           "procs": {str(k): v for k, v in sorted(ob["procs"].items())}, "printed": [list(x) for x in got],
                           "shell_mask": ob["mask"], "blocked": {str(k): v for k, v in sorted(ob["blk"].items()) if v}}})
        if bad:
            self.oracle_fail.append({"step": len(self.steps), "do": label, "fails": bad})
        if not ok and self.mismatch is None:
            self.mismatch = {"step": len(self.steps), "do": label, "model": st["raw"], "model_prints": [list(x) for x in want],
                             "observed": self.steps[-1]["observed"], "expected_prompts": self.exp_prompts,
                             "terminal_text": text[-400:]}
        return ok

    # ---- actions on the real shell + model
    def type_line(self, line):
        self.sh.send(line.encode() + b"\r")
        self.typed.append(line)

    def launch(self, stages, bg, tail=None):
        """stages: list of ('jc', code) | ('hp', code) | ('nf',); tail: (typed text, model command, gid the tail will
        wait for or None): a second command on the same line, `stages ; tail`"""
        words, tags = [], []
        for s in stages:
            self.serial += 1
            tag = "s%d" % self.serial
            tags.append(tag)
            if s[0] == "jc":
                words.append("jc %d %s" % (s[1], tag))
            elif s[0] == "hp":
                words.append("hp @x%d %s" % (s[1], tag))
            else:
                words.append("nosuchcmd_c07 %s" % tag)
        cmd = " | ".join(words)
        line = cmd + (" &" if bg else "") + ("; " + tail[0] if tail else "")
        self.begin()
        self.type_line(line)
        stolen = self.sh.sample_owners(self.exp_prompts + 1, 3.0) if bg else set()
        ntr = sum(1 for s in stages if s[0] != "nf")
        recs = self.sh.new_trace(ntr, 6.0)
        if recs is None:
            self.infra = "trace records of %r did not appear" % line
            return False
        bytag = {r["tag"]: r for r in recs}
        mpids = []
        for s, tag in zip(stages, tags):
            mp = self.nextpid
            self.nextpid += 1
            mpids.append(mp)
            self.leader[mp] = mpids[0]
            if tag in bytag:
                self.r2m[bytag[tag]["pid"]] = mp
                self.m2r[mp] = bytag[tag]["pid"]
        # what the helpers saw when they started (they may be gone before the driver looks)
        early = []
        lead = self.m2r.get(mpids[0])
        for tag, mp in zip(tags, mpids):
            r = bytag.get(tag)
            if r is None or lead is None:
                continue
            if r["pgid"] != lead:
                early.append("O3: process %d started in group %s, its pipeline is led by %d" % (mp, self.mpid_of(r["pgid"]), mpids[0]))
                if r["pgid"] == self.sh.pid:
                    self.classes.add("stage_outside_group")
            if bg and r["tpgid"] is not None and r["pgid"] == lead and r["tpgid"] == r["pgid"]:
                early.append("O4: background process %d found its own group in the foreground when it started" % mp)
        if stolen:
            early.append("O4: while the background job %d was launched the terminal belonged to %s" %
                         (mpids[0], sorted(self.mpid_of(x) for x in stolen)))
        self.cmd_of_gid[mpids[0]] = cmd
        if not bg:
            self.fg_gid = mpids[0]
        if tail:
            self.pending_fg = tail[2]
            st = self.feed("N:L/%d/%s;%s" % (1 if bg else 0, ",".join(map(str, mpids)), tail[1]))
        else:
            st = self.feed("L:%d:%s" % (1 if bg else 0, ",".join(map(str, mpids))))
        for s, mp in zip(stages, mpids):
            if s[0] == "hp":
                st = self.feed("X:%d:%d" % (mp, s[1]))
            elif s[0] == "nf":
                st = self.feed("X:%d:1" % mp)
        self.expect(True)
        ok = self.check("type %r" % line, "L")
        if early:
            self.oracle_fail.append({"step": len(self.steps), "do": "type %r" % line, "fails": early})
            if self.mismatch is None and any(e.startswith("O3") for e in early):
                self.mismatch = {"step": len(self.steps), "do": "type %r" % line, "model": self.st["raw"],
                                 "observed": {"trace": early}, "expected_prompts": self.exp_prompts, "terminal_text": ""}
            ok = False
        return ok

    def simple(self, line, act):
        self.begin()
        self.type_line(line)
        st = self.feed(act)
        self.expect(True)
        return self.check("type %r" % line, act[0])

    def fg(self, arg, pick):
        st0 = self.st
        line = "fg" if arg is None else "fg %d" % arg
        self.begin()
        self.type_line(line)
        # which job will the shell wait for (driver's bookkeeping for the oracle)
        tgt = arg if arg is not None else pick
        for j in st0["jobs"]:
            if j["id"] == tgt:
                self.fg_gid = j["gid"]
                self.resumed = j["gid"]
                if self.jobsize(j["gid"]) >= 2:
                    self.classes.add("member_stop")
        st = self.feed("F:%s:%d" % ("-" if arg is None else arg, pick))
        self.expect(True)
        return self.check("type %r" % line, "F")

    def key(self, which):
        self.begin()
        if which == "Z" and not self.st["prompt"] and self.jobsize(int(self.st["mode"].split(":")[1])) >= 2:
            self.classes.add("member_stop")
        self.sh.send(b"\x1a" if which == "Z" else b"\x03")
        self.typed.append("Ctrl-" + which)
        st = self.feed(which)
        self.expect(False)
        return self.check("Ctrl-" + which, which)

    def jobsize(self, gid):
        return sum(1 for m in self.leader if self.leader[m] == gid)

    def sig(self, mp, signo):
        rp = self.real(mp)
        self.begin()
        if signo in (18, 19, 20):
            if self.jobsize(self.leader[mp]) >= 2:
                self.classes.add("member_stop")
            if not self.st["prompt"] and self.leader[mp] != int(self.st["mode"].split(":")[1]):
                self.classes.add("parked_stop_cont")
        self.sh.mark = len(self.sh.buf)
        try:
            os.kill(rp, signo)
        except OSError:
            pass
        self.typed.append("kill -%d <%d>" % (signo, mp))
        st = self.feed("S:%d:%d" % (mp, signo))
        self.expect(False)
        return self.check("signal %d to process %d" % (signo, mp), "S")

    def ask_exit(self, mp, code):
        rp = self.real(mp)
        self.begin()
        self.sh.mark = len(self.sh.buf)
        try:
            os.kill(rp, signal.SIGUSR1)
        except OSError:
            pass
        self.typed.append("exit-request <%d>" % mp)
        st = self.feed("X:%d:%d" % (mp, code))
        self.expect(False)
        return self.check("process %d exits with %d" % (mp, code), "X")

    # ---- choosing the next action from the model's state
    def live(self, st, states=("R", "T")):
        return [mp for mp in st["order"] if st["procs"][mp][1] in states and mp in self.m2r]

    def job_members(self, st, gid, states=("R", "T")):
        return [mp for mp in st["order"] if self.leader.get(mp) == gid and st["procs"][mp][1] in states and mp in self.m2r]

    def random_step(self):
        rng, st = self.rng, self.st
        codes = {}
        if st["prompt"]:
            njobs = len(st["jobs"])
            nlive = len(self.live(st))
            opts = []
            if njobs < 3 and nlive < 7:
                opts += ["launch_fg"] * 4 + ["launch_bg"] * 4
            opts += ["jobs"] * 2 + ["empty", "builtin", "notfound", "fg", "bg", "fg", "bg"]
            if njobs < 3 and nlive < 7:
                opts += ["line2"] * 3
            if nlive:
                opts += ["sigjob"] * 3 + ["exitproc"] * 2 + ["sigone"] * 3
            c = rng.choice(opts)
            if c in ("launch_fg", "launch_bg"):
                n = rng.choice([1, 1, 2, 2, 3])
                stages = []
                for i in range(n):
                    if c == "launch_fg" and rng.random() < 0.3:
                        stages.append(("hp", rng.randrange(0, 4)))
                    else:
                        stages.append(("jc", rng.randrange(0, 4)))
                return self.launch(stages, c == "launch_bg")
            if c == "line2":
                # `pipeline ; fg n | bg n | jobs` on one line: no poll between the two commands
                stages = [("jc", rng.randrange(0, 4)) for _ in range(rng.choice([1, 1, 2]))]
                ids = [j["id"] for j in st["jobs"]]
                t = rng.choice(["fg", "fg", "bg", "jobs"])
                if t == "jobs":
                    tail = ("jobs", "J", None)
                else:
                    n = rng.choice(ids) if ids and rng.random() < 0.85 else 9
                    tgt = None
                    for j in st["jobs"]:
                        if j["id"] == n:
                            tgt = j["gid"]
                    tail = ("%s %d" % (t, n), "%s/%d/0" % ("F" if t == "fg" else "G", n), tgt if t == "fg" else None)
                return self.launch(stages, False, tail)
            if c == "jobs":
                return self.simple("jobs", "J")
            if c == "empty":
                return self.simple("", "E")
            if c == "builtin":
                return self.simple("cd /nonexistent_c07", "B")
            if c == "notfound":
                return self.launch([("nf",)], False)
            if c in ("fg", "bg"):
                ids = [j["id"] for j in st["jobs"]]
                r = rng.random()
                if not ids or r < 0.08:
                    arg, pick = (rng.choice([7, 9]), 0)
                elif len(ids) == 1 and r < 0.5:
                    arg, pick = (None, ids[0])
                elif r < 0.6:
                    arg, pick = (self.real(rng.choice([j["gid"] for j in st["jobs"]])), 0)   # by group id: typed as the real number
                    return self.fg_by_gid(c, arg)
                else:
                    arg, pick = (rng.choice(ids), 0)
                if c == "fg":
                    # fg on a job none of whose members can ever report again would block for ever: the driver would
                    # have nothing to end it with; such jobs only exist after the known defects, so skip it then
                    tgt = arg if arg is not None else pick
                    for j in st["jobs"]:
                        if j["id"] == tgt and not self.job_members(st, j["gid"], ("R", "T", "Z")):
                            return self.simple("", "E")
                    return self.fg(arg, pick)
                line = "bg" if arg is None else "bg %d" % arg
                for j in st["jobs"]:
                    if j["id"] == (arg if arg is not None else pick):
                        self.resumed = j["gid"]
                return self.simple(line, "G:%s:%d" % ("-" if arg is None else arg, pick))
            if c == "sigjob":
                # a signal to every live member of one job, one after the other (nothing is polled in between)
                gids = sorted(set(self.leader[mp] for mp in self.live(st)))
                g = rng.choice(gids)
                members = self.job_members(st, g)
                signo = rng.choice([19, 19, 18, 9, 15, 2])
                ok = True
                for mp in members:
                    if signo in (15, 2) and st["procs"][mp][1] == "T":
                        continue        # would stay pending; keep at most one pending fatal signal per process
                    ok = self.sig(mp, signo) and ok
                return ok
            if c == "sigone":
                # a signal to one member only (the member-level cases that were C06's open defects)
                mp = rng.choice(self.live(st))
                if st["procs"][mp][1] == "T":
                    signo = rng.choice([18, 18, 9])
                else:
                    signo = rng.choice([19, 19, 9, 15])
                return self.sig(mp, signo)
            if c == "exitproc":
                cand = [mp for mp in self.live(st, ("R",))]
                if not cand:
                    return self.simple("", "E")
                mp = rng.choice(cand)
                if not self.is_jc(mp):
                    return self.simple("", "E")
                return self.ask_exit(mp, self.code_of(mp))
        else:
            # the shell waits on a job
            gid = int(st["mode"].split(":")[1])
            members = self.job_members(st, gid)
            others = [mp for mp in self.live(st) if self.leader[mp] != gid]
            opts = ["Z"] * 3 + ["C"] * 3
            if members:
                opts += ["exit_m"] * 3 + ["kill_m"] * 2
                opts += ["stop_m"] * 3
            if others:
                opts += ["kill_o", "exit_o", "stop_o", "stop_o"]
            c = rng.choice(opts)
            if c in ("Z", "C"):
                return self.key(c)
            if c == "exit_m":
                cand = [mp for mp in members if st["procs"][mp][1] == "R" and self.is_jc(mp)]
                if cand:
                    mp = rng.choice(cand)
                    return self.ask_exit(mp, self.code_of(mp))
                return self.key("C")
            if c == "kill_m":
                return self.sig(rng.choice(members), rng.choice([9, 15, 9]) if all(st["procs"][m][1] == "R" for m in members) else 9)
            if c == "stop_m":
                mp = rng.choice(members)
                return self.sig(mp, 19 if st["procs"][mp][1] == "R" else 18)
            if c == "stop_o":
                mp = rng.choice(others)
                return self.sig(mp, 19 if st["procs"][mp][1] == "R" else 18)
            if c == "kill_o":
                return self.sig(rng.choice(others), 9)
            if c == "exit_o":
                cand = [mp for mp in others if st["procs"][mp][1] == "R" and self.is_jc(mp)]
                if cand:
                    mp = rng.choice(cand)
                    return self.ask_exit(mp, self.code_of(mp))
                return self.sig(rng.choice(others), 9)
        return True

    def fg_by_gid(self, which, real_gid):
        # `fg <gid>` / `bg <gid>`: the builtins fall back to the group id; the model gets the model's number
        mg = self.r2m[real_gid]
        line = "%s %d" % (which, real_gid)
        if which == "fg":
            if not self.job_members(self.st, mg, ("R", "T", "Z")):
                return self.simple("", "E")
            self.begin()
            self.type_line(line)
            self.fg_gid = mg
            self.resumed = mg
            if self.jobsize(mg) >= 2:
                self.classes.add("member_stop")
            st = self.feed("F:%d:0" % mg)
            self.expect(True)
            return self.check("type %r" % line, "F")
        self.resumed = mg
        return self.simple(line, "G:%d:0" % mg)

    def is_jc(self, mp):
        return self.kind.get(mp) == "jc"

    def code_of(self, mp):
        return self.codes.get(mp, 0)

    # ---- scripted sessions: the four repaired C06 defects (now regressions that must hold) and clean scenarios
    def scripted(self, name):
        rng = self.rng
        ok = True
        if name == "count_waited":
            ok = self.launch([("jc", 0), ("jc", 0)], False)
            a, b = self.nextpid - 2, self.nextpid - 1
            ok = ok and self.sig(a, 19)
            ok = ok and self.sig(a, 18)
            ok = ok and self.ask_exit(a, 0)       # the faithful model: the wait returns here, b still runs
            ok = ok and self.sig(b, 9)
            if self.st["prompt"]:
                ok = ok and self.simple("", "E")
        elif name == "stop_cont_parked":
            ok = self.launch([("jc", 0)], True)
            b = self.nextpid - 1
            ok = ok and self.launch([("jc", 0)], False)
            f = self.nextpid - 1
            ok = ok and self.sig(b, 19)
            ok = ok and self.sig(b, 18)
            ok = ok and self.ask_exit(f, 0)       # the poll after the wait applies the parked stop only
            ok = ok and self.simple("jobs", "J")
            ok = ok and self.sig(b, 9)
            ok = ok and self.simple("", "E")
        elif name == "exit_among_stopped":
            ok = self.launch([("jc", 0), ("jc", 0)], True)
            a, b = self.nextpid - 2, self.nextpid - 1
            ok = ok and self.sig(a, 19)
            ok = ok and self.simple("", "E")
            ok = ok and self.ask_exit(b, 0)
            ok = ok and self.simple("", "E")
            ok = ok and self.simple("jobs", "J")   # listed Running, the only live member is stopped
            ok = ok and self.sig(a, 9)
            ok = ok and self.simple("", "E")
        elif name == "many_pipes":
            # many short pipelines: every stage must start in the group of the first (b465168)
            for i in range(10):
                ok = self.launch([("hp", 0), ("hp", 1), ("hp", 0)], False) and ok
            ok = self.launch([("jc", 0), ("jc", 0), ("jc", 0)], True) and ok
            ok = self.launch([("jc", 0), ("jc", 0)], False) and ok
            if not self.st["prompt"]:
                ok = self.key("C") and ok
            for mp in self.live(self.st):
                ok = self.sig(mp, 9) and ok
            ok = self.simple("", "E") and ok
        elif name in ("fg_gone", "bg_gone", "fg_live_tail"):
            # `short &`, then `cmd ; fg 1` where the background job ends while cmd is waited for: the wait reaps it, the
            # table still lists it, fg's tcsetpgrp to the vanished group FAILS; then a foreground job + Ctrl-Z
            ok = self.launch([("jc", 0)], True)
            a = self.nextpid - 1
            tail = {"fg_gone": ("fg 1", "F/1/0", None), "bg_gone": ("bg 1", "G/1/0", None),
                    "fg_live_tail": ("fg 1", "F/1/0", a)}[name]
            ok = self.launch([("jc", 0)], False, tail) and ok
            b = self.nextpid - 1
            if name != "fg_live_tail":
                ok = self.ask_exit(a, 0) and ok
            ok = self.ask_exit(b, 0) and ok
            if not self.st["prompt"]:          # fg_live_tail: the line now waits for job 1
                ok = self.key("Z") and ok
                ok = self.simple("jobs", "J") and ok
                ok = self.sig(a, 9) and ok
                ok = self.simple("", "E") and ok
            ok = self.launch([("jc", 0)], False) and ok
            c = self.nextpid - 1
            if not self.st["prompt"]:
                ok = self.key("Z") and ok
            ok = self.simple("jobs", "J") and ok
            ok = self.sig(c, 9) and ok
            ok = self.simple("", "E") and ok
        elif name in ("cont_unsettles_last", "cont_unsettles_first"):
            # a member of a foreground pipeline is stopped and continued from outside, then the OTHER member exits: the
            # shell must keep waiting (the continued member runs), the job keeps the terminal (1687e77: a continue unsettles)
            ok = self.launch([("jc", 0), ("jc", 0)], False)
            a, b = self.nextpid - 2, self.nextpid - 1
            x, y = (b, a) if name == "cont_unsettles_last" else (a, b)
            ok = self.sig(x, 19) and ok
            ok = self.sig(x, 18) and ok
            ok = self.ask_exit(y, 0) and ok        # still waiting: x runs and owns the terminal
            if not self.st["prompt"]:
                ok = self.key("Z") and ok          # stops x: now the wait returns, Stopped notice, prompt
            ok = self.simple("jobs", "J") and ok
            ok = self.sig(x, 9) and ok
            ok = self.simple("", "E") and ok
        elif name == "stopped_member_killed":
            # one member of a background pipeline is stopped, the shell takes note, that member is killed: the job has
            # a running member and must stay Running
            ok = self.launch([("jc", 0), ("jc", 0)], True)
            a, b = self.nextpid - 2, self.nextpid - 1
            ok = self.sig(a, 19) and ok
            ok = self.simple("", "E") and ok
            ok = self.sig(a, 9) and ok
            ok = self.simple("", "E") and ok
            ok = self.simple("jobs", "J") and ok
            ok = self.sig(b, 9) and ok
            ok = self.simple("", "E") and ok
        elif name in ("bg_partial_stop", "bg_unnoticed_stop"):
            # bg on a job the table lists as Running while a member is in fact stopped: bg must still continue it
            if name == "bg_partial_stop":
                ok = self.launch([("jc", 0), ("jc", 0)], True)
                a = self.nextpid - 2
                ok = self.sig(a, 19) and ok
                ok = self.simple("", "E") and ok
            else:
                ok = self.launch([("jc", 0)], True)
                a = self.nextpid - 1
                ok = self.sig(a, 19) and ok        # `bg 1` is the very next line: the shell has not seen the stop
            self.resumed = self.leader[a]
            ok = self.simple("bg 1", "G:1:0") and ok
            ok = self.simple("jobs", "J") and ok
            for mp in self.live(self.st):
                ok = self.sig(mp, 9) and ok
            ok = self.simple("", "E") and ok
        elif name == "fg_leader_gone":
            # the first stage of a background pipeline has ended and the shell has taken note: fg must still bring the
            # pipeline's group (not the pid of the next stage) to the foreground
            ok = self.launch([("jc", 0), ("jc", 0)], True)
            a, b = self.nextpid - 2, self.nextpid - 1
            ok = self.ask_exit(a, 0) and ok
            ok = self.simple("", "E") and ok
            ok = self.fg(1, 0) and ok
            if not self.st["prompt"]:
                ok = self.key("Z") and ok
            ok = self.simple("jobs", "J") and ok
            ok = self.fg(1, 0) and ok
            if not self.st["prompt"]:
                ok = self.key("C") and ok
            for mp in self.live(self.st):
                ok = self.sig(mp, 9) and ok
            ok = self.simple("jobs", "J") and ok
        elif name == "fg_multi":
            # no known class: a stopped two-process background job is brought to the foreground and ends member by member
            ok = self.launch([("jc", 0), ("jc", 0)], True)
            a, b = self.nextpid - 2, self.nextpid - 1
            ok = ok and self.sig(a, 19)
            ok = ok and self.sig(b, 19)
            ok = ok and self.simple("", "E")
            ok = ok and self.simple("jobs", "J")
            ok = ok and self.fg(1, 0)
            ok = ok and self.ask_exit(a, 0)
            ok = ok and self.ask_exit(b, 0)
            ok = ok and self.simple("jobs", "J")
        elif name == "ctrlz_bg_fg":
            ok = self.launch([("jc", 0), ("jc", 0)], False)
            ok = ok and self.key("Z")
            ok = ok and self.simple("jobs", "J")
            if self.st["prompt"]:
                self.resumed = self.nextpid - 2
                ok = ok and self.simple("bg", "G:-:1")
                ok = ok and self.simple("jobs", "J")
                ok = ok and self.fg(None, 1)
            ok = ok and self.key("C")
            if not self.st["prompt"]:      # a stage outside the group survives Ctrl-C
                for mp in self.job_members(self.st, self.nextpid - 2):
                    ok = ok and self.sig(mp, 9)
        elif name == "partial_continue":
            ok = self.launch([("jc", 0), ("jc", 0)], True)
            a, b = self.nextpid - 2, self.nextpid - 1
            ok = ok and self.sig(a, 19)
            ok = ok and self.sig(b, 19)
            ok = ok and self.simple("", "E")
            ok = ok and self.sig(a, 18)
            ok = ok and self.simple("", "E")
            ok = ok and self.simple("jobs", "J")   # listed Stopped, a runs
            ok = ok and self.sig(a, 9)
            ok = ok and self.sig(b, 9)
            ok = ok and self.simple("", "E")
        return ok

    # ---- Ctrl-C stress (K7): Ctrl-C 0..150 ms after Enter; the shell must survive, prompt again and own the terminal
    def shell_status(self):
        try:
            p, st = os.waitpid(self.sh.pid, os.WNOHANG)
        except ChildProcessError:
            return "gone"
        if p == 0:
            return None
        if os.WIFSIGNALED(st):
            return "killed by signal %d" % os.WTERMSIG(st)
        return "exited with status %d" % os.WEXITSTATUS(st)

    def kill_traced(self):
        try:
            for l in open(self.sh.trace).read().split("\n"):
                if l.startswith("pid="):
                    pid = int(l.split("\t")[0][4:])
                    if pid not in self.killed:
                        self.killed.add(pid)
                        try:
                            os.kill(pid, signal.SIGKILL)
                        except OSError:
                            pass
        except OSError:
            pass

    def ctrlc_stress(self, n):
        rng = self.rng
        self.killed = set()
        self.trials = []
        for i in range(n):
            delay = rng.choice([0, 0, 1, 2, 3, 5, 8, 12, 20, 30, 50, 80, 110, 150]) / 1000.0
            kind = rng.choice(["jc", "jc", "hp", "pipe"])
            self.serial += 1
            t = "s%d" % self.serial
            cmd = {"jc": "jc 0 %s" % t, "hp": "hp @s300 %s" % t, "pipe": "jc 0 %s | jc 0 %sb" % (t, t)}[kind]
            what = "%r, Ctrl-C %d ms after Enter" % (cmd, int(delay * 1000))
            self.typed.append(what)
            start = len(self.sh.buf)
            os.write(self.sh.fd, cmd.encode() + b"\r")
            if delay:
                time.sleep(delay)
            try:
                os.write(self.sh.fd, b"\x03")
            except OSError:
                pass
            end = time.time() + 0.5
            while time.time() < end and PROMPT not in self.sh.buf[start:]:
                self.sh.pump(0.01)
            # whatever is left of the job is ended from outside; then a marker line must be answered at a prompt
            mark = str(200000 + self.serial).encode()
            dead = None
            try:
                os.write(self.sh.fd, b" 200000 + %d\r" % self.serial)
            except OSError:
                dead = self.shell_status() or "terminal closed"
            end = time.time() + 5.0
            ok = False
            while dead is None and time.time() < end:
                self.kill_traced()
                self.sh.pump(0.02)
                tail = self.sh.buf[start:]
                j = tail.find(mark + b"\r\n")
                if j >= 0 and PROMPT in tail[j:]:
                    ok = True
                    break
                dead = self.shell_status()
            fails = []
            if dead:
                fails.append("K7: the shell itself is gone (%s) after %s" % (dead, what))
            elif not ok:
                fails.append("K7: no prompt answering the marker line within 5 s after %s" % what)
            else:
                ow = self.sh.owner()
                if ow != self.sh.pid:
                    fails.append("O1: prompt shown while the terminal belongs to %s after %s" % (ow, what))
            self.trials.append({"do": what, "ok": not fails})
            self.steps.append({"do": what, "model": "m=P o=1 p= t= out= maps=///", "observed": {"ok": not fails}})
            if fails:
                self.oracle_fail.append({"step": len(self.steps), "do": what, "fails": fails})
            if dead:
                break

    # ---- run
    def run(self):
        root = tempfile.mkdtemp(prefix="c07_")
        self.kind, self.codes = {}, {}
        orig_launch = self.launch

        def launch(stages, bg, tail=None):      # remember what each process is
            first = self.nextpid
            for i, s in enumerate(stages):
                self.kind[first + i] = s[0]
                self.codes[first + i] = s[1] if len(s) > 1 else 0
            return orig_launch(stages, bg, tail)
        self.launch = launch
        try:
            self.sh = Shell(self.env["cicada"], self.env["helpers"], root)
            if not self.sh.wait_prompts(1, 10.0):
                self.infra = "no first prompt"
                return self.result()
            self.model.reset()
            self.st = parse_state("m=P o=1 p= t= out= maps=///")
            if self.plan["kind"] == "ctrlc":
                self.ctrlc_stress(self.plan["n"])
            elif self.plan["kind"] == "scripted":
                self.scripted(self.plan["name"])
            else:
                for _ in range(self.plan["n"]):
                    if self.mismatch or self.infra:
                        break
                    self.random_step()
        except Exception as e:  # noqa
            import traceback
            self.infra = "driver exception: " + traceback.format_exc()[-600:]
        finally:
            try:
                self.sh.close(list(self.m2r.values()) + list(getattr(self, "killed", [])))
            except Exception:
                pass
            shutil.rmtree(root, ignore_errors=True)
        return self.result()

    def result(self):
        return {"plan": self.plan, "acts": self.acts, "typed": self.typed, "nsteps": len(self.steps), "mismatch": self.mismatch,
                "oracle_fail": self.oracle_fail, "classes": sorted(self.classes), "infra": self.infra,
                "last_steps": self.steps[-4:], "launches": sum(1 for a in self.acts if a.startswith("L:") or a.startswith("N:L")),
                "multi": sum(1 for a in self.acts if a.startswith("L:") and "," in a.split(":")[2]),
                "lines2": sum(1 for a in self.acts if a.startswith("N:")),
                "stray": 1 if "stage_outside_group" in self.classes else 0,
                "states": [s["model"].split(" maps=")[0] for s in self.steps]}


def attribute(code, classes):
    """which recorded defect explains this oracle failure in a session with these features"""
    if code == "O3":
        return "stage_outside_group" if "stage_outside_group" in classes else None
    if code in ("O2", "O7"):
        return "stage_outside_group" if "stage_outside_group" in classes else None
    if code == "O5":
        return "count_waited" if "member_stop" in classes else None
    if code == "O6run":
        return "exit_among_stopped" if "member_stop" in classes else None
    if code == "O6stop":
        if "parked_stop_cont" in classes:
            return "stop_cont_parked"
        return "partial_continue" if "member_stop" in classes else None
    return None


def worker(spec_path, out_path):
    spec = json.load(open(spec_path))
    env = dict(spec["env"])
    env["model"] = Model(spec["env"]["model_exe"])
    out = []
    for plan in spec["plans"]:
        rng = random.Random(plan["seed"])
        r = Session(env, rng, plan).run()
        if r["infra"] and "exception" not in (r["infra"] or ""):
            # machinery hiccup (pty / trace): one more try with the same seed
            r2 = Session(env, random.Random(plan["seed"]), plan).run()
            r2["retried"] = r["infra"]
            r = r2
        out.append(r)
    env["model"].close()
    json.dump(out, open(out_path, "w"))


# ------------------------------------------------------------------ ./check entry
def run(ctx, res):
    res.rule = ("L2/pty only. A case = one action of an interactive session (5..25 actions; launch fg/bg pipeline of 1..3 stages, "
                "Ctrl-Z, Ctrl-C, fg/bg [id|gid], jobs, empty line, failing builtin, command not found, signals/exit of members) "
                "compared after convergence: prompt, tcgetpgrp, /proc state+pgrp of every helper, printed job lines; pgrp/tcgetpgrp at "
                "helper start from the trace; owner busy-sampled during & launches. non-trivial = distinct (action kind, model state shape).")
    known = {k["class"]: k for k in C.known_findings("C07")}
    nmain = 300 if ctx.thorough else 26
    reps = 6 if ctx.thorough else 1
    plans = []
    for i in range(nmain):
        plans.append({"kind": "random", "n": ctx.rng.randrange(5, 26), "seed": ctx.rng.randrange(1 << 30)})
    for r in range(reps):
        for name in ["count_waited", "stop_cont_parked", "exit_among_stopped", "partial_continue", "fg_multi", "ctrlz_bg_fg",
                     "many_pipes", "many_pipes",
                     "fg_gone", "bg_gone", "fg_live_tail", "cont_unsettles_last", "cont_unsettles_first",
                     "stopped_member_killed", "bg_partial_stop", "bg_unnoticed_stop", "fg_leader_gone"]:
            plans.append({"kind": "scripted", "name": name, "seed": ctx.rng.randrange(1 << 30)})
    ntr = 100 if ctx.thorough else 30
    for i in range(ntr // 10):
        plans.append({"kind": "ctrlc", "n": 10, "seed": ctx.rng.randrange(1 << 30)})
    if ctx.replay:
        rp = json.load(open(ctx.replay))
        if rp.get("plan"):
            plans = [rp["plan"]]
    nw = max(1, min(C.NCPU - 2, 12, len(plans)))
    work = tempfile.mkdtemp(prefix="c07w_")
    try:
        procs = []
        for w in range(nw):
            spec = {"env": {"cicada": ctx.cicada, "helpers": ctx.helpers, "model_exe": ctx.model["C07"]}, "plans": plans[w::nw]}
            sp, op = os.path.join(work, "spec%d.json" % w), os.path.join(work, "out%d.json" % w)
            json.dump(spec, open(sp, "w"))
            procs.append((w, op, subprocess.Popen([sys.executable, os.path.abspath(__file__), "--worker", sp, op],
                                                  stdout=subprocess.DEVNULL, stderr=subprocess.PIPE)))
        results = []
        for w, op, p in procs:
            try:
                _, err = p.communicate(timeout=1500)
            except subprocess.TimeoutExpired:
                p.kill()
                raise C.Infra("C07 worker %d timed out" % w)
            if p.returncode != 0 or not os.path.exists(op):
                raise C.Infra("C07 worker %d failed: %s" % (w, err.decode()[-1500:]))
            results += json.load(open(op))
    finally:
        shutil.rmtree(work, ignore_errors=True)

    # post-hoc: the recorded action lists through the file mode of the model must give the same states
    recheck = [r for r in results if r["acts"]]
    path = C.write_cases("c07_sessions", ["\t".join(r["acts"]) for r in recheck])
    mouts = C.run_model(ctx.model["C07"], path)
    steps = 0
    ctrlc = 0
    stray = multi = launches = 0
    accepted = []
    infra = 0
    for r in results:
        if r["plan"]["kind"] == "ctrlc":
            ctrlc += r["nsteps"]
        else:
            steps += r["nsteps"]
        stray += r["stray"]
        multi += r["multi"]
        launches += r["launches"]
        for s in r["states"]:
            f = s.split(" ")
            if r["plan"]["kind"] != "ctrlc":
                d = dict(x.partition("=")[::2] for x in f)
                res.nontrivial((d["m"].split(":")[0] + d["m"][-3:], len(d["p"].split(",")), d["t"].count(";"), d["out"][:12]))
        if r["infra"]:
            infra += 1
            continue
        replay = {"plan": r["plan"], "typed": r["typed"], "model_actions": r["acts"]}
        fails = [(f.split(":")[0], f, o["step"]) for o in r["oracle_fail"] for f in o["fails"]]
        attributed = [(attribute(code, r["classes"]), msg, do) for code, msg, do in fails]
        unattributed = [(msg, do) for c, msg, do in attributed if c is None or c not in known]

        def upto(step):
            pre = [t if t else "<empty line>" for t in r["typed"][:step]]
            return ("... ; " if len(pre) > 12 else "") + "; ".join(pre[-12:])
        if r["mismatch"]:
            at = r["mismatch"]["step"]
            wrong = [(msg, do) for c, msg, do in attributed if do >= at] + [x for x in unattributed if x[1] < at]
            if not wrong and any(c in known for f in r["classes"] for c in FEATURE_CLASSES.get(f, [])):
                accepted.append({"classes": r["classes"], "typed": r["typed"], "note": "the implementation leaves the faithful "
                                 "model in a session of a known class and satisfies the property oracle there (repaired)"})
                for c, msg, do in attributed:
                    if c is not None and c in known:
                        res.known(c, 'class=%s input="%s" what=%s' % (c, upto(do), msg))
                continue
            res.violate(kind="model-vs-implementation", failing_input=bool(wrong), input=r["typed"],
                        expected=r["mismatch"]["model"], observed=r["mismatch"]["observed"], detail=r["mismatch"],
                        oracle=wrong[:3], replay=replay,
                        note="typed lines / keys / signals of the session, in order; the first step where the real shell and "
                             "the model disagree is in detail; oracle = what the observation itself violates")
            continue
        for c, msg, do in attributed:
            if c is not None and c in known:
                res.known(c, 'class=%s input="%s" what=%s' % (c, upto(do), msg))
        if unattributed:
            res.violate(kind="oracle", failing_input=True, input=r["typed"], expected="property oracle O1..O6 on the observation",
                        observed=unattributed[:3], replay=replay, session_classes=r["classes"],
                        note="model and implementation agree, the observation violates the property outside every known class")
    # file-mode recheck
    for r, mo in zip(recheck, mouts):
        ms = [x.split(" maps=")[0] for x in mo.split(" | ")]
        # the states recorded online are those after the checked steps: a subsequence of the file-mode trace
        it = iter(ms)
        if not all(any(s == m for m in it) for s in r["states"]):
            res.violate(kind="model-replay", failing_input=False, input=r["acts"], expected="same states from drv <file>",
                        observed=ms[-3:], note="online and file mode of the model driver disagree")
    if infra > max(1, len(results) // 10):
        raise C.Infra("C07: %d of %d sessions could not be driven (pty / trace machinery)" % (infra, len(results)))
    res.count("L2_pty_steps", steps)
    res.count("L2_ctrlc_after_enter_trials", ctrlc)
    res.extra["c07"] = {"sessions": len(results), "sessions_not_driven": infra, "launches": launches, "multi_stage_launches": multi,
                        "sessions_with_a_stage_outside_its_group": stray, "accepted_as_repaired": accepted[:6]}
    for r in results[:3]:
        res.sample({"typed": r["typed"][:10], "last_state": r["states"][-1] if r["states"] else ""})


if __name__ == "__main__":
    if len(sys.argv) == 4 and sys.argv[1] == "--worker":
        worker(sys.argv[2], sys.argv[3])
