"""C19 -- arithmetic lines: classification, precedence, i64 wrap-around, crash freedom.

gen:  extracts the three regex literals of tools::is_arithmetic, the `.op(...)` chain of the
      Pratt parser and the grammar text into coq/theories/Gen/CalcTables.v.
L1:   in-process (harness bin c19): is_arithmetic, parse_line's arithmetic shortcut,
      calculator::calculate (pair structure) and core::run_calculator on every short string
      over the arithmetic alphabet and on random expression trees, against the extracted model
      AND against an independent exact reference evaluator written here (the property's oracle).
L2:   the real binary: `cicada -c '<expr>'` and `echo $(<expr>)`.
"""
import itertools, json, math, os, re, shutil, struct, subprocess, tempfile
import common as C

EXTRACT = ["C19"]
BINS = ["c19"]
NEEDS_CICADA = True
ALLOWED_AXIOMS = []
PINNED = ["C19_pratt", "C19_pratt_std", "C19_pow", "C19_int", "C19_classify", "C19_nocrash_full", "C19_nocrash",
          "C19_line", "C19_string_tree", "C19_string_int", "C19_parse_print", "C19_int_literals", "gen_is_expected",
          "C19_fuel_suffices", "C19_fuel_irrelevant", "C19_parse_calc_nofuel", "C19_nocrash_total",
          "C19_render_parse", "C19_render_parse_fuel", "C19_render_line", "C19_render_value", "C19_dec_literal",
          "C19_is_arithmetic_is_source_regex", "C19_arith_matchers_are_source_regexes",
          "C19_peg_is_hand_parser", "C19_peg_fuel_suffices", "C19_peg_nofuel", "C19_peg_render_parse",
          "C19_float_structure", "C19_float_structure_all", "C19_float_literals",
          "C19_grammar_wf", "C19_peg_fuel_adequate"]
TRUSTED = [
    "Coq 8.16.1 kernel (coqc; coqchk in thorough); vm_compute only in Example witnesses and the gen_is_expected pins",
    "hand transcription of tools::is_arithmetic (three matchers written against the regex literals pinned by "
    "gen_is_expected), of the pest grammar calculator/grammar.pest (tokenizer + PEG parser with pest's implicit "
    "WHITESPACE rule, atomic num), of pest 2.8.0 PrattParserMap::{expr,nud,led,lbp}, of calculator::eval_int and "
    "core::run_calculator (coq/theories/Model/Calc.v), tied by differential execution",
    "wrapping_mul / Wrapping<i64> = multiplication mod 2^64 read as signed (wrap64); `(x as f64 / 0.0) as i64` = "
    "saturating cast (MAX / MIN / 0); `rhs as u64` of a non-negative i64 is the identity",
    "the translator gen() in drive/c19.py (regex literals, .op chain, grammar text -> Gen/CalcTables.v)",
    "extraction: ExtrOcamlBasic only; OCaml 4.13.1; ocaml/c19/drv.ml",
    "harness/src/bin/c19.rs, drive/c19.py (reference evaluator: python ints; IEEE double = python float)",
]
ASSUMES = [
    "float mode (a `.` in the line): the STRUCTURE of eval_float is modelled (Model/CalcFloat.v) over an oracle "
    "record of f64 operations (C19_float_structure: the result is the fold of the oracle over the Pratt tree); the "
    "f64 operations themselves are not defined in Coq: layer L1_float_bits instantiates the oracle with OCaml "
    "floats (+. -. *. /. **, float_of_string) and compares bit patterns with the implementation; the printed "
    "value is checked against Rust Display computed in python; the independent python evaluator stays as oracle",
    "the machine stack is unbounded in the model; stack exhaustion on very deep nesting is a recorded finding "
    "(stack_overflow) observed at L2 only -- C19_nocrash is about panic sites, not about the stack",
    "C19_string_* cover texts in which every token boundary is spelled with the same blank string and whose leaves "
    "satisfy leaf_ok (proved for integer literals); other spellings are covered by L1 only",
]

ALPHA = ["1", "9", "0", "+", "-", "*", "/", "^", "(", ")", ".", " "]

I64_MIN, I64_MAX = -(1 << 63), (1 << 63) - 1


# ------------------------------------------------------------------ translator
def coq_string(s):
    return '"' + s.replace('"', '""') + '"'


def gen(ctx):
    import regexsites
    regexsites.gen_tools()     # round 9: Gen/ToolsRegexes.v (ASTs of the three is_arithmetic patterns; Proofs/ArithRegexProofs.v)
    tools = open(os.path.join(C.REPO, "src", "tools.rs")).read()
    m = re.search(r"pub fn is_arithmetic\(line: &str\) -> bool \{(.*?)\n\}", tools, re.S)
    if not m:
        raise Exception("tools.rs: is_arithmetic not found")
    body = m.group(1)
    lits = re.findall(r're_contains\(line,\s*r"([^"]*)"\)', body)
    if len(lits) != 3:
        raise Exception("tools.rs: is_arithmetic no longer has three re_contains(line, r\"...\") calls")
    # shape of the body: two negative early returns, then the third as the result
    shape = re.sub(r'r"[^"]*"', "R", re.sub(r"\s+", " ", body)).strip()
    calc = open(os.path.join(C.REPO, "src", "calculator", "mod.rs")).read()
    m = re.search(r"PrattParser::new\(\)(.*?)\n\s*\};", calc, re.S)
    if not m:
        raise Exception("calculator/mod.rs: PrattParser::new() chain not found")
    chain = m.group(1)
    levels = []
    for lv in re.findall(r"\.op\((.*?)\)\s*(?=\.op\(|$)", chain.strip(), re.S):
        ops = re.findall(r"Op::(\w+)\(\s*(\w+)\s*(?:,\s*(\w+)\s*)?\)", lv)
        if not ops:
            raise Exception("calculator/mod.rs: unreadable .op(...) level: " + lv)
        row = []
        for kind, rule, assoc in ops:
            if kind != "infix" or assoc not in ("Left", "Right"):
                raise Exception("calculator/mod.rs: only infix Left/Right operators are modelled, found Op::%s(%s,%s)" % (kind, rule, assoc))
            row.append((rule, assoc == "Left"))
        levels.append(row)
    nops = len(re.findall(r"Op::", chain))
    if nops != sum(len(r) for r in levels):
        raise Exception("calculator/mod.rs: .op chain not fully read")
    grammar = open(os.path.join(C.REPO, "src", "calculator", "grammar.pest")).read()
    gnorm = " ".join(grammar.split())
    out = []
    out.append("(** GENERATED by drive/c19.py gen() from /repo/src/tools.rs, src/calculator/mod.rs,")
    out.append("    src/calculator/grammar.pest. Do not edit. *)")
    out.append("From Coq Require Import String List NArith.")
    out.append("Import ListNotations.")
    out.append("Local Open Scope string_scope.")
    out.append("")
    out.append("Definition re1_src : string := %s." % coq_string(lits[0]))
    out.append("Definition re2_src : string := %s." % coq_string(lits[1]))
    out.append("Definition re3_src : string := %s." % coq_string(lits[2]))
    out.append("Definition is_arith_shape : string := %s." % coq_string(shape))
    out.append("")
    out.append("(** the .op(...) chain of PRATT_PARSER: one row per call, (rule name, is Assoc::Left) *)")
    rows = ["[" + "; ".join('(%s, %s)' % (coq_string(r), "true" if l else "false") for r, l in row) + "]" for row in levels]
    out.append("Definition pratt_ops : list (list (string * bool)) :=\n  [" + ";\n   ".join(rows) + "].")
    out.append("")
    out.append("Definition grammar_src : string := %s." % coq_string(gnorm))
    import sys
    sys.path.insert(0, os.path.join(C.VERIF, "tools"))
    import pest2coq
    pest2coq.write_if_changed(os.path.join(C.COQ, "theories", "Gen", "CalcGrammar.v"),
                              pest2coq.translate(os.path.join(C.REPO, "src", "calculator", "grammar.pest"), "K"))
    txt = "\n".join(out) + "\n"
    p = os.path.join(C.COQ, "theories", "Gen", "CalcTables.v")
    os.makedirs(os.path.dirname(p), exist_ok=True)
    if not os.path.exists(p) or open(p).read() != txt:
        open(p, "w").write(txt)


# ------------------------------------------------------------------ the property's oracle
# An independent reference for the arithmetic of the property text, written without
# looking at the model: precedence climbing over the standard table, python ints.
REF_PREC = {"+": (1, "L"), "-": (1, "L"), "*": (2, "L"), "/": (2, "L"), "^": (3, "R")}
NUM_RE = re.compile(r"[+-]?[0-9]+(?:\.[0-9]*)?(?:[eE][+-]?[0-9]+)?")


class Syntax(Exception):
    pass


def ref_parse(s):
    """text -> tree (str leaf | (op, a, b)) or raises Syntax"""
    pos = [0]

    def ws():
        while pos[0] < len(s) and s[pos[0]] in " \t":
            pos[0] += 1

    def term():
        ws()
        m = NUM_RE.match(s, pos[0])
        if m:
            pos[0] = m.end()
            return m.group(0)
        if pos[0] < len(s) and s[pos[0]] == "(":
            pos[0] += 1
            t = expr(0)
            ws()
            if pos[0] < len(s) and s[pos[0]] == ")":
                pos[0] += 1
                return t
        raise Syntax()

    def expr(minp):
        lhs = term()
        while True:
            ws()
            if pos[0] >= len(s) or s[pos[0]] not in REF_PREC:
                return lhs
            o = s[pos[0]]
            p, a = REF_PREC[o]
            if p < minp:
                return lhs
            save = pos[0]
            pos[0] += 1
            try:
                rhs = expr(p + 1 if a == "L" else p)
            except Syntax:
                pos[0] = save       # a dangling operator: the expression ends before it
                return lhs
            lhs = (o, lhs, rhs)

    t = expr(0)
    ws()
    if pos[0] != len(s):
        raise Syntax()
    return t


def wrap(z):
    return (z + (1 << 63)) % (1 << 64) - (1 << 63)


class Unspecified(Exception):
    """the property leaves the value open here (a value or a diagnostic, never a crash)"""


def ref_int(t):
    """exact reference value of an integer tree (wrap-around, truncating division)"""
    if isinstance(t, str):
        if not re.fullmatch(r"[+-]?[0-9]+", t):
            raise Unspecified("literal with exponent in integer mode")
        v = int(t)
        if not I64_MIN <= v <= I64_MAX:
            raise Unspecified("literal out of range")
        return v
    o, a, b = t
    x, y = ref_int(a), ref_int(b)
    if o == "+":
        return wrap(x + y)
    if o == "-":
        return wrap(x - y)
    if o == "*":
        return wrap(x * y)
    if o == "/":
        if y == 0:
            raise Unspecified("division by zero")
        qv = abs(x) // abs(y)
        return wrap(qv if (x < 0) == (y < 0) else -qv)
    if o == "^":
        if y < 0:
            raise Unspecified("negative exponent")
        return wrap(pow(x % (1 << 64), y, 1 << 64))
    raise AssertionError(o)


def fmt_f64(x):
    """Rust's Display for f64: shortest round-trip digits, never an exponent"""
    if x != x:
        return "NaN"
    if x in (float("inf"), float("-inf")):
        return "inf" if x > 0 else "-inf"
    from decimal import Decimal
    s = format(Decimal(repr(x)), "f")
    if "." in s:
        s = s.rstrip("0").rstrip(".")
    return s


def shows_f64(printed, x):
    """Does `printed` denote exactly the double x the way Rust's Display writes doubles (no exponent, reads back to the same
    double)?  The digit string itself is NOT compared: where the shortest round-trip decimal is not unique (the exact value
    lies half-way between two 17-digit decimals, e.g. 0.5 ^ 25) Rust and Python's repr pick different last digits, and both
    denote the same double.  (False alarm of the first version of this layer, met in a thorough run: 0.5 ^25.)"""
    if x != x:
        return printed == "NaN"
    if x in (float("inf"), float("-inf")):
        return printed == ("inf" if x > 0 else "-inf")
    if not re.fullmatch(r"-?[0-9]+(\.[0-9]+)?", printed):
        return False
    try:
        y = float(printed)
    except ValueError:
        return False
    return struct.pack(">d", y) == struct.pack(">d", x) and len(printed.lstrip("-").replace(".", "").strip("0")) <= 17


class Inexact(Exception):
    pass


def ref_float(t):
    """IEEE double evaluation: + - * / exactly as the hardware; powf only where exact"""
    if isinstance(t, str):
        return float(t)
    o, a, b = t
    x, y = ref_float(a), ref_float(b)
    if o == "+":
        return x + y
    if o == "-":
        return x - y
    if o == "*":
        return x * y
    if o == "/":
        if y == 0.0:
            if x != x or x == 0.0:
                return float("nan")
            neg = (math.copysign(1.0, x) < 0) != (math.copysign(1.0, y) < 0)
            return float("-inf") if neg else float("inf")
        return x / y
    if o == "^":
        # exactly representable small cases only
        if x == x and y == y and x != 0.0 and abs(x) <= 1024 and y == int(y) and 0 <= y <= 8 and x * 1024 == int(x * 1024):
            from fractions import Fraction
            r = Fraction(x) ** int(y)
            f = float(r)
            if Fraction(f) == r:
                return f
        raise Inexact()
    raise AssertionError(o)


def tree_of_json(j):
    return j if isinstance(j, str) else (j[0], tree_of_json(j[1]), tree_of_json(j[2]))


# ------------------------------------------------------------------ generators
BOUNDARY = [0, 1, -1, 2, -2, 3, 7, 10, 63, 64, 1 << 31, (1 << 31) - 1, -(1 << 31), 1 << 32, (1 << 32) + 2,
            I64_MAX, I64_MIN, I64_MAX - 1, 3037000499, 3037000500, 4294967295, 4294967296]


def gen_tree(rng, depth, fl):
    if depth == 0 or rng.random() < 0.25:
        r = rng.random()
        if fl and r < 0.5:
            return rng.choice(["0.5", "1.5", "2.", "0.25", "3.0", "-1.5", "1e3", "2.5e-1", "1E2", "+0.125", "1.e1", "100.75", "0.0", "-0.0", "9007199254740993.0"])
        if r < 0.55:
            return str(rng.choice(BOUNDARY))
        if r < 0.9:
            return str(rng.randint(0, 70))
        if r < 0.95:
            return rng.choice(["+5", "007", "-0", "+0", "9223372036854775808", "-9223372036854775809", "99999999999999999999"])
        return str(rng.randint(-1000, 1000))
    o = rng.choice(["+", "-", "*", "/", "^", "^", "*"])
    a = gen_tree(rng, depth - 1, fl)
    b = gen_tree(rng, depth - 1, fl)
    if o == "^" and rng.random() < 0.7:
        b = str(rng.randint(0, 70))
    return (o, a, b)


def render_tree(rng, t, ctx=None):
    """ctx = (parent op, side); parenthesises where the standard precedences require, plus
    redundant parentheses and random blanks"""
    def sp():
        return rng.choice(["", "", " ", " ", "  "])
    if isinstance(t, str):
        s = t
        need = False
    else:
        o, a, b = t
        s = render_tree(rng, a, (o, "L")) + sp() + o + sp() + render_tree(rng, b, (o, "R"))
        need = False
        if ctx:
            po, side = ctx
            pp, pa = REF_PREC[po]
            cp, _ = REF_PREC[o]
            if cp < pp:
                need = True
            elif cp == pp and ((pa == "L" and side == "R") or (pa == "R" and side == "L")):
                need = True
    k = 1 if need else 0
    if rng.random() < 0.15:
        k += rng.randint(1, 2)
    for _ in range(k):
        s = "(" + sp() + s + sp() + ")"
    return s


def run_model_par(exe, name, cases):
    """the extracted model on the case list, in NCPU processes (contiguous chunks)"""
    from concurrent.futures import ThreadPoolExecutor
    n = max(1, min(C.NCPU, len(cases) // 2000))
    step = (len(cases) + n - 1) // n if cases else 1
    paths = [C.write_cases("%s.m%d" % (name, k), cases[k * step:(k + 1) * step]) for k in range(n)]
    with ThreadPoolExecutor(max_workers=n) as ex:
        outs = list(ex.map(lambda p: C.run_model(exe, p), paths))
    for p in paths:
        os.remove(p)
    return [l for o in outs for l in o]


def desc_rule(s):
    """the classification rule of the property text"""
    A = set(" 0123456789.()+-*/^")
    return (len(s) > 0 and all(c in A for c in s) and any(c in "0123456789" for c in s)
            and any(c in "+-*/^" for c in s) and s[-1] in ".0123456789 )")


def norm_model(m):
    """model line -> (observable, classes)"""
    ks = []
    if " #k=" in m:
        m, k = m.split(" #k=")
        ks = k.split(",")
    if m.startswith("PANIC"):
        m = "PANIC"
    return m, ks


def is_crash(i):
    return i in ("PANIC", "CRASH", "NOT-RUN", "HANG") or i.startswith("?")


# ------------------------------------------------------------------ run
def run(ctx, res):
    rng = ctx.rng
    known = {k["class"]: k for k in C.known_findings("C19")}
    maxlen = 6 if ctx.thorough else 5
    res.rule = ("L1 (in-process, overflow checks on%s): is_arithmetic, parse_line shortcut, calculate (pair structure), "
                "run_calculator and try_run_calculator on every string up to length %d over %r, a corpus of edge strings, "
                "and random expression trees (depth <= 5, boundary operands, random blanks and redundant parentheses, "
                "integer and float mode) against the extracted model and the independent reference evaluator; "
                "non-trivial = distinct arithmetic line that parses and contains at least one operator. "
                "L1_float_bits: every float-mode line of L1: the double of run_calculator_f (f64 oracle = OCaml floats) against "
                "the bit pattern eval_float returns, and run_calculator's string against Display of that double. "
                "L2: `cicada -c <expr>` and `echo $(<expr>)` against the model"
                % (" and off" if ctx.thorough else "", maxlen, ALPHA))
    viol = {"n": 0}

    def violate(**kw):
        viol["n"] += 1
        if viol["n"] <= 4:
            res.violate(**kw)

    def judge(layer, profile, opname, line, m_raw, i):
        """the three-way decision of BUILDING.md for one calculator result"""
        m, ks = norm_model(m_raw)
        refv = None
        if opname == "try" and m == "none":
            if i != "none":
                violate(kind="correspondence", layer=layer, function="is_arithmetic/try_run_calculator", input=line,
                        model=m_raw, impl=i, profile=profile, failing_input=False,
                        note="the model says the line is not arithmetic, the implementation ran the calculator")
            return
        if i == "none" and m != "none":
            violate(kind="oracle" if desc_rule(line) else "correspondence", layer=layer,
                    function="is_arithmetic/try_run_calculator", input=line,
                    model=m_raw, impl=i, profile=profile, failing_input=desc_rule(line),
                    note="the line is arithmetic by the rule of the property (and for the model), "
                         "the implementation did not run the calculator")
            return
        flt = "." in line
        # the reference: what the property text prescribes for this line
        try:
            t = ref_parse(line)
            ref_syntax = False
        except Syntax:
            t, ref_syntax = None, True
        # oracle on the implementation's own output
        oracle_ok, why = True, ""
        if is_crash(i):
            oracle_ok, why = False, "the calculator crashed (the property demands a value or a diagnostic)"
        elif ref_syntax:
            if not i.startswith("err "):
                oracle_ok, why = False, "not an expression of the grammar, but no syntax error reported"
        elif i.startswith("err "):
            # a diagnostic is acceptable only where the property leaves the value open
            try:
                if flt:
                    ref_float(t)
                else:
                    ref_int(t)
                oracle_ok, why = False, "a well-formed expression with a defined value was rejected"
            except (Unspecified, Inexact):
                pass
        else:
            val = C.dec(i[4:-1]) if i.startswith('ok "') else None
            if val is None:
                oracle_ok, why = False, "unreadable result"
            elif flt:
                try:
                    xv = ref_float(t)
                    exp = fmt_f64(xv)
                    if val != exp and not shows_f64(val, xv):
                        oracle_ok, why = False, "IEEE double evaluation gives %s" % exp
                    refv = exp
                except Inexact:
                    try:
                        float(val)
                    except ValueError:
                        oracle_ok, why = False, "float mode result is not a number"
                except OverflowError:
                    pass
            else:
                if not re.fullmatch(r"-?[0-9]+", val):
                    oracle_ok, why = False, "integer mode result is not an integer"
                else:
                    try:
                        refv = ref_int(t)
                        if int(val) != refv:
                            oracle_ok, why = False, "wrap-around i64 evaluation gives %d" % refv
                    except Unspecified:
                        pass
        # model prediction in the implementation's vocabulary
        if m.startswith("float "):
            tree = tree_of_json(json.loads(m[6:]))
            if t is not None and tree != t:
                violate(kind="model-vs-reference", layer=layer, input=line, model=m_raw, reference=repr(t), failing_input=False,
                        note="the tree of the Pratt model differs from the standard-precedence tree")
            agree = not is_crash(i) and not i.startswith("err")
        else:
            agree = (m == i)
        kn = [k for k in ks if k in known]
        if agree:
            if oracle_ok:
                return
            if kn:
                res.known(kn[0], 'class=%s input="%s" observed=%s (%s)' % (kn[0], line, i, why))
                return
            violate(kind="oracle", layer=layer, function=opname, input=line, observed=i, model=m_raw, profile=profile,
                    reference=str(refv), failing_input=True, note=why)
            return
        # model and implementation differ
        if ks and oracle_ok:
            res.extra.setdefault("repaired_classes_seen", [])
            for k in ks:
                if k not in res.extra["repaired_classes_seen"]:
                    res.extra["repaired_classes_seen"].append(k)
            return
        violate(kind="correspondence" if oracle_ok else "oracle", layer=layer, function=opname, input=line, model=m_raw,
                impl=i, profile=profile, reference=str(refv), failing_input=not oracle_ok,
                note=("implementation and model differ; " + why) if why else "implementation and model differ, no oracle failure")

    # ---------------- replay of one input
    if ctx.replay:
        r = json.load(open(ctx.replay))
        lines = [r["input"]] if "input" in r else []
    else:
        lines = None

    # ---------------- L1 cases
    short = []
    for n in range(0, maxlen + 1):
        for tup in itertools.product(ALPHA, repeat=n):
            short.append("".join(tup))
    corpus = ["99999999999999999999 + 1", "2 ^ 64", "2 ^ -1", "2 ^ 4294967296", "1e3 + 1", "1E3+1", "1e+3 + 1", "1e", "1e+", "1.e5+1", "1.5.2+1", ".5+1", "1. + 2", "1 .5 + 2", "1e5.5+1",
              "1\t+\t2", "\t1+1", "1+1\t", "1+1\n", "\n1+1", "1+1\r", "١+1", "1＋1", "1+1é", "", " ", "+", "1", "-1", "(1)",
              "9223372036854775807 + 1", "9223372036854775808 - 1", "-9223372036854775808 - 1", "-9223372036854775809 + 1",
              "- 9223372036854775808", "9223372036854775807 * 9223372036854775807", "-9223372036854775808 / -1",
              "-9223372036854775808 * -1", "99999999999999999999 + 1", "00000000000000000000000001 + 1",
              "2 ^ 62", "2 ^ 63", "2 ^ 64", "-2 ^ 63", "-2 ^ 64", "(-2) ^ 63", "3 ^ 39", "3 ^ 40", "10 ^ 18", "10 ^ 19", "10^20",
              "3037000499 ^ 2", "3037000500 ^ 2", "-3037000500 ^ 2", "2 ^ -1", "1 ^ -1", "0 ^ -1", "-1 ^ -1", "-1 ^ -2", "0 ^ 0",
              "2 ^ 4294967295", "2 ^ 4294967296", "2 ^ 4294967298", "3 ^ 4294967297", "1 ^ 99999999999", "-1 ^ 4294967297",
              "2 ^ 3 ^ 2", "(2 ^ 3) ^ 2", "2 ^ (3 ^ 2)", "2 * 3 ^ 2", "2 ^ 3 * 2", "1 - 2 - 3", "1 - (2 - 3)", "8 / 4 / 2",
              "8 / (4 / 2)", "1 + 2 * 3", "(1 + 2) * 3", "2 * 3 + 1", "2 - 1", "2 -1", "2--1", "2 - -1", "2 - - 1", "1++1", "1+-+1",
              "5/0", "-5/0", "0/0", "5 / (1 - 1)", "(5/0) ^ 2", "(5/0) + 1", "7 / 2", "-7 / 2", "7 / -2", "-7 / -2",
              "1.0/0", "-1.0/0", "0.0/0", "1/0.", "1 / 2.", "1.5 + 1", "2^0.5", "2.0 ^ 3", "0.5 ^ 2", "2 ^ 3.0", "1e308 * 10.",
              "1e400 + 1.", "0.1 + 0.2", "1 / 3.", "123456789012345678901234567890.", "0.000001 * 0.000001", "1.5e3 + 1",
              "((((((((((1))))))))))+1", "(" * 200 + "1" + ")" * 200 + "+1", "1" + "+1" * 300, "1" + "^1" * 300,
              "(1+2", "1+2)", "()", "()+1", "(+)", "1 1 + 1", "1 + 1 1", "1 (+) 1", "(1)(2)+1", "1+(2)3"]
    nrand = 30000 if ctx.thorough else 4000
    rand = []
    rand_t = []
    for k in range(nrand):
        fl = (k % 4 == 3)
        t = gen_tree(rng, rng.randint(1, 5), fl)
        s = rng.choice(["", "", " "]) + render_tree(rng, t) + rng.choice(["", "", " "])
        rand.append(s)
        rand_t.append(t)
    if lines is not None:
        short, corpus, rand, rand_t = [], lines, [], []

    profiles = [("debug", "1", ctx.bins["c19"])]
    if ctx.thorough:
        rel = C.cargo_build_harness(["c19"], release=True)
        profiles.append(("release", "0", rel["c19"]))
    # thorough: the longest exhaustive length is sampled (every third string, offset from the seed)
    off = ctx.seed % 3
    for pname, chk, exe in profiles:
        # which arithmetic does this binary have?
        pth = C.write_cases("c19_ovf.txt", ["ovf"])
        got = C.run_impl(exe, pth, 1, shards=1)
        if got != [chk]:
            raise C.Infra("harness profile %s: overflow checks expected %s, binary says %r" % (pname, chk, got))
        cases, meta = [], []
        allstr = corpus + short + rand
        ops_all = ["isar", "pl", "pairs", "calc", "try"]
        for idx, s in enumerate(allstr):
            in_short = len(corpus) <= idx < len(corpus) + len(short)
            if pname == "release":
                # the integer path has no profile-dependent behaviour left: a smaller sweep
                if in_short and len(s) > 4:
                    continue
                ops = ["calc", "try"]
            elif in_short and ctx.thorough and len(s) == 6:
                if idx % 3 != off:
                    continue
                ops = ["try"]
            elif in_short and len(s) == maxlen:
                ops = ["try", "calc"]
            else:
                ops = ops_all
            for o in ops:
                cases.append(C.case(o, s))
                meta.append((o, s))
        path = C.write_cases("c19_l1_%s.txt" % pname, cases)
        mo = run_model_par(ctx.model["C19"], "c19_l1_%s" % pname, cases)
        io = C.run_impl(exe, path, len(cases))
        if len(mo) != len(cases):
            raise C.Infra("model driver printed %d lines for %d cases" % (len(mo), len(cases)))
        res.count("L1_%s" % pname, len(cases))
        for (o, s), a, b in zip(meta, mo, io):
            if o in ("isar", "pl", "pairs"):
                if a != b:
                    violate(kind="correspondence", layer="L1", function={"isar": "is_arithmetic", "pl": "parse_line (arithmetic shortcut)",
                            "pairs": "calculator::calculate"}[o], input=s, model=a, impl=b, profile=pname, failing_input=False,
                            note="the implementation differs from the model the C19 theorems are about")
                if o == "isar":
                    # the classification rule of the property, applied to the implementation
                    want = desc_rule(s)
                    if b != ("true" if want else "false"):
                        violate(kind="oracle", layer="L1", function="is_arithmetic", input=s, observed=b,
                                expected=str(want).lower(), profile=pname, failing_input=True,
                                note="classification differs from the rule of the property")
                if o == "pairs" and a.startswith("ok ") and any(x in a for x in " + - * / ^".split()):
                    pass
            else:
                judge("L1", pname, o, s, a, b)
                if o == "try" and a != "none" and not a.startswith("err"):
                    res.nontrivial(s)
        # the grammar text: the hand-written PEG model against the generic pest interpreter
        # (Base/Peg.v) on the grammar generated from grammar.pest, model against model
        if pname == "debug":
            pstr = [s_ for (o_, s_) in meta if o_ == "pairs"]
            pout = [a_ for (o_, s_), a_ in zip(meta, mo) if o_ == "pairs"]
            gout = run_model_par(ctx.model["C19"], "c19_peg", [C.case("pegpairs", s_) for s_ in pstr])
            res.count("L0_peg_interpreter_vs_handwritten", len(pstr))
            for s_, a_, g_ in zip(pstr, pout, gout):
                if a_ != g_:
                    violate(kind="model-tie", layer="L0", function="parse_calc vs Base/Peg.v on Gen/CalcGrammar.v", input=s_,
                            handwritten=a_, generated=g_, failing_input=False,
                            note="the hand-written grammar model the theorems are about differs from the grammar "
                                 "generated from calculator/grammar.pest")
        # float mode, numerically: run_calculator_f of the model (Model/CalcFloat.v; the f64 oracle
        # instantiated with OCaml floats in drv.ml) against calculator::eval_float, bit pattern
        # against bit pattern, on every float-mode line of this layer; and the string
        # run_calculator printed against Rust's Display of the model's double
        if pname == "debug":
            import struct
            fl_lines, fl_impl = [], {}
            for (o_, s_), a_, b_ in zip(meta, mo, io):
                if o_ == "calc" and a_.startswith("float ") and s_ not in fl_impl:
                    fl_impl[s_] = b_
                    fl_lines.append(s_)
            fcases = [C.case("calcf", s_) for s_ in fl_lines]
            if fcases:
                fpath = C.write_cases("c19_l1f.txt", fcases)
                fmo = run_model_par(ctx.model["C19"], "c19_l1f", fcases)
                fio = C.run_impl(exe, fpath, len(fcases))
                if len(fmo) != len(fcases):
                    raise C.Infra("model driver printed %d lines for %d calcf cases" % (len(fmo), len(fcases)))
                res.count("L1_float_bits", len(fcases))
                for s_, a_, b_ in zip(fl_lines, fmo, fio):
                    if a_ != b_:
                        violate(kind="oracle" if is_crash(b_) else "correspondence", layer="L1", function="calculator::eval_float",
                                input=s_, model=a_, impl=b_, profile=pname, failing_input=is_crash(b_),
                                note="float mode: the double eval_float returns differs from the fold of the IEEE "
                                     "operations over the Pratt tree (run_calculator_f of the model)")
                        continue
                    xbits = None
                    if a_ == "f nan":
                        shown = "NaN"
                    elif re.fullmatch(r"f [0-9a-f]{16}", a_):
                        xbits = struct.unpack(">d", bytes.fromhex(a_[2:]))[0]
                        shown = fmt_f64(xbits)
                    else:
                        violate(kind="correspondence", layer="L1", function="run_calculator_f", input=s_, model=a_, impl=b_,
                                profile=pname, failing_input=False, note="a float-mode line without a double as its model value")
                        continue
                    want = 'ok "%s"' % C.enc(shown)
                    got_ = fl_impl[s_]
                    if got_ != want and not (xbits is not None and got_.startswith('ok "') and shows_f64(C.dec(got_[4:-1]), xbits)):
                        violate(kind="oracle" if is_crash(fl_impl[s_]) else "correspondence", layer="L1",
                                function="core::run_calculator (float mode)", input=s_, model=a_, expected=want,
                                impl=fl_impl[s_], profile=pname, failing_input=is_crash(fl_impl[s_]),
                                note="float mode: run_calculator does not print the double of the model "
                                     "(shortest round-trip decimal, no exponent)")
                if fl_lines:
                    j = len(fl_lines) - 1
                    res.sample({"layer": "L1_float_bits", "case": fcases[j], "model": fmo[j], "impl": fio[j],
                                "printed": fl_impl[fl_lines[j]]})
        # random trees: the generating tree is the expected parse (checked through the reference
        # parser, which must give the tree back: guards the generator itself)
        for s, t in zip(rand, rand_t):
            try:
                if ref_parse(s) != t:
                    raise C.Infra("reference parser / renderer disagree on %r" % s)
            except Syntax:
                raise C.Infra("reference parser rejects generated %r" % s)
        k = len(corpus) + len(short) // 2
        if cases:
            res.sample({"layer": "L1", "profile": pname, "case": cases[min(k, len(cases) - 1)],
                        "model": mo[min(k, len(cases) - 1)], "impl": io[min(k, len(cases) - 1)]})
            if rand:
                j = len(cases) - 1
                res.sample({"layer": "L1", "profile": pname, "case": cases[j], "model": mo[j], "impl": io[j]})
    res.exhaustive = lines is None

    # ---------------- L2: the real binary
    l2 = list(corpus[:0])
    pick = ["1 + 2", "2 ^ 3 ^ 2", "(1+2)*3", " 7 / -2 ", "1 +  2", "2--1", "5/0", "0/0", "1.5 + 1", "1 / 3.", "2 ^ 64", "10^20",
            "99999999999999999999 + 1", "2 ^ -1", "2 ^ 4294967296", "()+1", "1 1 + 1", "1+1)", "-9223372036854775808 / -1",
            "9223372036854775807 + 1", "((2 ^ 35) + (3^7) - 9740555) / 10000000", "(1 + 2 * 3.0 - 1.5) / 0.2", "(5 + 2 * 3 - 4) / 3"]
    l2 = pick + [s for s in rand[: (400 if ctx.thorough else 80)] if "\t" not in s]
    if lines is not None:
        l2 = [s for s in lines]
    l2 = [s for s in l2 if s.strip() == s or True]
    mp = C.write_cases("c19_l2.txt", [C.case("try", s) for s in l2])
    mo2 = C.run_model(ctx.model["C19"], mp)
    work = tempfile.mkdtemp(prefix="c19_")
    try:
        from concurrent.futures import ThreadPoolExecutor

        def runc(args):
            env = dict(os.environ)
            env.update({"HOME": work, "XDG_CONFIG_HOME": work, "PATH": "/usr/bin:/bin", "RUST_BACKTRACE": "0"})
            try:
                p = subprocess.run([ctx.cicada] + args, cwd=work, env=env, stdin=subprocess.DEVNULL,
                                   stdout=subprocess.PIPE, stderr=subprocess.PIPE, timeout=30)
                return p.returncode, p.stdout.decode("utf-8", "replace"), p.stderr.decode("utf-8", "replace")
            except subprocess.TimeoutExpired:
                return "TIMEOUT", "", ""

        def one(ix):
            s = l2[ix]
            # $( ) is matched by the substitution code without nesting (another property's subject):
            # only parenthesis-free expressions go through `echo $(...)`
            if "(" in s or ")" in s:
                return runc(["-c", s]), (None, "", "")
            return runc(["-c", s]), runc(["-c", "echo $(%s)" % s])

        with ThreadPoolExecutor(max_workers=C.NCPU) as ex:
            outs = list(ex.map(one, range(len(l2))))
        res.count("L2_cicada_c", len(l2))
        res.count("L2_echo_subst", sum(1 for o in outs if o[1][0] is not None))
        for s, m_raw, ((rc, out, err), (rc2, out2, err2)) in zip(l2, mo2, outs):
            m, ks = norm_model(m_raw)
            if m == "none":
                continue      # not an arithmetic line: not C19's business what the shell does with it
            # translate what the process did into the L1 vocabulary
            if rc == 0 and out.endswith("\n") and err == "":
                i = 'ok "%s"' % C.enc(out[:-1])
            elif rc == 1 and out == "" and err.startswith("cicada: calculator: ") and err.count("\n") == 1:
                i = 'err "%s"' % C.enc(err[len("cicada: calculator: "):-1])
            elif rc == 101 or (isinstance(rc, int) and rc < 0) or rc == 134:
                i = "PANIC"
            else:
                i = "?rc=%r out=%r err=%r" % (rc, out[:80], err[:120])
            # `cicada -c` trims nothing and passes the line through line_to_cmds, which trims blanks
            judge("L2", "debug", "try", s, m_raw, i)
            # command substitution: the value is what echo prints
            if rc2 is None:
                pass
            elif m.startswith("ok ") or m.startswith("float "):
                if not (rc2 == 0 and out2.strip() == out.strip()):
                    # inside a known class (model predicts a value, a repaired implementation may differ) judge() decided
                    if i.startswith("ok ") and not ks:
                        violate(kind="oracle", layer="L2", function="echo $(expr)", input="echo $(%s)" % s,
                                observed="rc=%r out=%r err=%r" % (rc2, out2[:80], err2[:120]), expected=out, failing_input=True,
                                note="command substitution of an arithmetic line does not yield the value `cicada -c` prints")
            elif m == "PANIC" and i == "PANIC":
                if not (rc2 == 101 or rc2 == 134):
                    pass
        res.sample({"layer": "L2", "input": l2[0], "rc": outs[0][0][0], "stdout": outs[0][0][1], "model": mo2[0]})
        # ---------------- the stack: very deep nesting (no counterpart in the model: unbounded stack)
        if lines is None:
            deep = "(" * 20000 + "1" + ")" * 20000 + "+1"
            sp = os.path.join(work, "deep.sh")
            open(sp, "w").write(deep + "\n")
            rc, out, err = runc([sp])
            res.count("L2_deep_nesting", 1)
            if rc == 0 and out == "2\n":
                pass
            elif rc == 1 and out == "" and err.startswith("cicada: calculator: "):
                pass      # a diagnostic: acceptable under the property
            elif "stack_overflow" in known and (rc == 134 or (isinstance(rc, int) and rc < 0)):
                res.known("stack_overflow", 'class=stack_overflow input="20000 nested parentheses around 1, then +1 (script file)" '
                          "observed=rc %r %s" % (rc, err.strip().split("\n")[-1][:80]))
            else:
                violate(kind="oracle", layer="L2", function="deep nesting", input="'('*20000 + '1' + ')'*20000 + '+1' as a script file",
                        observed="rc=%r out=%r err=%r" % (rc, out[:40], err[-160:]), failing_input=True,
                        note="the shell crashed on a deeply nested arithmetic line")
    finally:
        shutil.rmtree(work, ignore_errors=True)
    res.extra["violations_total"] = viol["n"]
