"""C15 -- script arguments, functions, `source`, exit statuses.

Layers:
 L1 in-process hooks scripting::verif_hooks::{expand_args_for_single_token, is_args_in_token,
    expand_args_in_tokens} vs the extracted model: every token of length <= k over the characters the two
    regexes mention plus outsiders (a letter, a newline) x argument vectors (including one whose argument itself
    holds a reference: no rescanning; and the empty vector: panic on both sides), plus random longer tokens
    and token lists with every quoting tag;
 L2 the real binary on generated scripts: positional parameters with 0..5 arguments, functions in both
    header spellings (names with - and _) called with varying arity, functions and variables defined by
    sourced files (chains to depth 3), exit N at every position (top level, function, sourced file), set -e
    with the failing command at every position, script / source status = last command.  Observables:
    ordered helper trace (argv), `$?` probes, process exit status, compared with the property's reference
    and -- inside the three recorded finding classes -- with what the faithful model predicts."""
import itertools, os, shutil, subprocess, tempfile, json
import common as C

EXTRACT = ["C15", "C14"]
BINS = ["c15"]
NEEDS_CICADA = True
ALLOWED_AXIOMS = []
PINNED = ["C15_args", "C15_args_newline_refuted", "C15_func_status", "C15_func_status_seq", "C15_sete_flat", "C15_sete", "C15_sete_stops", "C15_sete_calls_instances", "C15_flag_preserved", "C15_sete_calls", "C15_sete_combined", "C15_sete_rest_of_body", "C15_source_with_redirection",
          "C15_sete_calls_trace", "C15_sete_calls_script", "C15_first_failure", "C15_indented_blank_text_parsed", "C15_tab_ok_indented_blank", "C15_indented_blank_nonvacuous", "C15_sete_andor_script", "C15_alines_is_refl", "C15_refl3_is_refl", "C15_sete_andor_trace", "C15_sete_andor_trace_nonvacuous", "C15_refl_is_upto_fail", "C15_indented_text_parsed", "C15_tab_ok_indented", "C15_sete_calls_text_indented", "C15_sete_calls_text_indented_nonvacuous", "C15_sete_source_trace", "C15_sete_source_trace_script", "C15_sete_source_trace_nonvacuous", "C15_flat_text_parsed", "C15_sete_calls_text", "C15_sete_calls_text_nonvacuous", "C15_sete_calls_flag_state", "C15_sete_calls_flag_state_script", "C15_flag_never_off", "C15_sete_calls_flag_state_nonvacuous", "C15_sete_calls_script_at", "C15_sete_calls_at_nonvacuous", "C15_sete_calls_stops", "C15_sete_calls_nonvacuous",
          "C15_parse_never_fuel", "C15_flat_text_parsed_total", "C15_indented_text_parsed_total", "C15_indented_blank_text_parsed_total", "C15_sete_calls_text_total", "C15_sete_calls_text_indented_total",
          "C15_full", "C15_refuted"]
TRUSTED = [
    "Coq 8.16.1 kernel (coqc; coqchk in thorough); vm_compute in Example witnesses and in the regression Examples",
    "hand transcription of is_args_in_token / expand_args_for_single_token / expand_args_in_tokens, of the function "
    "extraction loop of run_script and of the status rules (coq/theories/Model/Args.v); the two regexes are modelled as "
    "hand-written first-match functions; tied by L1 (positional parameters) and L2 (function table, statuses)",
    "Model/Script.v (run_exp with exit_on_error) for the set -e statements, tied by C14's layers and by L2 here",
    "Model/ShellScript.v: exit_on_error and the function table as shell state threaded through run_script / run_lines / "
    "try_run_func / source with the reset at the end of run_script; extracted and used as the reference of layer L2b "
    "(set -e x function calls x source); proved about it: the flag is preserved by every line (C15_flag_preserved) and flat "
    "sequences of calls / sources / commands stop at the first failing line (C15_sete_calls), unbounded",
    "extraction: ExtrOcamlBasic only; OCaml 4.13.1; ocaml/c15/drv.ml",
    "harness/src/bin/c15.rs, helpers/hp.c, drive/c15.py (the L2 reference for functions / source / exit is the python "
    "oracle in this file, not an extracted model)",
]
ASSUMES = [
    "the line-continuation folding of run_script, file lookup, `source` and `exit` builtins are not modelled in Coq; "
    "they are exercised by L2 only; THE L2 REFERENCE FOR FUNCTIONS / SOURCE CHAINS / EXIT IS A PYTHON ORACLE (drive/c15.py), "
    "not an extracted model; L2b's reference is the extracted Model/ShellScript.v plus the python property oracle ref_sete",
    "C15_args speaks about one token; tokenising the line before and re-rendering it after (parse_line, tokens_to_line) "
    "is C01/C16's subject -- generated script lines use plain words and single blanks",
]

ALPHA = ["$", "{", "}", "0", "1", "2", "@", "a", "\n", "9"]
ARGVS = [["s"], ["s", "A"], ["s", "A", "b c", "$1"], ["/p/s.sh", "x", "y", "z", "", "w", "6", "7", "8", "9", "TEN"], []]


def run_script(cicada, files, main, args, workdir, timeout=60):
    r_ = run_script1(cicada, files, main, args, workdir, timeout)
    if r_[0] == "TIMEOUT":   # a loaded machine, not a verdict: once more with a generous limit
        for fn in os.listdir(workdir):
            os.remove(os.path.join(workdir, fn))
        r_ = run_script1(cicada, files, main, args, workdir, 600)
    return r_


def run_script1(cicada, files, main, args, workdir, timeout):
    env = {"VERIF_TRACE": os.path.join(workdir, "trace"), "HOME": workdir, "XDG_CONFIG_HOME": workdir,
           "PATH": "/usr/bin:/bin", "LANG": "C.UTF-8"}
    for name, text in files.items():
        with open(os.path.join(workdir, name), "w") as f:
            f.write(text)
    try:
        p = subprocess.run([cicada, os.path.join(workdir, main)] + list(args), cwd=workdir, env=env,
                           stdin=subprocess.DEVNULL, stdout=subprocess.PIPE, stderr=subprocess.PIPE, timeout=timeout)
        rc, out, err = p.returncode, p.stdout.decode("utf-8", "replace"), p.stderr.decode("utf-8", "replace")
    except subprocess.TimeoutExpired:
        rc, out, err = "TIMEOUT", "", ""
    log = []
    tp = env["VERIF_TRACE"]
    if os.path.exists(tp):
        for l in open(tp):
            kv = dict(f.split("=", 1) for f in l.rstrip("\n").split("\t") if "=" in f)
            a = [C.dec(x) for x in kv.get("argv", "").split(",")]
            log.append(a[1:])
    return rc, log, err


def gen_l2(ctx, hp, workdir_token):
    """cases: dict(files, main, args, expect=(trace, rc), known=None|(class, (trace, rc)), tag)"""
    rng = ctx.rng
    W = workdir_token          # placeholder replaced by the run directory
    cases = []
    words = ["a", "b2", "c-d", "x_y", "7"]

    def H(st, *ws):
        return "%s @x%s %s" % (hp, st, " ".join(ws))
    # (a) positional parameters, plain arguments
    for n in range(0, 6):
        for _ in range(3 if ctx.thorough else 1):
            args = [rng.choice(words) for _ in range(n)]
            g = lambda i: args[i - 1] if 1 <= i <= n else ""
            line = H(0, "m1", "$0", "x$1y", "${2}z", "p$@q", "w$7w", "${3}", "k") if n >= 3 else H(0, "m1", "$0", "x$1y", "${2}z", "p$@q", "w$7w")
            exp = ["@x0", "m1", W + "/main.sh", "x" + g(1) + "y", g(2) + "z"] + ("p" + " ".join(args) + "q").split(" ") + ["ww"]
            if n >= 3:
                exp += [g(3), "k"]
            cases.append(dict(files={"main.sh": line + "\n"}, main="main.sh", args=args, expect=([exp], 0), known=None, tag="args%d" % n))
    # (a') an argument holding a reference / a variable: data, not re-read
    cases.append(dict(files={"main.sh": H(0, "m1", '"$1"') + "\n"}, main="main.sh", args=["$HOME"],
                      expect=([["@x0", "m1", "$HOME"]], 0), known=("arg-reexpanded", ([["@x0", "m1", W]], 0)), tag="arg-home"))
    cases.append(dict(files={"main.sh": H(0, "m1", "$1") + "\n"}, main="main.sh", args=["$2", "zz"],
                      expect=([["@x0", "m1", "$2"]], 0), known=None, tag="arg-norescan"))
    # (b) functions: both header spellings, names with - and _, varying arity, status of the call
    for name, head in [("f", "function f {"), ("my-fn", "function my-fn() {"), ("_g2", "function _g2 ()  {"), ("a_b-c", "  function a_b-c   {  ")]:
        for st in (0, 3):
            for n in (0, 1, 3):
                args = [rng.choice(words) for _ in range(n)]
                g = lambda i: args[i - 1] if 1 <= i <= n else ""
                body = "  " + H(st, "fm", "$0", "u$1v", "u${2}v", "p$@q")
                text = "%s\n%s\n}\n%s\n%s %s\n%s\n" % (H(0, "before"), head + "\n" + body, H(0, "mid"), name, " ".join(args), H(0, "probe", "s$?"))
                text = text.replace("\n\n", "\n")
                call = ["@x%d" % st, "fm", name, "u" + g(1) + "v", "u" + g(2) + "v"] + ("p" + " ".join(args) + "q").split(" ")
                good = [["@x0", "before"], ["@x0", "mid"], call, ["@x0", "probe", "s%d" % st]]
                if st == 0:
                    cases.append(dict(files={"main.sh": text}, main="main.sh", args=[], expect=(good, 0), known=None, tag="func-ok"))
                else:
                    bad = good[:3] + [["@x0", "probe", "s0"]]
                    cases.append(dict(files={"main.sh": text}, main="main.sh", args=[], expect=(good, 0), known=None, tag="func-status"))
    # bodies with a failing command that is NOT the last one (and nested calls): the call's status is that of the LAST command
    for bi, (sts, ) in enumerate([((3, 0),), ((0, 5, 0),), ((2, 7, 0),), ((0, 4),), ((6, 0, 0),)]):
        body = "\n".join("  " + H(st_, "b%d_%d" % (bi, j)) for j, st_ in enumerate(sts))
        calls = [["@x%d" % st_, "b%d_%d" % (bi, j)] for j, st_ in enumerate(sts)]
        last = sts[-1]
        text = "function fb%d {\n%s\n}\nfb%d\n%s\nfb%d && %s\nfb%d || %s\n" % (
            bi, body, bi, H(0, "probe", "s$?"), bi, H(0, "and-ran"), bi, H(0, "or-ran"))
        exp = calls + [["@x0", "probe", "s%d" % last]] + calls + ([["@x0", "and-ran"]] if last == 0 else []) + calls + ([["@x0", "or-ran"]] if last != 0 else [])
        cases.append(dict(files={"main.sh": text}, main="main.sh", args=[], expect=(exp, 0), known=None, tag="func-seq"))
    # nested: outer calls inner (which fails first, then succeeds) and then succeeds / fails itself
    text = ("function inner {\n%s\n%s\n}\nfunction outer1 {\ninner\n%s\n}\nfunction outer2 {\n%s\ninner\n}\n"
            "outer1\n%s\nouter2\n%s\nif outer2\n%s\nelse\n%s\nfi\n" % (
                H(9, "i1"), H(0, "i2"), H(5, "o1"), H(8, "o2"), H(0, "probe", "a$?"), H(0, "probe", "b$?"), H(0, "then"), H(0, "else")))
    inner = [["@x9", "i1"], ["@x0", "i2"]]
    exp = inner + [["@x5", "o1"], ["@x0", "probe", "a5"]] + [["@x8", "o2"]] + inner + [["@x0", "probe", "b0"]] + [["@x8", "o2"]] + inner + [["@x0", "then"]]
    cases.append(dict(files={"main.sh": text}, main="main.sh", args=[], expect=(exp, 0), known=None, tag="func-nested"))
    # positional parameters IN THE CONDITION LINE of if / else-if / while heads -- script with arguments and function with
    # arguments ($0 $1 ${2} $@, a missing one): the helper of the condition records what it was given
    cond_main = ("if %s\n%s\nelse if %s\n%s\nfi\nif %s\n%s\nelse if %s\n%s\nfi\nwhile %s\n%s\nbreak\ndone\n" % (
        H(0, "c1", "$1", "${2}", "$0", "x$3y"), H(0, "then1"), H(0, "never"), H(0, "never2"),
        H(1, "c2", "$2"), H(0, "never3"), H(0, "c3", "p$@q", "${1}"), H(0, "elif-body", "$1"),
        H(0, "w", "$1", "$2"), H(0, "wbody")))
    exp = [["@x0", "c1", "aa", "bb", W + "/main.sh", "xy"], ["@x0", "then1"],
           ["@x1", "c2", "bb"], ["@x0", "c3", "paa", "bbq", "aa"], ["@x0", "elif-body", "aa"],
           ["@x0", "w", "aa", "bb"], ["@x0", "wbody"]]
    cases.append(dict(files={"main.sh": cond_main}, main="main.sh", args=["aa", "bb"], expect=(exp, 0), known=None, tag="cond-args-script"))
    cond_fn = ("function cf {\nif %s\n%s\nfi\nwhile %s\nbreak\ndone\n}\ncf p1 q2\n" % (
        H(0, "fc", "$0", "$1", "x${2}y", "z$3"), H(0, "fthen", "$2"), H(0, "fw", "$@")))
    exp = [["@x0", "fc", "cf", "p1", "xq2y", "z"], ["@x0", "fthen", "q2"], ["@x0", "fw", "p1", "q2"]]
    cases.append(dict(files={"main.sh": cond_fn}, main="main.sh", args=[], expect=(exp, 0), known=None, tag="cond-args-func"))
    # set -e must survive a function call / be honoured inside the called function
    text = "function ok_fn {\n%s\n}\nset -e\n%s\nok_fn a\n%s\n%s\n%s\n" % (H(0, "in-fn", "$1"), H(0, "one"), H(0, "two"), H(7, "bad"), H(0, "notreached"))
    cases.append(dict(files={"main.sh": text}, main="main.sh", args=[],
                      expect=([["@x0", "one"], ["@x0", "in-fn", "a"], ["@x0", "two"], ["@x7", "bad"]], 7), known=None, tag="sete-after-call"))
    text = "function bad-fn() {\n%s\n%s\n%s\n}\nset -e\n%s\nbad-fn\n%s\n" % (H(0, "start"), H(5, "fail"), H(0, "fn-notreached"), H(0, "one"), H(0, "notreached"))
    cases.append(dict(files={"main.sh": text}, main="main.sh", args=[],
                      expect=([["@x0", "one"], ["@x0", "start"], ["@x5", "fail"]], 5), known=None, tag="sete-in-call"))
    # function call as the last command: status of the script
    cases.append(dict(files={"main.sh": "function f {\n%s\n}\nf\n" % H(4, "fm")}, main="main.sh", args=[],
                      expect=([["@x4", "fm"]], 4), known=None, tag="func-last"))
    # (c) source: functions, variables persist; chain to depth 3; status of source = last command of the file
    RD = ["", " > load.log", " 2> /dev/null", " >> out.log"]     # a redirection on a builtin line must change nothing
    for depth in (1, 2, 3):
      for rd in RD:
        for st in (0, 5):
            files = {}
            for d in range(1, depth + 1):
                t = "V%d=val%d\nfunction g%d {\n%s\n}\n" % (d, d, d, H(0, "g%d" % d, "$1"))
                if d < depth:
                    t += "source %s/lib%d.sh%s\n" % (W, d + 1, rd)
                t += H(st if d == 1 else 0, "end%d" % d) + "\n"
                files["lib%d.sh" % d] = t
            main = "source %s/lib1.sh%s\n%s\n" % (W, rd, H(0, "probe", "s$?"))
            exp = []
            for d in range(depth, 0, -1):
                exp.append(["@x%d" % (st if d == 1 else 0), "end%d" % d])
            exp.append(["@x0", "probe", "s%d" % st])
            for d in range(1, depth + 1):
                main += "g%d arg%d\n" % (d, d)
                exp.append(["@x0", "g%d" % d, "arg%d" % d])
            main += H(0, "vars", *["$V%d" % d for d in range(1, depth + 1)]) + "\n"
            exp.append(["@x0", "vars"] + ["val%d" % d for d in range(1, depth + 1)])
            files["main.sh"] = main
            cases.append(dict(files=files, main="main.sh", args=[], expect=(exp, 0), known=None, tag="source%d%s" % (depth, rd.strip()[:2])))
    # source FILE args > f : the argument reaches the file, its variable and function persist; also from inside a function
    for rd in RD:
        lib = "W1=w$1\nfunction gg {\n%s\n}\n%s\n" % (H(0, "gg", "$1"), H(0, "lib", "$1"))
        main = "source %s/la.sh a1%s\n%s\ngg z\nfunction ld {\nsource %s/la.sh b2%s\n}\nld\n%s\n" % (
            W, rd, H(0, "v", "$W1"), W, rd, H(0, "v", "$W1"))
        exp = [["@x0", "lib", "a1"], ["@x0", "v", "wa1"], ["@x0", "gg", "z"], ["@x0", "lib", "b2"], ["@x0", "v", "wb2"]]
        cases.append(dict(files={"main.sh": main, "la.sh": lib}, main="main.sh", args=[], expect=(exp, 0), known=None, tag="source-args" + rd.strip()[:2]))
    # (d) script status = last command; exit N at every position
    for st in (0, 1, 42, 255):
        cases.append(dict(files={"main.sh": "%s\n%s\n" % (H(0, "a"), H(st, "b"))}, main="main.sh", args=[],
                          expect=([["@x0", "a"], ["@x%d" % st, "b"]], st), known=None, tag="status"))
    for k in range(0, 4):
        for code in (0, 7):
          for rd in RD:
            lines = [H(0, "m%d" % i) for i in range(3)]
            lines.insert(k, "exit %d%s" % (code, rd))
            exp = [["@x0", "m%d" % i] for i in range(k)]
            cases.append(dict(files={"main.sh": "\n".join(lines) + "\n"}, main="main.sh", args=[], expect=(exp, code), known=None, tag="exit" + rd.strip()[:2]))
    for rd in RD:
        cases.append(dict(files={"main.sh": "function q {\n%s\nexit 9%s\n%s\n}\n%s\nq\n%s\n" % (H(0, "in1"), rd, H(0, "in2"), H(0, "a"), H(0, "after"))},
                          main="main.sh", args=[], expect=([["@x0", "a"], ["@x0", "in1"]], 9), known=None, tag="exit-in-func" + rd.strip()[:2]))
        cases.append(dict(files={"main.sh": "%s\nsource %s/l.sh%s\n%s\n" % (H(0, "a"), W, rd, H(0, "after")), "l.sh": "%s\nexit 6%s\n%s\n" % (H(0, "in1"), rd, H(0, "in2"))},
                          main="main.sh", args=[], expect=([["@x0", "a"], ["@x0", "in1"]], 6), known=None, tag="exit-in-source" + rd.strip()[:2]))
    # (e) set -e: failing command at every position of a flat script
    for k in range(0, 4):
        sts = [0, 0, 0, 0]
        sts[k] = rng.choice([1, 3, 200])
        lines = ["set -e" + RD[k]] + [H(sts[i], "m%d" % i) for i in range(4)]
        exp = [["@x%d" % sts[i], "m%d" % i] for i in range(k + 1)]
        cases.append(dict(files={"main.sh": "\n".join(lines) + "\n"}, main="main.sh", args=[], expect=(exp, sts[k]), known=None, tag="sete-flat"))
    # without set -e nothing stops
    cases.append(dict(files={"main.sh": "%s\n%s\n" % (H(3, "a"), H(0, "b"))}, main="main.sh", args=[],
                      expect=([["@x3", "a"], ["@x0", "b"]], 0), known=None, tag="no-sete"))
    # set -e, failure inside an if / for / while body
    for kind in ("if", "for", "while"):
        if kind == "if":
            head, tail, pre = "if %s" % H(0, "c"), "fi", [["@x0", "c"]]
        elif kind == "for":
            head, tail, pre = "for i in 1", "done", []
        else:
            head, tail, pre = "while %s" % H(0, "c"), "done", [["@x0", "c"]]
        body_after = H(0, "in-body-after")
        extra = "\nbreak" if kind == "while" else ""
        text = "set -e\n%s\n%s\n%s%s\n%s\n%s\n" % (head, H(2, "bad"), body_after, extra, tail, H(0, "after-block"))
        good = pre + [["@x2", "bad"]]
        if kind == "while":
            # the body is left, the loop re-tests and runs the body again: endless -- replace by a one-shot condition
            text = "set -e\nfor j in 1\nif %s\n%s\n%s\nfi\ndone\n%s\n" % (H(0, "c"), H(2, "bad"), body_after, H(0, "after-block"))
            good = [["@x0", "c"], ["@x2", "bad"]]
        bad = good + [["@x0", "after-block"]]
        cases.append(dict(files={"main.sh": text}, main="main.sh", args=[], expect=(good, 2), known=None, tag="sete-" + kind))
    return cases


def gen_sete_family(ctx, hp, count):
    """flat scripts combining `set -e` (at every position of the main script), function definitions and calls before
    and after it, `source` of files (which may define functions and call them) and a failing command at top level /
    inside a function / inside a sourced file.  Returns dicts(files, items) ; the reference is ref_sete."""
    rng = ctx.rng
    out = []
    for _ in range(count):
        k = [0]

        def ext(p_fail):
            k[0] += 1
            st = rng.choice([1, 3, 7]) if rng.random() < p_fail else 0
            return ("ext", st, "m%d" % k[0])
        nfun = rng.randint(0, 3)
        funs = []
        for i in range(nfun):
            body = []
            for _ in range(rng.randint(1, 3)):
                if i > 0 and rng.random() < 0.3:
                    body.append(("call", "f%d" % rng.randrange(i)))
                else:
                    body.append(ext(0.25))
            funs.append(("f%d" % i, rng.choice(["function f%d {", "function f%d() {", "function f%d ()  {"]) % i, body))
        libs = []
        for j in range(rng.randint(0, 2)):
            items = []
            if rng.random() < 0.5:
                items.append(("def", "g%d" % j, [ext(0.2)]))
            for _ in range(rng.randint(1, 3)):
                r = rng.random()
                if r < 0.25 and nfun:
                    items.append(("call", "f%d" % rng.randrange(nfun)))
                elif r < 0.4 and items and items[0][0] == "def":
                    items.append(("call", "g%d" % j))
                else:
                    items.append(ext(0.2))
            libs.append(("lib%d.sh" % j, items))
        main = []
        for _ in range(rng.randint(3, 7)):
            r = rng.random()
            if r < 0.3 and nfun:
                main.append(("call", "f%d" % rng.randrange(nfun)))
            elif r < 0.45 and libs:
                main.append(("source", rng.randrange(len(libs)), rng.choice(["", "", " > load.log", " 2> /dev/null", " >> out.log"])))
            else:
                main.append(ext(0.3))
        if rng.random() < 0.85:
            main.insert(rng.randint(0, len(main)), ("sete", rng.choice(["", "", " > /dev/null", " 2> /dev/null", " >> out.log"])))
        out.append(dict(funs=funs, libs=libs, main=main))
    return out


def gen_status_family(ctx, hp, count):
    """no set -e: functions whose bodies hold a failing command that is not the last one (`fail; ok`, `ok; fail; ok`, ...)
    and nested calls; the caller observes the status of the call with `f && x`, `f || y`, `if f`, and as the script's last
    command.  Same item format as gen_sete_family, reference ref_sete, model Model/ShellScript.v."""
    rng = ctx.rng
    out = []
    pats = [(1, 0), (0, 1, 0), (1, 1, 0), (0, 1), (1, 0, 0), (0, 0), (1,), (0,)]
    for _ in range(count):
        k = [0]

        def ext(st):
            k[0] += 1
            return ("ext", rng.choice([1, 3, 7]) if st else 0, "m%d" % k[0])
        nfun = rng.randint(1, 4)
        funs = []
        for i in range(nfun):
            body = [ext(x) for x in rng.choice(pats)]
            if i > 0 and rng.random() < 0.5:
                body.insert(rng.randint(0, len(body)), ("call", "f%d" % rng.randrange(i)))
            funs.append(("f%d" % i, rng.choice(["function f%d {", "function f%d() {", "function f%d ()  {"]) % i, body))
        main = []
        for _ in range(rng.randint(3, 7)):
            r = rng.random()
            f = "f%d" % rng.randrange(nfun)
            if r < 0.3:
                main.append(("andor", f, rng.choice(["&&", "||"]), ext(rng.random() < 0.3)))
            elif r < 0.55:
                main.append(("ifcall", f, [ext(rng.random() < 0.3)], [ext(rng.random() < 0.3)]))
            elif r < 0.8:
                main.append(("call", f))
            else:
                main.append(ext(rng.random() < 0.3))
        if rng.random() < 0.6:
            main.append(("call", "f%d" % rng.randrange(nfun)))
        out.append(dict(funs=funs, libs=[], main=main))
    return out


def render_sete(c, hp):
    def line(it):
        if it[0] == "ext":
            return "%s @x%d %s" % (hp, it[1], it[2])
        if it[0] == "call":
            return it[1]
        if it[0] == "source":
            return "source lib%d.sh%s" % (it[1], it[2] if len(it) > 2 else "")
        if it[0] == "sete":
            return "set -e" + (it[1] if len(it) > 1 else "")
        if it[0] == "def":
            return "function %s {\n%s\n}" % (it[1], "\n".join(line(x) for x in it[2]))
        if it[0] == "andor":
            return "%s %s %s" % (it[1], it[2], line(it[3]))
        if it[0] == "ifcall":
            return "if %s\n%s\nelse\n%s\nfi" % (it[1], "\n".join(line(x) for x in it[2]), "\n".join(line(x) for x in it[3]))
    files = {}
    for name, items in c["libs"]:
        files[name] = "\n".join(line(x) for x in items) + "\n"
    t = ""
    for name, head, body in c["funs"]:
        t += head + "\n" + "\n".join("  " + line(x) for x in body) + "\n}\n"
    t += "\n".join(line(x) for x in c["main"]) + "\n"
    files["main.sh"] = t
    return files


class _Stop(Exception):
    pass


def ref_sete(c):
    """the property: after `set -e` the first failing command -- at top level, in a function body or in a sourced
    file -- ends the script with its status; otherwise the status is that of the last command executed."""
    st = {"eoe": False, "trace": [], "last": 0, "funcs": {n: b for n, _, b in c["funs"]}}

    def run(items):
        for it in items:
            if it[0] == "ext":
                st["trace"].append(["@x%d" % it[1], it[2]])
                st["last"] = it[1]
                if it[1] != 0 and st["eoe"]:
                    raise _Stop()
            elif it[0] == "sete":
                st["eoe"] = True
                st["last"] = 0
            elif it[0] == "def":
                st["funcs"][it[1]] = it[2]
            elif it[0] == "call":
                run(st["funcs"][it[1]])        # status of the call = status of the last command executed in the body
            elif it[0] == "andor":
                run(st["funcs"][it[1]])
                if (it[2] == "&&") == (st["last"] == 0):
                    run([it[3]])
            elif it[0] == "ifcall":
                run(st["funcs"][it[1]])
                run(it[2] if st["last"] == 0 else it[3])
            elif it[0] == "source":
                run(c["libs"][it[1]][1])
    try:
        run(c["main"])
    except _Stop:
        pass
    return st["trace"], st["last"]


def run(ctx, res):
    rng = ctx.rng
    known = {k["class"]: k for k in C.known_findings("C15")}
    maxlen = 5 if ctx.thorough else 4
    res.rule = ("L1: expand_args_for_single_token / is_args_in_token on every token of length <= %d over %r x %d argument vectors "
                "(one argument is itself a reference; the empty vector panics on both sides), random tokens to length 24, and "
                "expand_args_in_tokens on random token lists over all five quoting tags; non-trivial = a substitution happened; "
                "L2: generated scripts (0..5 arguments; 4 function header spellings x statuses x arities; source chains to depth 3; "
                "exit at every position incl. inside a function / sourced file; set -e with the failure at every position and inside "
                "if / for bodies) run by the real binary: helper argv trace, $? probes, exit status" % (maxlen, ALPHA, len(ARGVS)))
    # ---------------- L1
    toks = []
    for n in range(0, maxlen + 1):
        for t in itertools.product(ALPHA, repeat=n):
            toks.append("".join(t))
    for _ in range(20000 if ctx.thorough else 2000):
        toks.append("".join(rng.choice(ALPHA + ["$", "$", "b", " ", "é", "10", "${", "\r"]) for _ in range(rng.randint(6, 24))))
    toks = ["${10}", "${11}x", "a${10}b", "$10", "${9}${10}", "${12}", "x${10", "$@${10}"] + toks     # fixed: two-digit indices
    lines, keys = [], []
    for t in toks:
        lines.append(C.case("isargs", t)); keys.append(("isargs", t, None))
        for av in (ARGVS if len(t) <= 4 else ARGVS[1:4]):
            lines.append(C.case("single", t, *av)); keys.append(("single", t, av))
    seps = ["", "'", '"', "`", "\\"]
    for _ in range(5000 if ctx.thorough else 800):
        av = rng.choice(ARGVS[:4])
        k = rng.randint(0, 5)
        fl = []
        for _ in range(k):
            fl += [rng.choice(seps), "".join(rng.choice(ALPHA[:8] + ["b"]) for _ in range(rng.randint(0, 6)))]
        lines.append("\t".join(["intok", str(len(av))] + [C.enc(x) for x in av] + [C.enc(x) for x in fl]))
        keys.append(("intok", fl, av))
    if ctx.replay:
        r = json.load(open(ctx.replay))
        if r.get("layer") == "L1" and "case" in r:
            lines.insert(0, r["case"]); keys.insert(0, ("replay", r["case"], None))
    path = C.write_cases("c15_l1.txt", lines)
    mo = C.run_model(ctx.model["C15"], path)
    io = C.run_impl(ctx.bins["c15"], path, len(lines))
    res.count("L1_expand_args", len(lines))
    res.exhaustive = True
    bad = 0
    for ln, k, a, b in zip(lines, keys, mo, io):
        if k[0] == "single" and a != '"%s"' % C.enc(k[1]):
            res.nontrivial("l1:" + a)
        if a != b:
            bad += 1
            if bad <= 3:
                res.violate(kind="correspondence", layer="L1", function=k[0], input=repr(k[1]), args=k[2], case=ln, model=a, impl=b,
                            failing_input=False, note="positional-parameter expansion of the implementation differs from the model "
                                                      "the C15 theorems are about")
    mid = len(lines) // 3
    res.sample({"layer": "L1", "case": lines[mid], "model": mo[mid], "impl": io[mid]})
    # ---------------- L1c: function table model vs the shape L2 relies on (model-only sanity, counted as samples)
    ft = C.write_cases("c15_ftab.txt", [C.case("ftab", "echo a\nfunction f-1 {\n  echo $1\n}\nfunction _g()   {\necho g\n}\nf-1 x\n")])
    res.sample({"layer": "model", "function_table": C.run_model(ctx.model["C15"], ft)[0][:300]})
    # ---------------- L2
    hp = os.path.join(ctx.helpers, "hp")
    TOKEN = "@WORKDIR@"
    cases = gen_l2(ctx, hp, TOKEN)
    work = tempfile.mkdtemp(prefix="c15_")
    try:
        from concurrent.futures import ThreadPoolExecutor

        def sub(x, d):
            if isinstance(x, str):
                return x.replace(TOKEN, d)
            if isinstance(x, (list, tuple)):
                return type(x)(sub(y, d) for y in x)
            if isinstance(x, dict):
                return {k: sub(v, d) for k, v in x.items()}
            return x

        def one(ix):
            d = os.path.join(work, "w%d" % ix)
            os.makedirs(d)
            c = sub(cases[ix], d)
            rc, log, err = run_script(ctx.cicada, c["files"], c["main"], c["args"], d)
            shutil.rmtree(d, ignore_errors=True)
            return c, rc, log, err
        with ThreadPoolExecutor(max_workers=C.NCPU) as ex:
            outs = list(ex.map(one, range(len(cases))))
        res.count("L2_cicada_script_runs", len(cases))
        nviol = 0
        for c, rc, log, err in outs:
            exp_t, exp_rc = c["expect"]
            exp_t = [list(x) for x in exp_t]
            obs = (log, rc)
            res.nontrivial("l2:" + c["tag"] + ":" + repr(exp_rc))
            ok = obs == (exp_t, exp_rc)
            if c["known"]:
                cls, (bt, brc) = c["known"]
                if ok:
                    res.extra.setdefault("findings_no_longer_reproduced", [])
                    if cls not in res.extra["findings_no_longer_reproduced"]:
                        res.extra["findings_no_longer_reproduced"].append(cls)
                elif obs == ([list(x) for x in bt], brc) and cls in known:
                    res.known(cls, "class=%s input=%s what=%s" % (cls, json.dumps(c["files"][c["main"]])[:400], known[cls].get("what", "")))
                    ok = True
            if not ok:
                nviol += 1
                if nviol <= 3:
                    res.violate(kind="oracle", layer="L2", entry="script", tag=c["tag"], files=c["files"], args=c["args"],
                                expected="trace=%r status=%r" % (exp_t, exp_rc), observed="trace=%r status=%r" % (log, rc),
                                stderr=err[-400:], failing_input=True,
                                note="script arguments / functions / source / exit status do not behave as the property states")
        # ---------------- L2b: set -e x functions x source (model = extracted Model/ShellScript.v)
        fam = gen_sete_family(ctx, hp, 600 if ctx.thorough else 120) + gen_status_family(ctx, hp, 400 if ctx.thorough else 100)
        ffiles = [render_sete(c, hp) for c in fam]
        mlines = []
        for ff in ffiles:
            flds = ["shrun", C.enc("main.sh")]
            for nm, tx in sorted(ff.items()):
                flds += [C.enc(nm), C.enc(tx)]
            mlines.append("\t".join(flds))
        mo_s = C.run_model(ctx.model["C15"], C.write_cases("c15_shrun.txt", mlines))

        def one_s(ix):
            d = os.path.join(work, "s%d" % ix)
            os.makedirs(d)
            rc, log, err = run_script(ctx.cicada, ffiles[ix], "main.sh", [], d)
            shutil.rmtree(d, ignore_errors=True)
            return rc, log, err
        with ThreadPoolExecutor(max_workers=C.NCPU) as ex:
            souts = list(ex.map(one_s, range(len(fam))))
        res.count("L2b_sete_function_source_runs", len(fam))
        nviol = 0
        for ix, (rc, log, err) in enumerate(souts):
            c = fam[ix]
            ptrace, pst = ref_sete(c)
            obs = "trace=[%s] status=%s" % (";".join(",".join(a) for a in log), rc)
            prop = "trace=[%s] status=%s" % (";".join(",".join(a) for a in ptrace), pst)
            model = mo_s[ix]
            res.nontrivial("l2b:" + prop[:200])
            has_sete_then_source = False
            seen = False
            for it in c["main"]:
                if it[0] == "sete":
                    seen = True
                if it[0] == "source" and seen:
                    has_sete_then_source = True
            if obs == prop:
                if model != obs and has_sete_then_source:
                    fl = res.extra.setdefault("findings_no_longer_reproduced", [])
                    if "sete-cleared-by-source" not in fl:
                        fl.append("sete-cleared-by-source")
                continue
            cls = "sete-cleared-by-source"
            if obs == model and has_sete_then_source and cls in known:
                res.known(cls, "class=%s input=%s what=%s" % (cls, json.dumps(ffiles[ix])[:500], known[cls].get("what", "")))
                continue
            nviol += 1
            if nviol <= 3:
                res.violate(kind="oracle", layer="L2b", entry="script", files=ffiles[ix], expected=prop, observed=obs, model=model,
                            stderr=err[-300:], failing_input=True,
                            note="set -e / function call / source: the script does not end at the first failing command with "
                                 "its status (or runs a different command sequence)")
        # ---------------- L2r: a function name defined more than once -- in one script, by a sourced file after the
        # script's own definition, by two sourced files, and redefined between two calls: a call runs the definition
        # that was made LAST before it (C15_function_table: set_funcs, later definitions win).  Model = extracted
        # Model/ShellScript.v on the same files.  (seed C15-set-func-first-definition-sticks)
        def fdef(name, tag, style):
            body = "    %s @x0 %s\n" % (hp, tag)
            return ("function %s {\n%s}\n" % (name, body)) if style == 0 else ("function %s() {\n%s}\n" % (name, body))
        # (run_script collects all definitions of a FILE before it runs the file's other lines, so within one file the
        # last definition is the one every call of that file sees; the cases below only ask for what the property states:
        # a definition made by a later file replaces an earlier one, and the last of two definitions in a file wins)
        rcases = []
        for st1 in (0, 1):
            for st2 in (0, 1):
                rcases.append(({"main.sh": fdef("f", "v1", st1) + fdef("f", "v2", st2) + "f\n"}, [["@x0", "v2"]]))
                rcases.append(({"main.sh": fdef("f", "v1", st1) + "source lib.sh\nf\n", "lib.sh": fdef("f", "v2", st2)},
                               [["@x0", "v2"]]))
                rcases.append(({"main.sh": "source l1.sh\nf\nsource l2.sh\nf\nsource l1.sh\nf\n",
                                "l1.sh": fdef("f", "v1", st1), "l2.sh": fdef("f", "v2", st2)},
                               [["@x0", "v1"], ["@x0", "v2"], ["@x0", "v1"]]))
                rcases.append(({"main.sh": "source l1.sh\nsource l2.sh\nf\ng\n",
                                "l1.sh": fdef("f", "v1", st1) + fdef("g", "w1", st2), "l2.sh": fdef("g", "w2", st1)},
                               [["@x0", "v1"], ["@x0", "w2"]]))
        rl = []
        for ff, _ in rcases:
            flds = ["shrun", C.enc("main.sh")]
            for nm, tx in sorted(ff.items()):
                flds += [C.enc(nm), C.enc(tx)]
            rl.append("\t".join(flds))
        mo_r = C.run_model(ctx.model["C15"], C.write_cases("c15_shrun_redef.txt", rl))

        def one_r(ix):
            d = os.path.join(work, "r%d" % ix)
            os.makedirs(d)
            r_ = run_script(ctx.cicada, rcases[ix][0], "main.sh", [], d)
            shutil.rmtree(d, ignore_errors=True)
            return r_
        with ThreadPoolExecutor(max_workers=C.NCPU) as ex:
            routs = list(ex.map(one_r, range(len(rcases))))
        res.count("L2r_function_redefinition_runs", len(rcases))
        nviol = 0
        for ix, (rc, log, err) in enumerate(routs):
            ff, want = rcases[ix]
            obs = "trace=[%s] status=%s" % (";".join(",".join(a) for a in log), rc)
            prop = "trace=[%s] status=%s" % (";".join(",".join(a) for a in want), 0)
            if obs == prop and mo_r[ix] == obs:
                res.nontrivial("l2r:%d" % ix)
                continue
            nviol += 1
            if nviol <= 3:
                res.violate(kind="oracle" if obs != prop else "correspondence", layer="L2r", entry="script", files=ff, expected=prop,
                            observed=obs, model=mo_r[ix], stderr=err[-300:], failing_input=obs != prop,
                            note="a call must run the definition of the function that was made last before it")
        # ---------------- L2c: set -e in effect over random block-structured scripts (C15_sete):
        # the ASTs of C14's generator, `set -e` as first line; reference = extracted sem_block with e = true,
        # and the transcribed interpreter (run_lines with exit_on_error on) on the model's own parse
        import c14 as K
        seqh = os.path.join(ctx.helpers, "seq")
        asts = K.gen_asts(ctx, hp, seqh, 600 if ctx.thorough else 100)
        m_ast = C.run_model(ctx.model["C14"], C.write_cases("c15_e_ast.txt", [C.case("ast", a) for a in asts]))
        etexts = [C.dec(l[len("wf=1 text=\""):].split("\" tree=", 1)[0]) for l in m_ast]
        m_seme = C.run_model(ctx.model["C14"], C.write_cases("c15_e_sem.txt", [C.case("seme", a, "60") for a in asts]))
        m_rune = C.run_model(ctx.model["C14"], C.write_cases("c15_e_run.txt", [C.case("rune", t, "60") for t in etexts]))

        SETE = ["set -e\n", "set -e 2> /dev/null\n", "set -e > /dev/null\n", "set -e >> out.log\n"]

        def one_e(ix):
            d = os.path.join(work, "e%d" % ix)
            os.makedirs(d)
            r_ = K.run_script(ctx.cicada, SETE[ix % len(SETE)] + etexts[ix], d)
            shutil.rmtree(d, ignore_errors=True)
            return r_
        with ThreadPoolExecutor(max_workers=C.NCPU) as ex:
            eouts = list(ex.map(one_e, range(len(asts))))
        res.count("L2c_sete_nested_runs", len(asts))
        nviol = 0
        for ix, (rc, log, out, err) in enumerate(eouts):
            exp = K.expected_of(m_seme[ix])
            if exp is None:
                raise C.Infra("sem_block (e = true) gave no outcome: %s" % m_seme[ix])
            if m_rune[ix] != m_seme[ix]:
                nviol += 1
                if nviol <= 3:
                    res.violate(kind="model-self-check", layer="L2c", ast=asts[ix], sem=m_seme[ix], run=m_rune[ix], failing_input=False,
                                note="transcribed interpreter with exit_on_error on differs from sem_block with e = true")
            elog, erc = exp
            res.nontrivial("l2c:" + ";".join(x.split("/")[-1] for x in elog)[:200])
            if (log, rc) != (elog, erc):
                nviol += 1
                if nviol <= 3:
                    res.violate(kind="oracle", layer="L2c", entry="script", ast=asts[ix], input=SETE[ix % len(SETE)] + etexts[ix],
                                expected="trace=%r status=%r" % (elog, erc), observed="trace=%r status=%r" % (log, rc),
                                stderr=err[-300:], failing_input=True,
                                note="with set -e the script does not end at the first failing command (at any nesting depth) "
                                     "with its status")
        c, rc, log, err = outs[0]
        res.sample({"layer": "L2", "tag": c["tag"], "script": c["files"][c["main"]], "args": c["args"],
                    "reference": repr(c["expect"]), "impl": "trace=%r status=%r" % (log, rc)})
    finally:
        shutil.rmtree(work, ignore_errors=True)
