"""C02 -- pipelines: wiring, EOF, started once, status of the last stage.
Layers: L1 wait_fg_job (injected wait statuses) vs the extracted model; L2 pipelines of helper stages on the
real binary (descriptor identity, payloads 0..300 KiB, finishing orders, stages that do not read, builtins /
not-found commands, exit codes and signals); L3 strace vs the model's syscall list."""
import itertools, os, shutil, tempfile, time
import common as C
import fdslib as F
import fds_run as R
import c02w_l1

EXTRACT = ["FDS", "C02W"]
BINS = ["c02w"]
NEEDS_CICADA = True
ALLOWED_AXIOMS = []
PINNED = ["C02_full", "C02_wiring", "C02_eof", "C02_stage_signals", "C02_once_and_shell_holds_nothing", "C02_wait", "C02_wait_order_independent"]
TRUSTED = R.TRUSTED
ASSUMES = R.ASSUMES
WEIGHTS = {"builtin": 0.12, "notfound": 0.08, "here": 0.12, "from": 0.05, "redir": 0.1, "maxredir": 1, "capture": 0.1,
           "unopenable": 0.0}


def bytes_and_orders(ctx, res):
    hp = os.path.join(ctx.helpers, "hp")
    cases = []
    sizes = [0, 1, 4096, 65536, 70000, 300000] if ctx.thorough else [0, 1, 65536, 300000]
    for n in range(1, 7):
        for sz in sizes:
            code = ctx.rng.choice([0, 1, 2, 77, 255])
            st = []
            for i in range(n):
                a = (["r"] if i else []) + (["w%d" % (sz + i)] if i + 1 < n else []) + (["x%d" % code] if i + 1 == n else [])
                st.append("%s @%s P.%d" % (hp, ",".join(a), i))
            cases.append(("payload", " | ".join(st), n, sz, code, None))
    # finishing orders: stages that do not read, per-stage delays; last stage exits with a code or dies by a signal
    for n in range(1, 5):
        for perm in itertools.permutations(range(n)):
            end = ctx.rng.choice([("x", 0), ("x", 3), ("x", 255), ("k", 9), ("k", 15), ("k", 13)])
            st = []
            for i in range(n):
                a = ["s%d" % (40 * perm.index(i))] + (["%s%d" % end] if i + 1 == n else ["x%d" % (i + 1)])
                st.append("%s @%s P.%d" % (hp, ",".join(a), i))
            cases.append(("order", " | ".join(st), n, 0, end[1] if end[0] == "x" else 128 + end[1], perm))
    for n in (5, 6):
        for _ in range(6 if ctx.thorough else 2):
            perm = list(range(n)); ctx.rng.shuffle(perm)
            st = ["%s @s%d,x%d P.%d" % (hp, 30 * perm.index(i), i + 1, i) for i in range(n)]
            cases.append(("order", " | ".join(st), n, 0, n, tuple(perm)))
    # a stage that exits without reading while upstream writes several pipe buffers
    for n in (2, 3, 4):
        st = ["%s @w300000 P.0" % hp] + ["%s @x0 P.%d" % (hp, i) for i in range(1, n - 1)] + ["%s @x5 P.%d" % (hp, n - 1)]
        cases.append(("noread", " | ".join(st), n, 0, 5, None))
    # builtins and not-found commands in every position
    for n in (2, 3):
        for pos in range(n):
            for what in ("alias", "no_such_cmd_zq"):
                st = [(what if i == pos else "%s @%sx%d P.%d" % (hp, "r," if i else "", 4 if i + 1 == n else 0, i)) for i in range(n)]
                exp = 4 if pos != n - 1 else (0 if what == "alias" else 127)
                cases.append(("position", " | ".join(st), n - 1, 0, exp, pos))
    # slow first stage | ... | last stage kills itself at once: the shell must not resume before the slow stage has ended
    # (the probe afterwards reads the 5 bytes the slow stage writes to a file at its very end), status = 128 + signal
    for n in (2, 3):
        for sig in (9, 13, 15):
            st = ["%s @s300,e5 P.0 2> slow.txt" % hp] + ["%s @r P.%d" % (hp, i) for i in range(1, n - 1)] + ["%s @k%d P.%d" % (hp, sig, n - 1)]
            cases.append(("slowkill", " | ".join(st), n, 0, 128 + sig, sig))
    bad = 0
    for kind, body, n, sz, status, extra in cases:
        work = tempfile.mkdtemp(prefix="c02b_")
        try:
            F.setup_work(work, ())
            t0 = time.time()
            probe = "%s @r,x$? S.0 < slow.txt" % hp if kind == "slowkill" else "%s @x$? S.0" % hp
            rc, recs = F.run_real(ctx.cicada, "%s ; %s" % (body, probe), work, timeout=60)
            dt = time.time() - t0
        finally:
            shutil.rmtree(work, ignore_errors=True)
        res.count("L2_bytes_orders", 1)
        res.nontrivial("c02:%s:%d:%d:%s" % (kind, n, sz, extra))
        probs = []
        if rc == "TIMEOUT":
            probs.append("the pipeline did not finish")
        ran = sorted(k for k in recs if k.startswith("P."))
        if kind != "position" and len(ran) != n:
            probs.append("stages started: %s" % ran)
        if kind == "position" and len(ran) != n:
            probs.append("stages started: %s" % ran)
        if kind == "payload":
            for i in range(1, n):
                exp = "%d:%s" % (sz + i - 1, F.fnv(F.pat(sz + i - 1)))
                got = recs.get("P.%d" % i, {}).get("stdin")
                if got != exp:
                    probs.append("stage %d received %s, upstream wrote %s" % (i, got, exp))
        got = recs.get("S.0", {}).get("argv", [None, None])[1]
        if kind == "slowkill":
            seen = recs.get("S.0", {}).get("stdin")
            if not (seen or "").startswith("5:"):
                probs.append("the shell resumed before the slow first stage had ended (the probe saw %r of its 5 final bytes)" % seen)
            if dt < 0.28:
                probs.append("the pipeline returned after %.2f s although its first stage sleeps 0.3 s" % dt)
            got = (got or "").replace("@r,x", "@x")
        if got != "@x%d" % status:
            probs.append("status %s, last stage ended with %d" % (got, status))
        if probs:
            bad += 1
            if bad <= 3:
                res.violate(kind="oracle", layer="L2", input=body, observed=probs, wall_s=round(dt, 2), failing_input=True,
                            note="pipeline does not deliver the bytes / finish / report the last stage's status")


def signal_runs(ctx, res):
    """Signal dispositions of every stage at its start (helpers/sg reads SigIgn from /proc/self/status), for every stage
    position with and without a here-string anywhere in the pipeline; and a here-string stage on a NON-LAST position that
    writes several pipe buffers to a downstream that exits without reading: it must be KILLED by SIGPIPE (no end record),
    not see EPIPE, and the pipeline must finish."""
    hp = os.path.join(ctx.helpers, "hp")
    sg = os.path.join(ctx.helpers, "sg")
    PIPE, INT, QUIT, TSTP = 1 << 12, 1 << 1, 1 << 2, 1 << 19
    cases = []
    # (a) dispositions: n = 1..4 stages, a here-string on each subset of positions of size <= 1, plus all positions
    for n in range(1, 5):
        here_sets = [set()] + [{i} for i in range(n)] + ([set(range(n))] if n > 1 else [])
        for hs in here_sets:
            st = ["%s A.%d%s" % (sg, i, " <<< w%d" % i if i in hs else "") for i in range(n)]
            cases.append(("disp", " | ".join(st), n, sorted(hs)))
    # (b) here-string stage writes 300000 bytes, the next stage exits at once without reading
    for n in (2, 3):
        for pos in range(n - 1):
            st = []
            for i in range(n):
                if i == pos:
                    st.append("%s A.%d w300000 <<< word" % (sg, i))
                elif i == pos + 1:
                    st.append("%s @x0 B.%d" % (hp, i))
                elif i < pos:
                    st.append("%s @ B.%d" % (hp, i))
                else:
                    st.append("%s @r B.%d" % (hp, i))
            cases.append(("epipe", " | ".join(st), n, [pos]))
    bad = 0
    for kind, body, n, hs in cases:
        work = tempfile.mkdtemp(prefix="c02s_")
        try:
            F.setup_work(work, ())
            t0 = time.time()
            rc, recs = F.run_real(ctx.cicada, "%s ; %s @x$? S.0" % (body, hp), work, timeout=30)
            dt = time.time() - t0
            sgrecs = {}
            for l in open(os.path.join(work, "trace"), errors="replace"):
                if l.startswith("sg\t"):
                    kv = dict(f.split("=", 1) for f in l.rstrip("\n").split("\t")[1:] if "=" in f)
                    sgrecs.setdefault(kv.get("tag"), {}).update(kv)
        finally:
            shutil.rmtree(work, ignore_errors=True)
        res.count("L2_signals", 1)
        res.nontrivial("c02sig:%s:%d:%s" % (kind, n, hs))
        probs = []
        if rc == "TIMEOUT":
            probs.append("the pipeline did not finish")
        for i in range(n):
            tag = "A.%d" % i
            if kind == "epipe" and i != hs[0]:
                continue
            r = sgrecs.get(tag)
            if r is None or "sigign" not in r:
                probs.append("stage %d did not start" % i)
                continue
            ign = int(r["sigign"], 16)
            names = [nm for nm, bit in (("SIGPIPE", PIPE), ("SIGINT", INT), ("SIGQUIT", QUIT), ("SIGTSTP", TSTP)) if ign & bit]
            if names:
                probs.append("stage %d starts with %s ignored (SigIgn %s)" % (i, ",".join(names), r["sigign"]))
            if kind == "epipe":
                if r.get("end") == "err":
                    probs.append("stage %d (here-string, downstream gone) got a write error errno=%s after %s bytes instead of "
                                 "being killed by SIGPIPE" % (i, r.get("errno"), r.get("wrote")))
                elif r.get("end") == "ok":
                    probs.append("stage %d wrote all 300000 bytes although its reader exited without reading" % i)
        if probs:
            bad += 1
            if bad <= 3:
                res.violate(kind="oracle", layer="L2", input=body.replace(sg, "sg").replace(hp, "hp"), observed=probs,
                            wall_s=round(dt, 2), failing_input=True,
                            note="a pipeline stage does not start with the default signal dispositions (SIGPIPE / SIGINT / SIGQUIT / SIGTSTP)")


def run(ctx, res):
    res.rule = ("L1: wait_fg_job on injected wait-status schedules (every finishing order for n<=4); L2: helper pipelines "
                "n=1..6 x payloads 0..300 KiB, all finishing orders n<=4 by delays, non-reading stages, builtins / not-found "
                "in each position, exit codes and signals; random plans compared with the descriptor model (identity of "
                "pipe ends per stage); L3: strace vs model for n=1..6 plain, here-string on each stage, redirections")
    c02w_l1.run_l1(ctx, res)
    bytes_and_orders(ctx, res)
    signal_runs(ctx, res)
    R.run_sequences(ctx, res, "C02", [[R.PRELUDE()] + [R.S([R.E(0), R.E(1, True, frm="h")])]], "herestring")
    R.run_sequences(ctx, res, "C02", R.gen_sequences(ctx, 150 if ctx.thorough else 25, 3, WEIGHTS), "seq")
    R.run_sequences(ctx, res, "C02", R.l3_cases(ctx), "l3", strace=True)
