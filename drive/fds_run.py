"""Runner shared by drive/c02.py, c04.py, c08.py (one model, three properties)."""
import itertools, os, re, shutil, subprocess, tempfile, time
from concurrent.futures import ThreadPoolExecutor
import common as C
import fdslib as F

TRUSTED = [
    "Coq 8.16.1 kernel (coqc; coqchk in thorough); vm_compute only in Example witnesses and refutations",
    "hand transcription of run_pipeline / run_single_program / _get_std_fds / wait_fg_job / tokens_to_redirections / "
    "Command::from_tokens into coq/theories/Model/{OsLite,Pipeline,WaitFg,Redirs}.v, tied by L1 (in-process), "
    "L2 (real binary + helpers/hp) and L3 (strace) comparison",
    "OsLite: POSIX lowest-free-descriptor rule, dup2/close/EBADF behaviour, O_CLOEXEC on Rust opens and none on pipe()/dup() "
    "-- assumed, compared with strace return values and /proc/self/fd of the helper",
    "extraction (ExtrOcamlBasic only), OCaml 4.13.1, ocaml/{fds,c02w,c04r}/drv.ml, drive/fdslib.py (trace normaliser, identity check)",
    "helpers/hp.c, strace, harness/src/bin/{c02w,c04r}.rs",
]
ASSUMES = [
    "EMFILE is modelled for the pipe() calls of the up-front loop and of the capture pipes only (not for the here-string "
    "pipe, dup, open); fork failure is not modelled",
    "what a program or builtin writes, scheduling and the kernel's pipe semantics are not modelled; bytes / EOF / SIGPIPE "
    "consequences are observed by L2 only",
    "background pipelines and job-table updates are outside this model (C06/C07)",
]


def known_classes(prop):
    return {k["class"]: k for k in C.known_findings(prop)}


def S(stages, cap=False, unop=()):
    return {"stages": stages, "capture": cap, "unop": set(unop)}


def E(i, reads=False, **kw):
    code = kw.pop("code", 0)
    return F.mk_stage("E", acts=F.ext_acts(i, reads, code=code), **kw)


PRELUDE = lambda: {"stages": [F.mk_stage("B", prints="", builtin="alias zq=1")], "capture": False, "unop": set(),
                   "nosentinel": True, "tag": "PRE"}

# regression sequences: the repaired defects (must pass) and the classes that remain
REPLAYS = {
    "captured-builtin-last-stage": lambda: [S([E(0), F.mk_stage("B", redirs=["2t9"], prints="e", builtin="alias zz_none")], cap=True),
                                            S([E(0), F.mk_stage("B", redirs=["1t10"], prints="o", builtin="alias")], cap=True)],
    "builtin-lookahead-leak": lambda: [S([F.mk_stage("B", redirs=["1&2", "1t5"], prints="o", builtin="alias")])],
    "herestring-nonfirst": lambda: [S([E(0), E(1, True, frm="h")])],
    "herestring-reader-gone": lambda: [S([F.mk_stage("N", frm="h")]), S([E(0, frm="h", redirs=["1t31"])], unop=[31])],
    "dup-fd-left-open": lambda: [S([E(0, redirs=["2&1"])]), S([E(0, redirs=["1&2"])])],
    "capture-with-redirect": lambda: [S([E(0, redirs=["1t5"])], cap=True), S([E(0, redirs=["2&1"])], cap=True),
                                      S([E(0, redirs=["1t6", "2&1"])], cap=True), S([E(0, redirs=["1&2"])], cap=True)],
    "builtin-capture-pipes": lambda: [S([F.mk_stage("B", prints="o", builtin="alias")], cap=True)],
}


def apply_verdict(res, prop, out, known, counters):
    v, k, a = F.judge(out, prop, known)
    for x in v[:2]:
        if counters["viol"] < 4:
            res.violate(**x)
        counters["viol"] += 1
    for cls, text in k:
        kf = known[cls]
        res.known(cls, "class=%s what=%s observed=%s" % (cls, kf.get("what", ""), text[:200]))
    for t in a:
        res.extra.setdefault("accepted", []).append(t)
    if out.get("variant"):
        counters[out["variant"]] = counters.get(out["variant"], 0) + 1


def run_sequences(ctx, res, prop, seqs, label, strace=False, extra_fds=()):
    known = known_classes(prop)
    counters = {"viol": 0}

    def one(ix):
        steps = seqs[ix]
        pres = F.present_paths(steps, ctx.rng)
        for st_ in steps:
            pres |= set(st_.get("present", ()))
        return F.run_sequence(ctx, steps, "%s%d" % (label, ix), strace=strace, extra_fds=extra_fds, present=pres)

    with ThreadPoolExecutor(max_workers=max(2, C.NCPU // 2)) as ex:
        outs = list(ex.map(one, range(len(seqs))))
    # one evaluation = one command run and compared (main steps and their probes)
    res.count("L2_" + label, sum(len(o.get("full", [1])) for o in outs))
    for ix, out in enumerate(outs):
        if "models" not in out:
            apply_verdict(res, prop, dict(out, full=[], models={False: []}, died=False, texts=[]), known, counters)
            continue
        for s, m in zip(out["full"], out["models"][False]):
            if s["role"] == "main":
                res.nontrivial("%s:%s" % (label, F.step_case(s, False, "")))
        apply_verdict(res, prop, out, known, counters)
        if prop in ("C04", "ALL") or True:
            fb = F.check_files(out)
            res.extra["files_compared"] = res.extra.get("files_compared", 0) + len(out.get("files_full", {}))
            if fb and prop == "C04":
                if counters["viol"] < 4:
                    res.violate(kind="oracle", layer="L2", input=out["line"], expected={f: e for f, e, o in fb[:3]},
                                observed={f: o for f, e, o in fb[:3]}, failing_input=True,
                                note="final contents of a redirection target differ from create/truncate/append semantics")
                counters["viol"] += 1
        if strace:
            l3 = out.get("l3", {})
            res.count("L3_strace_" + label, 1)
            if l3 and all(l3.values()) and not out.get("died"):
                if counters["viol"] < 4:
                    res.violate(kind="correspondence", layer="L3", input=out["line"], as_is=l3[False][:3], repaired={str(k): v[:2] for k, v in l3.items() if k},
                                failing_input=False, note="syscall sequence of the real binary differs from both model variants")
                counters["viol"] += 1
        if ix in (0, len(outs) - 1):
            res.sample({"layer": "L2" + ("+L3" if strace else ""), "line": out["line"][:400], "rc": out.get("rc"),
                        "variant": out.get("variant"), "model_first_step": out["models"][False][0]["kids"] if out["models"][False] else None})
    res.extra.setdefault("variants", {})[label] = {k: v for k, v in counters.items() if k != "viol"}
    return outs


def gen_sequences(ctx, nseq, maxsteps, weights, maxn=6):
    seqs = []
    for _ in range(nseq):
        k = ctx.rng.randint(1, maxsteps)
        steps = [PRELUDE()] + [F.gen_step(ctx.rng, weights, maxn) for _ in range(k)]
        seqs.append(steps)
    return seqs


def l3_cases(ctx):
    seqs = []
    for n in range(1, 7):
        seqs.append([dict(S([E(i, i > 0) for i in range(n)]), nosentinel=True)])
    for n in range(1, 5):
        for h in range(n):
            seqs.append([dict(S([E(i, i > 0, frm=("h" if i == h else "-")) for i in range(n)]), nosentinel=True)])
    seqs.append([dict(S([E(0, redirs=["2&1", "1t5"]), E(1, True, redirs=["1a6", "2t7"])]), nosentinel=True)])
    seqs.append([dict(S([E(0, redirs=["1&2"]), E(1, True, frm="<8", redirs=["2&1"])]), nosentinel=True)])
    seqs.append([dict(S([E(0, redirs=["1t9"])], unop=[9]), nosentinel=True)])
    seqs.append([dict(S([E(0), F.mk_stage("N"), E(2, True)]), nosentinel=True)])
    return seqs


def ulimit_runs(ctx, res, prop):
    """RLIMIT_NOFILE as the injected fault: the pipeline must fail cleanly, release everything, and the shell go on."""
    hp = os.path.join(ctx.helpers, "hp")
    ns = range(4, 41) if ctx.thorough else [4, 5, 6, 7, 8, 9, 10, 11, 12, 13, 14, 20, 40]
    bad = 0
    for N in ns:
        for n in ([2, 3, 6] if not ctx.thorough else [2, 3, 4, 5, 6]):
            m = n - 1
            k0 = next((k for k in range(m) if 4 + 2 * k >= N), None)
            case = C.case("run", "0", "0", str(k0) if k0 is not None else "-", "-", "0,1,2",
                          "|".join(["E:-:-:-"] * n))
            mo = F.parse_model(C.run_model(ctx.model["FDS"], C.write_cases("fds_ul_%d.txt" % os.getpid(), [case]))[0])
            work = tempfile.mkdtemp(prefix="fdsul_")
            try:
                F.setup_work(work, ())
                line = "ulimit -n %d ; %s ; %s @x$? S.0 ; minfd ; %s @ I.0" % (
                    N, " | ".join("%s @%s A.%d" % (hp, "r" if i else "", i) for i in range(n)), hp, hp)
                rc, recs = F.run_real(ctx.cicada, line, work)
                out_txt = open(os.path.join(work, "out.txt"), "rb").read()
                err_txt = open(os.path.join(work, "err.txt"), "rb").read().decode("latin1")
            finally:
                shutil.rmtree(work, ignore_errors=True)
            res.count("L2_ulimit", 1)
            ran = sorted(k for k in recs if k.startswith("A."))
            problems = []
            if mo["err"]:
                res.nontrivial("ulimit:%d:%d" % (N, n))
                if ran:
                    problems.append("stages %s ran although pipe() number %d fails" % (ran, k0))
                if "S.0" not in recs or recs["S.0"]["argv"][1] != "@x1":
                    problems.append("status after the failed pipeline: %r" % (recs.get("S.0", {}).get("argv")))
                if "pipeline1" not in err_txt:
                    problems.append("no failure report on stderr")
            else:
                if len(ran) != n:
                    problems.append("stages ran: %s" % ran)
            if "I.0" not in recs:
                problems.append("the shell did not run the sentinel after the pipeline (rc %s)" % rc)
            elif sorted(recs["I.0"]["fds"]) != [0, 1, 2]:
                problems.append("sentinel inherits %s" % sorted(recs["I.0"]["fds"]))
            if N >= 5:
                mf = [int(x) for x in re.findall(rb"(\d+)\n", out_txt)]
                if mf != [F.lowest_free(mo["shell"])]:
                    problems.append("minfd %s, model %s" % (mf, F.lowest_free(mo["shell"])))
            if problems:
                bad += 1
                if bad <= 2:
                    res.violate(kind="oracle", layer="L2", input=line, observed=problems, model=mo["tr_shell"], failing_input=True,
                                note="descriptor exhaustion (ulimit -n %d) before a %d-stage pipeline is not handled cleanly" % (N, n))


def capture_fail_runs(ctx, res, prop):
    """RLIMIT_NOFILE 4..40 before a CAPTURED pipeline of 1, 2, 3 stages (`x=$(...)`): whichever pipe() fails -- a stage
    pipe, the first capture pipe, or the second one with the first already created -- the shell must hold exactly the
    descriptors it held before (minfd AND the descriptor list a child inherits, compared in the same shell before and
    after), nothing may have been started when the model says pipe() fails, and the model's table must be met."""
    hp = os.path.join(ctx.helpers, "hp")
    bad = 0
    for n in (1, 2, 3):
        for N in range(4, 41):
            m = n - 1
            # pipe() call k needs descriptors 3+2k and 4+2k: stage pipes 0..m-1, capture stdout = m, capture stderr = m+1
            k0 = next((k for k in range(m + 2) if 4 + 2 * k >= N), None)
            case = C.case("run", "11111", "1", str(k0) if k0 is not None else "-", "-", "0,1,2", "|".join(["E:-:-:-"] * n))
            mo = F.parse_model(C.run_model(ctx.model["FDS"], C.write_cases("fds_cf_%d.txt" % os.getpid(), [case]))[0])
            inner = " | ".join("%s @%so A.%d a" % (hp, "r," if i else "", i) for i in range(n))
            line = "minfd ; %s @ B.0 ; ulimit -n %d ; x=$(%s) ; minfd ; %s @ I.0" % (hp, N, inner, hp)
            work = tempfile.mkdtemp(prefix="fdscf_")
            try:
                F.setup_work(work, ())
                rc, recs = F.run_real(ctx.cicada, line, work)
                out_txt = open(os.path.join(work, "out.txt"), "rb").read()
                err_txt = open(os.path.join(work, "err.txt"), "rb").read().decode("latin1")
            finally:
                shutil.rmtree(work, ignore_errors=True)
            res.count("L2_capture_ulimit", 1)
            which = "none" if k0 is None else ("stage%d" % k0 if k0 < m else ("capout" if k0 == m else "caperr"))
            res.nontrivial("capul:%d:%s" % (n, which))
            mf = [int(x) for x in re.findall(rb"(?m)^(\d+)$", out_txt)]
            ran = sorted(k for k in recs if k.startswith("A."))
            probs = []
            if "B.0" not in recs or "I.0" not in recs:
                probs.append("probe did not run (rc %s): %s" % (rc, sorted(recs)))
            else:
                b, a = sorted(recs["B.0"]["fds"]), sorted(recs["I.0"]["fds"])
                if a != b:
                    probs.append("a child started afterwards inherits descriptors %s (before: %s)" % (a, b))
            if len(mf) >= 2 and mf[-1] != mf[0]:
                probs.append("minfd %d before, %d after" % (mf[0], mf[-1]))
            if len(mf) >= 1 and mf[0] != F.lowest_free(mo["shell"]) and not mo["err"]:
                probs.append("minfd %s, model %s" % (mf, F.lowest_free(mo["shell"])))
            if mo["err"] and ran:
                probs.append("stages %s ran although pipe() call %d (%s) fails" % (ran, k0, which))
            if not mo["err"] and len(ran) != n:
                probs.append("stages ran: %s of %d" % (ran, n))
            if mo["err"] and "pipeline" not in err_txt:
                probs.append("no failure report on stderr")
            if probs:
                bad += 1
                if bad <= 3:
                    res.violate(kind="oracle", layer="L2", input=line.replace(hp, "hp"), N=N, stages=n, failing_pipe_call=which,
                                observed=probs, model_shell_trace=mo["tr_shell"], failing_input=True,
                                note="ulimit -n %d before a captured %d-stage pipeline: descriptors leak in the shell "
                                     "(pipe() call that fails: %s)" % (N, n, which))


def captured_builtin_seqs(ctx):
    """a builtin alone on its line (captured and not) x redirection shapes {none, openable file, unopenable file, 2>&1, 1>&2,
    combinations}: each step is followed by the status / minfd / inheritance probes, and every leak is measured against the
    state before the FIRST command of the sequence"""
    shapes = [[], ["1t5"], ["1t31"], ["2t33"], ["1a6", "2t31"], ["2&1"], ["1&2"], ["1t5", "2&1"], ["2&1", "1t31"],
              ["1&2", "1t5"], ["2t32"], ["1t30", "2&1"]]
    builtins = ["alias", "cd /no_such_dir_zq", "alias zz_none", "minfd"]
    seqs = []
    for b in builtins:
        for cap in (True, False):
            steps = [PRELUDE()]
            for rs in shapes:
                if b == "minfd" and not cap and not any(r.startswith("1t") or r.startswith("1a") for r in rs):
                    continue                      # an uncaptured, unredirected minfd would print into the minfd probe's stream
                unop = set(int(r[2:]) for r in rs if r[1] != "&" and int(r[2:]) >= 30)
                steps.append(S([F.mk_stage("B", redirs=rs, prints=F.BUILTINS[b][0], builtin=b)], cap=cap, unop=unop))
            seqs.append(steps)
    return seqs


def builtin_truncate_seqs(ctx):
    """`>` creates or TRUNCATES for builtins too: builtins alone on their line that print NOTHING, or whose LATER target cannot be
    opened, with PRE-EXISTING NON-EMPTY target files; the final content of every target is compared (the earlier targets of a
    failing list are truncated / created, `>>` keeps the content, nothing after the failing target is touched)."""
    shapes = [["1t5"], ["2t5"], ["1a5"], ["1t5", "1t31", "1t6"], ["1t5", "2t33", "1a6"], ["1a5", "1t6", "2t30"],
              ["1t5", "1t6"], ["2t5", "1t31"], ["1t5", "2&1", "1t32", "1t6"],
              # left to right, once: the duplication sees the target AS IT STANDS (a second application in the forked child
              # of a captured builtin would send the diagnostic of `2>&1 > f` into f, the text of `1>&2 2> g` into g)
              ["2&1", "1t5"], ["1&2", "2t6"], ["1t5", "2&1"], ["2&1", "1a5"]]
    seqs = []
    for b in ("alias zq=2", "cd .", "alias", "alias zz_none"):
        for cap in (False, True):
            for rs in shapes:
                unop = set(int(r[2:]) for r in rs if r[1] != "&" and int(r[2:]) >= 30)
                step = S([F.mk_stage("B", redirs=rs, prints=F.BUILTINS[b][0], builtin=b)], cap=cap, unop=unop)
                step["present"] = {5, 6}
                seqs.append([PRELUDE(), step])
    return seqs


def builtin_empty_text_seqs(ctx):
    """print_stdout with an EMPTY text (`alias` while no alias is defined): the descriptor obtained for the print -- dup(1) or the
    redirection target -- must be closed on that path too; every step is followed by minfd and the inheritance probe."""
    seqs = []
    texts = dict(F.TEXTS)
    texts["alias"] = (b"", b"")
    for cap in (False, True):
        steps = []
        for rs in ([], ["1t5"], ["2&1", "1a5"], ["1&2"], ["1a6", "2t5"], []):
            if cap and rs:
                continue
            st = S([F.mk_stage("B", redirs=rs, prints="O", builtin="alias")], cap=cap)
            st["texts"] = texts
            st["present"] = {5}
            steps.append(st)
        seqs.append(steps)
    return seqs
