"""Shared machinery for ./check: building the Coq cone, the extracted model,
the Rust harness and the cicada binary from /repo's current working tree;
running model and implementation on the same case files; evidence; known
findings; replay files."""
import hashlib, json, os, random, re, shutil, subprocess, sys, time, tempfile

VERIF = os.path.dirname(os.path.dirname(os.path.abspath(__file__)))
REPO = os.environ.get("CICADA_REPO", "/repo")
CACHE = os.path.join(VERIF, ".cache")
COQ = os.path.join(VERIF, "coq")
TARGET = os.path.join(CACHE, "target")
NCPU = os.cpu_count() or 4

FORBIDDEN = re.compile(
    r"\b(Admitted|admit|Axiom|Axioms|Parameter|Parameters|Conjecture|Conjectures|Hypothesis|Hypotheses|Variable|Variables)\b"
    r"|Unset\s+Guard|bypass_check|type-in-type|impredicative-set|Admit\s+Obligations|Unset\s+Universe|Unset\s+Positivity")


class Infra(Exception):
    """The machinery itself could not run (not a verdict about the property)."""


def sh(cmd, timeout=600, cwd=None, env=None, inp=None, check=False):
    e = dict(os.environ)
    if env:
        e.update(env)
    try:
        p = subprocess.run(cmd, cwd=cwd, env=e, input=inp, stdout=subprocess.PIPE,
                           stderr=subprocess.STDOUT, timeout=timeout, shell=isinstance(cmd, str))
        out = p.stdout.decode("utf-8", "replace")
        rc = p.returncode
    except subprocess.TimeoutExpired as ex:
        out = (ex.stdout or b"").decode("utf-8", "replace") + "\n[timeout after %ss]" % timeout
        rc = 124
    if check and rc != 0:
        raise Infra("command failed (%s): %s\n%s" % (rc, cmd, out[-3000:]))
    return rc, out


# ---------------------------------------------------------------- wire codec
def enc(s):
    o = []
    for b in s.encode("utf-8", "surrogatepass") if isinstance(s, str) else s:
        if 0x20 <= b <= 0x7e and b not in (0x25, 0x22):
            o.append(chr(b))
        else:
            o.append("%%%02X" % b)
    return "".join(o)


def dec(s):
    out = bytearray()
    i = 0
    while i < len(s):
        if s[i] == "%":
            out.append(int(s[i + 1:i + 3], 16))
            i += 3
        else:
            out.append(ord(s[i]))
            i += 1
    return out.decode("utf-8", "replace")


def case(*fields):
    return "\t".join([fields[0]] + [enc(f) for f in fields[1:]])


# ---------------------------------------------------------------- Coq
def coq_files():
    fs = []
    for root, _, names in os.walk(os.path.join(COQ, "theories")):
        for n in names:
            if n.endswith(".v"):
                fs.append(os.path.relpath(os.path.join(root, n), COQ))
    return sorted(fs)


def coq_makefile():
    files = coq_files()
    stamp = os.path.join(COQ, ".files.stamp")
    cur = "\n".join(files)
    old = open(stamp).read() if os.path.exists(stamp) else None
    if old != cur or not os.path.exists(os.path.join(COQ, "Makefile")):
        sh(["coq_makefile", "-f", "_CoqProject"] + files + ["-o", "Makefile"], cwd=COQ, check=True)
        open(stamp, "w").write(cur)


def coq_forbidden():
    """Admitted / Axiom / ... anywhere in the development (comments stripped)."""
    hits = []
    for f in coq_files():
        txt = open(os.path.join(COQ, f)).read()
        txt = strip_comments(txt)
        in_section = 0
        for ln, line in enumerate(txt.split("\n"), 1):
            if re.match(r"\s*Section\b", line):
                in_section += 1
            if re.match(r"\s*End\b", line) and in_section:
                in_section -= 1
            m = FORBIDDEN.search(line)
            if m:
                w = m.group(0)
                if in_section and re.match(r"(Variable|Variables|Hypothesis|Hypotheses)$", w):
                    continue
                hits.append("%s:%d: %s" % (f, ln, line.strip()))
    return hits


def strip_comments(txt):
    out = []
    depth = 0
    i = 0
    in_str = False
    while i < len(txt):
        if depth == 0 and txt[i] == '"':
            in_str = not in_str
            out.append(txt[i]); i += 1; continue
        if not in_str and txt.startswith("(*", i):
            depth += 1; i += 2; continue
        if not in_str and depth and txt.startswith("*)", i):
            depth -= 1; i += 2; continue
        if depth == 0:
            out.append(txt[i])
        elif txt[i] == "\n":
            out.append("\n")
        i += 1
    return "".join(out)


def coq_make(targets, timeout=1500):
    coq_makefile()
    rc, out = sh(["make", "-j%d" % NCPU, "-k"] + targets, cwd=COQ, timeout=timeout)
    return rc == 0, out


def coq_cone(target_vo):
    """The .v files the target depends on (transitively), via coqdep output in .Makefile.d"""
    dfile = os.path.join(COQ, ".Makefile.d")
    deps = {}
    if os.path.exists(dfile):
        for line in open(dfile):
            if ":" not in line:
                continue
            lhs, rhs = line.split(":", 1)
            for t in lhs.split():
                if t.endswith(".vo"):
                    deps[t] = [d for d in rhs.split() if d.endswith(".vo")]
    seen = []
    stack = [target_vo]
    while stack:
        t = stack.pop()
        if t in seen:
            continue
        seen.append(t)
        stack.extend(deps.get(t, []))
    return sorted(x[:-1] for x in seen)  # .vo -> .v


OBL = re.compile(r"^\s*(?:Local\s+|Global\s+|#\[[^\]]*\]\s*)*(Theorem|Lemma|Example|Corollary|Fact|Remark|Proposition)\s+([A-Za-z0-9_']+)", re.M)


def count_obligations(vfiles):
    total, done, names = 0, 0, []
    for f in vfiles:
        p = os.path.join(COQ, f)
        if not os.path.exists(p):
            continue
        txt = strip_comments(open(p).read())
        n = len(OBL.findall(txt))
        total += n
        vo = p + "o"
        if os.path.exists(vo) and os.path.getmtime(vo) >= os.path.getmtime(p):
            done += n
    return total, done


def coq_assumptions(prop_v):
    """Recompile the (tiny) property file alone and return the Print Assumptions blocks."""
    rc, out = sh(["coqc", "-Q", "theories", "Cicada", "-w", "-notation-overridden", prop_v], cwd=COQ, timeout=300)
    flat = []
    cur = None
    for line in out.split("\n"):
        if line.startswith("Closed under the global context"):
            flat.append("Closed under the global context")
            cur = None
        elif line.startswith("Axioms:"):
            cur = []
            flat.append(cur)
        elif cur is not None and line and not line[0].isspace() and " : " in line + " ":
            cur.append(line.split()[0])
        elif cur is not None and line and line[0].isspace():
            pass  # continuation of a type
        elif cur is not None and line.strip() and ":" not in line:
            if re.match(r"^[A-Za-z_][\w.']*$", line.strip()):
                cur.append(line.strip())  # name on its own line, type on the next
            else:
                cur = None
    flat = [b if isinstance(b, str) else "Axioms: " + " ".join(b) for b in flat]
    return rc == 0, flat, out


# ---------------------------------------------------------------- OCaml
def ocaml_build(engine):
    """Compile ocaml/<engine>/drv.ml against the freshly extracted <engine>_model.ml."""
    d = os.path.join(CACHE, "ocaml", engine)
    os.makedirs(d, exist_ok=True)
    srcs = []
    for ext in (".ml", ".mli"):
        src = os.path.join(COQ, engine + "_model" + ext)
        if not os.path.exists(src):
            raise Infra("extraction output missing: " + src)
        srcs.append(src)
    files = [(os.path.join(VERIF, "ocaml", "common", "codec.ml"), "codec.ml"),
             (srcs[1], engine + "_model.mli"), (srcs[0], engine + "_model.ml"),
             (os.path.join(VERIF, "ocaml", engine, "drv.ml"), "drv.ml")]
    h = hashlib.sha256()
    for s, _ in files:
        h.update(open(s, "rb").read())
    stamp = os.path.join(d, "stamp")
    exe = os.path.join(d, "drv")
    if os.path.exists(exe) and os.path.exists(stamp) and open(stamp).read() == h.hexdigest():
        return exe
    for s, n in files:
        shutil.copy(s, os.path.join(d, n))
    sh(["ocamlfind", "ocamlopt", "-O3", "-w", "-a", "-package", "str", "-linkpkg", "codec.ml", engine + "_model.mli",
        engine + "_model.ml", "drv.ml", "-o", "drv"], cwd=d, check=True, timeout=600)
    open(stamp, "w").write(h.hexdigest())
    return exe


# ---------------------------------------------------------------- Rust
CARGO_ENV = {"CARGO_NET_OFFLINE": "true", "CARGO_TARGET_DIR": TARGET,
             "RUSTFLAGS": "--cfg cicada_verif"}


def harness_manifest():
    t = open(os.path.join(VERIF, "harness", "Cargo.toml.in")).read().replace("@REPO@", REPO)
    p = os.path.join(VERIF, "harness", "Cargo.toml")
    if not os.path.exists(p) or open(p).read() != t:
        open(p, "w").write(t)


def cargo_build_harness(bins, release=False):
    harness_manifest()
    cmd = ["cargo", "build", "--offline"] + (["--release"] if release else [])
    for b in bins:
        cmd += ["--bin", b]
    rc, out = sh(cmd, cwd=os.path.join(VERIF, "harness"), env=CARGO_ENV, timeout=1800)
    if rc != 0:
        raise Infra("cargo build of the harness failed:\n" + out[-4000:])
    prof = "release" if release else "debug"
    return {b: os.path.join(TARGET, prof, b) for b in bins}


def cargo_build_cicada(release=False):
    cmd = ["cargo", "build", "--offline", "--bin", "cicada"] + (["--release"] if release else [])
    env = dict(CARGO_ENV)
    rc, out = sh(cmd, cwd=REPO, env=env, timeout=1800)
    if rc != 0:
        raise Infra("cargo build of cicada failed:\n" + out[-4000:])
    return os.path.join(TARGET, "release" if release else "debug", "cicada")


def helpers_build():
    """C helper programs -> .cache/helpers/"""
    d = os.path.join(CACHE, "helpers")
    os.makedirs(d, exist_ok=True)
    src = os.path.join(VERIF, "helpers")
    for n in os.listdir(src):
        if n.endswith(".c"):
            exe = os.path.join(d, n[:-2])
            s = os.path.join(src, n)
            if not os.path.exists(exe) or os.path.getmtime(exe) < os.path.getmtime(s):
                sh(["cc", "-O1", "-o", exe, s], check=True)
    return d


# ---------------------------------------------------------------- running cases
def write_cases(name, lines):
    d = os.path.join(CACHE, "cases")
    os.makedirs(d, exist_ok=True)
    p = os.path.join(d, name)
    with open(p, "w") as f:
        for l in lines:
            f.write(l + "\n")
    return p


def run_model(exe, cases_path, timeout=1800):
    rc, out = sh([exe, cases_path], timeout=timeout, env={"OCAMLRUNPARAM": "l=4G"})
    if rc != 0:
        raise Infra("model driver failed rc=%s: %s" % (rc, out[-2000:]))
    return out.split("\n")[:-1]


def run_impl(exe, cases_path, n, shards=None, timeout=1800, env=None):
    """Runs the harness binary sharded over the cores; re-interleaves outputs.
    A shard that stops early (a case hung -> the harness printed HANG and exited,
    or the process crashed -> CRASH) is restarted after the offending case."""
    shards = shards or min(NCPU, max(1, n // 200))
    e = dict(os.environ)
    if env:
        e.update(env)
    deadline = time.time() + timeout
    expected = [len(range(i, n, shards)) for i in range(shards)]
    got = [[] for _ in range(shards)]
    pending = list(range(shards))
    rounds = 0
    while pending and time.time() < deadline and rounds < 400:
        rounds += 1
        procs = []
        for i in pending:
            # outputs go to files, not pipes: a full pipe would serialise the shards
            of = tempfile.TemporaryFile()
            procs.append((i, of, subprocess.Popen([exe, cases_path, str(i), str(shards), str(len(got[i]))],
                                                  stdout=of, stderr=subprocess.DEVNULL, env=e)))
        nxt = []
        for i, of, p in procs:
            try:
                p.wait(timeout=max(1, deadline - time.time()))
            except subprocess.TimeoutExpired:
                p.kill()
                p.wait()
            of.seek(0)
            o = of.read()
            of.close()
            lines = o.decode("utf-8", "replace").split("\n")[:-1]
            got[i].extend(lines)
            if len(got[i]) < expected[i]:
                if not lines or lines[-1] != "HANG":
                    got[i].append("CRASH")   # died without output for this case (abort, signal, stack overflow)
                if len(got[i]) < expected[i]:
                    nxt.append(i)
        pending = nxt
    res = [None] * n
    for i in range(shards):
        for k, ix in enumerate(range(i, n, shards)):
            res[ix] = got[i][k] if k < len(got[i]) else "NOT-RUN"
    return res


# ---------------------------------------------------------------- known findings
def known_findings(prop):
    out = []
    p = os.path.join(VERIF, "known_findings.txt")
    if not os.path.exists(p):
        return out
    for line in open(p):
        line = line.rstrip("\n")
        if not line.startswith("finding:"):
            continue
        kv = {}
        for m in re.finditer(r"(\w+)=(\"[^\"]*\"|\S+)", line):
            v = m.group(2)
            kv[m.group(1)] = v[1:-1] if v.startswith('"') else v
        if "what" in kv:
            kv["what"] = line.split("what=", 1)[1]
        if kv.get("property") == prop:
            out.append(kv)
    return out


# ---------------------------------------------------------------- result container
class Result:
    def __init__(self):
        self.evaluations = 0
        self.distinct = set()
        self.rule = ""
        self.samples = []
        self.violations = []      # dicts: {kind, input, expected, observed, note}
        self.known_hits = {}      # class -> example
        self.extra = {}
        self.layers = {}
        self.exhaustive = False

    def count(self, layer, n):
        self.layers[layer] = self.layers.get(layer, 0) + n
        self.evaluations += n

    def nontrivial(self, key):
        self.distinct.add(key if isinstance(key, str) else repr(key))

    def sample(self, x, cap=12):
        if len(self.samples) < cap:
            self.samples.append(x)

    def violate(self, **kw):
        self.violations.append(kw)

    def known(self, cls, example):
        self.known_hits.setdefault(cls, example)


def write_replay(prop, payload):
    d = os.path.join(VERIF, "replays")
    os.makedirs(d, exist_ok=True)
    body = json.dumps(payload, indent=1, ensure_ascii=False, sort_keys=True)
    h = hashlib.sha256(body.encode()).hexdigest()[:10]
    p = os.path.join(d, "%s-%s.json" % (prop, h))
    open(p, "w").write(body + "\n")
    return p
