"""C04, layer L1: the redirection PARSER (tokens_to_redirections, Command::from_tokens).

run_l1(ctx, res):
  (i)  model (ocaml/c04r/drv, extracted from Model/Redirs.v) against the real
       functions (harness/src/bin/c04r.rs) on exhaustive short token lists and
       random token lists, line by line;
  (ii) every redirection spelling of the property inside a command line:
       real tokenizer (`line` case) -> tokens -> model and implementation `ft`,
       and the property's parsing oracle on the implementation's output.

Needs ctx.model["C04R"] (C.ocaml_build("c04r")) and ctx.bins["c04r"].
"""
import itertools
import os
import re
import shutil
import tempfile

import common as C

ALPHA = ["a", "1", "2", "3", ">", "&", "١"]   # U+0661: a non-ASCII Nd digit
SEPS2 = ["", "'"]
SEPS3 = ["", "'", '"']

# classes in which the unchanged implementation is known to miss the property
# (each needs its line in known_findings.txt):
KNOWN_ATTACHED_FROM = "attached-input-redirect-not-recognised"      # cmd <<<f
KNOWN_ATTACHED_QUOTED = "attached-quoted-target-not-recognised"     # cmd >'/tmp/x y'


def _words(maxlen):
    for n in range(maxlen + 1):
        for w in itertools.product(ALPHA, repeat=n):
            yield "".join(w)


def _tokcase(kind, toks):
    fields = []
    for s, w in toks:
        fields += [s, w]
    return C.case(kind, *fields)


def _write(path, cases):
    with open(path, "w") as f:
        for c in cases:
            f.write(c + "\n")


_TOK = re.compile(r'\("([^"]*)","([^"]*)"\)')
_TRI = re.compile(r'\("([^"]*)","([^"]*)","([^"]*)"\)')
_FT = re.compile(r'^OK toks=\[(.*?)\] redirs=\[(.*?)\] from=(none|\("([^"]*)","([^"]*)"\))$')


def _d(x):
    return C.dec(x)


def _parse_ft(line):
    """-> (tokens, triples, from) or None when the line is not an OK line."""
    m = _FT.match(line)
    if not m:
        return None
    toks = [(_d(a), _d(b)) for a, b in _TOK.findall(m.group(1))]
    tris = [(_d(a), _d(b), _d(c)) for a, b, c in _TRI.findall(m.group(2))]
    fr = None if m.group(3) == "none" else (_d(m.group(4)), _d(m.group(5)))
    return toks, tris, fr


def _interesting(model_line):
    return model_line.startswith("ERR") or ("redirs=[(" in model_line) or ("from=(" in model_line)


def _correspondence(ctx, res, d):
    rng = ctx.rng
    cases = []
    # exhaustive single tokens
    maxlen = 5 if ctx.thorough else 4
    for w in _words(maxlen):
        cases.append(("ttr", [("", w)]))
        cases.append(("ft", [("", w)]))
    # exhaustive pairs of short words, separators from {"", "'"}
    short = list(_words(2))
    for w1 in short:
        for w2 in short:
            for s1 in SEPS2:
                for s2 in SEPS2:
                    cases.append(("ttr", [(s1, w1), (s2, w2)]))
                    cases.append(("ft", [(s1, w1), (s2, w2)]))
    n_exh = len(cases)
    # random token lists
    n_rand = 300000 if ctx.thorough else 20000
    for i in range(n_rand):
        k = rng.randint(3, 6)
        toks = []
        for _ in range(k):
            r = rng.random()
            if r < 0.12:
                w = "<"
            elif r < 0.22:
                w = "<<<"
            else:
                w = "".join(rng.choice(ALPHA) for _ in range(rng.randint(0, 4)))
            toks.append((rng.choice(SEPS3), w))
        cases.append(("ttr" if i % 2 == 0 else "ft", toks))
    path = os.path.join(d, "corr.cases")
    _write(path, [_tokcase(k, t) for k, t in cases])
    mo = C.run_model(ctx.model["C04R"], path)
    io = C.run_impl(ctx.bins["c04r"], path, len(cases))
    if len(mo) != len(cases):
        raise C.Infra("c04r model printed %d lines for %d cases" % (len(mo), len(cases)))
    bad = 0
    for (kind, toks), m, i in zip(cases, mo, io):
        if _interesting(m):
            res.nontrivial("redir:" + m)
        if m != i:
            bad += 1
            if bad <= 3:
                res.violate(kind="correspondence", layer="L1",
                            function="tokens_to_redirections" if kind == "ttr" else "Command::from_tokens",
                            input=_tokcase(kind, toks), model=m, impl=i, failing_input=False,
                            note="Model/Redirs.v and the real function disagree on this token list")
    res.count("L1_redir_parser", len(cases))
    res.sample({"layer": "L1", "what": "model vs implementation, token lists",
                "exhaustive": n_exh, "random": n_rand, "mismatches": bad,
                "example_input": _tokcase(*cases[n_exh + 1]) if len(cases) > n_exh + 1 else "",
                "example_output": mo[n_exh + 1] if len(mo) > n_exh + 1 else ""})
    return bad


# (spelling, expected fd, expected op) for file targets; duplications; input forms
FILE_OPS = [(">", "1", ">"), (">>", "1", ">>"), ("1>", "1", ">"), ("1>>", "1", ">>"),
            ("2>", "2", ">"), ("2>>", "2", ">>")]
DUPS = [("2>&1", ("2", ">", "&1")), ("1>&2", ("1", ">", "&2")), (">&2", ("1", ">", "&2"))]
FROM_OPS = ["<", "<<<"]
# (text as typed, the name it denotes, quoted?)
NAMES = [("f", "f", False), ("a.txt", "a.txt", False), ("'/tmp/x y'", "/tmp/x y", True),
         ('"/tmp/x y"', "/tmp/x y", True)]


def _spelling_lines():
    """-> list of (line, expected_triples, expected_from, known_class_or_None)"""
    out = []
    for pre, post in (("cmd arg ", " arg2"), ("cmd ", ""), ("cmd arg ", "")):
        for op, fd, o in FILE_OPS:
            for typed, name, quoted in NAMES:
                out.append((pre + op + " " + typed + post, [(fd, o, name)], None, None))
                out.append((pre + op + typed + post, [(fd, o, name)], None,
                            KNOWN_ATTACHED_QUOTED if quoted else None))
        for sp, tri in DUPS:
            out.append((pre + sp + post, [tri], None, None))
        for op in FROM_OPS:
            for typed, name, quoted in NAMES:
                out.append((pre + op + " " + typed + post, [], (op, name), None))
                # `<file` is recognised since /repo 543507e; `<<<word` without a blank and quoted operands are not
                out.append((pre + op + typed + post, [], (op, name),
                            KNOWN_ATTACHED_QUOTED if quoted else (KNOWN_ATTACHED_FROM if op == "<<<" else None)))
    return out


def _expected_args(line):
    args = [("", "cmd")]
    if line.startswith("cmd arg "):
        args.append(("", "arg"))
    if line.endswith(" arg2"):
        args.append(("", "arg2"))
    return args


def _spellings(ctx, res, d):
    specs = _spelling_lines()
    p1 = os.path.join(d, "lines.cases")
    _write(p1, [C.case("line", s[0]) for s in specs])
    tk = C.run_impl(ctx.bins["c04r"], p1, len(specs), shards=1)
    ftcases = []
    for (line, _, _, _), t in zip(specs, tk):
        fields = []
        for a, b in _TOK.findall(t or ""):
            fields += [a, b]                      # still encoded
        ftcases.append("\t".join(["ft"] + fields))
    p2 = os.path.join(d, "lines_ft.cases")
    _write(p2, ftcases)
    mo = C.run_model(ctx.model["C04R"], p2)
    io = C.run_impl(ctx.bins["c04r"], p2, len(specs), shards=1)
    # the model of the code with the PROPOSED notes/C04-fix-5.patch (attached `<file`)
    p3 = os.path.join(d, "lines_fta.cases")
    _write(p3, ["fta" + c[2:] for c in ftcases])
    mo_att = C.run_model(ctx.model["C04R"], p3)
    nviol = 0
    for (line, tris, fr, known), t, m, i, m_att in zip(specs, tk, mo, io, mo_att):
        if _interesting(m):
            res.nontrivial("redir:" + m)
        want = (_expected_args(line), tris, fr)
        got = _parse_ft(i or "")
        ok = got == want
        if ok:
            # (inside a known class: the implementation now meets the property - accepted)
            if m != i:
                nviol += 1
                if nviol <= 3:
                    res.violate(kind="correspondence", layer="L1", function="Command::from_tokens",
                                input=line, model=m, impl=i, failing_input=False,
                                note="tokens of the real tokenizer: " + str(t))
            continue
        if known is not None and m == i:
            res.known(known, "line=%r tokens=%s parsed=%s" % (line, t, i))
            continue
        nviol += 1
        if nviol <= 3:
            res.violate(kind="oracle", layer="L1", input=line,
                        expected="OK toks=%r redirs=%r from=%r" % want, observed=i,
                        model=m, tokens=t, failing_input=True,
                        note="redirection spelling not parsed to the triple the property names")
    res.count("L1_redir_parser", len(specs))
    res.sample({"layer": "L1", "what": "property spellings through the real tokenizer",
                "lines": len(specs), "example_line": specs[0][0], "example_tokens": tk[0],
                "example_parsed": io[0]})


def run_l1(ctx, res):
    d = tempfile.mkdtemp(prefix="c04r_")
    try:
        _correspondence(ctx, res, d)
        _spellings(ctx, res, d)
    finally:
        shutil.rmtree(d, ignore_errors=True)
