"""C08 -- no descriptor leaks, in the shell or into children.  Layers: L2 sequences of commands on the
real binary (helpers/hp as every stage reports its table; minfd and an inheritance sentinel after every
command), ulimit -n fault injection; L3 strace vs the model's syscall list."""
import common as C
import fdslib as F
import fds_run as R

EXTRACT = ["FDS"]
BINS = []
NEEDS_CICADA = True
ALLOWED_AXIOMS = []
PINNED = ["C08_full", "C08_holds", "C08_shell", "C08_children", "C08_builtin", "C08_emfile", "C08_emfile_capture"]
TRUSTED = R.TRUSTED
ASSUMES = R.ASSUMES
WEIGHTS = {"builtin": 0.15, "notfound": 0.06, "here": 0.15, "from": 0.1, "redir": 0.5, "maxredir": 3, "capture": 0.2,
           "unopenable": 0.1}


def run(ctx, res):
    res.rule = ("L2: random sequences of commands (pipelines of 1..6 stages, all redirection forms, builtins, substitutions, "
                "here-strings, not-found and unopenable targets) in one `cicada -c`; after every command a status probe, "
                "minfd and an inheritance probe; every helper stage reports its descriptor table; compared with the model "
                "run step by step. non-trivial = distinct plan (kinds, redirections, capture). L2_ulimit: ulimit -n N before a "
                "pipeline. L3: strace of single pipelines vs the model's per-process syscall list.")
    known = R.known_classes("C08")
    replays = [[R.PRELUDE()] + mk() for cls, mk in R.REPLAYS.items() if cls in known or True]
    R.run_sequences(ctx, res, "C08", replays, "replay")
    seqs = R.gen_sequences(ctx, 250 if ctx.thorough else 40, 30 if ctx.thorough else 6, WEIGHTS)
    R.run_sequences(ctx, res, "C08", seqs, "seq")
    R.run_sequences(ctx, res, "C08", R.gen_sequences(ctx, 40 if ctx.thorough else 8, 4, WEIGHTS), "seqfd5", extra_fds=(5,))
    R.run_sequences(ctx, res, "C08", R.captured_builtin_seqs(ctx), "builtin")
    R.run_sequences(ctx, res, "C08", R.builtin_empty_text_seqs(ctx), "builtinempty")
    R.run_sequences(ctx, res, "C08", R.l3_cases(ctx), "l3", strace=True)
    R.ulimit_runs(ctx, res, "C08")
    R.capture_fail_runs(ctx, res, "C08")
