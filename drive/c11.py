"""C11 -- command substitution: output spliced literally, exactly once.
L0: should_do_dollar_command_extension on short strings (generated regex ASTs vs the regex crate).
L1: do_command_substitution (both passes, in-process: real fork/exec of helpers/csub, which prints a prepared
    file verbatim and bumps a counter file) against the extracted model whose run_capture oracle is the table
    of those files; outputs over the printable specials of the quantifier; both spellings; positions; tags;
    several substitutions per word / line; inner lines that do not plan (empty replacement).
    Oracle: head ++ output-minus-trailing-newlines ++ tail, counter == 1.
L1x: the whole do_expansion in a cwd populated with files that match the outputs (*, *.txt, a*, sub/*):
    the output must be inserted literally (pass order: glob before substitution).
L2: argv of helpers/hp through `cicada -c`, in that populated cwd.
L2f: inner commands that are FUNCTIONS with for / while / if, break / continue and output before / after: captured
    ($(f), backquotes, embedded, in an assignment) against what the same function prints when run directly.
L2a: substitutions in assignments (alone on the line, with other assignments, before a command, with export, at word
    start / middle / end, inside double quotes) and in here-strings, both spellings: every counter file must hold
    exactly one byte and the variable must hold the output (run_proc's assignment-only branch is glue outside the model)."""
import itertools, os, re, shutil, subprocess, tempfile
import common as C
import expand_common as X

EXTRACT = ["C11"]
BINS = ["c11"]
NEEDS_CICADA = True
ALLOWED_AXIOMS = []
PINNED = ["C11_full", "C11_refuted", "C11_splices", "C11_splices_whole_word", "C11_index_buffer", "C11_partial", "C11_unplannable", "C11_terminates", "C11_output_not_globbed", "C11_assignment_once",
          "C11_refuted_whitespace"]
TRUSTED = [
    "Coq 8.16.1 kernel (coqc; coqchk in thorough); vm_compute only in concrete witnesses / non-vacuity examples",
    "hand transcription of should_do_dollar_command_extension / do_command_substitution_for_dollar / _for_dot "
    "(coq/theories/Model/Expand.v), tied by differential execution",
    "the finder / splice / backquote patterns are hand-written first-match functions (find_dollar, head_of, dot_split; "
    "literals pinned in Proofs/ExpandBasics.v), checked by L1 only",
    "running the inner line (CommandLine::from_line + run_pipeline with capture) is the World oracle run_capture: "
    "its stdout, or None when the line does not plan; that the real code runs it once per oracle call is checked "
    "by the counter files of layer L1",
    "extraction: ExtrOcamlBasic only; OCaml 4.13.1; ocaml/c11/drv.ml; harness/src/expand_ops.rs; helpers/csub.c; drive/c11.py",
]
ASSUMES = [
    "C11_splices / C11_partial: words head $( cmd ) tail with no dollar in head, no newline or closing paren in cmd / "
    "tail, cmd non-empty, not both '=' and a single quote in the word; any output that brings no dollar-open-paren into "
    "the word (C11_partial: and whose trimmed form equals the output minus trailing newlines)",
    "stderr of the inner command and the shell's own state (the rest of the statement) are not modelled here",
]

OUTS = ["abc\n", "a$1b\n", " x y \n\n", "${head}Z\n", "a$$b\n", "p)q\n", "l1\nl2\n", "a`b\n", "it's\n", "", "\n\n",
        "\tt\n", "a\\b\\n\n", "*\n", "{a,b}\n", "$name\n", "$\n", "x$\n", "a b\n", "~\n", "${1}\n", "é\n", "a=b'c\n"]


def strip_nl(s):
    return s.rstrip("\n")


def rust_trim(s):
    return s.strip(" \t\n\r\x0b\x0c\x85\xa0")


def gen(ctx=None):
    """regenerates Gen/ShellRegexes.v from the regex literals of the current source (write-if-changed)"""
    X.gen(ctx)


def run(ctx, res):
    rng = ctx.rng
    known = {k["class"]: k for k in C.known_findings("C11")}
    nviol = [0]

    def violate(**kw):
        nviol[0] += 1
        if nviol[0] <= 4:
            res.violate(**kw)

    def hit(cls):
        res.known(cls, "class=%s input=%s what=%s" % (cls, known[cls].get("input", ""), known[cls].get("what", "")))

    n0 = 6 if ctx.thorough else 5
    res.rule = ("L0: every replacement template up to length %d over $ { } h 1 + x, and should_do on strings up to "
                "length %d; L1: %d outputs x spellings x positions x tags (+ several per word / line, unplannable "
                "inner lines); non-trivial = distinct cases in which at least one substitution is performed" % (n0, n0, len(OUTS)))
    # ------------------------------------------------------------ L0
    l0 = []
    sa = ["$", "(", ")", "=", "'", "x", "\n"]
    ss = [""]
    for n in range(1, n0 + 1):
        ss += ["".join(t) for t in itertools.product(sa, repeat=n) if n < n0 or rng.random() < 0.3]
    l0 += [C.case("sdd", s) for s in ss]
    p0 = C.write_cases("c11_l0.txt", l0)
    m0 = C.run_model(ctx.model["C11"], p0)
    i0 = C.run_impl(ctx.bins["c11"], p0, len(l0), timeout=600)
    res.count("L0_should_do", len(l0))
    res.exhaustive = True
    for cs, a, b in zip(l0, m0, i0):
        if a != b:
            violate(kind="correspondence", layer="L0", input=cs, model=a, impl=b, failing_input=False,
                    note="should_do_dollar_command_extension of the implementation differs from the model")
    # ------------------------------------------------------------ L1
    csub = os.path.join(ctx.helpers, "csub")
    work = tempfile.mkdtemp(prefix="c11_")
    try:
        files = []
        for i, o in enumerate(OUTS):
            f = os.path.join(work, "o%d" % i)
            open(f, "wb").write(o.encode())
            files.append(f)
        cases = []  # (toks, [(counter, out)], kind, oracle-info)
        cid = [0]

        def cmd(i):
            cid[0] += 1
            cnt = os.path.join(work, "c%d" % cid[0])
            return "%s %s %s" % (csub, files[i], cnt), cnt

        for i, o in enumerate(OUTS):
            for head, tail in [("", ""), ("a", "b"), ("pre-", ""), ("", ".post")]:
                for tg in ["", '"']:
                    c, cnt = cmd(i)
                    cases.append(([("", "echo"), (tg, "%s$(%s)%s" % (head, c, tail)), ("", "z")], [(c, cnt, o)], "dollar", (head, tail, 1)))
                    c, cnt = cmd(i)
                    cases.append(([("", "echo"), (tg, "%s`%s`%s" % (head, c, tail)), ("", "z")], [(c, cnt, o)], "bq", (head, tail, 1)))
            c, cnt = cmd(i)
            cases.append(([("", "echo"), ("`", c), ("", "z")], [(c, cnt, o)], "bqtok", ("", "", 1)))
            for tg in ["'", "\\"]:
                c, cnt = cmd(i)
                cases.append(([("", "echo"), (tg, "$(%s)" % c)], [(c, cnt, o)], "quoted", None))
            c1, n1 = cmd(i)
            c2, n2 = cmd((i + 1) % len(OUTS))
            cases.append(([("", "echo"), ("", "$(%s)" % c1), ("", "m"), ('"', "x$(%s)y" % c2)], [(c1, n1, o), (c2, n2, OUTS[(i + 1) % len(OUTS)])], "twotok", None))
            c1, n1 = cmd(i)
            c2, n2 = cmd(0)
            cases.append(([("", "echo"), ("", "p`%s`q`%s`r" % (c1, c2))], [(c1, n1, o), (c2, n2, OUTS[0])], "twobq", None))
            c1, n1 = cmd(i)
            c2, n2 = cmd(0)
            merged = "%s)$(%s" % (c1, c2)
            cases.append(([("", "echo"), ("", "$(%s)$(%s)" % (c1, c2))], [(merged, n1 + ")$(" + csub, o)], "merge", None))
        # text of the word OUTSIDE the regex match must survive the splice: a literal dollar before / after the
        # substitution (the head group cannot hold one), a newline before / after it (the tail group stops there)
        for i in (0, 6, 18):
            o = OUTS[i]
            for head, tail, tags in [("US$", "", ["", '"']), ("$ ", "", ['"']), ("cost: $ ", "!", ["", '"']), ("a$b", "c$", ["", '"']),
                                     ("$", "$", ["", '"']), ("", "$ x", ['"']), ("5$ + ", " = $", ['"']),
                                     ("l1\n", "", ['"']), ("", "\nl2", ['"']), ("l1\n$ ", ".t\nl3\nl4", ['"']), ("p", "q\n", ['"', ""])]:
                for tg in tags:
                    c, cnt = cmd(i)
                    cases.append(([("", "echo"), (tg, "%s$(%s)%s" % (head, c, tail)), ("", "z")], [(c, cnt, o)], "dollar", (head, tail, 1)))
        bad = "ls >"
        for toks in [[("", "echo"), ("`", bad), ("`", cmd(0)[0]), ("", "z")], [("", "echo"), ("", "a`%s`b`%s`c" % (cmd(0)[0], bad))],
                     [("", "echo"), ("", "a`%s`b" % bad)]]:
            cases.append((toks, [(c, None, OUTS[0]) for t in toks for c in re.findall(re.escape(csub) + r" \S+ [^`)]+", t[1])], "badbq", None))
        # an inner line that does not plan: empty replacement (repaired by 85ca576), never a hang
        for toks in [[("", "echo"), ("", "$(%s)" % bad)], [("", "echo"), ('"', "x$(%s)y" % bad), ("", "z")],
                     [("", "echo"), ("", "a$(%s)" % bad), ("", "$(%s)" % cmd(0)[0])]]:
            cases.append((toks, [(c, None, OUTS[0]) for t in toks for c in re.findall(re.escape(csub) + r" \S+ [^`)]+", t[1])],
                          "unplannable", None))
        lines, tables = [], []
        for toks, runs, kind, info in cases:
            ents = [("R", c, o) for c, _, o in runs] + [("r", bad, "")]
            wf = "\x1e".join(k + a + "\x1d" + b for k, a, b in ents)
            lines.append(C.case("cs", wf, "12", X.toks_field(toks)))
        p1 = C.write_cases("c11_l1.txt", lines)
        m1 = C.run_model(ctx.model["C11"], p1)
        i1 = C.run_impl(ctx.bins["c11"], p1, len(lines), shards=min(C.NCPU, 8), timeout=600)
        res.count("L1_do_command_substitution", len(lines))
        for (toks, runs, kind, info), a, b in zip(cases, m1, i1):
            mt, _, mlog = a.partition(" calls=")
            if mt != b:
                # word by word: the property's expectation, or (inside a recorded class) the model's recorded behaviour
                iw = [C.dec(y) for x, y in re.findall(r'\("([^"]*)","([^"]*)"\)', b)]
                mw = [C.dec(y) for x, y in re.findall(r'\("([^"]*)","([^"]*)"\)', mt)]
                expw = None
                if kind in ("dollar", "bq", "bqtok"):
                    expw = {1: (info[0] + strip_nl(runs[0][2]) + info[1], runs[0][2])}
                elif kind == "twotok":
                    expw = {1: (strip_nl(runs[0][2]), runs[0][2]), 3: ("x" + strip_nl(runs[1][2]) + "y", runs[1][2])}
                elif kind == "merge" and "greedy_merge" in known:
                    # repaired form: two substitutions, each output spliced as text
                    if len(iw) == 2 and iw[1] == rust_trim(runs[0][2]) + rust_trim(OUTS[0]):
                        res.extra.setdefault("findings_no_longer_reproducing", []).append("greedy_merge")
                        continue
                verdict = "correspondence"
                if expw is not None and len(iw) == len(mw) == len(toks):
                    verdict = "accepted"
                    for k in range(len(toks)):
                        if iw[k] == mw[k]:
                            continue
                        ew, o = expw.get(k, (toks[k][1], ""))
                        in_class = ("$" in rust_trim(o) and "output_is_template" in known) or \
                                   (rust_trim(o) != strip_nl(o) and "whitespace_trimmed" in known)
                        if iw[k] == ew and in_class:
                            continue     # inside a recorded class the implementation now meets the oracle (DESIGN 4.5)
                        verdict = "oracle" if iw[k] != ew else "correspondence"
                        break
                if verdict == "accepted":
                    res.extra["known_class_cases_meeting_the_oracle"] = res.extra.get("known_class_cases_meeting_the_oracle", 0) + 1
                    continue
                violate(kind=verdict, layer="L1", input=repr(toks), model=mt, impl=b,
                        output=runs[0][2] if runs else None, failing_input=(verdict == "oracle"),
                        note="do_command_substitution of the implementation differs from the model"
                             + (" and from head ++ output-minus-trailing-newlines ++ tail" if verdict == "oracle" else ""))
                continue
            ncalls_model = mlog.count('","') + 1 if mlog not in ("[]", "") else 0
            ncalls_impl = sum(os.path.getsize(cnt) for _, cnt, _ in runs if cnt and os.path.exists(cnt))
            if kind in ("dollar", "bq", "bqtok", "quoted", "twotok", "twobq") and ncalls_model != ncalls_impl:
                violate(kind="oracle", layer="L1", input=repr(toks), expected="%d runs (model log)" % ncalls_model,
                        observed="%d runs" % ncalls_impl, failing_input=True,
                        note="the inner command ran a different number of times than the model's oracle was consulted")
            res.nontrivial("l1:%s" % (toks,))
            if kind in ("dollar", "bq", "bqtok"):
                head, tail, n = info
                o = runs[0][2]
                exp = head + strip_nl(o) + tail
                got = [C.dec(y) for x, y in re.findall(r'\("([^"]*)","([^"]*)"\)', b)][1]
                if got == exp and ncalls_impl == 1:
                    continue
                cls = None
                if "$" in rust_trim(o) and kind == "dollar":
                    cls = "output_is_template"
                elif rust_trim(o) != strip_nl(o):
                    cls = "whitespace_trimmed"
                elif kind != "bqtok" and ("`" in o or "$(" in o):
                    cls = "output_rescanned"
                if cls and cls in known:
                    hit(cls)
                else:
                    violate(kind="oracle", layer="L1", input=repr(toks), output=o, expected=exp, observed=got,
                            runs=ncalls_impl, failing_input=True,
                            note="the word is not head ++ output-minus-trailing-newlines ++ tail after exactly one run")
            elif kind == "quoted":
                if b != "[" + ",".join('("%s","%s")' % (C.enc(t), C.enc(s)) for t, s in toks) + "]" or ncalls_impl:
                    violate(kind="oracle", layer="L1", input=repr(toks), observed=b, failing_input=True,
                            note="a single-quoted / escaped token was substituted")
            elif kind == "unplannable":
                exp = "[" + ",".join('("%s","%s")' % (C.enc(tg), C.enc(x.replace("$(%s)" % bad, "").replace("$(%s)" % runs[0][0] if runs else "\0", strip_nl(OUTS[0]))))
                                     for tg, x in toks) + "]"
                if b != exp:
                    violate(kind="oracle", layer="L1", input=repr(toks), expected=exp, observed=b, failing_input=True,
                            note="an inner line that does not plan must give a diagnostic and the empty replacement")
            elif kind == "merge":
                if "greedy_merge" in known:
                    hit("greedy_merge")
                else:
                    violate(kind="oracle", layer="L1", input=repr(toks), observed=b, failing_input=True,
                            note="two substitutions in one word are read as one command")
            elif kind == "badbq":
                def bq_fixed2(tg, x):
                    if tg == "`":
                        return "" if x == bad else rust_trim(OUTS[0])
                    return re.sub(r"`([^`]*)`", lambda m_: "" if m_.group(1) == bad else rust_trim(OUTS[0]), x)
                if [C.dec(y) for x, y in re.findall(r'\("([^"]*)","([^"]*)"\)', b)] != [bq_fixed2(tg, x) for tg, x in toks]:
                    violate(kind="oracle", layer="L1", input=repr(toks), observed=b, failing_input=True,
                            note="a backquote substitution that does not plan must give the empty string, in its own place")
        res.sample({"layer": "L1", "input": repr(cases[1][0]).replace(work, "W"), "model": m1[1].replace(work, "W"),
                    "impl": i1[1].replace(work, "W")})
        # ------------------------------------------------------------ L1g: token LISTS (index buffers of both passes)
        c0 = "%s %s" % (csub, files[0])
        kinds = [(("", "a$(%s)b" % c0), ("", "aabcb")), (('"', "$(%s)" % c0), ('"', "abc")), (("'", "$(%s)" % c0), None),
                 (("\\", "$(%s)" % c0), None), (("`", c0), ("`", "abc")), (("", "plain"), None), (("", "p`%s`q" % c0), ("", "pabcq"))]
        gl = [list(t) for n in (2, 3) for t in itertools.product(kinds, repeat=n)]
        wg = "R" + c0 + "\x1d" + OUTS[0]
        lgl = [C.case("cs", wg, "12", X.toks_field([k for k, _ in t])) for t in gl]
        pgl = C.write_cases("c11_l1g.txt", lgl)
        mgl = C.run_model(ctx.model["C11"], pgl)
        igl = C.run_impl(ctx.bins["c11"], pgl, len(lgl), shards=min(C.NCPU, 8), timeout=600)
        res.count("L1g_token_lists", len(lgl))
        for t, a, b in zip(gl, mgl, igl):
            want = "[" + ",".join('("%s","%s")' % (C.enc((w or k)[0]), C.enc((w or k)[1])) for k, w in t) + "]"
            a = a.split(" calls=")[0]
            if b != want:
                violate(kind="oracle", layer="L1g", input=repr([k for k, _ in t]).replace(work, "W"), expected=want.replace(work, "W"),
                        observed=(b or "").replace(work, "W"), model=a.replace(work, "W"), failing_input=True,
                        note="in a token list each substitution must land in its own token")
            elif a != b:
                violate(kind="correspondence", layer="L1g", input=repr([k for k, _ in t]).replace(work, "W"), model=a, impl=b,
                        failing_input=False, note="model and implementation disagree on a token list")
        # ------------------------------------------------------------ L1x: the whole do_expansion in a populated cwd
        # (pass order: filename expansion runs BEFORE command substitution, so an output holding * is inserted
        # literally even when files in the cwd match it)
        cwd = os.path.join(work, "cwd")
        for n in ["a.txt", "b.txt", "ab", "sub/x", "sub/y.txt", ".hid.txt"]:
            os.makedirs(os.path.dirname(os.path.join(cwd, n)), exist_ok=True)
            open(os.path.join(cwd, n), "w").close()
        gouts = ["*\n", "*.txt\n", "a*\n", "sub/*\n", "*.nomatch\n", "x*y *\n", "./*\n"]
        gfiles = []
        for i, o in enumerate(gouts):
            f = os.path.join(work, "g%d" % i)
            open(f, "w").write(o)
            gfiles.append(f)

        def gcmd(i):
            cid[0] += 1
            cnt = os.path.join(work, "c%d" % cid[0])
            return "%s %s %s" % (csub, gfiles[i], cnt), cnt

        xcases = []
        for i, o in enumerate(gouts):
            t = strip_nl(o)
            for mk in (lambda c: [("", "echo"), ("", "$(%s)" % c), ("", "z")],
                       lambda c: [("", "echo"), ("", "p`%s`" % c), ("", "z")],
                       lambda c: [("", "echo"), ('"', "$(%s)" % c)],
                       lambda c: [("", "echo"), ("", "*.txt"), ("", "$(%s)" % c)]):
                c, cnt = gcmd(i)
                toks = mk(c)
                exp = []
                for tg, x in toks:
                    if x == "*.txt":
                        exp += [("", "a.txt"), ("", "b.txt")]
                    else:
                        y = x.replace("$(%s)" % c, t).replace("`%s`" % c, t)
                        exp.append((tg, y))
                xcases.append((toks, c, cnt, o, exp))
        xl = []
        for toks, c, cnt, o, exp in xcases:
            wf = "\x1e".join(["D\x1d" + cwd, "H\x1d" + work, "R" + c + "\x1d" + o, "G*.txt\x1da.txt\x1cb.txt"])
            xl.append(C.case("dx", wf, "12", X.toks_field(toks)))
        px = C.write_cases("c11_l1x.txt", xl)
        mx = C.run_model(ctx.model["C11"], px)
        ix = C.run_impl(ctx.bins["c11"], px, len(xl), shards=min(C.NCPU, 8), timeout=600)
        res.count("L1x_do_expansion_populated_cwd", len(xl))
        for (toks, c, cnt, o, exp), a, b in zip(xcases, mx, ix):
            b = b.split("\t", 1)[1] if b.startswith("pid=") else b
            a = a.split(" calls=")[0]
            want = "[" + ",".join('("%s","%s")' % (C.enc(tg), C.enc(x)) for tg, x in exp) + "]"
            n = os.path.getsize(cnt) if os.path.exists(cnt) else 0
            res.nontrivial("l1x:%s" % (toks,))
            if b != want or n != 1:
                violate(kind="oracle", layer="L1x", cwd_entries=["a.txt", "b.txt", "ab", "sub/x", "sub/y.txt", ".hid.txt"],
                        input=repr(toks).replace(work, "W"), output=o, expected=want, observed=b, model=a, runs=n,
                        failing_input=True,
                        note="the output of a command substitution must be inserted literally (not glob-expanded), after one run")
            elif a != b:
                violate(kind="correspondence", layer="L1x", input=repr(toks).replace(work, "W"), model=a, impl=b,
                        failing_input=False, note="do_expansion of the implementation differs from the model")
        # ------------------------------------------------------------ L2
        hp = os.path.join(ctx.helpers, "hp")
        l2 = []
        for head, tail, pre in [("cost: $ ", "!", ""), ("$P", "", "P='US$'; "), ("a", "\nb", ""), ("l1\n$ ", ".t\nl3", "")]:
            c, cnt = cmd(0)
            hv = head.replace("$P", "US$")
            l2.append(('%s%s @o "%s$(%s)%s" k' % (pre, hp, head, c, tail), [hv + strip_nl(OUTS[0]) + tail, "k"], cnt, OUTS[0], "dollar"))
        for i in range(len(gouts)):
            c, cnt = gcmd(i)
            l2.append(('%s @o $(%s) k' % (hp, c), [strip_nl(gouts[i]), "k"], cnt, gouts[i], "dollar"))
            c, cnt = gcmd(i)
            l2.append(('%s @o p`%s` k' % (hp, c), ["p" + strip_nl(gouts[i]), "k"], cnt, gouts[i], "bq"))
        for i in [0, 6, 8, 13, 14, 18, 1, 2]:
            o = OUTS[i]
            c, cnt = cmd(i)
            l2.append(('%s @o "a$(%s)b" k' % (hp, c), ["a" + strip_nl(o) + "b", "k"], cnt, o, "dollar"))
            c, cnt = cmd(i)
            l2.append(('%s @o "a`%s`b" k' % (hp, c), ["a" + strip_nl(o) + "b", "k"], cnt, o, "bq"))

        def one(job):
            env = {"PATH": "/usr/bin:/bin", "HOME": work, "XDG_CONFIG_HOME": work}
            try:
                p = subprocess.run([ctx.cicada, "-c", job[0]], cwd=cwd, env=env, stdin=subprocess.DEVNULL,
                                   stdout=subprocess.PIPE, stderr=subprocess.PIPE, timeout=15)
                return p.stdout.decode("utf-8", "replace")
            except subprocess.TimeoutExpired:
                return "TIMEOUT"

        from concurrent.futures import ThreadPoolExecutor
        with ThreadPoolExecutor(max_workers=8) as ex:
            outs = list(ex.map(one, l2))
        res.count("L2_cicada_argv", len(l2))
        for (line, exp, cnt, o, kind), out in zip(l2, outs):
            n = os.path.getsize(cnt) if os.path.exists(cnt) else 0
            if out == "\n".join(exp) + "\n" and n == 1:
                continue
            cls = None
            if "$" in rust_trim(o) and kind == "dollar":
                cls = "output_is_template"
            elif rust_trim(o) != strip_nl(o):
                cls = "whitespace_trimmed"
            if cls and cls in known and n == 1:
                hit(cls)
            else:
                violate(kind="oracle", layer="L2", input=line, expected=exp, observed=out, runs=n, failing_input=True,
                        note="argv of the helper is not the spliced word, or the inner command did not run exactly once")
        # ------------------------------------------------------------ L2a: substitutions in ASSIGNMENTS and here-strings
        # ("cmd runs exactly once": the counter file of every substitution written must hold exactly one byte, and the
        # variable must hold the output afterwards).  run_proc's assignment-only branch is execute.rs glue outside
        # Model/Expand.v: it is tied by this layer only.
        l2a = []
        for i in (0, 18, 6):       # 6: an output with an interior newline (the value of the assignment holds it)
            o = strip_nl(OUTS[i])

            def sub(k, spelling):
                c, cnt = cmd(k)
                return ("$(%s)" % c if spelling == "d" else "`%s`" % c), cnt

            for sp in ("d", "b"):
                w, n1 = sub(i, sp); l2a.append(('X=%s' % w, None, [n1]))
                w, n1 = sub(i, sp); l2a.append(('X=%s; %s @o "$X"' % (w, hp), [o], [n1]))
                w, n1 = sub(i, sp); l2a.append(('Y=7 X=%s; %s @o "$X" $Y' % (w, hp), [o, "7"], [n1]))
                w, n1 = sub(i, sp); l2a.append(('Y=7 X=%s' % w, None, [n1]))
                w, n1 = sub(i, sp); l2a.append(('X=%s %s @o k' % (w, hp), ["k"], [n1]))
                w, n1 = sub(i, sp); l2a.append(('export X=%s; %s @o "$X"' % (w, hp), [o], [n1]))
                w, n1 = sub(i, sp); l2a.append(('%s @r,o k <<< %s' % (hp, w), ["k"], [n1]))
                w, n1 = sub(i, sp); l2a.append(('X=pre%s; %s @o "$X"' % (w, hp), ["pre" + o], [n1]))
                w, n1 = sub(i, sp); l2a.append(('X=%spost; %s @o "$X"' % (w, hp), [o + "post"], [n1]))
                w, n1 = sub(i, sp); l2a.append(('X=pre%spost; %s @o "$X"' % (w, hp), ["pre" + o + "post"], [n1]))
                w, n1 = sub(i, sp); l2a.append(('X="a %s b"; %s @o "$X"' % (w, hp), ["a " + o + " b"], [n1]))
                w, n1 = sub(i, sp); l2a.append(('X="%s"' % w, None, [n1]))
                w1, n1 = sub(i, sp); w2, n2 = sub(0, sp)
                l2a.append(('X=%s Y=%s; %s @o "$X" "$Y"' % (w1, w2, hp), [o, strip_nl(OUTS[0])], [n1, n2]))
                w1, n1 = sub(i, sp); w2, n2 = sub(0, sp)
                l2a.append(('X=%s Y=%s' % (w1, w2), None, [n1, n2]))
        with ThreadPoolExecutor(max_workers=8) as ex:
            outs_a = list(ex.map(one, [(l,) for l, _, _ in l2a]))
        res.count("L2a_assignments_here_strings", len(l2a))
        for (line, exp, cnts), out in zip(l2a, outs_a):
            runs = [os.path.getsize(c) if os.path.exists(c) else 0 for c in cnts]
            ok_out = exp is None or out == "\n".join(exp) + "\n"
            res.nontrivial("l2a:" + line.replace(work, "W"))
            if not ok_out or any(r != 1 for r in runs):
                violate(kind="oracle", layer="L2a", input=line.replace(work, "W"), expected={"argv": exp, "runs": [1] * len(cnts)},
                        observed={"stdout": out, "runs": runs}, failing_input=True,
                        note="a substitution in an assignment / here-string must run exactly once and its output must be the value")
        # ------------------------------------------------------------ L2f: inner commands that are FUNCTIONS with control flow
        # direct differential: what the function prints when run directly (uncaptured) against what $(f) / `f` splice in:
        # the spliced text must be exactly that output minus its trailing newlines (0d85d61 and 7948e8b repaired the two
        # defects this layer found: conditions inside a captured function, per-command trimming and joining by blanks).
        FUNCS = {
            "f_plain": ["echo one", "echo two"],
            "f_for": ["for x in a b c; do", "  echo \"it=$x\"", "done", "echo end"],
            "f_break": ["for x in alpha beta gamma; do", "  echo \"first=$x\"", "  break", "done", "echo end"],
            "f_break2": ["echo start", "for x in p q; do", "  echo \"a=$x\"", "  echo \"b=$x\"", "  break", "  echo never", "done", "echo end"],
            "f_wbreak": ["while true; do", "  echo once", "  break", "done", "echo after"],
            "f_nobody": ["for x in 1 2; do", "  break", "done", "echo only"],
            "f_nest": ["for a in 1 2; do", "  for b in x y; do", "    echo \"$a$b\"", "    break", "  done", "  echo \"row=$a\"", "done"],
            "f_cont": ["for x in a b c; do", "  if echo $x | grep -q b; then", "    continue", "  fi", "  echo \"it=$x\"", "done", "echo end"],
            "f_if": ["echo before", "if echo x | grep -q y; then", "  echo yes", "else", "  echo no", "fi", "echo after"],
            "f_while": ["n=1", "while echo $n | grep -q \"^[123]$\"; do", "  echo \"n=$n\"", "  if echo $n | grep -q 2; then", "    echo stop",
                        "    break", "  fi", "  n=$(expr $n + 1)", "done", "echo after"],
        }

        def defs(always_true=False):
            out = []
            for name, body in sorted(FUNCS.items()):
                out.append("function %s() {" % name)
                for l in body:
                    if always_true:
                        l = re.sub(r"^(\s*)if .*; then$", r"\1if true; then", l)
                        l = re.sub(r"^(\s*)while .*; do$", r"\1while true; do", l)
                    out.append("  " + l)
                out.append("}")
            return "\n".join(out) + "\n"

        def run_script(text):
            d = tempfile.mkdtemp(prefix="l2f_", dir=work)
            sp = os.path.join(d, "s.sh")
            open(sp, "w").write(text)
            try:
                pr = subprocess.run([ctx.cicada, sp], cwd=d, stdin=subprocess.DEVNULL, stdout=subprocess.PIPE, stderr=subprocess.PIPE,
                                    env={"PATH": "/usr/bin:/bin", "HOME": d, "XDG_CONFIG_HOME": d}, timeout=20)
                return pr.stdout.decode("utf-8", "replace")
            except subprocess.TimeoutExpired:
                return "HANG"

        TEMPL = [('echo "<$(%s)>"', "<%s>"), ('echo "<`%s`>"', "<%s>"), ("echo pre-$(%s)-post", "pre-%s-post"),
                 ('V=$(%s)\necho "[$V]"', "[%s]"), ('V=`%s`\necho "[$V]"', "[%s]")]
        fjobs = [("direct", n, None) for n in sorted(FUNCS)] + [("subst", n, k) for n in sorted(FUNCS) for k in range(len(TEMPL))]

        def one_f(job):
            kind, n, k = job
            if kind == "direct":
                return run_script(defs() + n + "\n")
            if kind == "true":
                return run_script(defs(True) + n + "\n")
            return run_script(defs() + (TEMPL[k][0] % n) + "\n")

        with ThreadPoolExecutor(max_workers=8) as ex:
            fouts = dict(zip(fjobs, ex.map(one_f, fjobs)))
        res.count("L2f_function_substitutions", len(fjobs))
        for n in sorted(FUNCS):
            direct = fouts[("direct", n, None)]
            for k in range(len(TEMPL)):
                got = fouts[("subst", n, k)]
                want = TEMPL[k][1] % strip_nl(direct) + "\n"
                res.nontrivial("l2f:%s:%d" % (n, k))
                if got != want:
                    violate(kind="oracle", layer="L2f", function=n, body=FUNCS[n], input=TEMPL[k][0] % n,
                            expected=want, observed=got, direct_output=direct, failing_input=True,
                            note="the text spliced in for a function is not what the function writes when run directly")
    finally:
        shutil.rmtree(work, ignore_errors=True)
