"""C09 -- variables, exported environment and working directory follow the scoping rules.

Layers
  L1a  pure functions in-process: parser_line::unquote, tools::is_env, the name test of
       Shell::remove_env, types::drain_env_tokens, tools::split_into_fields -- exhaustive
       short strings + pools, extracted model vs implementation.
  L1b  whole histories through execute::run_proc against a fresh Shell in a forked harness
       process; after EVERY operation the outcome (status / what the started program found in
       argv, environ, cwd / what a reference expands to) and the complete tracked state
       (Shell.envs, process environment, getcwd, current_dir, previous_dir) are compared with
       the extracted model, and the outcome with the extracted specification (spec_step on
       abs(state)); the model equals the specification by C09_full, so any difference is a VIOLATION.
  L2   the same kind of histories as one `cicada -c` line (and, for plain values, as a script)
       through the real binary; observations by helpers/hp (argv, cwd, ALL environ entries of
       the tracked names in order), "$NAME" references, $? after builtins, and the place where
       a file created through `> rel` lands.
The cd oracle (exists / canonical target / is a directory) comes from the driver's own
knowledge of the generated tree (os.path.realpath)."""
import itertools, json, os, shutil, subprocess, tempfile
from concurrent.futures import ThreadPoolExecutor
import common as C

EXTRACT = ["C09"]
BINS = ["c09"]
NEEDS_CICADA = True
ALLOWED_AXIOMS = []
PINNED = ["C09_full", "C09_step", "C09_step_invariant", "C09_abs", "C09_pwd", "C09_read_remainder_verbatim",
          "C09_regress_prefix_over_exported", "C09_regress_ifs_shadowed", "C09_regress_read_rejoined",
          "C09_regress_cd_home", "C09_nonvacuous", "C09_is_env_is_source_regex",
          "C09_read_ident_is_source_regex", "C09_export_name_is_source_regex", "C09_exec_env_is_source_regex"]


def gen(ctx=None):
    """Gen/ToolsRegexes.v from the regex literals of tools.rs (round 9; proof in Proofs/ToolsRegexProofs.v)"""
    import regexsites
    regexsites.gen_tools()
    regexsites.gen_builtins()


TRUSTED = [
    "Coq 8.16.1 kernel (coqc; coqchk in thorough); vm_compute only in Example witnesses and refutation witnesses",
    "hand transcription of set_env/get_env/remove_env/expand_one_env's lookup, drain_env_tokens, run_proc, the child "
    "environment construction, export/unset/read/cd (coq/theories/Model/Vars.v), tied by differential execution",
    "the reference semantics (coq/theories/Model/VarsSpec.v; read = POSIX field reading for blank runs, every custom separator cuts) is the reading of the property text",
    "extraction: ExtrOcamlBasic only; OCaml 4.13.1; ocaml/c09/drv.ml",
    "harness/src/bin/c09.rs, helpers/hp.c, drive/c09.py; os.path.realpath / os.path.isdir as the cd oracle",
    "tokenizer and expansions (parse_line, do_expansion) are upstream of the model: an operation enters as the token "
    "list `NAME='value'` = ONE untagged token with the quotes inside; validated by L1b/L2, which start from text",
]
ASSUMES = [
    "glibc setenv replaces in place or appends, unsetenv removes every match, getenv returns the first match, execve passes the list verbatim",
    "Shell.current_dir equals the kernel cwd (checked by L1b at every step)",
    "the initial state is wf_state (no duplicate names in the environment, no shell-local IFS behind an exported one -- a fresh shell) and PWD = cwd for C09_pwd; the driver starts cicada that way",
    "no shell function / alias named like the command words is defined (try_run_func, expand_alias not modelled)",
    "values contain no newline and no tilde; names match [A-Za-z_][A-Za-z0-9_]*; one simple command per operation",
]

TRACKED = ["A", "B", "AB", "A_1", "HOME", "IFS", "PWD", "REPLY"]
NAMES = ["A", "B", "AB", "A_1"]   # AB and A_1 extend the name A: a prefixed command `A=v prog` must not touch them (seed C09-prefix-env-filter-drops-name-prefixed-vars)
US, RS = "\x1f", "\x1e"

VALUES = ["1", "2", "abc", "x y", "", "a=b", "p:q", "it's", 'say "hi"', " lead", "trail ", "a  b", "=", ":", "'", '"',
          "a b=c:d", "::", "k='v'", 'k="v"']
IFS_VALUES = [":", ",", " ", ":,", "", "x"]
LINES = ["x y z", "x:y z:w:v", "a", "", "p,q,r", "x:y,z", "  x   y ", "a b", "a:b", "one two three four", "u:v:w", "m, n",
         "a\tb c", ":x:", "a,b c,d", "x  y", "x  y   z", "\tx \t y", "a:b::c", "::a", "a ,, b", "x y  "]


def qstyle(v, rng):
    bare_ok = v != "" and all(c.isalnum() or c in "=:_." for c in v)
    if bare_ok and rng.random() < 0.5:
        return "b"
    if "'" not in v:
        return "s" if ('"' in v or rng.random() < 0.7) else "d"
    if '"' not in v:
        return "d"
    return None


def quote(v, qs):
    return {"s": "'%s'" % v, "d": '"%s"' % v, "b": v}[qs]


# ------------------------------------------------------------------ the directory tree
def make_tree(root):
    for d in ["d1/d2/d3", "e1", "home", "e1/s p"]:
        os.makedirs(os.path.join(root, d))
    for f in ["f1", "d1/f2"]:
        open(os.path.join(root, f), "w").write("x")
    os.symlink("d1/d2", os.path.join(root, "ln1"))
    os.symlink("..", os.path.join(root, "d1/up"))
    os.symlink("f1", os.path.join(root, "lnf"))
    os.symlink("nowhere", os.path.join(root, "dang"))
    os.symlink("../../e1", os.path.join(root, "d1/d2/back"))
    os.symlink(os.path.join(root, "d1"), os.path.join(root, "e1/abs"))
    os.symlink("ln1", os.path.join(root, "ln2"))


REL_ARGS = ["d1", "d1/d2", "..", ".", "../e1", "ln1", "ln2", "ln1/..", "d1/up", "d1/up/e1", "f1", "lnf", "dang", "nope",
            "d1/nope", "back", "d3", "d2", "abs", "e1/abs/d2", "s p", "e1", "home", "../..", "up", "f2", "", "e1/s p", "../d1"]


def fs_table(root, extra_abs):
    """Every (reachable cwd, argument) pair, closed under the directories cd can reach
    (the closure leaves the generated tree through `..`; the real file system answers)."""
    paths = set(extra_abs) | {root}
    dirs, todo = set(), [root]
    for p in extra_abs:
        if os.path.isdir(p):
            todo.append(os.path.realpath(p))
    while todo:
        d = todo.pop()
        if d in dirs:
            continue
        dirs.add(d)
        paths.add(d)
        for a in REL_ARGS:
            p = d + "/" + a
            paths.add(p)
            if os.path.isdir(p):
                rp = os.path.realpath(p)
                if rp not in dirs:
                    todo.append(rp)
    recs = []
    done = set()
    for p in sorted(paths):
        ex = os.path.exists(p)
        rp = os.path.realpath(p) if ex else "!"
        recs.append(US.join([p, "1" if ex else "0", rp, "1" if (ex and os.path.isdir(rp)) else "0"]))
        done.add(p)
    for p in sorted(paths):
        if os.path.exists(p):
            rp = os.path.realpath(p)
            if rp not in done:  # chdir is asked about the canonical path
                done.add(rp)
                recs.append(US.join([rp, "1", rp, "1" if os.path.isdir(rp) else "0"]))
    return RS.join(recs)


# ------------------------------------------------------------------ histories
class Op:
    """abstract item list (for the model / spec), shell text, kind, extras"""
    def __init__(self, kind, items, text, **kw):
        self.kind, self.items, self.text = kind, items, text
        self.__dict__.update(kw)

    def abs(self):
        return US.join(self.items)


def gen_asgs(rng, names, values, kmax=2, simple=False):
    k = 1 if rng.random() < 0.7 else kmax
    ns = rng.sample(names, min(k, len(names)))
    out = []
    for n in ns:
        while True:
            v = rng.choice(values)
            if simple and not (v and all(c.isalnum() for c in v)):
                continue
            qs = qstyle(v, rng)
            if qs:
                break
        out.append((qs, n, v))
    return out


def asg_items(asgs):
    return [x for a in asgs for x in a]


def asg_text(asgs):
    return " ".join("%s=%s" % (n, quote(v, qs)) for qs, n, v in asgs)


def gen_history(rng, root, hp, idx, simple=False, flavour=None):
    """flavour: None (mixed) | 'ifs' | 'home' | 'cd'"""
    n = rng.randint(4, 30)
    ops = []
    names = NAMES
    home_vals = [root + "/home", root + "/d1", root + "/nope", root + "/ln1", root + "/f1"]

    def probe_child(asgs=(), redirect=False):
        i = len(ops)
        mark = "m%d" % i
        items = ["P", hp, "2", "@", mark] + asg_items(asgs)
        text = (asg_text(asgs) + " " if asgs else "") + "%s @ %s" % (hp, mark)
        extra = {}
        if redirect:
            extra["redirect"] = "out_%d_%d" % (idx, i)
            text += " > " + extra["redirect"]
        ops.append(Op("child", items, text, mark=mark, **extra))

    def probe_ref(nm):
        ops.append(Op("ref", ["F", nm], "$" + nm, name=nm))

    for _ in range(n):
        r = rng.random()
        w = {"ifs": 0.25, "home": 0.25, "cd": 0.45}.get(flavour, 0.0)
        if r < w:
            if flavour == "ifs":
                c = rng.random()
                if c < 0.3:
                    a = [(qstyle(v, rng) or "s", "IFS", v) for v in [rng.choice(IFS_VALUES)]]
                    ops.append(Op("assign", ["A"] + asg_items(a), asg_text(a)))
                elif c < 0.55:
                    a = [("s", "IFS", rng.choice(IFS_VALUES))]
                    ops.append(Op("export", ["E"] + asg_items(a), "export " + asg_text(a)))
                elif c < 0.65:
                    ops.append(Op("unset", ["U", "IFS"], "unset IFS"))
                else:
                    pre = [("s", "IFS", rng.choice(IFS_VALUES))] if rng.random() < 0.3 else []
                    gen_read(rng, ops, names, pre)
            elif flavour == "home":
                c = rng.random()
                if c < 0.35:
                    a = [("s", "HOME", rng.choice(home_vals))]
                    ops.append(Op("export", ["E"] + asg_items(a), "export " + asg_text(a)))
                elif c < 0.45:
                    a = [("s", "HOME", rng.choice(home_vals))]
                    ops.append(Op("assign", ["A"] + asg_items(a), asg_text(a)))
                elif c < 0.55:
                    ops.append(Op("unset", ["U", "HOME"], "unset HOME"))
                else:
                    ops.append(Op("cd", ["C"], "cd"))
                    probe_child()
            else:
                gen_cd(rng, ops, root)
                if rng.random() < 0.6:
                    probe_child(redirect=rng.random() < 0.4)
                if rng.random() < 0.4:
                    probe_ref("PWD")
            continue
        r = rng.random()
        if r < 0.16:
            a = gen_asgs(rng, names, VALUES, simple=simple)
            ops.append(Op("assign", ["A"] + asg_items(a), asg_text(a)))
        elif r < 0.30:
            a = gen_asgs(rng, names, VALUES, simple=simple)
            ops.append(Op("export", ["E"] + asg_items(a), "export " + asg_text(a)))
        elif r < 0.38:
            nm = rng.choice(names)
            ops.append(Op("unset", ["U", nm], "unset " + nm))
        elif r < 0.50:
            probe_child(gen_asgs(rng, names, VALUES, simple=simple))
        elif r < 0.58 and not simple:
            gen_read(rng, ops, names, [])
        elif r < 0.68:
            gen_cd(rng, ops, root)
        elif r < 0.84:
            probe_child(redirect=rng.random() < 0.15)
        else:
            probe_ref(rng.choice(names + (["PWD"] if rng.random() < 0.3 else [])))
    # final probes: everything that can be seen
    probe_child()
    for nm in names:
        probe_ref(nm)
    probe_ref("PWD")
    return ops


def gen_read(rng, ops, names, pre):
    k = rng.choice([0, 1, 1, 2, 2, 3])
    ns = [rng.choice(names) for _ in range(k)]
    line = rng.choice(LINES)
    if "\t" in line and rng.random() < 0.7:
        line = rng.choice(LINES[:6])
    items = ["R", str(k)] + ns + [line] + asg_items(pre)
    text = (asg_text(pre) + " " if pre else "") + "read" + "".join(" " + x for x in ns) + " <<< '%s'" % line
    ops.append(Op("read", items, text))


def gen_cd(rng, ops, root):
    c = rng.random()
    if c < 0.12:
        ops.append(Op("cd", ["C"], "cd"))
    elif c < 0.27:
        ops.append(Op("cd", ["C", "-"], "cd -"))
    elif c < 0.37:
        a = root + rng.choice(["/d1", "/ln1/d3", "/nope", "/e1/abs/d2", "/f1", "", "/d1/d2/back"])
        ops.append(Op("cd", ["C", a], "cd " + a))
    else:
        a = rng.choice(REL_ARGS)
        ops.append(Op("cd", ["C", a], "cd " + ("'%s'" % a if (" " in a or a == "") else a)))


def confine_redirects(ops, mrec, root):
    """keep `> rel` only where the model says the shell is inside the generated tree"""
    for k, o in enumerate(ops):
        if getattr(o, "redirect", None):
            ok = k < len(mrec) and mrec[k]["model"].startswith("child")
            if ok:
                cwd = C.dec(mrec[k]["model"].rsplit('cwd="', 1)[1][:-1])
                ok = cwd == root or cwd.startswith(root + "/")
            if not ok:
                o.text = o.text.rsplit(" > ", 1)[0]
                o.redirect = None


def hist_case(root, fstab, ops):
    env0 = US.join(["HOME=" + root + "/home", "PWD=" + root])
    f = ["hist", root, fstab, env0]
    for o in ops:
        f += [o.abs(), o.text]
    return C.case(*f)


def parse_model(line):
    """-> list of dicts(model outcome, model state, spec outcome, wf)"""
    out = []
    for cell in (line.split("\t") if line else []):
        p = cell.split("|")
        out.append({"model": p[0], "state": p[1], "spec": p[2], "wf": p[3]})
    return out


# ------------------------------------------------------------------ judging one history
class Judge:
    def __init__(self, res):
        self.res = res
        self.nviol = 0
        self.caps = {}

    def violate(self, **kw):
        self.nviol += 1
        key = "oracle" if kw.get("failing_input", True) else "other"
        self.caps[key] = self.caps.get(key, 0) + 1
        if self.caps[key] <= 3:
            self.res.violate(**kw)

    def history(self, layer, entry, case, ops, mrec, impl, script_text):
        """impl: list (per op) of (outcome or None if unobserved, state or None).
        A state disagreement (L1b) does not end the history: the operations that follow are still
        compared with the specification, so that the replay names an input on which the property's
        oracle fails; only if none does is the disagreement itself reported (no failing input)."""
        pending = None
        for k, op in enumerate(ops):
            if k >= len(mrec) or k >= len(impl):
                break
            m = mrec[k]
            io, ist = impl[k]
            ctx = dict(layer=layer, entry=entry, case=case, op_index=k, op=op.text,
                       input=(script_text if layer == "L2" else script_text_upto(ops, k)), model=m["model"], spec=m["spec"])
            if m["wf"] != "wf":
                self.violate(kind="generator", failing_input=False, note="generated operation outside wf_op", **ctx)
                return
            if pending is not None:
                # model state no longer trustworthy as a predictor; the specification of a probe still is
                if op.kind in ("ref", "child") and io is not None and io != m["spec"]:
                    self.violate(kind="oracle", failing_input=True, expected=m["spec"], observed=io,
                                 note="after the state of the implementation left the model's (%s at operation %d: %s) "
                                      "this observation differs from the specified one"
                                      % (pending["op"], pending["op_index"], pending["impl_state"]), **ctx)
                    return
                continue
            if m["model"] != m["spec"]:
                self.violate(kind="proof-model-mismatch", failing_input=False,
                             note="extracted model and extracted specification differ (contradicts C09_full: extraction / driver fault)", **ctx)
                return
            if io is not None and io != m["spec"]:
                self.violate(kind="oracle", failing_input=True, expected=m["spec"], observed=io,
                             note="the implementation's observation differs from the specified one", **ctx)
                return
            if ist is not None and m["state"] is not None and ist != m["state"]:
                pending = dict(ctx, kind="correspondence", failing_input=False, model_state=m["state"], impl_state=ist,
                               note="state after the operation differs between model and implementation; no later "
                                    "observation of this history contradicted the specification")
                continue
            if m["model"] == "PANIC":
                return
        if pending is not None:
            self.violate(**pending)


def script_text_upto(ops, k):
    return "; ".join(o.text for o in ops[:k + 1])


# ------------------------------------------------------------------ L2 rendering and observation
def l2_line(ops, hp):
    parts = []
    for k, o in enumerate(ops):
        if o.kind == "ref":
            parts.append('%s @ r%d ".$%s."' % (hp, k, o.name))
        else:
            parts.append(o.text)
            if o.kind == "cd" or (o.kind in ("unset", "export", "read", "assign") and k % 3 == 0):
                parts.append('%s @ s%d "$?"' % (hp, k))
    return parts


def read_trace(path):
    recs = []
    if os.path.exists(path):
        for l in open(path, encoding="utf-8", errors="replace"):
            kv = dict(f.split("=", 1) for f in l.rstrip("\n").split("\t") if "=" in f)
            kv["argv"] = [C.dec(a) for a in kv.get("argv", "").split(",")]
            ents = []
            if kv.get("env"):
                for e in kv["env"].split(","):
                    n, _, v = e.partition(":")
                    ents.append('%s:"%s"' % (C.dec(n), C.enc(C.dec(v))))
            kv["envs"] = "[" + ",".join(ents) + "]"
            kv["cwd"] = C.dec(kv.get("cwd", ""))
            recs.append(kv)
    return recs


def l2_observe(ops, recs, rc, workroot):
    """per op: (outcome or None, None)"""
    by = {}
    for r in recs:
        if len(r["argv"]) > 2:
            by[r["argv"][2]] = r
    out = []
    died_at = None
    for k, o in enumerate(ops):
        oc = None
        if o.kind == "child":
            r = by.get(o.mark)
            if r is not None:
                oc = 'child argv=[%s] env=%s cwd="%s"' % (",".join('"%s"' % C.enc(a) for a in r["argv"][1:]), r["envs"], C.enc(r["cwd"]))
        elif o.kind == "ref":
            r = by.get("r%d" % k)
            if r is not None and len(r["argv"]) > 3:
                v = r["argv"][3]
                oc = 'val="%s"' % C.enc(v[1:-1]) if (v.startswith(".") and v.endswith(".") and len(v) >= 2) else "val=?" + v
        else:
            r = by.get("s%d" % k)
            if r is not None and len(r["argv"]) > 3:
                oc = "st=0" if r["argv"][3] == "0" else "st=1"
        out.append((oc, None))
    # a shell that died: everything from the first unobserved op with no later observation
    if rc == 101:
        last = max([k for k, (oc, _) in enumerate(out) if oc is not None], default=-1)
        # the shell died: blame the first operation after the last observation
        k = last + 1
        if k < len(ops):
            out[k] = ("PANIC", None)
            out = out[:k + 1]
    return out


def run_cicada(cicada, mode, parts, workdir, root, trace):
    env = {"VERIF_TRACE": trace, "VERIF_ENVNAMES": ",".join(TRACKED), "HOME": root + "/home", "PWD": root,
           "XDG_CONFIG_HOME": workdir, "PATH": "/usr/bin:/bin"}
    if mode == "c":
        cmd = [cicada, "-c", "; ".join(parts)]
    else:
        sp = os.path.join(workdir, "s.sh")
        open(sp, "w").write("\n".join(parts) + "\n")
        cmd = [cicada, sp]
    try:
        p = subprocess.run(cmd, cwd=root, env=env, stdin=subprocess.DEVNULL, stdout=subprocess.PIPE,
                           stderr=subprocess.PIPE, timeout=60)
        return p.returncode, p.stderr.decode("utf-8", "replace")
    except subprocess.TimeoutExpired:
        return "TIMEOUT", ""


# ------------------------------------------------------------------ L1a cases
def l1a_cases(ctx):
    rng = ctx.rng
    alpha = ["a", "1", "_", "=", "'", '"', "-", " ", "\n", "é", "Z"]
    cases = []
    maxlen = 4 if ctx.thorough else 3
    strs = ["".join(t) for n in range(0, maxlen + 1) for t in itertools.product(alpha, repeat=n)]
    for _ in range(4000 if ctx.thorough else 800):
        strs.append("".join(rng.choice(alpha) for _ in range(rng.randint(maxlen + 1, 9))))
    for s in strs:
        cases.append(("unq", s))
        cases.append(("isenv", s))
        cases.append(("rmname", s))
    toks_pool = ["A=1", "B='x y'", 'C="p"', "1x=2", "_=", "A=", "=", "a", "A=1=2", "é=1", "A=a\nb", "A-B=1", "A='", "cmd", "A=2",
                 "B=\"'q'\"", "IFS=:"]
    tags = ["", "", "", "'", '"', "`", "\\"]
    for n in range(0, 4):
        for t in itertools.product(range(len(toks_pool)), repeat=n):
            if n == 3 and not ctx.thorough and rng.random() > 0.15:
                continue
            f = ["drain"]
            for i in t:
                f += [rng.choice(tags) if rng.random() < 0.25 else "", toks_pool[i]]
            cases.append(tuple(f))
    for s in strs[: (20000 if ctx.thorough else 3000)]:
        cases.append(("drain", "", s, "", "tail"))
    opts = ["-", "+", "+:", "+ ", "+:,", "+x"]
    for loc in opts:
        for env in opts:
            for cmd in opts:
                for line in LINES + ["", " ", "::", "x"]:
                    cases.append(("split", loc, env, cmd, line))
    return cases


# ------------------------------------------------------------------ main
def run(ctx, res):
    rng = ctx.rng
    # C09_full is proved without any excluded class and known_findings.txt holds no finding: line for
    # C09 any more (C.known_findings("C09") == []): every difference is a VIOLATION.
    if C.known_findings("C09"):
        res.violate(kind="configuration", failing_input=False,
                    note="known_findings.txt lists a C09 finding but the check has no known class left")
    res.rule = (
        "L1a: every string up to length %d over a 11-symbol alphabet (letters, digit, underscore, =, both quotes, -, blank, "
        "newline, a non-ASCII letter) through unquote / is_env / remove_env's name test, token lists up to length 3 through "
        "drain_env_tokens, all combinations of local / exported / per-command IFS over %d lines through split_into_fields. "
        "L1b / L2: random histories of 4..30 operations (assignment, prefixed program, export, unset, read, cd in all forms, "
        "reference, started program) over the names A B C D (+ IFS, HOME, PWD in dedicated flavours), values %r (only the "
        "characters the property lists: blanks, both quotes, =, :, empty; no $ | & < > so that C10/C13 are not exercised; "
        "references are written inside double quotes), a generated tree with directories, files, relative / absolute / "
        "chained symlinks, a symlink to a file, a dangling one and a name with a blank. Non-trivial = distinct "
        "(operation kind, model outcome, model state) triples in which the state or the outcome is not the initial / empty one."
        % (4 if ctx.thorough else 3, len(LINES) + 4, VALUES))
    judge = Judge(res)
    # ---------------- L1a
    if not ctx.replay:
        cases = l1a_cases(ctx)
        path = C.write_cases("c09_l1a.txt", [C.case(*c) for c in cases])
        mo = C.run_model(ctx.model["C09"], path)
        io = C.run_impl(ctx.bins["c09"], path, len(cases))
        res.count("L1a_functions", len(cases))
        bad = 0
        for c, a, b in zip(cases, mo, io):
            if a not in ('""', "false", "[]", 'envs={} rest=[]'):
                res.nontrivial("l1a:" + c[0] + ":" + a)
            if a != b:
                bad += 1
                if bad <= 3:
                    res.violate(kind="correspondence", layer="L1a", function=c[0], input=list(c[1:]), model=a, impl=b,
                                failing_input=False, note="function of the implementation differs from its transcription")
        res.sample({"layer": "L1a", "case": list(cases[len(cases) // 3]), "model": mo[len(cases) // 3], "impl": io[len(cases) // 3]})
    # ---------------- histories
    hp = os.path.join(ctx.helpers, "hp")
    work = tempfile.mkdtemp(prefix="c09_")
    try:
        root = os.path.realpath(os.path.join(work, "t"))
        os.makedirs(root)
        make_tree(root)
        extra = [root + s for s in ["/home", "/d1", "/nope", "/ln1", "/f1", "/ln1/d3", "/e1/abs/d2", "", "/d1/d2/back"]]
        fstab = fs_table(root, extra)
        if ctx.replay:
            r = json.load(open(ctx.replay))
            print("replay: %s" % json.dumps({k: r.get(k) for k in ("layer", "entry", "op", "input", "expected", "observed")}, ensure_ascii=False))
        n1 = 1500 if ctx.thorough else 300
        n2 = 1200 if ctx.thorough else 220
        flav = [None, None, "cd", "ifs", "home", None, "cd"]
        # fixed witnesses of the recorded classes first
        wit = witnesses(root, hp)
        hist1 = wit + [gen_history(rng, root, hp, i, flavour=flav[i % len(flav)]) for i in range(n1)]
        cases1 = [hist_case(root, fstab, ops) for ops in hist1]
        p1 = C.write_cases("c09_l1b.txt", cases1)
        mo1 = C.run_model(ctx.model["C09"], p1)
        for ops, ml in zip(hist1, mo1):
            confine_redirects(ops, parse_model(ml), root)
        cases1 = [hist_case(root, fstab, ops) for ops in hist1]
        p1 = C.write_cases("c09_l1b.txt", cases1)
        io1 = C.run_impl(ctx.bins["c09"], p1, len(cases1), env={"HX_CASE_TIMEOUT_MS": "30000"})
        res.count("L1b_histories", len(cases1))
        res.count("L1b_operations", sum(len(o) for o in hist1))
        for hi, (ops, ml, il) in enumerate(zip(hist1, mo1, io1)):
            mrec = parse_model(ml)
            impl = []
            for cell in (il or "").split("\t"):
                if cell == "PANIC":
                    impl.append(("PANIC", None))
                elif "|" in cell:
                    a, b = cell.split("|", 1)
                    impl.append((a, b))
                elif cell:
                    impl.append(("?" + cell, None))
            for k, m in enumerate(mrec):
                if m["model"] not in ("st=0", 'val=""'):
                    res.nontrivial("h:%s:%s:%s" % (ops[k].kind, m["model"].replace(hp, "hp"), m["state"].replace(root, "")))
            # the state string after a panic is not printed by either side
            mrec2 = [dict(m, state=(m["state"] if m["model"] != "PANIC" else None)) for m in mrec]
            judge.history("L1b", "run_proc", cases1[hi], ops, mrec2, impl, "; ".join(o.text for o in ops))
            if hi in (len(wit), len(wit) + 7):
                k = min(3, len(mrec) - 1)
                res.sample({"layer": "L1b", "history": [o.text.replace(hp, "hp") for o in ops[:k + 1]],
                            "model": mrec[k]["model"], "state": mrec[k]["state"], "impl": impl[k] if k < len(impl) else None})
        # ---------------- L2
        hist2 = wit + [gen_history(rng, root, hp, 100000 + i, simple=(i % 5 == 4), flavour=flav[i % len(flav)]) for i in range(n2)]
        cases2 = [hist_case(root, fstab, ops) for ops in hist2]
        p2 = C.write_cases("c09_l2.txt", cases2)
        mo2 = C.run_model(ctx.model["C09"], p2)
        for ops, ml in zip(hist2, mo2):
            confine_redirects(ops, parse_model(ml), root)
        cases2 = [hist_case(root, fstab, ops) for ops in hist2]

        def one(ix):
            ops = hist2[ix]
            mode = "script" if (ix >= len(wit) and (ix - len(wit)) % 5 == 4) else "c"
            d = os.path.join(work, "w%d" % ix)
            os.makedirs(d)
            tr = os.path.join(d, "trace")
            parts = l2_line(ops, hp)
            rc, err = run_cicada(ctx.cicada, mode, parts, d, root, tr)
            recs = read_trace(tr)
            shutil.rmtree(d, ignore_errors=True)
            return rc, recs, mode, parts, err

        with ThreadPoolExecutor(max_workers=C.NCPU) as ex:
            outs = list(ex.map(one, range(len(hist2))))
        res.count("L2_cicada_runs", len(hist2))
        nredir = 0
        for ix, (rc, recs, mode, parts, err) in enumerate(outs):
            ops = hist2[ix]
            mrec = parse_model(mo2[ix])
            impl = l2_observe(ops, recs, rc, root)
            text = "; ".join(parts) if mode == "c" else "\n".join(parts)
            if rc == "TIMEOUT":
                judge.violate(kind="oracle", layer="L2", entry=mode, input=text, failing_input=True, note="cicada did not finish")
                continue
            mrec2 = [dict(m, state=None) for m in mrec]
            before = judge.nviol
            judge.history("L2", mode, cases2[ix], ops, mrec2, impl, text)
            # relative redirections land in the directory the model says the shell is in
            if judge.nviol == before:
                for k, o in enumerate(ops):
                    if getattr(o, "redirect", None) and k < len(mrec) and mrec[k]["model"].startswith("child"):
                        want = C.dec(mrec[k]["model"].rsplit('cwd="', 1)[1][:-1])
                        found = [dp for dp, _, fn in os.walk(root) if o.redirect in fn]
                        nredir += 1
                        if found != [want] and impl[k][0] is not None:
                            judge.violate(kind="oracle", layer="L2", entry=mode, input=text, op=o.text, failing_input=True,
                                          expected="file %s created in %s" % (o.redirect, want), observed="found in %r" % found,
                                          note="a relative redirection did not land in the shell's working directory")
            if ix in (len(wit) + 1, len(wit) + 4):
                res.sample({"layer": "L2", "entry": mode, "input": text.replace(hp, "hp")[:600], "rc": rc,
                            "observed": [x[0] for x in impl][:8], "model": [m["model"] for m in mrec][:8]})
        res.count("L2_relative_redirections", nredir)
        res.extra["violations_total_before_cap"] = judge.nviol
    finally:
        shutil.rmtree(work, ignore_errors=True)


def witnesses(root, hp):
    """The witnesses of the five repaired defects (fixed: lines of known_findings.txt), as regression histories."""
    def child(i, asgs=()):
        return Op("child", ["P", hp, "2", "@", "m%d" % i] + asg_items(asgs),
                  (asg_text(asgs) + " " if asgs else "") + "%s @ m%d" % (hp, i), mark="m%d" % i)

    def ref(n):
        return Op("ref", ["F", n], "$" + n, name=n)
    w = []
    a1, a2 = [("b", "A", "1")], [("b", "A", "2")]
    w.append([Op("export", ["E"] + asg_items(a1), "export A=1"), child(1, a2), ref("A"), child(3)])
    i1, i2 = [("s", "IFS", ":")], [("s", "IFS", ",")]
    w.append([Op("assign", ["A"] + asg_items(i1), "IFS=':'"), Op("export", ["E"] + asg_items(i2), "export IFS=','"),
              Op("read", ["R", "2", "A", "B", "x:y,z"], "read A B <<< 'x:y,z'"), ref("A"), ref("B"), ref("IFS")])
    w.append([Op("read", ["R", "2", "A", "B", "x:y:z"] + asg_items(i1), "IFS=':' read A B <<< 'x:y:z'"), ref("A"), ref("B")])
    h1 = [("s", "HOME", root + "/nope")]
    w.append([Op("export", ["E"] + asg_items(h1), "export HOME='%s/nope'" % root), Op("cd", ["C"], "cd"), child(2)])
    w.append([Op("unset", ["U", "HOME"], "unset HOME"), Op("cd", ["C", "d1"], "cd d1"), Op("cd", ["C"], "cd"), child(3)])
    return w
