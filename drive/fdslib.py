"""Shared process-level machinery of C02 / C04 / C08 (engine FDS = coq/theories/Model/Pipeline.v).

A *step* is one pipeline (python dict) that is rendered (a) as a case line for the extracted model
and (b) as cicada text whose external stages are helpers/hp.  A *sequence* of steps is run in one
`cicada -c` process (joined with ';'), the model is run step by step with the shell table it
predicts after step k as the initial table of step k+1 (leaks accumulate exactly as in reality).

Layer L2 compares, per step: the descriptor table every exec'd stage reports (numbers AND identity
of what they denote), bytes received on stdin, files, streams, status, and the shell's table after
the step (minfd + what a sentinel child inherits).  Layer L3 compares syscall traces (strace).
"""
import os, re, shutil, subprocess, tempfile
import common as C

FNV0, FNVP, M64 = 1469598103934665603, 1099511628211, (1 << 64) - 1


def fnv(data):
    h = FNV0
    for b in data:
        h = ((h ^ b) * FNVP) & M64
    return "%x" % h


def pat(n):
    return bytes([ord("a") + n % 23]) * n


# ---------------------------------------------------------------- steps
def mk_stage(kind="E", frm="-", redirs=(), prints="", acts=None, builtin="minfd", word="hw"):
    return {"kind": kind, "frm": frm, "redirs": list(redirs), "prints": prints, "acts": acts, "builtin": builtin,
            "word": word}


def stage_case(st):
    pr = st["prints"] if st["kind"] == "B" else ""
    return "%s:%s:%s:%s" % (st["kind"], st["frm"], ",".join(st["redirs"]) or "-", pr or "-")


def path_name(pid, unop):
    """path id -> name inside the work dir (0,1 = files literally named &1 &2)"""
    if pid == 0:
        return "&1"
    if pid == 1:
        return "&2"
    if pid in unop:
        return "nodir/f%d" % pid if pid % 2 else "d%d" % pid     # missing directory / is a directory
    return "f%d" % pid


def render_redir(r, unop, rng):
    sp = rng.choice(["", " "]) if rng else ""
    fd = r[0]
    if r[1] == "&":
        if r == "1&2" and rng and rng.random() < 0.5:
            return ">&2"
        return "%s>&%s" % (fd, r[2])
    op = ">" if r[1] == "t" else ">>"
    pre = fd if (fd == "2" or (rng and rng.random() < 0.5)) else ""
    return "%s%s%s%s" % (pre, op, sp, path_name(int(r[2:]), unop))


def render_stage(st, idx, hp, unop, rng, tag):
    k = st["kind"]
    if k == "E":
        words = [hp, "@" + st["acts"], "%s.%d" % (tag, idx)]
    elif k == "B":
        words = st["builtin"].split(" ")
    else:
        words = ["no_such_cmd_zq"]
    extra = [render_redir(r, unop, rng) for r in st["redirs"]]
    if st["frm"] == "h":
        extra.append("<<< " + st["word"])
    elif st["frm"].startswith("<"):
        extra.append("< " + path_name(int(st["frm"][1:]), unop))
    return " ".join(words + extra)


def render_step(step, hp, rng, tag):
    body = " | ".join(render_stage(s, i, hp, step["unop"], rng, tag) for i, s in enumerate(step["stages"]))
    if step["capture"]:
        return "%s @ %s.out $(%s)" % (hp, tag, body)
    return body


def vstr(v):
    """variant: False/None = the code as it is; otherwise a 7-flag string
    (dupclose,bcap,capclose,capfail,bunop,bfold,capfirst: all committed repairs)"""
    return v if isinstance(v, str) else "1111111"


def step_case(step, v, t0):
    return C.case("run", vstr(v), "1" if step["capture"] else "0", "-",
                  ",".join(map(str, sorted(step["unop"]))) or "-", t0,
                  "|".join(stage_case(s) for s in step["stages"]))


def parse_table(s):
    t = {}
    for it in [x for x in s.split(",") if x]:
        fd, o = it.split("=", 1)
        cx = o.endswith("+x")
        t[int(fd)] = (o[:-2] if cx else o, cx)
    return t


MODEL_RE = re.compile(r"^err=(\d) shell=(\S*) sinks=\[(.*?)\] kids=\[(.*?)\] posix=\[(.*?)\] \|\| shell=\[(.*?)\](.*)$")


def parse_model(line):
    m = MODEL_RE.match(line)
    if not m:
        raise C.Infra("unparsable model line: " + line)
    d = {"err": m.group(1) == "1", "shell": parse_table(m.group(2)), "sinks": [x for x in m.group(3).split(",") if x],
         "kids": [], "posix": [], "tr_shell": m.group(6).split(), "tr_kids": {}}
    for k in [x for x in m.group(4).split(";") if x]:
        idx, out, tab = k.split(":", 2)
        d["kids"].append({"idx": int(idx), "out": out, "tab": parse_table(tab)})
    for p in [x for x in m.group(5).split(";") if x]:
        idx, cls, sinks, opens, ok = p.split(":")
        d["posix"].append({"idx": int(idx), "cls": [c for c in cls.split("+") if c], "sinks": sinks.split(","),
                           "opens": [o for o in opens.split(",") if o], "ok": ok == "1"})
    for mm in re.finditer(r"kid(\d+)=\[(.*?)\]", m.group(7)):
        d["tr_kids"][int(mm.group(1))] = mm.group(2).split()
    return d


def table_spec(tab):
    """model shell table -> initial-table spec of the next step (objects become inherited ones)"""
    return ",".join("%d%s" % (fd, "x" if cx else "") for fd, (o, cx) in sorted(tab.items()))


# ---------------------------------------------------------------- real runs
def setup_work(work, present):
    os.makedirs(work, exist_ok=True)
    open(os.path.join(work, "in.txt"), "w").write("STDIN\n")
    for n in ("out.txt", "err.txt", "trace"):
        open(os.path.join(work, n), "w").close()
    for pid in present:
        open(os.path.join(work, "f%d" % pid), "w").write("INIT%d\n" % pid)
    for i in range(30, 40, 2):
        os.makedirs(os.path.join(work, "d%d" % i), exist_ok=True)


def run_real(cicada, line, work, timeout=30, strace=False, extra_fds=()):
    env = {"VERIF_TRACE": os.path.join(work, "trace"), "HOME": work, "XDG_CONFIG_HOME": work,
           "PATH": "/usr/bin:/bin", "LANG": "C"}
    cmd = [cicada, "-c", line]
    if strace:
        cmd = ["strace", "-f", "-e", "trace=pipe,pipe2,dup,dup2,dup3,close,openat,clone,clone3,fork,vfork,execve,exit_group",
               "-e", "signal=none", "-o", os.path.join(work, "strace.txt")] + cmd
    fi = open(os.path.join(work, "in.txt"), "rb")
    fo = open(os.path.join(work, "out.txt"), "ab")
    fe = open(os.path.join(work, "err.txt"), "ab")
    held = []
    if extra_fds:
        # extra inherited descriptors are opened by a wrapper shell (never dup2 inside this threaded process)
        cmd = ["/bin/sh", "-c", " ".join("exec %d<in.txt;" % fd for fd in extra_fds) + ' exec "$@"', "sh"] + cmd
    try:
        p = subprocess.run(cmd, cwd=work, env=env, stdin=fi, stdout=fo, stderr=fe, timeout=timeout)
        rc = p.returncode
    except subprocess.TimeoutExpired:
        rc = "TIMEOUT"
    finally:
        for f in (fi, fo, fe):
            f.close()
        for fd in held:
            try:
                os.close(fd)
            except OSError:
                pass
    recs = {}
    tp = os.path.join(work, "trace")
    for l in open(tp, errors="replace"):
        kv = dict(f.split("=", 1) for f in l.rstrip("\n").split("\t") if "=" in f)
        argv = [C.dec(a) for a in kv.get("argv", "").split(",")]
        fds = {}
        for it in [x for x in kv.get("fds", "").split(",") if x]:
            fd, tgt = it.split("=", 1)
            cx = tgt.endswith("+x")
            fds[int(fd)] = (C.dec(tgt[:-2] if cx else tgt), cx)
        recs[argv[2] if len(argv) > 2 else "?"] = {"argv": argv, "fds": fds, "stdin": kv.get("stdin")}
    return rc, recs


# ---------------------------------------------------------------- L2: compare one step
def identity_check(pairs, work):
    """pairs: (model object name, observed target). inhN must be the shell's own 0/1/2 targets,
    files must be the named path, pipes must map injectively and functionally."""
    std = {"inh0": os.path.join(work, "in.txt"), "inh1": os.path.join(work, "out.txt"), "inh2": os.path.join(work, "err.txt")}
    fwd, bwd = {}, {}
    for obj, tgt, unop in pairs:
        if obj in std:
            if tgt != std[obj]:
                return "%s observed as %s" % (obj, tgt)
        elif obj.startswith("inh"):
            continue                              # extra inherited descriptors: identity not tracked
        elif obj.startswith("f"):
            pid = int(obj[1:].split(".")[0])
            if tgt != os.path.join(work, path_name(pid, unop)):
                return "%s observed as %s" % (obj, tgt)
        else:
            pid = obj.split(".", 1)[1]
            if not tgt.startswith("pipe:"):
                return "%s observed as %s" % (obj, tgt)
            if fwd.setdefault(pid, tgt) != tgt or bwd.setdefault(tgt, pid) != pid:
                return "pipe identity: %s observed as %s (map %r)" % (obj, tgt, fwd)
    return None


def compare_step(step, tag, model, recs, work):
    """-> (list of disagreement strings, dict of observations)"""
    bad = []
    pairs = []
    for k in model["kids"]:
        st = step["stages"][k["idx"]]
        key = "%s.%d" % (tag, k["idx"])
        if st["kind"] != "E":
            continue
        if k["out"] != "exec":
            if key in recs:
                bad.append("stage %d ran although the model says it exits before exec (%s)" % (k["idx"], k["out"]))
            continue
        if key not in recs:
            bad.append("stage %d did not run" % k["idx"])
            continue
        obs = recs[key]["fds"]
        mod = k["tab"]
        if sorted(obs) != sorted(mod):
            bad.append("stage %d descriptors: model %s, observed %s" % (k["idx"], sorted(mod), sorted(obs)))
            continue
        if any(cx for (_, cx) in obs.values()):
            bad.append("stage %d has close-on-exec descriptors after exec?" % k["idx"])
        for fd in mod:
            pairs.append((mod[fd][0], obs[fd][0], step["unop"]))
    e = identity_check(pairs, work)
    if e:
        bad.append(e)
    return bad


# ---------------------------------------------------------------- L3: strace normalisation
S_LINE = re.compile(r"^(\d+)\s+(.*)$")


def parse_strace(path):
    """-> {pid: [events]} in the vocabulary of the model's trace, plus clone order per parent"""
    per, pending, order = {}, {}, []
    for raw in open(path, errors="replace"):
        m = S_LINE.match(raw.rstrip("\n"))
        if not m:
            continue
        pid, rest = int(m.group(1)), m.group(2)
        if rest.startswith("+++") or rest.startswith("---"):
            continue
        if rest.endswith("<unfinished ...>"):
            pending[pid] = rest[:-len("<unfinished ...>")].rstrip()
            continue
        mm = re.match(r"<\.\.\. (\w+) resumed>(.*)$", rest)
        if mm:
            rest = pending.pop(pid, mm.group(1) + "(") + mm.group(2)
        mm = re.match(r"(\w+)\((.*)\)\s+= (\S+)(.*)$", rest)
        if not mm:
            continue
        name, args, ret = mm.group(1), mm.group(2), mm.group(3)
        if pid not in per:
            per[pid] = []
            order.append(pid)
        per[pid].append((name, args, ret))
    return per, order


def normalise(events, work, unop_names, from_first=None):
    """syscalls of one process -> model vocabulary; descriptors that come from an openat the model does not
    know (PATH scans, libraries, /proc) are dropped together with their close."""
    out, noise = [], set()
    started = from_first is None
    for name, args, ret in events:
        if not started:
            if name in from_first:
                started = True
            else:
                continue
        if name in ("pipe", "pipe2"):
            mm = re.match(r"\[(\d+), (\d+)\]", args)
            out.append("pipe(%s,%s)" % (mm.group(1), mm.group(2)) if mm and ret == "0" else "pipefail")
        elif name == "close":
            fd = int(args.split()[0].rstrip(","))
            if fd in noise:
                noise.discard(fd)
                continue
            out.append("close(%d)=%s" % (fd, "0" if ret == "0" else "EBADF"))
        elif name in ("dup2", "dup3"):
            a = [x.strip() for x in args.split(",")]
            out.append("dup2(%s,%s)=%s" % (a[0], a[1], ret if ret != "-1" else "EBADF"))
        elif name == "dup":
            out.append("dup(%s)=%s" % (args.strip(), ret if ret != "-1" else "EBADF"))
        elif name == "openat":
            mm = re.match(r'AT_FDCWD, "((?:[^"\\]|\\.)*)", ([A-Z_|]+)', args)
            pth = mm.group(1) if mm else "?"
            flags = mm.group(2) if mm else ""
            base = os.path.basename(pth)
            known = re.match(r"^(f\d+|d\d+|&1|&2)$", base) and ("/" not in pth or pth.startswith(work) or pth.startswith("nodir/"))
            if known and "O_DIRECTORY" not in flags:
                pid_ = {"&1": 0, "&2": 1}.get(base)
                if pid_ is None:
                    pid_ = int(base[1:])
                mode = "r" if "O_WRONLY" not in flags and "O_RDWR" not in flags else ("a" if "O_APPEND" in flags else "t")
                out.append("open(%d,%s)=%s" % (pid_, mode, ret if ret != "-1" else "ERR"))
            elif ret != "-1":
                noise.add(int(ret))
        elif name in ("clone", "clone3", "fork", "vfork"):
            out.append("fork")
        elif name == "execve":
            if ret == "0":
                out.append("exec")
                break
        elif name == "exit_group":
            out.append("exit(%s)" % args.strip())
            break
    return out


def model_trace_for_cmp(tr):
    o = []
    for e in tr:
        if e.startswith("write(") or e.startswith("read("):
            continue
        o.append("fork" if e.startswith("fork(") else e)
    return o


def l3_compare(model, work, n_kids_expected):
    """-> list of disagreements between the strace of one single-step run and the model traces"""
    per, order = parse_strace(os.path.join(work, "strace.txt"))
    if not order:
        return ["no strace output"]
    bad = []
    shell = order[0]
    sh = normalise(per[shell], work, None, from_first=("pipe", "pipe2", "clone", "clone3", "fork", "vfork"))
    if sh and sh[-1].startswith("exit("):
        sh = sh[:-1]
    msh = model_trace_for_cmp(model["tr_shell"])
    if sh != msh:
        bad.append("shell: model %s / strace %s" % (" ".join(msh), " ".join(sh)))
    kids = [p for p in order[1:]]
    # children in fork order = order of first appearance is not reliable; use clone return values
    cl = [int(ret) for (name, args, ret) in per[shell] if name in ("clone", "clone3", "fork", "vfork") and ret.isdigit()]
    for i, pid in enumerate(cl):
        if i not in model["tr_kids"]:
            bad.append("unexpected child %d" % i)
            continue
        k = normalise(per.get(pid, []), work, None)
        mk = model_trace_for_cmp(model["tr_kids"][i])
        if k != mk:
            bad.append("stage %d: model %s / strace %s" % (i, " ".join(mk), " ".join(k)))
    if len(cl) != n_kids_expected:
        bad.append("forks: model %d / strace %d" % (n_kids_expected, len(cl)))
    return bad


# ---------------------------------------------------------------- sequences: model + real + oracle
BUILTINS = {"alias zq=2": ("", 0), "cd .": ("", 0), "minfd": ("o", 0), "cd /no_such_dir_zq": ("e", 1), "alias": ("o", 0), "alias zz_none": ("e", 1)}


def ext_acts(i, reads, code=0, sig=None, delay=0):
    a = []
    if reads:
        a.append("r")
    if delay:
        a.append("s%d" % delay)
    a += ["w%d" % (30 + 2 * i), "e%d" % (31 + 2 * i)]
    if sig:
        a.append("k%d" % sig)
    elif code:
        a.append("x%d" % code)
    return ",".join(a)


def sentinels(tag):
    """status probe, minfd, inheritance probe -- themselves steps (they run through run_pipeline too)"""
    return [
        {"stages": [mk_stage("E", acts="x$?")], "capture": False, "unop": set(), "role": "status", "tag": tag + "s"},
        {"stages": [mk_stage("B", prints="o", builtin="minfd")], "capture": False, "unop": set(), "role": "minfd", "tag": tag + "m"},
        {"stages": [mk_stage("E", acts="")], "capture": False, "unop": set(), "role": "inherit", "tag": tag + "i"},
    ]


def expected_status(step):
    st = step["stages"][-1]
    if step["capture"]:
        return 0
    for s in step["stages"][-1:]:
        bad_from = s["frm"].startswith("<") and int(s["frm"][1:]) in step["unop"]
        bad_to = any(r[1] != "&" and int(r[2:]) in step["unop"] for r in s["redirs"])
        if bad_to or (bad_from and (s["kind"] != "B" or len(step["stages"]) > 1)):
            return 1
    if st["kind"] == "N":
        return 127
    if st["kind"] == "B":
        return BUILTINS[st["builtin"]][1]
    m = re.search(r"k(\d+)", st["acts"])
    if m:
        return 128 + int(m.group(1))
    m = re.search(r"x(\d+)", st["acts"])
    return int(m.group(1)) if m else 0


def lowest_free(tab):
    i = 0
    while i in tab:
        i += 1
    return i


def run_sequence(ctx, steps, seqid, strace=False, extra_fds=(), present=()):
    """Runs one sequence on the model (both variants) and on the real binary.
    -> dict(line, rc, findings=[(cls, text)], bad=[text], accepted=[text], nontrivial=[keys], model=[...])"""
    hp = os.path.join(ctx.helpers, "hp")
    full = []
    for k, st in enumerate(steps):
        st.setdefault("tag", "T%d" % k)
        st.setdefault("role", "main")
        full.append(st)
        if not st.get("nosentinel"):
            full += sentinels("T%d" % k)
    rng = ctx.rng
    texts = [render_step(s, hp, rng if s["role"] == "main" else None, s["tag"]) for s in full]
    line = " ; ".join(texts)
    # model, both variants, step by step
    t0 = ",".join(map(str, [0, 1, 2] + sorted(extra_fds)))
    def model_run(v):
        outs, cur = [], t0
        for s in full:
            p = C.write_cases("fds_seq_%s_%d.txt" % (seqid, os.getpid()), [step_case(s, v, cur)])
            m = parse_model(C.run_model(ctx.model["FDS"], p)[0])
            outs.append(m)
            cur = table_spec(m["shell"])
        return outs
    # False = the code as it is; the others = the proposed repairs (single flags, then all)
    # the code as it is, then the code with a PROPOSED repair applied (so that committing one is not an alarm);
    # a reverted committed repair matches none of them and is a violation
    VARIANTS = [False]
    variants = {False: model_run(False)}
    work = tempfile.mkdtemp(prefix="fds_")
    out = {"line": line, "findings": [], "bad": [], "accepted": [], "nontrivial": [], "variant": None}
    try:
        setup_work(work, present)
        budget = 30 + 4 * len(full)
        rc, recs = run_real(ctx.cicada, line, work, timeout=budget, strace=strace, extra_fds=extra_fds)
        if rc == "TIMEOUT":
            # the machine may just be loaded: once more, alone, with a generous budget, before calling it a hang
            shutil.rmtree(work, ignore_errors=True)
            setup_work(work, present)
            rc, recs = run_real(ctx.cicada, line, work, timeout=6 * budget, strace=strace, extra_fds=extra_fds)
            out["retried_after_timeout"] = True
        out["rc"] = rc
        died = rc in (141, -13)
        out_txt = open(os.path.join(work, "out.txt"), "rb").read()
        err_txt = open(os.path.join(work, "err.txt"), "rb").read()
        minfds = [int(x) for x in re.findall(rb"(\d+)\n", out_txt)]
        if rc == "TIMEOUT":
            out["bad"].append("timeout (hang)")
            return out
        # which variant does the implementation follow?  decide per sequence: all steps must fit ONE variant
        def problems_for(mods):
            probs = []
            for s, m in zip(full, mods):
                probs_s = compare_step(s, s["tag"], m, recs, work)
                probs += ["step %s (%s): %s" % (s["tag"], render_step(s, "hp", None, s["tag"]), x) for x in probs_s]
            exp, cur = [], parse_table(",".join("%d=inh%d" % (f, f) for f in [0, 1, 2] + sorted(extra_fds)))
            for s, m in zip(full, mods):
                if s["role"] == "minfd":
                    exp.append(lowest_free(cur))
                cur = m["shell"]
            if not died and minfds != exp:
                probs.append("minfd values: model %s, observed %s" % (exp, minfds))
            return probs
        per_variant = {False: problems_for(variants[False])}
        if not per_variant[False]:
            out["variant"] = "as-is"
        else:
            for v in VARIANTS[1:]:
                variants[v] = model_run(v)
                per_variant[v] = problems_for(variants[v])
                if not per_variant[v]:
                    out["variant"] = "repaired:" + v
                    break
        # ---- property oracles on the implementation's own output, per main step
        cur_files = {}
        for k, (s, m) in enumerate(zip(full, variants[False])):
            if s["role"] != "main":
                continue
            n = len(s["stages"])
            single_b = n == 1 and s["stages"][0]["kind"] == "B"
            classes = set()
            for p_ in m["posix"]:
                classes.update(c for c in p_["cls"] if c != "oos")
            viol = []
            # (C08) every exec'd stage: exactly the shell's initial non-cloexec descriptors
            prev_shell = variants[False][full.index(s) - 1]["shell"] if full.index(s) else parse_table(
                ",".join("%d=inh%d" % (f, f) for f in [0, 1, 2] + sorted(extra_fds)))
            # the REAL initial table is not the model's when an earlier step leaked differently; use the
            # inheritance sentinel of the previous step when there is one
            allowed = set(fd for fd, (o, cx) in prev_shell.items() if not cx)
            for i, st in enumerate(s["stages"]):
                key = "%s.%d" % (s["tag"], i)
                if st["kind"] == "E" and key in recs:
                    got = set(recs[key]["fds"])
                    if got != allowed:
                        viol.append(("C08", "stage %d of `%s` starts with descriptors %s (shell had %s)" % (
                            i, texts[full.index(s)], sorted(got), sorted(allowed))))
                    # (C02/C04) sinks by identity against the POSIX reference
                    pos = m["posix"][i]
                    if pos["ok"]:
                        pairs = [(pos["sinks"][j], recs[key]["fds"][j][0], s["unop"]) for j in (0, 1, 2) if j in recs[key]["fds"]]
                        e = identity_check(pairs, work)
                        if e:
                            viol.append(("C04", "stage %d of `%s`: %s (reference %s)" % (i, texts[full.index(s)], e, pos["sinks"])))
                    else:
                        viol.append(("C04", "stage %d of `%s` ran although a target cannot be opened" % (i, texts[full.index(s)])))
                elif st["kind"] == "E" and m["posix"][i]["ok"] and not (died and "here" in classes):
                    viol.append(("C02", "stage %d of `%s` was not started" % (i, texts[full.index(s)])))
            # (C08) shell table restored: the next minfd / inheritance sentinel
            if not s.get("nosentinel") and not died:
                ikey = s["tag"] + "i.0"
                if ikey in recs and set(recs[ikey]["fds"]) != allowed:
                    viol.append(("C08", "after `%s` the shell passes descriptors %s to children (before: %s)" % (
                        texts[full.index(s)], sorted(recs[ikey]["fds"]), sorted(allowed))))
            out.setdefault("oracle", []).append((k, s, m, sorted(classes), viol))
        # (C08) the lowest free descriptor after every command is what it was before the first one
        if not died:
            first = lowest_free(parse_table(",".join("%d=inh%d" % (f, f) for f in [0, 1, 2] + sorted(extra_fds))))
            mains = [s for s in full if s["role"] == "main" and not s.get("nosentinel")]
            for s, val in zip(mains, minfds):
                if val != first:
                    for (k, s2, m, classes, viol) in out.get("oracle", []):
                        if s2 is s:
                            viol.append(("C08", "after `%s` minfd is %d (was %d): a descriptor leaked in the shell" % (
                                texts[full.index(s)], val, first)))
                    break
        # statuses
        for k, s in enumerate(full):
            if s["role"] == "status" and (s["tag"] + ".0") in recs:
                main = full[k - 1]
                got = recs[s["tag"] + ".0"]["argv"][1]
                exp = "@x%d" % expected_status(main)
                if got != exp:
                    out.setdefault("status_bad", []).append((main, exp, got))
        out["per_variant"] = per_variant
        out["recs"] = {k: {"fds": {str(f): v[0] for f, v in r["fds"].items()}, "stdin": r["stdin"]} for k, r in recs.items()}
        out["files"] = {n: open(os.path.join(work, n), "rb").read()[:400].decode("latin1") for n in sorted(os.listdir(work))
                        if re.match(r"^(f\d+|&1|&2)$", n)}
        out["files_full"] = {n: open(os.path.join(work, n), "rb").read() for n in os.listdir(work)
                             if re.match(r"^(f\d+|&1|&2)$", n)}
        out["present"] = sorted(present)
        out["out_txt"], out["err_txt"] = out_txt[:2000].decode("latin1"), err_txt[:2000].decode("latin1")
        if strace:
            out["l3"] = {}
            for v in VARIANTS:
                if v not in variants:
                    variants[v] = model_run(v)
                out["l3"][v] = l3_compare(variants[v][0], work, len(variants[v][0]["tr_kids"]))
                if not out["l3"][v]:
                    break
        out["died"] = died
        out["models"] = variants
        out["full"] = full
        out["texts"] = texts
    finally:
        shutil.rmtree(work, ignore_errors=True)
    return out


# ---------------------------------------------------------------- generators
def gen_stage(rng, i, n, step_paths, unop_pool, capture, weights):
    """one random stage; path ids are unique inside a step (two opens of one file in one step race)"""
    r = rng.random()
    kind = "E"
    if r < weights.get("builtin", 0.1):
        kind = "B"
    elif r < weights.get("builtin", 0.1) + weights.get("notfound", 0.05):
        kind = "N"
    frm = "-"
    r = rng.random()
    if r < weights.get("here", 0.15):
        frm = "h"
    elif r < weights.get("here", 0.15) + weights.get("from", 0.1):
        # a directory can be opened for reading, so an unopenable source is a path under a missing directory (odd id)
        frm = "<%d" % (rng.choice([31, 33, 35, 37]) if rng.random() < weights.get("unopenable", 0.1) else step_paths.pop())
    redirs = []
    if rng.random() < weights.get("redir", 0.5):
        for _ in range(rng.randint(1, weights.get("maxredir", 3))):
            c = rng.random()
            if c < 0.2:
                redirs.append("2&1")
            elif c < 0.35:
                redirs.append("1&2")
            else:
                tgt = unop_pool.pop() if (unop_pool and rng.random() < weights.get("unopenable", 0.1)) else step_paths.pop()
                redirs.append("%s%s%d" % (rng.choice("12"), rng.choice("ta"), tgt))
    if kind == "B":
        b = rng.choice(sorted(k for k in BUILTINS if k not in ("minfd", "alias zq=2", "cd .")))
        return mk_stage("B", frm if n > 1 else "-", redirs, BUILTINS[b][0], builtin=b)
    if kind == "N":
        return mk_stage("N", frm, redirs)
    code = rng.choice([0, 0, 0, 1, 2, 7, 255]) if i + 1 == n else rng.choice([0, 0, 3])
    return mk_stage("E", frm, redirs, acts=ext_acts(i, i > 0 or frm != "-", code=code), word="w%d" % i)


def gen_step(rng, weights, maxn=6):
    n = rng.choice([1, 1, 2, 2, 3, 4, 5, 6][:maxn + 2])
    paths = list(range(2, 30))
    rng.shuffle(paths)
    pool = list(range(30, 38))
    rng.shuffle(pool)
    capture = rng.random() < weights.get("capture", 0.15)
    unop = set()
    st = [gen_stage(rng, i, n, paths, pool, capture, weights) for i in range(n)]
    used = set()
    for s in st:
        for r in s["redirs"]:
            if r[1] != "&":
                used.add(int(r[2:]))
        if s["frm"].startswith("<"):
            used.add(int(s["frm"][1:]))
    unop = set(p for p in used if p >= 30)
    return {"stages": st, "capture": capture, "unop": unop}


def present_paths(steps, rng):
    pres = set()
    for s in steps:
        for st in s["stages"]:
            if st["frm"].startswith("<") and int(st["frm"][1:]) not in s["unop"]:
                pres.add(int(st["frm"][1:]))
            for r in st["redirs"]:
                if r[1] != "&" and int(r[2:]) not in s["unop"] and rng.random() < 0.5:
                    pres.add(int(r[2:]))
    # a path that is unopenable in one step must not be a plain file in another
    for s in steps:
        pres -= s["unop"]
    return pres


def runs_in_shell(step):
    """CommandLine::runs_in_shell (/repo 9dba15b): a builtin alone on its line, unless captured AND carrying redirections"""
    return step_has_builtin_single(step) and not (step["capture"] and step["stages"][0]["redirs"])


def step_has_builtin_single(step):
    return len(step["stages"]) == 1 and step["stages"][0]["kind"] == "B"


# ---------------------------------------------------------------- judging one sequence
CLASS_OF = {}


def judge(out, prop, known):
    """-> (violations [dict], knowns [(class, text)], accepted [text])"""
    viols, knowns, acc = [], [], []
    if out["bad"]:
        return [dict(kind="oracle", layer="L2", input=out["line"], observed="; ".join(out["bad"]), failing_input=True,
                     note="the real binary hangs or crashes on this line")], [], []
    full, models = out["full"], out["models"][False]
    here_steps = []   # the here-string on a non-first stage was repaired in /repo 567a7de
    # a here-string whose reader is gone before the shell writes the word (command not found, unopenable
    # redirection, builtin): the shell's write raises SIGPIPE, which is at its default -> the shell dies (a race)
    def reader_gone(s):
        for st in s["stages"]:
            if st["frm"] == "h" and (st["kind"] != "E" or any(r[1] != "&" and int(r[2:]) in s["unop"] for r in st["redirs"])
                                     or "r" not in (st["acts"] or "").split(",")):
                return True
        return False
    gone_steps = [s for s in full if s["role"] == "main" and reader_gone(s)]
    if out["died"] and gone_steps and "herestring-reader-gone" in known and not here_steps:
        knowns.append(("herestring-reader-gone", "the shell is killed by SIGPIPE while writing a here-string nobody reads: "
                       + out["texts"][full.index(gone_steps[0])]))
        return viols, knowns, acc
    if out["died"] and not ((here_steps and "herestring-nonfirst" in known) or (gone_steps and "herestring-reader-gone" in known)):
        return [dict(kind="oracle", layer="L2", input=out["line"], observed="the shell itself died with SIGPIPE (rc %s)" % out["rc"],
                     failing_input=True, note="the shell is killed by running this line")], [], []
    if out["died"]:
        knowns.append(("herestring-nonfirst", "here-string on a non-first stage: the word is lost and the shell is killed by SIGPIPE: "
                       + out["texts"][full.index(here_steps[0])]))
        return viols, knowns, acc
    if out["variant"] is None:
        # neither the faithful model nor the model of the repaired code describes what happened
        viols.append(dict(kind="correspondence", layer="L2", input=out["line"], model_as_is=out["per_variant"][False][:4],
                          model_repaired={str(k): v[:2] for k, v in out["per_variant"].items() if k}, observed=out["recs"], failing_input=False,
                          note="descriptor tables / minfd of the real binary differ from the model the theorems are about"))
    for (k, s, m, classes, v) in out.get("oracle", []):
        mine = [x for x in v if x[0] == prop or prop == "ALL"]
        if not v and classes and (out["variant"] or "").startswith("repaired"):
            acc.append("finding no longer reproduces: %s" % out["texts"][full.index(s)])
        for tag, text in mine:
            cls = [CLASS_OF[c] for c in classes if CLASS_OF.get(c) in known]
            if cls:
                knowns.append((cls[0], text))
            else:
                viols.append(dict(kind="oracle", layer="L2", input=out["texts"][full.index(s)], whole_line=out["line"],
                                  observed=text, model=m["kids"], failing_input=True,
                                  note="%s oracle fails on the implementation outside the recorded classes" % tag))
    for (main, exp, got) in out.get("status_bad", []):
        st0 = main["stages"][0]
        if runs_in_shell(main) and any(r[1] != "&" and int(r[2:]) in main["unop"] for r in st0["redirs"]):
            # a builtin alone on its line ignores a target it cannot open (status of the builtin instead of 1)
            if "builtin-redirect" in known and got == "@x%d" % BUILTINS.get(st0["builtin"], ("", 0))[1]:
                knowns.append(("builtin-redirect", "builtin with an unopenable target runs anyway: `%s` -> $? = %s" % (
                    render_step(main, "hp", None, main["tag"]), got[2:])))
                continue
        if prop in ("C02", "C04", "ALL"):
            viols.append(dict(kind="oracle", layer="L2", input=render_step(main, "hp", None, main["tag"]), whole_line=out["line"],
                              expected="$? = " + exp[2:], observed="$? = " + got[2:], failing_input=True,
                              note="status of the pipeline is not the status of its last stage"))
    return viols, knowns, acc


# ---------------------------------------------------------------- final file contents (C04: create / truncate / append)
TEXTS = {"alias zq=2": (b"", b""), "cd .": (b"", b""), "unalias zq_none_such": (None, None),
         "alias": (b"alias zq='1'\n", b""), "alias zz_none": (b"", b"cicada: alias: zz_none: not found\n"),
         "cd /no_such_dir_zq": (b"", b"cicada: cd: /no_such_dir_zq: No such file or directory\n"), "alias zq=1": (b"", b""),
         "minfd": (None, b"")}
NOTFOUND = b"cicada: no_such_cmd_zq: command not found\n"


def expected_files(out):
    """Reference contents of every candidate target file after the whole sequence, from the POSIX expectation of the
    model (opens in order with their modes, sinks) and what each stage writes.  -> (dict name -> bytes | None (absent)),
    set of names that cannot be predicted (known classes, races, lone builtins)."""
    full, models = out["full"], out["models"][False]
    content = {"f%d" % p: b"INIT%d\n" % p for p in out["present"]}
    skip = set()
    alt = {}        # finding captured-builtin-target-ignored: content when the captured lone builtin's text does not reach the file

    def name(obj, unop):
        pid = int(obj[1:].split(".")[0])
        return path_name(pid, unop)

    for s, m in zip(full, models):
        if s["role"] != "main":
            continue
        n = len(s["stages"])
        lone_builtin = runs_in_shell(s)
        for i, st in enumerate(s["stages"]):
            pos = m["posix"][i]
            touched = [path_name(int(o.split(".")[0]), s["unop"]) for o in pos["opens"]]
            from_bad = st["frm"].startswith("<") and int(st["frm"][1:]) in s["unop"]
            unsure = bool([c for c in pos["cls"] if c != "oos"]) or "oos" in pos["cls"]
            nxt = s["stages"][i + 1] if i + 1 < n else None
            if not pos["ok"] and (not lone_builtin or s["capture"]):
                unsure = True              # the diagnostic goes to the stage's current (possibly redirected) stderr
                                           # (an UNCAPTURED builtin alone on its line reports on the shell's own stderr; a captured one
                                           # with redirections runs in a forked child like a stage, see notes/C04-fix-7.patch)
            if nxt is not None and (nxt["kind"] != "E" or not m["posix"][i + 1]["ok"] or nxt["frm"] != "-"):
                unsure = True              # the reader may be gone before this stage writes (SIGPIPE)
            if unsure:
                skip.update(touched)
                continue
            if from_bad:
                continue                   # the child exits before it opens any target
            for o in pos["opens"]:
                pid, mode = o.split(".")
                nm = path_name(int(pid), s["unop"])
                if int(pid) in s["unop"]:
                    break
                if mode == "t" or content.get(nm) is None:
                    content[nm] = b""
            if not pos["ok"]:
                continue
            if st["kind"] == "E":
                so, se = b"", b""
                for a in (st["acts"] or "").split(","):
                    if a[:1] == "w":
                        so += pat(int(a[1:]))
                    elif a[:1] == "e":
                        se += pat(int(a[1:]))
            elif st["kind"] == "B":
                so, se = s.get("texts", TEXTS).get(st["builtin"], (None, None))
            else:
                so, se = b"", NOTFOUND
            for data, sink in ((so, pos["sinks"][1]), (se, pos["sinks"][2])):
                if sink.startswith("f"):
                    nm = name(sink, s["unop"])
                    if data is None:
                        skip.add(nm)
                    else:
                        content[nm] = (content.get(nm) or b"") + data
    return content, skip, alt


def check_files(out):
    """-> list of (file, expected, observed) that differ"""
    if "files_full" not in out or out.get("died"):
        return []
    exp, skip, alt = expected_files(out)
    bad = []
    out["lost_builtin_text"] = []
    names = set(exp) | set(out["files_full"])
    for nm in sorted(names):
        if nm in skip or "/" in nm or nm.startswith("d"):
            continue
        e, o = exp.get(nm), out["files_full"].get(nm)
        if e != o:
            bad.append((nm, None if e is None else e[:80].decode("latin1"), None if o is None else o[:80].decode("latin1")))
    return bad
