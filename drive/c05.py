"""C05 -- no input line, script or keystroke sequence crashes or hangs the shell.

L1 (in-process, catch_unwind + watchdog; outcomes line / PANIC / HANG / CRASH):
  L1a `line`: EVERY string up to length 4 (thorough 5) over the 14-symbol alphabet A14, every
      string up to length 3 (thorough 4) over the complementary alphabet B14, plus random
      strings of length 5..12 over both: line_to_cmds -> per segment parse_line, is_arithmetic
      (compared with the model), the REAL do_expansion and CommandLine::from_line
      (implementation only), then the model's planner + first-word look-ups applied to the
      implementation's expanded tokens must equal the implementation's plan and look-ups
      (a wordless stage must be REJECTED: E(EEmpty)).
  L1b `hl`/`ws`/`misc`: highlighter ranges, escaped_word_start, is_arithmetic on every string up
      to length 4 (thorough 5) over the 12-symbol multi-byte alphabet HL12 and on the L1a strings.
  L1d token lists (every untagged list of <= 4 tokens over `< <<< > >> 2>&1 a | &`, quoted mixes, random longer) into
      tokens_to_redirections / Command::from_tokens, and the same words as lines with blanks + multi-byte text
      around pipes through the `line` op.
  L1e alias expansion: the real shell::expand_alias on short lines under alias tables whose values tokenize to 0, 1,
      2+ words (blanks, a comment, an operator, a lone quote ...) = Model/AliasSites.v (explicit Vec::remove / insert
      sites); the same tables through the `line` op; L2 scripts that define and use such aliases, then the sentinel.
  L1c `hlr`: find_token_range_heuristic at ARBITRARY byte offsets (inside characters, past the
      end) and arbitrary tokens: the model's Panic must coincide with the implementation's.
L2 (real binary, watchdog): A14 strings up to length 2 + 1500 of length 3 (thorough: all up to 4) and grammar/mutation
      generated lines up to 200 chars with multi-byte text, each through `cicada -c <line>` and as
      a two-line script <line> / <sentinel>: no crash status (101/134/139/signal), no timeout,
      no panic message, the sentinel line still runs.
L3 (thorough; a few sessions in quick) pty: random printable-Unicode key sequences with TAB and
      Enter, then a sentinel command must be answered.
No own known class is left (the empty-command panic is repaired in /repo by baff407 and the planner model follows
it: theorem C05_full). One foreign class of Model/C05Classes.v (C19 calculator recursion depth) is mirrored here and
compared with the extracted version.
Round 9 -- PANIC-SITE TIE: gen() re-scans the anchored Rust files of C.REPO with tools/panicsites.py (index / slice / unwrap /
      expect / panicking macros / Vec-String remove-insert-drain-splice-split / non-literal divisors / integer casts /
      regex constructions / length bindings and comparisons that guard the above) and compares with the pinned, annotated
      inventory pins/C05-panicsites.json.  A site that is not in the pin = the tie between model and code is broken THERE:
      the search is directed at the function that contains it (larger exhaustive sizes for the layer that reaches it);
      a failing input -> ordinary VIOLATION; none -> VIOLATION kind=tie, no-failing-input-found."""
import itertools, json, os, re, shutil, subprocess, sys, tempfile, time
from concurrent.futures import ThreadPoolExecutor
import common as C
sys.path.insert(0, os.path.join(C.VERIF, "tools"))
import panicsites  # noqa

PIN_SITES = os.path.join(C.VERIF, "pins", "C05-panicsites.json")


def scan_sites():
    """-> {"new": [...], "removed": [...], "n_pinned": n, "n_current": n, "focus": [tags], "error": str?}"""
    pinned = json.load(open(PIN_SITES))
    out = {"n_pinned": len(pinned), "new": [], "removed": [], "focus": []}
    try:
        cur = panicsites.inventory(C.REPO)
    except (panicsites.ScanError, OSError, UnicodeDecodeError, IndexError, StopIteration) as e:
        # a file the scanner cannot read any more: nothing is known about ANY of its sites -> search everywhere
        out["error"] = "%s: %s" % (type(e).__name__, e)
        out["focus"] = sorted(set(t for v in FOCUS_BY_FILE.values() for t in v))
        return out
    out["n_current"] = len(cur)
    new, removed = panicsites.diff(pinned, cur)
    strip = lambda d: {k: d[k] for k in ("file", "function", "kind", "expr", "ordinal")}
    out["new"], out["removed"] = [strip(d) for d in new], [dict(strip(d), disposition=d.get("disposition")) for d in removed]
    out["focus"] = sorted(set(t for d in new for t in focus_of(d)))
    return out


# which search reaches the function that contains a new site
FOCUS_BY_FILE = {"src/parsers/parser_line.rs": ["tok"], "src/types.rs": ["toklists", "tok", "expand"], "src/shell.rs": ["expand"],
                 "src/highlight.rs": ["hl"], "src/completers/mod.rs": ["hl"], "src/calculator/mod.rs": ["calc"],
                 "src/core.rs": ["l2", "toklists"], "src/tools.rs": ["l2", "expand", "calc"], "src/libs/re.rs": ["l2", "expand"],
                 "src/execute.rs": ["l2"], "src/scripting.rs": ["l2"]}


def focus_of(d):
    fn = d["function"].split("::")[-1]
    if d["file"] == "src/shell.rs" and fn == "expand_alias":
        return ["alias"]
    if d["file"] == "src/parsers/parser_line.rs" and fn in ("tokens_to_redirections", "unquote"):
        return ["toklists", "tok"]
    if d["file"] == "src/core.rs" and "calculator" in fn:
        return ["calc"]
    if d["file"] == "src/shell.rs" and d["function"].startswith("Shell::"):
        return ["l2"]
    return FOCUS_BY_FILE.get(d["file"], ["l2"])


def gen(ctx):
    """round 9: the panic-site inventory of the CURRENT source against the pinned one (no Coq file is generated)"""
    ctx.panic_sites = scan_sites()


def big(ctx, tag):
    """thorough sizes for a layer: in a thorough run, or when a new panic site directs the search there"""
    return ctx.thorough or tag in getattr(ctx, "focus", ())

EXTRACT = ["C05"]
BINS = ["c05"]
NEEDS_CICADA = True
ALLOWED_AXIOMS = []
PINNED = ["C05_highlight_total", "C05_highlight_line", "C05_range_no_panic", "C05_slice_exact", "C05_word_start_total",
          "C05_from_tokens_total", "C05_plan_total", "C05_tokenizer_lookups", "C05_alias_total", "C05_full", "C05_regression",
          "C05_fix_conservative", "C05_first_word_exact", "C05_shell_panic_iff", "C05_head_word",
          "C05_never_empty_with_head_words"]
TRUSTED = [
    "Coq 8.16.1 kernel; vm_compute in witnesses/examples only",
    "hand transcription of find_token_range_heuristic + the highlight loop (Model/Highlight.v), escaped_word_start "
    "(Model/WordStart.v), the first-word look-ups of run_proc/run_pipeline and the guarded look-ups of the tokenizer "
    "(Model/FirstWord.v), on top of Model/{Tokenizer,Cmds,Redirect}.v; tied by differential execution on every run",
    "the in-process emulation of run_pipeline's look-ups in harness/src/bin/c05.rs (real methods is_empty / "
    "is_single_and_builtin / is_builtin and the index expression of try_run_func, no fork); the real run_pipeline is "
    "reached by L2 only",
    "extraction ExtrOcamlBasic; ocaml/c05/drv.ml; harness/src/bin/c05.rs; drive/c05.py",
]
ASSUMES = ["expansion (shell.rs), the calculator, the two pest grammars, the regex crate and lineread are not modelled here: "
           "their panics / hangs are only observed (L1 implementation-only stages, L2, L3) and classified by known_foreign",
           "usize arithmetic on byte offsets does not overflow (operands bounded by the line length)"]

A14 = ["a", "1", " ", "'", '"', "\\", "$", "(", ")", "|", ">", "<", ";", "&"]
B14 = ["a", "1", " ", '"', "\\", "`", "*", "~", "=", "{", "}", "#", "é", "\n"]
HL12 = ["a", "é", "€", "\U0001F600", "　", " ", "'", '"', "\\", "|", ";", "$"]

CRASH_RC = (101, 134, 139)


# ------------------------------------------------------------------ foreign classes (mirror of Model/C05Classes.v)
def is_arithmetic(l):
    if not any("0" <= c <= "9" for c in l) or not any(c in "+-*/^" for c in l) or len(l) < 2:
        return False
    return all(c in " 0123456789.()+-*/^" for c in l[:-1]) and l[-1] in ".0123456789 )"


def known_foreign(l):
    """the only crash class left whose mechanism belongs to another property (C19 stack_overflow)"""
    if is_arithmetic(l) and (l.count("(") >= 1000 or l.count("^") >= 1000):
        return ["calc-deep"]
    return []


# failure mode each foreign class tolerates
FOREIGN_MODE = {"calc-deep": ("CRASH",)}
FOREIGN_NAME = {"calc-deep": "foreign-calc-stack-overflow"}


class V:
    """violation / known bookkeeping with a cap per layer"""
    def __init__(self, res, known):
        self.res, self.known, self.n = res, known, {}

    def violate(self, layer, **kw):
        self.n.setdefault(layer, []).append(kw)

    def flush(self):
        """report at most 3 violations per layer, those with a failing input (panic / hang / oracle) first"""
        for layer, l in self.n.items():
            l.sort(key=lambda kw: 0 if kw.get("failing_input", True) else 1)
            for kw in l[:3]:
                self.res.violate(layer=layer, **kw)
            self.res.extra.setdefault("violations_per_layer", {})[layer] = len(l)

    def hit(self, cls, text):
        if cls in self.known:
            self.res.known(cls, "class=%s %s" % (cls, text))
            return True
        return False

    def foreign(self, layer, line, mode, observed):
        """an implementation-side PANIC / HANG outside the modelled stages"""
        for c in known_foreign(line):
            if mode in FOREIGN_MODE[c] and self.hit(FOREIGN_NAME[c], "e.g. %r... (%d chars) -> %s (%s)" % (line[:24], len(line), mode, layer)):
                return
        self.violate(layer, kind="oracle", input=line, observed=observed, failing_input=True,
                     note="the implementation %s on this input; no stage of the model can, and the input is in no "
                          "known class that tolerates this failure mode" % {"PANIC": "panics", "HANG": "hangs",
                                                                           "CRASH": "dies", "NOT-RUN": "did not run"}.get(mode, mode))


def all_strings(alpha, maxlen):
    out = []
    for n in range(0, maxlen + 1):
        for t in itertools.product(alpha, repeat=n):
            out.append("".join(t))
    return out


def parse_tokens(s):
    out = []
    i = 1
    while i < len(s) and s[i] == "(":
        j = s.index('"', i + 2)
        tag = C.dec(s[i + 2:j])
        k = j + 3
        e = s.index('"', k)
        out.append((tag, C.dec(s[k:e])))
        i = e + 3
    return out


def confirm_abnormal(impl, cases, io, tag):
    """HANG / CRASH / NOT-RUN of a sharded run are re-run alone with a long watchdog: on a loaded machine the
    2.5 s watchdog can fire on a healthy case. (PANIC is deterministic and kept.) cases = the case-file lines."""
    idx = [i for i, o in enumerate(io) if o in ("HANG", "CRASH", "NOT-RUN")]
    if not idx or len(idx) > 400:
        return io
    p = C.write_cases("c05_confirm_%s.txt" % tag, [cases[i] for i in idx])
    again = C.run_impl(impl, p, len(idx), shards=min(4, len(idx)), env={"HX_CASE_TIMEOUT_MS": "10000"})
    io = list(io)
    for i, o in zip(idx, again):
        io[i] = o
    return io


SEG = re.compile(r"^S tok=(.*) arith=([01]) exp=(.*) plan=(.*) fw=(\S+)$")


def layer1a(ctx, res, vv, lines, tag, tables=None):
    """tables (optional): per line, the alias table [name, value, name, value ...] of the shell that plans it"""
    model, impl = ctx.model["C05"], ctx.bins["c05"]
    lcases = [C.case("line", s, *(tables[i] if tables else [])) for i, s in enumerate(lines)]
    p = C.write_cases("c05_line_%s.txt" % tag, lcases)
    pf = C.write_cases("c05_front_%s.txt" % tag, [C.case("front", s) for s in lines])
    io = C.run_impl(impl, p, len(lines), env={"HX_CASE_TIMEOUT_MS": "2500"})
    io = confirm_abnormal(impl, lcases, io, tag)
    if tables:
        shown = ["%r under aliases %r" % (s, dict(zip(t[0::2], t[1::2]))) for s, t in zip(lines, tables)]
    else:
        shown = lines
    mf = C.run_model(model, pf)
    backs, where = [], []
    stats = {}
    for ix, (s, o, m) in enumerate(zip(shown, io, mf)):
        if o in ("PANIC", "HANG", "CRASH", "NOT-RUN"):
            stats[o] = stats.get(o, 0) + 1
            vv.foreign("L1a", s, o, o)
            continue
        parts = o.split("\t")
        front = [parts[0]]
        segs = []
        for sp in parts[1:]:
            mm = SEG.match(sp)
            if not mm:
                vv.violate("L1a", kind="correspondence", input=s, impl=o, failing_input=False, note="unparsable harness output")
                break
            front.append("S tok=%s arith=%s" % (mm.group(1), mm.group(2)))
            segs.append(mm)
        if "\t".join(front) != m:
            vv.violate("L1a", kind="correspondence", function="line_to_cmds / parse_line / is_arithmetic", input=s,
                       model=m, impl="\t".join(front), failing_input=False,
                       note="splitter or tokenizer differs from the model the C05 totality theorems are about")
            continue
        for k, mm in enumerate(segs):
            fl = []
            for tg, tx in parse_tokens(mm.group(3)):
                fl += [tg, tx]
            backs.append("back\t%s\t%s" % (mm.group(2), "\t".join(C.enc(x) for x in fl)))
            where.append((ix, k, mm))
    pb = C.write_cases("c05_back_%s.txt" % tag, backs)
    mb = C.run_model(model, pb) if backs else []
    for (ix, k, mm), m in zip(where, mb):
        s = shown[ix]
        got = "plan=%s fw=%s" % (mm.group(4), mm.group(5))
        mfw = m.rsplit(" fw=", 1)[1]
        ifw = mm.group(5)
        fine = lambda f: f in ("Skip", "Calc", "Run[]", "-")
        if "OUT-OF-FUEL" in m or not fine(mfw):
            vv.violate("L1a", kind="oracle", input=s, model=m, impl=got, failing_input=True,
                       note="the MODEL runs out of fuel or predicts a first-word panic: theorems C05_from_tokens_total / C05_full say it cannot")
            continue
        if got != m:
            bad = not fine(ifw)
            vv.violate("L1a", kind="oracle" if bad else "correspondence", function="from_line glue / first-word look-ups",
                       input=s, model=m, impl=got, failing_input=bad,
                       note=("the first-word look-ups panic on a planned command without words (index [0] of an empty token "
                             "list); the model rejects this line with the empty-command error" if bad else
                             "planner or first-word look-ups differ from Model/Redirect.v + Model/FirstWord.v"))
            continue
        if "E(EEmpty)" in m:
            stats["rejected-empty-command"] = stats.get("rejected-empty-command", 0) + 1
            res.nontrivial("empty:" + mm.group(3))
        elif mm.group(3) != mm.group(1) or "redirs=[(" in m or "E(" in m:
            res.nontrivial("plan:" + mm.group(3)[:60])
    res.count("L1a_pure_stages_" + tag, len(lines))
    for k, v in stats.items():
        res.extra.setdefault("l1a_outcomes", {})[tag + ":" + k] = v
    if lines:
        i = 4321 % len(lines)
        res.sample({"layer": "L1a", "input": lines[i], "impl": io[i][:300], "model_front": mf[i][:200]})


def layer1b(ctx, res, vv, lines):
    model, impl = ctx.model["C05"], ctx.bins["c05"]
    for op, fn in (("hl", "Highlighter::highlight (ranges)"), ("ws", "escaped_word_start"), ("misc", "is_arithmetic")):
        p = C.write_cases("c05_%s.txt" % op, [C.case(op, s) for s in lines])
        mo, io = C.run_model(model, p), C.run_impl(impl, p, len(lines))
        for s, a, b in zip(lines, mo, io):
            if a == b:
                if op == "hl" and any(ord(c) > 127 for c in s) and a.count("(") > 1:
                    res.nontrivial("hl:" + s)
                continue
            if b in ("PANIC", "HANG", "CRASH", "NOT-RUN"):
                if op == "misc":
                    vv.foreign("L1b", s, b, b)
                else:
                    vv.violate("L1b", kind="oracle", function=fn, input=s, model=a, observed=b, failing_input=True,
                               note="%s %s on this text; the theorem says the modelled code cannot" % (fn, b))
            else:
                vv.violate("L1b", kind="correspondence", function=fn, input=s, model=a, impl=b, failing_input=False,
                           note="%s differs from its model" % fn)
        res.count("L1b_" + op, len(lines))
    res.sample({"layer": "L1b", "input": lines[len(lines) // 2], "model_hl": mo[len(lines) // 2]})


def layer1c(ctx, res, vv):
    rng = ctx.rng
    model, impl = ctx.model["C05"], ctx.bins["c05"]
    cases, desc = [], []
    for _ in range(60000 if big(ctx, "hl") else 12000):
        line = "".join(rng.choice(HL12) for _ in range(rng.randint(0, 7)))
        nb = len(line.encode())
        start = rng.randint(0, nb + 2)
        tg = rng.choice(["", "", "'", '"', "`", "\\"])
        if line and rng.random() < 0.7:
            i = rng.randrange(len(line))
            word = line[i:i + rng.randint(0, 3)]
        else:
            word = "".join(rng.choice(HL12) for _ in range(rng.randint(0, 2)))
        cases.append("hlr\t%d\t%s\t%s\t%s" % (start, C.enc(tg), C.enc(word), C.enc(line)))
        desc.append((start, tg, word, line))
    p = C.write_cases("c05_hlr.txt", cases)
    mo, io = C.run_model(model, p), C.run_impl(impl, p, len(cases))
    npanic = 0
    for d, a, b in zip(desc, mo, io):
        if a == "PANIC":
            npanic += 1
        if a != b:
            vv.violate("L1c", kind="correspondence", function="find_token_range_heuristic", input=repr(d), model=a, impl=b,
                       failing_input=False, note="outcome (range / None / PANIC) differs: the model's Panic sites are not the implementation's")
        elif a not in ("PANIC", "None"):
            res.nontrivial("hlr:%r" % (d,))
    res.count("L1c_find_token_range", len(cases))
    res.extra["l1c_model_panics_matched"] = npanic


TOKWORDS = ["<", "<<<", ">", ">>", "2>&1", "a", "|", "&"]


def layer1d(ctx, res, vv):
    """token lists straight into tokens_to_redirections / Command::from_tokens (the `<` / `<<<` removal loop with its
    running length, the to-be-continued state of `>`), and the same words as LINES with blanks through the whole pipeline"""
    rng = ctx.rng
    model, impl = ctx.model["C05"], ctx.bins["c05"]
    syms = [(tg, w) for w in TOKWORDS for tg in ("", "'")]
    lists = []
    for n in range(0, 5):                                  # every untagged list up to 4 tokens (4,681)
        lists += [[("", w) for w in t] for t in itertools.product(TOKWORDS, repeat=n)]
    for n in range(1, (4 if big(ctx, "toklists") else 3) + 1):     # with quoted tokens mixed in
        lists += [list(t) for t in itertools.product(syms, repeat=n) if any(tg for tg, _ in t)]
    if "toklists" in getattr(ctx, "focus", ()):            # directed: every untagged list of 5 tokens too (32,768)
        lists += [[("", w) for w in t] for t in itertools.product(TOKWORDS, repeat=5)]
    for _ in range(20000 if big(ctx, "toklists") else 4000):
        lists.append([rng.choice(syms) for _ in range(rng.randint(4, 7))])
    cases = []
    for l in lists:
        fl = "\t".join(C.enc(x) for t in l for x in t)
        cases.append("fromtok\t" + fl)
        cases.append("redir\t" + fl)
    p = C.write_cases("c05_toklists.txt", cases)
    mo, io = C.run_model(model, p), C.run_impl(impl, p, len(cases))
    for c, a, b in zip(cases, mo, io):
        if a == b:
            if a.startswith("C(") and "from=(" in a:
                res.nontrivial("fromtok:" + c[:60])
            continue
        fs = [C.dec(x) for x in c.split("\t")[1:]]
        shown = " ".join(("%s%s%s" % (fs[i], fs[i + 1], fs[i])) for i in range(0, len(fs) - 1, 2))   # quoted tokens shown quoted
        if b in ("PANIC", "HANG", "CRASH", "NOT-RUN") or "OUT-OF-FUEL" in a:
            vv.violate("L1d", kind="oracle", function=c.split("\t")[0], input="token list: " + shown, model=a,
                       observed=b, failing_input=True,
                       note="Command::from_tokens / tokens_to_redirections %s on this token list; the model (theorems "
                            "C05_from_tokens_total, structural redirection parser) cannot" % b)
        else:
            vv.violate("L1d", kind="correspondence", function=c.split("\t")[0], input="token list: " + shown, model=a, impl=b,
                       failing_input=False, note="redirection parser / from_tokens differs from Model/Redirect.v")
    res.count("L1d_token_lists", len(cases))
    # the same words as lines (tokenizer in the loop), and multi-byte text around pipes
    lines = []
    for l in lists[:4681] + [x for x in lists[4681:] if len(x) <= 3]:
        lines.append(" ".join(("'%s'" % w) if tg else w for tg, w in l))
    mb = ["数据库", "é", "|", "||", "a", "'数 据'", "€", ">"]
    for n in range(1, 4):
        for t in itertools.product(mb, repeat=n):
            lines.append(" ".join(t))
            lines.append("".join(t))
    lines += ["echo 数据库 | wc -l", "echo 数据库|wc", "数|据", "€|", "é||a", "cat < in.txt <<<", "cat <<< x < in.txt", "a < b <<<"]
    lines = sorted(set(lines))
    layer1a(ctx, res, vv, lines, "TOK")


ALIAS_VALUES = ["", "  ", "\t", "#c", "# a b", "b", "b c", "b #c", "|", "| b", "b |", "'", "\"", "'q r'", "a", "1 a", "> f",
                "\\", "é  ", "$(", "&", ";"]


def alias_tables():
    out = []
    for v in ALIAS_VALUES:
        out.append(["a", v, "1", "x y"])
        out.append(["a", "b", "1", v])
    return out


def layer1e(ctx, res, vv):
    """alias expansion: the real expand_alias on every short line under alias tables whose values tokenize to 0, 1,
    2+ words (only blanks, a comment, an operator, a lone quote, ...) = the model with explicit remove / insert
    sites (theorem C05_alias_total); and the same tables through the whole `line` pipeline."""
    model, impl = ctx.model["C05"], ctx.bins["c05"]
    tabs = alias_tables()
    if big(ctx, "alias"):
        short = all_strings(A14, 3) + [x for x in all_strings(A14, 4) if len(x) == 4 and ("a" in x or "1" in x)]
    else:
        short = all_strings(A14, 2) + [x for x in all_strings(A14, 3) if len(x) == 3 and ("a" in x or "1" in x)]
    target = ["a", "1", "x | a", "a | 1", "a;1", "a && 1", "xargs a", "x | xargs 1", "1 a", "'a'", "a a", "a|a|a", "\\a", "a #x",
              "x |a", "a > f", "a=1 a", "a &"]
    lines = short + target
    cases, desc = [], []
    for t in tabs:
        for l in lines:
            cases.append(C.case("alias", l, *t))
            desc.append((l, t))
    p = C.write_cases("c05_alias.txt", cases)
    mo, io = C.run_model(model, p), C.run_impl(impl, p, len(cases))
    n_empty = 0
    for (l, t), a, b in zip(desc, mo, io):
        if a == b:
            if a == "[]" and l.strip():
                n_empty += 1
                res.nontrivial("alias-to-nothing:%r%r" % (l, t))
            continue
        inp = "%r under aliases %r" % (l, dict(zip(t[0::2], t[1::2])))
        if b in ("PANIC", "HANG", "CRASH", "NOT-RUN") or a == "PANIC":
            vv.violate("L1e", kind="oracle", function="shell::expand_alias", input=inp, model=a, observed=b, failing_input=True,
                       note="expand_alias %s; theorem C05_alias_total says the modelled code never removes / inserts out of range, "
                            "whatever number of words the alias value tokenizes to" % b)
        else:
            vv.violate("L1e", kind="correspondence", function="shell::expand_alias", input=inp, model=a, impl=b,
                       failing_input=False, note="expand_alias differs from Model/Alias.v + Model/AliasSites.v")
    res.count("L1e_expand_alias", len(cases))
    res.extra["l1e_lines_expanded_to_nothing"] = n_empty
    # whole pipeline under the same tables
    plines, ptabs = [], []
    for t in tabs:
        for l in all_strings(A14, 2 if not big(ctx, "alias") else 3) + target:
            if "a" in l or "1" in l:
                plines.append(l)
                ptabs.append(t)
    layer1a(ctx, res, vv, plines, "ALIAS", tables=ptabs)


def layer_front(ctx, res, vv, lines, tag):
    """directed (round 9): splitter + tokenizer + is_arithmetic alone, model = implementation, on every given string"""
    model, impl = ctx.model["C05"], ctx.bins["c05"]
    cases = [C.case("front", s) for s in lines]
    p = C.write_cases("c05_frontd_%s.txt" % tag, cases)
    io = C.run_impl(impl, p, len(lines), env={"HX_CASE_TIMEOUT_MS": "2500"})
    io = confirm_abnormal(impl, cases, io, "fd" + tag)
    mo = C.run_model(model, p)
    for s, a, b in zip(lines, mo, io):
        if a == b:
            continue
        if b in ("PANIC", "HANG", "CRASH", "NOT-RUN"):
            vv.violate("L1f", kind="oracle", function="line_to_cmds / parse_line / is_arithmetic", input=s, model=a, observed=b,
                       failing_input=True, note="the splitter / tokenizer %s on this line; the model (C05_tokenizer_lookups, "
                                                "structural tokenizer) cannot" % b)
        else:
            vv.violate("L1f", kind="correspondence", function="line_to_cmds / parse_line / is_arithmetic", input=s, model=a, impl=b,
                       failing_input=False, note="splitter or tokenizer differs from the model the C05 totality theorems are about")
    res.count("L1f_directed_front_" + tag, len(lines))


CALC12 = ["1", "9", " ", "+", "-", "*", "/", "^", "(", ")", ".", "0"]
CALC_LIMITS = ["2^63/-1", "-9223372036854775808 / -1", "(0-9223372036854775807-1)/(0-1)", "(9223372036854775807 + 1) / (1 - 2)",
               "2^63 * -1", "9223372036854775807 * 9223372036854775807", "0 - 9223372036854775807 - 2", "1 / (1 - 1)", "2^63 ^ 2",
               "(0-2) ^ 63", "(0-2) ^ 64", "0 ^ 0", "1.0 / 0", "2^63 / -1.0", "7 / -1", "2 ^ -1", "2 ^ 4294967296", "1 % 0", "1 / 0.0",
               "9223372036854775807 + 1", "99999999999999999999 + 1", "1e5 + 1", "1..2 + 1", "1. + .1", "(1)(2) + 1", "1 +- 2", "2 ^ 2 ^ 2 ^ 2 ^ 2"]


def layer_calc(ctx, res, vv):
    """directed (round 9): every string up to length 5 over CALC12 + the i64 limit lines through is_arithmetic and, when it says
    yes, the real calculator (op misc)"""
    impl = ctx.bins["c05"]
    lines = all_strings(CALC12, 5) + CALC_LIMITS
    for a in CALC_LIMITS:
        for b in ("+", "-", "*", "/", "^"):
            lines.append("(%s) %s (%s)" % (a, b, ctx.rng.choice(CALC_LIMITS)))
    cases = [C.case("misc", s) for s in lines]
    p = C.write_cases("c05_calcd.txt", cases)
    io = C.run_impl(impl, p, len(lines), env={"HX_CASE_TIMEOUT_MS": "2500"})
    io = confirm_abnormal(impl, cases, io, "calcd")
    for s, b in zip(lines, io):
        if b in ("PANIC", "HANG", "CRASH", "NOT-RUN"):
            vv.foreign("L1g", s, b, b)
    res.count("L1g_directed_calculator", len(lines))


# ------------------------------------------------------------------ L2
WORDS = ["echo", "true", "false", "a", "b", "cd", "export", "alias", "unalias", "set", "unset", "jobs", "x=1", "A=b",
         "$A", "${A}", "$?", "$$", "~", "*", "?", "[a]", "{a,b}", "{1..3}", "'q r'", '"q $A r"', "`echo a`", "$(echo a)",
         "1", "2", "+", "-", "^", "99999999999", "été", "中文", "\U0001F600", "　", "-n", "--", "!!", "#c"]
OPS = ["|", "||", "&&", ";", "&", ">", ">>", "<", "<<<", "2>&1", "1>&2", "2>", ">&2", "(", ")", "$(", "`", "'", '"', "\\", "{", "}", "${", "=", "$"]


def gen_l2_lines(ctx, n):
    rng = ctx.rng
    out = []
    seeds = ["echo a | cat > f", "echo $(echo a) `echo b` > /dev/null", "A=1 echo $A && echo ${A} || true ; false &",
             "echo 'a b' \"c $A d\" e\\ f", "echo {1..3} {a,b}c ~ *", "1 + 2 * (3 - 1)", "cat <<< 'x y' | cat 2>&1",
             "alias q='echo it' ; q ; unalias q", "export B=été ; echo $B 中文 \U0001F600"]
    while len(out) < n:
        r = rng.random()
        if r < 0.55:      # grammar: words and operators
            k = rng.randint(1, 14)
            parts = []
            for _ in range(k):
                parts.append(rng.choice(OPS) if rng.random() < 0.35 else rng.choice(WORDS))
            line = "".join(p + (" " if rng.random() < 0.8 else "") for p in parts)
        elif r < 0.9:     # mutation of a seed
            line = list(rng.choice(seeds))
            for _ in range(rng.randint(1, 4)):
                m = rng.random()
                pos = rng.randrange(len(line) + 1)
                if m < 0.4 and line:
                    del line[min(pos, len(line) - 1)]
                elif m < 0.8:
                    line.insert(pos, rng.choice(OPS + ["é", "　", " ", "1"]))
                elif line:
                    line[min(pos, len(line) - 1)] = rng.choice(OPS)
            line = "".join(line)
        else:             # long repetition
            u = rng.choice(OPS + WORDS)
            line = (u + rng.choice(["", " "])) * rng.randint(10, 60)
        line = line[:200]
        if "\x00" in line or re.search(r"\b(exit|exec|source|fg|bg|read|vox|history)\b", line):
            continue
        if line.count("{a,b}") + line.count("{1..3}") > 8:   # 2^n words: slow by design, in every shell
            continue
        out.append(line)
    return out


def run_l2_one(ctx, work, ix, line, script_text=None):
    d = tempfile.mkdtemp(prefix="l2_", dir=work)
    res = {}
    script = os.path.join(d, "s.sh")     # NOT in the cwd of the runs: a line like `a > *` would clobber it
    with open(script, "w") as f:
        f.write((script_text if script_text is not None else line) + "\necho C05-SENTINEL\n")
    for mode, argv in (("c", [ctx.cicada, "-c", line]), ("script", [ctx.cicada, script])):
        cwd = os.path.join(d, "cwd_" + mode)
        os.makedirs(cwd)
        env = {"HOME": cwd, "XDG_CONFIG_HOME": cwd, "PATH": "/usr/bin:/bin", "LANG": "C.UTF-8", "RUST_BACKTRACE": "0",
               "HISTORY_FILE": os.path.join(d, "h_%s.sqlite" % mode)}
        try:
            pr = subprocess.run(argv, cwd=cwd, env=env, stdin=subprocess.DEVNULL, stdout=subprocess.PIPE,
                                stderr=subprocess.PIPE, timeout=5, start_new_session=True)
            rc, out, err = pr.returncode, pr.stdout.decode("utf-8", "replace"), pr.stderr.decode("utf-8", "replace")
        except subprocess.TimeoutExpired as ex:
            rc, out, err = "TIMEOUT", (ex.stdout or b"").decode("utf-8", "replace"), (ex.stderr or b"").decode("utf-8", "replace")
        m = re.search(r"panicked at ([^\n]*)\n?([^\n]*)", err)
        res[mode] = {"rc": rc, "panic": (m.group(1)[:80] + " " + m.group(2)[:80]) if m else None, "sentinel": "C05-SENTINEL" in out}
    shutil.rmtree(d, ignore_errors=True)
    return res


def judge_l2(line, r):
    """-> (mode, detail) of the worst failure, or None"""
    for mode in ("c", "script"):
        x = r[mode]
        if x["rc"] == "TIMEOUT":
            return "HANG", "%s: timeout" % mode
        if x["panic"]:
            died = x["rc"] in CRASH_RC or (isinstance(x["rc"], int) and x["rc"] < 0)
            if mode == "script" and x["sentinel"] and not died:
                return "PANIC", "%s: a child of the shell panicked at %s" % (mode, x["panic"])
            return "PANIC", "%s: rc=%s panicked at %s" % (mode, x["rc"], x["panic"])
        if x["rc"] in (134, 139, 141) or (isinstance(x["rc"], int) and x["rc"] < 0):
            return "CRASH", "%s: rc=%s (killed by a signal / abort)" % (mode, x["rc"])
    x = r["script"]
    if not x["sentinel"] and not line.rstrip(" \t").endswith("\\"):
        return "NO-SENTINEL", "script: rc=%s, the line after the input did not run" % x["rc"]
    return None


def layer2(ctx, res, vv, work):
    model, impl = ctx.model["C05"], ctx.bins["c05"]
    if ctx.thorough:
        short = all_strings(A14, 4)
    else:   # quick: every string up to 2 and a seeded third of those of length 3 (two process spawns per line)
        short = all_strings(A14, 2) + ctx.rng.sample(["".join(t) for t in itertools.product(A14, repeat=3)], 1500)
    rnd = gen_l2_lines(ctx, 6000 if ctx.thorough else 3000 if big(ctx, "l2") else 600)
    corpus = ["> f", "< f", "2>&1", "echo a | > f", "a>b>c", "A=1 > f", "echo $(<)", "echo {2147483646..2147483647}",
              "99999999999999999999 + 1", "2 ^ 64", "A='$A'; echo $A", "echo \"a\n$HOME\"", "echo $(ls >)", "echo ${A",
              "echo `>`", "echo a | cat <<< x", "echo 'unbalanced", "echo \"unbalanced", "echo $(", "echo ((1)", "a && && b", "| a",
              "a ||| b", ";;", "& &", "echo a >", "echo a > > f", "echo 9999999999999999999", "1 +", "(1 + 2", "1 / 0", "ls 3>&9", "2 ^ -1", "2 ^ 4294967296",
              # arithmetic at the limits of i64: every operator with operands at / across the limits (a wrapped value or a
              # diagnostic, never a crash) -- seed C05-int-min-div-minus-one-panics
              "2^63/-1", "-9223372036854775808 / -1", "(0-9223372036854775807-1)/(0-1)", "(9223372036854775807 + 1) / (1 - 2)",
              "2^63 * -1", "-9223372036854775808 * -1", "9223372036854775807 * 9223372036854775807", "0 - 9223372036854775807 - 2",
              "-9223372036854775808 - 1", "9223372036854775807 + 9223372036854775807", "1 / (1 - 1)", "(2^63) / (0 - 1) + 1",
              "2^63 ^ 2", "(0-2) ^ 63", "(0-2) ^ 64", "0 ^ 0", "1.0 / 0", "2^63 / -1.0", "7 / -1", "2^62 * 2 / -1", "1 - 2^63 / -1",
              "(" * 20000 + "1" + ")" * 20000 + "+1"]
    lines = corpus + short + rnd
    tt = {}
    t1 = time.time()
    # mirror check of the class predicates
    # (Coq's List.rev is quadratic once extracted: the 40,000-character corpus line is replaced here by the
    # shortest member of its class)
    clines = [s for s in lines if len(s) <= 2100] + ["(" * 1000 + "1" + ")" * 1000 + "+1", "(" * 999 + "1" + ")" * 999 + "+1"]
    p = C.write_cases("c05_cls.txt", [C.case("cls", s) for s in clines])
    for s, m in zip(clines, C.run_model(model, p)):
        if m != ",".join(known_foreign(s)):
            vv.violate("L2", kind="correspondence", function="known_foreign", input=s, model=m, impl=",".join(known_foreign(s)),
                       failing_input=False, note="drive/c05.py known_foreign is not the mirror of Model/C05Classes.v")
    # model prediction for the own class, from the implementation's in-process tokens
    pl = C.write_cases("c05_l2_line.txt", [C.case("line", s) for s in lines])
    tt["cls"] = round(time.time() - t1, 1); t1 = time.time()
    # same surroundings as the real runs below: an empty current directory (globs), HOME = cwd
    cwd_pred = os.path.join(work, "cwd_l2_pred")
    os.makedirs(cwd_pred)
    os.chdir(cwd_pred)
    io = C.run_impl(impl, pl, len(lines), env={"HX_CASE_TIMEOUT_MS": "3000", "HOME": cwd_pred, "PATH": "/usr/bin:/bin"})
    io = confirm_abnormal(impl, [C.case("line", x) for x in lines], io, "l2")
    os.chdir(work)
    tt["inprocess"] = round(time.time() - t1, 1); t1 = time.time()
    with ThreadPoolExecutor(max_workers=C.NCPU) as ex:
        outs = list(ex.map(lambda a: run_l2_one(ctx, work, a[0], a[1]), enumerate(lines)))
    tt["spawns"] = round(time.time() - t1, 1)
    res.extra["l2_seconds"] = tt
    stats = {}
    for s, o, r in zip(lines, io, outs):
        j = judge_l2(s, r)
        if any(ord(c) > 127 for c in s) or len(s) > 40:
            res.nontrivial("l2:" + s[:50])
        if o in ("PANIC", "HANG", "CRASH", "NOT-RUN"):
            vv.foreign("L2-inprocess", s, o, o)
        if j is None:
            continue
        mode, detail = j
        stats[mode] = stats.get(mode, 0) + 1
        if mode == "NO-SENTINEL":
            vv.violate("L2", kind="oracle", input=s, observed=repr(r), failing_input=True,
                       note="after this script line the shell did not run the next line (%s)" % detail)
            continue
        vv.foreign("L2", s, mode, detail + " " + repr(r))
    res.count("L2_cicada_c_and_script", len(lines))
    res.extra["l2_outcomes"] = stats
    res.sample({"layer": "L2", "input": rnd[0], "result": outs[len(corpus) + len(short)]})


def layer2_alias(ctx, res, vv, work):
    """scripts (and -c lines) that DEFINE an alias whose value tokenizes to 0 / 1 / 2+ words and then use it as first
    word, after a pipe, after `;`, under xargs; then the sentinel"""
    vals = ["  ", "\t ", "#disabled for now", "# c", "b", "echo q", "echo q #c", "|", "> f", "echo q |", "true", "é  "]
    uses = ["zz", "echo x | zz", "true; zz", "zz | cat", "echo x | xargs zz", "zz && echo y", "echo x | zz | cat", "zz zz"]
    jobs = []
    for v in vals:
        for u in uses:
            jobs.append(("alias zz='%s'; %s" % (v, u), "alias zz='%s'\n%s" % (v, u)))
    with ThreadPoolExecutor(max_workers=C.NCPU) as ex:
        outs = list(ex.map(lambda a: run_l2_one(ctx, work, a[0], a[1][0], a[1][1]), enumerate(jobs)))
    for (cl, sc), r in zip(jobs, outs):
        res.nontrivial("l2alias:" + cl)
        j = judge_l2("", r)
        if j is None:
            continue
        mode, detail = j
        if mode == "NO-SENTINEL":
            vv.violate("L2", kind="oracle", input=sc.replace("\n", "<newline>"), observed=repr(r), failing_input=True,
                       note="after defining and using this alias the script did not reach its next line (%s)" % detail)
        else:
            vv.foreign("L2", cl, mode, detail + " " + repr(r))
    res.count("L2_alias_scripts", len(jobs))


# ------------------------------------------------------------------ L3 pty
def pty_session(ctx, work, ix, keys):
    import pty, select
    root = tempfile.mkdtemp(prefix="l3_", dir=work)
    env = {"HOME": root, "XDG_CONFIG_HOME": root, "PATH": "/usr/bin:/bin", "TERM": "xterm", "LANG": "C.UTF-8",
           "HISTORY_FILE": os.path.join(root, "h.sqlite"), "RUST_BACKTRACE": "0"}
    pid, fd = pty.fork()
    if pid == 0:
        import fcntl, struct, termios
        fcntl.ioctl(0, termios.TIOCSWINSZ, struct.pack("HHHH", 24, 200, 0, 0))
        os.chdir(root)
        os.execve(ctx.cicada, ["cicada"], env)

    def rd(t):
        out = b""
        end = time.time() + t
        while time.time() < end:
            r, _, _ = select.select([fd], [], [], 0.05)
            if r:
                try:
                    b = os.read(fd, 4096)
                except OSError:
                    break
                if not b:
                    break
                out += b
                end = max(end, time.time() + 0.15)
        return out
    rd(1.0)
    log = b""
    try:
        for k in keys:
            os.write(fd, k.encode("utf-8", "replace"))
            log += rd(0.6 if k == "\r" else 0.12)   # let a started command finish before the next key
        # leave any open quote / continuation: Ctrl-C, then the sentinel
        os.write(fd, b"\x03")
        log += rd(0.3)
        os.write(fd, b" echo C05''PTY''SENTINEL\r")
        tail = rd(1.2)
    except OSError:
        tail = b""
    status = None
    try:
        os.write(fd, b"\x03 exit\r")
        rd(0.3)
    except OSError:
        pass
    try:
        os.close(fd)
    except OSError:
        pass
    for _ in range(40):
        try:
            p, st = os.waitpid(pid, os.WNOHANG)
        except ChildProcessError:
            break
        if p:
            status = st
            break
        time.sleep(0.05)
    else:
        try:
            os.kill(pid, 9)
            os.waitpid(pid, 0)
        except OSError:
            pass
    shutil.rmtree(root, ignore_errors=True)
    text = (log + tail).decode("utf-8", "replace")
    return {"answered": "C05PTYSENTINEL" in tail.decode("utf-8", "replace"),
            "panic": ("panicked at" in text), "status": status, "tail": tail[-200:].decode("utf-8", "replace")}


def pty_ctrl_c(ctx, work, ix):
    """Enter, then Ctrl-C a few milliseconds later, while the shell is still (or again) the foreground process group
    and the terminal is back in cooked mode: the SHELL must not be killed by the SIGINT."""
    import pty, select, fcntl, struct, termios
    delay = 0.005 * (1 + ix % 6)
    cmd = ["true", "nosuchcmd", "sleep 0"][ix % 3]
    root = tempfile.mkdtemp(prefix="l3c_", dir=work)
    env = {"HOME": root, "XDG_CONFIG_HOME": root, "PATH": "/usr/bin:/bin", "TERM": "xterm", "LANG": "C.UTF-8",
           "HISTORY_FILE": os.path.join(root, "h.sqlite"), "RUST_BACKTRACE": "0"}
    pid, fd = pty.fork()
    if pid == 0:
        fcntl.ioctl(0, termios.TIOCSWINSZ, struct.pack("HHHH", 24, 200, 0, 0))
        os.chdir(root)
        os.execve(ctx.cicada, ["cicada"], env)

    def rd(t):
        out = b""
        end = time.time() + t
        while time.time() < end:
            r, _, _ = select.select([fd], [], [], 0.02)
            if r:
                try:
                    b = os.read(fd, 4096)
                except OSError:
                    break
                if not b:
                    break
                out += b
        return out
    rd(0.8)
    tail = b""
    try:
        os.write(fd, (cmd + "\r").encode())
        time.sleep(delay)
        os.write(fd, b"\x03")
        rd(0.8)
        os.write(fd, b" echo C05''PTY''SENTINEL\r")
        tail = rd(1.0)
    except OSError:
        pass
    status = None
    try:
        p, st = os.waitpid(pid, os.WNOHANG)
        if p:
            status = st
    except ChildProcessError:
        pass
    if status is None:
        try:
            os.kill(pid, 9)
            _, st = os.waitpid(pid, 0)
            if not (os.WIFSIGNALED(st) and os.WTERMSIG(st) == 9):
                status = st      # it was already dead (a zombie the WNOHANG call raced with): keep ITS status
        except OSError:
            pass
    try:
        os.close(fd)
    except OSError:
        pass
    shutil.rmtree(root, ignore_errors=True)
    return {"cmd": cmd, "delay_ms": int(delay * 1000), "answered": b"C05PTYSENTINEL" in tail, "status": status}


def layer3(ctx, res, vv, work):
    rng = ctx.rng
    pool = [chr(c) for c in range(0x20, 0x7f)] + list("éü中文€\U0001F600　Жא") + ["\t", "\t", "\r", "\r", "\x7f", "\x1b[D", "\x1b[A", "\x01", "\x05"]
    sess = []
    for _ in range(60 if ctx.thorough else 4):
        keys = [rng.choice(pool) for _ in range(rng.randint(5, 40))]
        sess.append(keys)
    with ThreadPoolExecutor(max_workers=min(8, C.NCPU)) as ex:
        outs = list(ex.map(lambda a: pty_session(ctx, work, a[0], a[1]), enumerate(sess)))
    for keys, o in zip(sess, outs):
        typed = "".join(keys)
        res.nontrivial("pty:" + typed[:40])
        if not o["panic"] and not o["answered"]:
            o = pty_session(ctx, work, 0, keys)      # timing-dependent layer: an unanswered session must fail twice
        if o["panic"] or not o["answered"]:
            mode = "PANIC" if o["panic"] else "HANG"
            vv.foreign("L3", typed, mode, repr(o))
    # Enter + Ctrl-C race (three-way: class sigint-kills-shell)
    n = 48 if ctx.thorough else 6
    with ThreadPoolExecutor(max_workers=6) as ex:
        co = list(ex.map(lambda i: pty_ctrl_c(ctx, work, i), range(n)))
    died = [o for o in co if o["status"] is not None and os.WIFSIGNALED(o["status"]) and os.WTERMSIG(o["status"]) == 2]
    other = [o for o in co if not o["answered"] and o not in died]
    res.extra["l3_ctrl_c_race"] = {"sessions": n, "shell_killed_by_sigint": len(died), "unanswered_otherwise": len(other)}
    if died:
        if not vv.hit("sigint-kills-shell", "%d of %d sessions (Enter, Ctrl-C 5-30 ms later): the shell was killed by SIGINT, e.g. %r"
                      % (len(died), n, died[0])):
            vv.violate("L3", kind="oracle", input="%s<Enter><Ctrl-C after %d ms>" % (died[0]["cmd"], died[0]["delay_ms"]),
                       observed=repr(died[0]), failing_input=True,
                       note="Ctrl-C typed right after Enter kills the interactive shell itself (SIGINT, default action)")
    for o in other[:2]:
        o2 = pty_ctrl_c(ctx, work, co.index(o))
        if not o2["answered"] and not (o2["status"] is not None and os.WIFSIGNALED(o2["status"]) and os.WTERMSIG(o2["status"]) == 2):
            vv.violate("L3", kind="oracle", input="%s<Enter><Ctrl-C after %d ms>" % (o["cmd"], o["delay_ms"]), observed=repr(o2),
                       failing_input=True, note="after Enter + Ctrl-C the shell does not answer the next command (twice)")
    res.count("L3_pty_sessions", len(sess) + n)
    res.sample({"layer": "L3", "keys": "".join(sess[0]), "result": outs[0]})


def run(ctx, res):
    rng = ctx.rng
    known = {k["class"]: k for k in C.known_findings("C05")}
    vv = V(res, known)
    n1 = 5 if ctx.thorough else 4
    ps = getattr(ctx, "panic_sites", None) or scan_sites()
    ctx.focus = set(ps["focus"])
    res.extra["panic_sites"] = {k: ps.get(k) for k in ("n_pinned", "n_current", "error") if ps.get(k) is not None}
    res.extra["panic_sites_new"] = ps["new"]
    res.extra["panic_sites_removed"] = ps["removed"]
    res.extra["panic_sites_focus"] = sorted(ctx.focus)
    res.count("S_panic_sites_compared", ps.get("n_current", 0))
    res.rule = ("L1a: every string up to length %d over A14=%r and up to length %d over B14=%r (+ random 5..12) through "
                "line_to_cmds, parse_line, is_arithmetic (model = impl), the real do_expansion + from_line, then model planner + "
                "first-word look-ups on the implementation's tokens = implementation; outcome enum {line, PANIC, HANG, CRASH}. "
                "L1b: highlight ranges / escaped_word_start / is_arithmetic on every string up to length %d over HL12=%r and on "
                "the L1a strings. L1c: find_token_range_heuristic at arbitrary byte offsets (Panic must coincide). L2: A14 strings up to "
                "%d + generated lines <= 200 chars via cicada -c and as script + sentinel. L3: pty key sequences. non-trivial = distinct "
                "expanded token list that is rewritten / has redirections / errors / an empty command; multi-byte highlight "
                "inputs with >1 range; in-range hlr cases; multi-byte or long L2 lines; pty sessions"
                % (n1, A14, n1 - 1, B14, n1, HL12, 4 if ctx.thorough else 3))
    work = tempfile.mkdtemp(prefix="c05_")
    cwd0 = os.getcwd()
    env0 = {k: os.environ.get(k) for k in ("PATH", "HOME")}
    try:
        os.chdir(work)
        # the in-process stages run `$(a)` etc.: a small PATH without a command named a / 1, a scratch HOME
        binempty = os.path.join(work, "bin")
        os.makedirs(binempty)
        os.environ["PATH"] = binempty
        os.environ["HOME"] = work
        la = all_strings(A14, n1)
        lb = all_strings(B14, n1 - 1)
        # random longer lines stay inside ONE alphabet: A14 can create files (`$(a > x)`), B14 can glob them; mixing
        # the two makes the result depend on what a parallel shard has just created in the shared scratch cwd
        if big(ctx, "expand") and not ctx.thorough:
            lb = all_strings(B14, n1)             # directed: the expansion passes on every B14 string up to 4
        for _ in range(20000 if big(ctx, "expand") else 1000):
            al = rng.choice([A14, B14])
            (la if al is A14 else lb).append("".join(rng.choice(al) for _ in range(rng.randint(5, 12))))
        tm = {}
        t0 = time.time()
        layer1a(ctx, res, vv, la, "A14")
        tm["L1a_A14"] = round(time.time() - t0, 1); t0 = time.time()
        cwd_b = os.path.join(work, "cwd_b14")     # a fresh, empty directory: B14 has glob characters
        os.makedirs(cwd_b)
        os.chdir(cwd_b)
        layer1a(ctx, res, vv, lb, "B14")
        os.chdir(work)
        tm["L1a_B14"] = round(time.time() - t0, 1); t0 = time.time()
        hl = all_strings(HL12, 5 if big(ctx, "hl") else n1)
        layer1b(ctx, res, vv, hl + all_strings(A14, 4) + lb)
        tm["L1b"] = round(time.time() - t0, 1); t0 = time.time()
        if "tok" in ctx.focus:
            layer_front(ctx, res, vv, all_strings(A14, 5) + all_strings(HL12, 5) + all_strings(B14, 4), "tok")
            tm["L1f"] = round(time.time() - t0, 1); t0 = time.time()
        if "calc" in ctx.focus:
            layer_calc(ctx, res, vv)
            tm["L1g"] = round(time.time() - t0, 1); t0 = time.time()
        layer1c(ctx, res, vv)
        tm["L1c"] = round(time.time() - t0, 1); t0 = time.time()
        cwd_d = os.path.join(work, "cwd_tok")
        os.makedirs(cwd_d)
        os.chdir(cwd_d)
        layer1d(ctx, res, vv)
        tm["L1d"] = round(time.time() - t0, 1); t0 = time.time()
        layer1e(ctx, res, vv)
        os.chdir(work)
        tm["L1e"] = round(time.time() - t0, 1); t0 = time.time()
        for k, v in env0.items():
            if v is not None:
                os.environ[k] = v
        layer2(ctx, res, vv, work)
        layer2_alias(ctx, res, vv, work)
        tm["L2"] = round(time.time() - t0, 1); t0 = time.time()
        layer3(ctx, res, vv, work)
        tm["L3"] = round(time.time() - t0, 1)
        res.extra["layer_seconds"] = tm
        # ---- the panic-site tie (round 9)
        found = [kw for l in vv.n.values() for kw in l if kw.get("failing_input", True)]
        if ps["new"] or ps.get("error"):
            res.extra["panic_sites_failing_input_found"] = bool(found)
            for kw in found:
                kw.setdefault("new_panic_sites", ["%s %s [%s] %s" % (d["file"], d["function"], d["kind"], d["expr"]) for d in ps["new"]][:12])
        if not found:
            if ps.get("error"):
                res.violate(layer="sites", kind="tie", failing_input=False, problem=ps["error"],
                            note="tools/panicsites.py cannot read an anchored source file any more: which sites can panic is "
                                 "unknown; all directed searches ran and found no failing input")
            for d in ps["new"][:6]:
                res.violate(layer="sites", kind="tie", failing_input=False, site=d, searched=sorted(ctx.focus),
                            n_new_sites=len(ps["new"]),
                            note="a potentially panicking site (or a guard / bound / regex of one) that is not in "
                                 "pins/C05-panicsites.json: %s in %s of %s -- no model definition, guard argument or layer is "
                                 "recorded for it, so C05 is no longer shown to hold there; the directed searches %s found no "
                                 "failing input. If the site is safe, re-pin it with a disposition (tools/panicsites_annotate.py)"
                                 % (d["expr"], d["function"], d["file"], sorted(ctx.focus)))
        res.exhaustive = True
    finally:
        vv.flush()
        for k, v in env0.items():
            if v is not None:
                os.environ[k] = v
        os.chdir(cwd0)
        subprocess.run("pkill -9 -f %s >/dev/null 2>&1" % work, shell=True)
        shutil.rmtree(work, ignore_errors=True)
