"""C18 -- history: every recorded line verbatim, durably, injection-free.

The model (coq/theories/Model/History.v) follows the code as repaired by b952f8c:
every statement is a TEMPLATE plus BOUND PARAMETERS; a recogniser of the INSERT
template says which rows are stored given that binding is verbatim; the table is a
row list.  Layers:
  L0  the model's LIKE matcher against sqlite3 itself (python client);
  L1  in-process: the real add_raw and history builtin on one database file per
      scenario (arbitrary texts, both quote kinds, controlled session / directory
      strings); every intermediate table is read with python's sqlite3;
  L2  real `cicada -c` processes sharing one database file, cwd = directories with
      the generated names (quotes, the crafted second-row name, percent, ...);
  L3  sequences of 1-3 shell processes on ONE database: interactive pty sessions and `-c history add` processes, the
      first line of a later session often equal to a row stored by an earlier process; against db_procs / session_run.
Three predictions are compared for every operation: the model's own row-list
semantics, sqlite (python client) given the model's template and parameter vector,
and the implementation; all must equal the property's oracle (the submitted text up
to trim, once; the rows selected by pattern / session / directory in tsb order)."""
import os, shutil, sqlite3, subprocess, tempfile, time
from concurrent.futures import ThreadPoolExecutor
import common as C

EXTRACT = ["C18"]
BINS = ["c18"]
NEEDS_CICADA = True
ALLOWED_AXIOMS = []
PINNED = ["C18_order_full", "C18_order_ties", "C18_insert_keeps_order", "C18_full", "C18_insert_text", "C18_insert_appends", "C18_select_text", "C18_select_params", "C18_select_arity",
          "C18_row_matches", "C18_list_sound", "C18_list_complete", "C18_search_complete", "C18_delete_exact",
          "C18_delete_text", "C18_record_rule", "C18_record_sound", "C18_record_complete", "C18_record_independent",
          "C18_record_first", "C18_record_processes", "C18_record_space_led", "C18_record_space_led_run", "C18_record_origin",
          "C18_record_expanded", "C18_bang_unchanged", "C18_bangbang_is_source_regex"]


def gen(ctx=None):
    """Gen/ToolsRegexes.v from the regex literals of tools.rs (round 9; proof in Proofs/BangRegexProofs.v)"""
    import regexsites
    regexsites.gen_tools()


TRUSTED = [
    "Coq 8.16.1 kernel (coqc; coqchk in thorough); vm_compute only in the Example",
    "hand transcription of the statement templates, parameter vectors and of the main loop's recording rule "
    "(coq/theories/Model/History.v), tied by L1-L3",
    "meaning of sqlite parameter binding: a bound value is stored / compared verbatim and never read as SQL (insert_rows, "
    "clause_holds); compared with sqlite on every case (the model's template + parameters are run through python's sqlite3)",
    "sqlite itself (bundled in cicada, 3.40 in python): rowid allocation, LIKE, ORDER BY, LIMIT, durability and locking are "
    "sqlite's; the model's versions are compared with it on every case, not proved about it",
    "the table name (HISTORY_TABLE) is still pasted into every statement: configuration, not command text / pattern / "
    "directory name; the checks use the default",
    "extraction: ExtrOcamlBasic only; ocaml/c18/drv.ml; harness/src/bin/c18.rs; drive/c18.py; python sqlite3 as the independent client",
]
ASSUMES = [
    "a fresh shell process starts with previous_cmd empty (Shell::new) and history::init does not change it: the repeat "
    "rule compares only with a line recorded by the same process (C18_record_independent / C18_record_first)",
    "the wall clock does not step backwards between two lines submitted at the prompt (checked per run: the tsb of consecutive "
    "typed rows must increase strictly -- finer than the property needs since 6b3083d, but what a nanosecond clock gives)",
    "no code point 0 in generated texts (argv and the line editor cannot deliver one)",
]

CREATE = """
        CREATE TABLE IF NOT EXISTS cicada_history
            (inp TEXT,
             rtn INTEGER,
             tsb REAL,
             tse REAL,
             sessionid TEXT,
             out TEXT,
             info TEXT
            );
    """
US, RS, GS = "\x1f", "\x1e", "\x1d"
ALPHA = ["'", '"', "%", "_", "\\", ";", "--", ")", "(", " ", "a", "b", "A", "é", "日", ",", "|", "x", "0", "''", "'a'"]
SAFE_ALPHA = [c for c in ALPHA if "'" not in c]
ALLQ = "SELECT rowid, inp, rtn, tsb, tse, sessionid, out, info FROM cicada_history ORDER BY rowid"
WS = " \t　"


def mkdb(path):
    c = sqlite3.connect(path)
    c.execute(CREATE)
    c.commit()
    c.close()


def read_rows(path):
    c = sqlite3.connect(path)
    try:
        return [tuple(r) for r in c.execute(ALLQ)]
    finally:
        c.close()


def first_statement(sql):
    """rusqlite's execute / prepare run the first statement of the text only."""
    for i, ch in enumerate(sql):
        if ch == ";" and sqlite3.complete_statement(sql[:i + 1]):
            return sql[:i + 1]
    return sql


def shadow_exec(conn, sql, params=()):
    """sqlite given the model's template and parameter vector. -> ('OK', rows) | ('ERR', msg)"""
    try:
        cur = conn.execute(first_statement(sql), params)
        rows = cur.fetchall()
        conn.commit()
        return "OK", rows
    except (sqlite3.Error, sqlite3.Warning, ValueError) as e:
        conn.rollback()
        return "ERR", str(e)


def numtxt(x):
    return str(int(x)) if float(x) == int(x) else repr(float(x))


# ------------------------------------------------------------------ scenario generation
def rand_text(rng, alpha, lo, hi):
    return "".join(rng.choice(alpha) for _ in range(rng.randint(lo, hi)))


def prefix_scenario(root):
    """directories one of which is a prefix of the others: `history -p` must list its own rows only"""
    ops = []
    for i, (t, d) in enumerate([("x1", "d1"), ("x2", "d1x"), ("x3", "d1/sub"), ("x4", "it's"), ("x5", "it's2")]):
        ops.append({"k": "A", "line": t, "status": "0", "ts": 10 + i, "session": "s1", "dir": root + "/" + d})
    for d in ["d1", "d1x", "d1/sub", "it's", "it's2"]:
        ops.append({"k": "L", "pattern": "", "s": False, "a": True, "p": True, "limit": 20, "session": "s1", "dir": root + "/" + d})
    return ops


def wide_delete_scenario(root):
    """`history delete N` removes exactly row N: row ids that agree with a stored row only modulo 2^32 / 2^31 / 2^16 / 2^8,
    0 and 2^62-1 remove nothing (seed C18-delete-rowid-narrowed-to-i32)."""
    ops = [{"k": "A", "line": "w%d" % i, "status": "0", "ts": 10 + i, "session": "s1", "dir": root + "/d1"} for i in range(5)]
    lst = {"k": "L", "pattern": "", "s": False, "a": True, "p": False, "limit": 20, "session": "s1", "dir": root + "/d1"}
    for n in [(1 << 32) + 1, (1 << 32) + 3, (1 << 31) + 2, (3 << 32) + 4, 65536 + 5, 256 + 1, 0, (1 << 62) - 1]:
        ops += [{"k": "D", "n": n}, dict(lst)]
    ops += [{"k": "D", "n": 2}, dict(lst), {"k": "D", "n": (1 << 32) + 2}, dict(lst)]
    return ops


def gen_scenario(rng, root, l2=False):
    """ops: dicts."""
    dirs_ok = ["d1", "d1x", "d1/sub", "a_b", "axb", "p%q", "日 é", 'q"r', "se;mi --x)"]   # d1 is a prefix of two others
    dirs_bad = ["it's", "x|'), ('pwn', 0, 0, 0, 's', 'dir:y", "o'", "a''b", "c'||'d"]
    n = rng.randint(3, 9)
    ops = []
    ts_pool = rng.sample(range(1, 400), n + 2)
    if rng.random() < 0.35:                      # ties: what several `history add` without -t produce (all 0)
        k = rng.choice([0, 0, 7])
        ts_pool = [k if rng.random() < 0.6 else t for t in ts_pool]
    texts = []
    for i in range(n):
        r = rng.random()
        if r < 0.55 or i == 0:
            alpha = ALPHA
            t = rand_text(rng, alpha, 0 if not l2 else 1, 10)
            if rng.random() < 0.3:
                t = rng.choice([" ", "  ", "\t"]) + t + rng.choice(["", " ", " \t"])
            if l2:
                t = l2_safe(t)
            ts = ts_pool[i] + (0.5 if rng.random() < 0.25 and not l2 else 0)
            ops.append({"k": "A", "line": t, "status": "0", "ts": ts,
                        "session": rng.choice(["s1", "s2", "0b1e6c2a-77aa"] + ([] if l2 else ["s'3"])),
                        "dir": root + "/" + rng.choice(dirs_ok + dirs_bad)})
            texts.append(t)
        elif r < 0.85:
            if texts and rng.random() < 0.5:
                src = rng.choice(texts).strip(WS)
                a = rng.randint(0, max(0, len(src) - 1))
                pat = src[a:a + rng.randint(1, 3)]
            else:
                pat = rand_text(rng, ALPHA, 0, 3)
            if l2:
                pat = l2_safe(pat)
            d = root + "/" + rng.choice(dirs_ok + (dirs_bad if rng.random() < 0.3 else []))
            ops.append({"k": "L", "pattern": pat, "s": rng.random() < 0.2 and not l2, "a": rng.random() < 0.4,
                        "p": rng.random() < 0.35, "limit": rng.choice([0, 1, 2, 3, 20, 20, 20]),
                        "session": rng.choice(["s1", "s2"] + ([] if l2 else ["s'3"])), "dir": d})
        else:
            nd = rng.randint(1, 6)
            # every third delete names a row id whose low 32 / 31 / 16 / 8 bits are a small row id: nothing may be removed
            # (no extra random draw: the stream of the other operations stays what it was)
            wide = [0, 0, 1 << 32, 0, 3 << 32, 0, 1 << 31, 0, 1 << 16, 0, 1 << 8, (1 << 62) - 8][(len(ops) * 5 + nd) % 12]
            ops.append({"k": "D", "n": nd + wide})
    if rng.random() < 0.35:
        ops.append({"k": "A", "line": rand_text(rng, SAFE_ALPHA if l2 else ALPHA, 1, 6).strip(WS) or "z", "status": "0",
                    "ts": ts_pool[n], "session": "s1", "dir": root + "/" + rng.choice(dirs_bad)})
        if l2:
            ops[-1]["line"] = l2_safe(ops[-1]["line"])
    return ops


def l2_safe(t):
    """Texts that one of the two quoting forms below delivers verbatim through `cicada -c`
    (what quoting delivers is C01's subject, not C18's)."""
    if "'" in t:
        for ch in '"\\$`!':
            t = t.replace(ch, "")
    t = t.replace("\t", " ")
    return t if t.strip(WS) else t + "k"


def shq(t):
    return "'" + t + "'" if "'" not in t else '"' + t + '"'


def op_field(o):
    if o["k"] == "A":
        ts = o["ts"]
        return US.join(["A", o["line"], o["status"], numtxt(ts), numtxt(ts + 1), str(int(ts * 2)), o["session"], o["dir"]])
    if o["k"] == "D":
        return US.join(["D", str(o["n"])])
    return US.join(["L", o["pattern"], "1" if o["s"] else "0", "1" if o["a"] else "0", "1" if o["p"] else "0",
                    str(o["limit"]), o["session"], o["dir"]])


def parse_model_rows(s):
    rows = []
    if s == "":
        return rows
    for r in s.split(RS):
        v = r.split(GS)
        rows.append((int(v[0]), C.dec(v[1]), int(v[2]), C.dec(v[3]), C.dec(v[4])))
    return rows


def key_rows(rows):
    """full sqlite rows -> the model's view (id, inp, 2*tsb, session, info)"""
    return [(r[0], r[1], int(round(r[3] * 2)), r[5], r[7]) for r in rows]


def intended_list(conn, o):
    sql = "SELECT ROWID, inp, tsb FROM cicada_history WHERE ROWID > 0"
    par = []
    if o["pattern"] != "":
        sql += " AND inp LIKE ?"
        par.append("%" + o["pattern"] + "%")
    if o["s"]:
        sql += " AND sessionid = ?"
        par.append(o["session"])
    if o["p"]:
        sql += " AND info like ?"
        par.append("%dir:" + o["dir"] + "|%")
    # the property's order: by time, and among equal times by submission (rowid)
    sql += " ORDER BY tsb, rowid" if o["a"] else " order by tsb desc, rowid desc"
    sql += " limit %d " % o["limit"]
    rows = conn.execute(sql, par).fetchall()
    return rows if o["a"] else rows[::-1]


def matched_ties(conn, o):
    """do the rows selected by o (ignoring the limit) hold two equal tsb?"""
    o2 = dict(o, limit=-1, a=True)
    ts = [r[2] for r in intended_list(conn, o2)]
    return len(set(ts)) < len(ts)


def fmt_list(rows):
    return "\n".join("%d: %s" % (r[0], r[1]) for r in rows)


# ------------------------------------------------------------------ the comparison (shared by L1 and L2)
class Verdicts:
    def __init__(self, res, layer, known):
        self.res, self.layer, self.known = res, layer, known
        self.nviol = 0
        self.cur_ops = None

    def violate(self, **kw):
        self.nviol += 1
        if self.nviol <= 3:
            self.res.violate(layer=self.layer, ops=self.cur_ops, **kw)


def describe(o):
    if o["k"] == "A":
        return "history add -t %s -- %r   (cwd %r)" % (numtxt(o["ts"]), o["line"], o["dir"])
    if o["k"] == "D":
        return "history delete %d" % o["n"]
    fl = "".join([" -s" if o["s"] else "", " -a" if o["a"] else "", " -p" if o["p"] else ""])
    return "history --limit=%d%s -- %r   (cwd %r)" % (o["limit"], fl, o["pattern"], o["dir"])


def model_params(field):
    out = []
    if field == "":
        return out
    for v in field.split(RS):
        t = C.dec(v[1:])
        out.append(t if v[0] == "S" else (float(t) if "." in t else int(t)))
    return out


def check_scenario(V, ops, mouts, impl, shadow_path):
    """ops: generated ops; mouts: model output records (one per op); impl: per op, for A/D the
    table after the op (full rows), for L ('OK', stdout) | ('ERR', text)."""
    res = V.res
    V.cur_ops = ops
    mkdb(shadow_path)
    conn = sqlite3.connect(shadow_path)
    hist = []
    nv0 = V.nviol
    try:
        for o, m, im in zip(ops, mouts, impl):
            if V.nviol > nv0:
                break          # later ops of a scenario that already failed would only repeat the report
            hist.append(describe(o))
            mf = m.split(US)
            sql = C.dec(mf[1])
            before = [tuple(r) for r in conn.execute(ALLQ)]
            if o["k"] == "A":
                params, verdict, mrows = model_params(mf[2]), mf[3], parse_model_rows(mf[4])
                shadow_exec(conn, sql, params)
                faithful = [tuple(r) for r in conn.execute(ALLQ)]
                nid = max([r[0] for r in before] + [0]) + 1
                ts = float(o["ts"])
                want = before + [(nid, o["line"].strip(WS), int(o["status"]), ts, ts + 1.0, o["session"], None,
                                  "dir:" + o["dir"] + "|")]
                # theorem C18_full: the recogniser says "intended"; sqlite given template + parameters stores exactly that row
                if verdict != "intended" or faithful != want or key_rows(faithful) != mrows:
                    V.violate(kind="correspondence", failing_input=False, function="insert_stmt/insert_rows/db_insert",
                              input=hist[:], model=[verdict, mrows], sqlite_on_model_stmt=faithful, expected=want,
                              note="model inconsistent with sqlite / with the property's oracle")
                if im != want:
                    V.violate(kind="oracle", failing_input=True, input=hist[:], expected=want, observed=im, sql=sql,
                              note="the row stored by the implementation is not the submitted line, verbatim, once "
                                   "(or recording failed / other rows changed)")
                else:
                    res.nontrivial("add:" + o["line"].strip(WS) + "|" + os.path.basename(o["dir"]))
            elif o["k"] == "D":
                mrows = parse_model_rows(mf[2])
                shadow_exec(conn, sql)
                faithful = [tuple(r) for r in conn.execute(ALLQ)]
                want = [r for r in before if r[0] != o["n"]]
                if faithful != want or key_rows(faithful) != mrows:
                    V.violate(kind="correspondence", failing_input=False, function="delete_sql/db_delete", input=hist[:],
                              model=mrows, sqlite_on_model_stmt=faithful, expected=want)
                if im != want:
                    V.violate(kind="oracle", failing_input=True, input=hist[:], expected=want, observed=im,
                              note="history delete did not remove exactly the row named")
                elif len(want) < len(before):
                    res.nontrivial("del:%d/%d" % (o["n"], len(before)))
            else:
                params = [C.dec(x) for x in mf[2].split(RS)] if mf[2] else []
                mrows = parse_model_rows(mf[3])
                st, frows = shadow_exec(conn, sql, params)
                if st == "OK" and not o["a"]:
                    frows = frows[::-1]
                faithful = ("OK", fmt_list(frows)) if st == "OK" else ("ERR", "")
                want = ("OK", fmt_list(intended_list(conn, o)))
                im = (im[0], im[1] if im[0] == "OK" else "")
                mtxt = ("OK", fmt_list([(r[0], r[1]) for r in mrows]))
                ties = matched_ties(conn, o)
                if mtxt != want or faithful != want:
                    V.violate(kind="correspondence", failing_input=False, function="select_stmt/db_list", input=hist[:],
                              model=mtxt, sqlite_on_model_stmt=faithful, expected=want, sql=sql, params=params, ties=ties)
                if im != want:
                    V.violate(kind="oracle", failing_input=True, input=hist[:], expected=want, observed=im, sql=sql, ties=ties,
                              note="listing differs from the rows selected by pattern / directory / session in time order, "
                                   "rows with equal time in submission order (or listing failed)")
                elif ties and want[1]:
                    res.nontrivial("tie-list:" + want[1])
                elif want[1]:
                    res.nontrivial("list:" + o["pattern"] + "|" + want[1])
                if "'" in o["pattern"] or (o["p"] and "'" in o["dir"]):
                    res.nontrivial("quote-list:" + o["pattern"] + "|" + os.path.basename(o["dir"]))
            # resynchronise the shadow with the implementation's table if they differ (reported above)
            if o["k"] in "AD" and im != [tuple(r) for r in conn.execute(ALLQ)]:
                conn.execute("DELETE FROM cicada_history")
                conn.executemany("INSERT INTO cicada_history (rowid, inp, rtn, tsb, tse, sessionid, out, info) VALUES (?,?,?,?,?,?,?,?)", im)
                conn.commit()
    finally:
        conn.close()


# ------------------------------------------------------------------ L0
def layer0(ctx, res):
    rng = ctx.rng
    n = 6000 if ctx.thorough else 1500
    likes = []
    la = ["a", "A", "b", "%", "_", "é", "É", "'", "\\", "z"]
    for _ in range(n):
        likes.append(("".join(rng.choice(la) for _ in range(rng.randint(0, 5))),
                      "".join(rng.choice(la) for _ in range(rng.randint(0, 6)))))
    path = C.write_cases("c18_l0.txt", [C.case("like", p, t) for p, t in likes])
    mo = C.run_model(ctx.model["C18"], path)
    conn = sqlite3.connect(":memory:")
    bad = 0
    for (p, t), m in zip(likes, mo):
        got = conn.execute("SELECT ? LIKE ?", (t, p)).fetchall()[0][0]
        if str(got) != m:
            bad += 1
            if bad <= 3:
                res.violate(kind="correspondence", layer="L0", function="like", input=[p, t], model=m, sqlite=got,
                            failing_input=False, note="the model of LIKE disagrees with sqlite")
        elif m == "1" and p:
            res.nontrivial("like:%s~%s" % (p, t))
    res.count("L0_like_vs_sqlite", len(likes))


# ------------------------------------------------------------------ L1
def layer1(ctx, res, V, work):
    rng = ctx.rng
    n = 1500 if ctx.thorough else 300
    scns = [prefix_scenario("/w"), wide_delete_scenario("/w")] + [gen_scenario(rng, "/w") for _ in range(n)]
    if ctx.replay_ops and ctx.replay_layer == "L1":
        scns = [ctx.replay_ops]
    lines = []
    for i, ops in enumerate(scns):
        db = os.path.join(work, "l1_%d.sqlite" % i)
        mkdb(db)
        lines.append("scn\t" + "\t".join(C.enc(f) for f in [US.join(["P", db])] + [op_field(o) for o in ops]))
    path = C.write_cases("c18_l1.txt", lines)
    mo = C.run_model(ctx.model["C18"], path)
    io = C.run_impl(ctx.bins["c18"], path, len(scns), shards=min(C.NCPU, max(1, len(scns) // 20)))
    for i, ops in enumerate(scns):
        db = os.path.join(work, "l1_%d.sqlite" % i)
        if io[i] in ("PANIC", "CRASH", "NOT-RUN", None):
            V.violate(kind="oracle", failing_input=True, input=[describe(o) for o in ops], observed=io[i],
                      note="the history code panicked / died on this scenario")
            continue
        impl = []
        for o, rec in zip(ops, io[i].split("\t")[1:]):
            if o["k"] in "AD":
                k = int(rec.split("snap=")[1].split(" ")[0])
                impl.append(read_rows("%s.%d" % (db, k)))
            else:
                out = C.dec(rec.split('out="')[1].split('"')[0])
                err = rec.split('err="')[1].split('"')[0]
                impl.append(("ERR", "") if err else ("OK", out))
        check_scenario(V, ops, mo[i].split("\t")[1:], impl, os.path.join(work, "sh1_%d.sqlite" % i))
        if i == 1:
            res.sample({"layer": "L1", "ops": [describe(o) for o in ops], "model": mo[i][:600], "impl": io[i][:600]})
    res.count("L1_inprocess_scenarios", len(scns))
    res.count("L1_inprocess_ops", sum(len(s) for s in scns))


# ------------------------------------------------------------------ L2
def cic(ctx, line, cwd, db, home, timeout=30):
    env = {"HOME": home, "XDG_CONFIG_HOME": home, "HISTORY_FILE": db, "PATH": "/usr/bin:/bin", "LANG": "C.UTF-8"}
    try:
        p = subprocess.run([ctx.cicada, "-c", line], cwd=cwd, env=env, stdin=subprocess.DEVNULL, stdout=subprocess.PIPE,
                           stderr=subprocess.PIPE, timeout=timeout)
        return p.returncode, p.stdout.decode("utf-8", "replace"), p.stderr.decode("utf-8", "replace")
    except subprocess.TimeoutExpired:
        return "TIMEOUT", "", ""


def run_l2_scenario(ctx, ix, ops, work):
    root = os.path.join(work, "l2_%d" % ix)
    db = os.path.join(root, "h.sqlite")
    mkdb(db)
    impl = []
    for o in ops:
        if o["k"] == "A" or o["k"] == "L":
            os.makedirs(o["dir"], exist_ok=True)
        if o["k"] == "A":
            before = read_rows(db)
            rc, out, err = cic(ctx, "history add -t %s -- %s" % (numtxt(o["ts"]), shq(o["line"])), o["dir"], db, root)
            rows = read_rows(db)
            new = [r for r in rows if r[0] not in [b[0] for b in before]]
            # the session id is generated by the shell: take it from the stored row
            o["session"] = new[0][5] if len(new) >= 1 and isinstance(new[0][5], str) and "'" not in new[0][5] and \
                len(new[0][5]) == 13 else "unknown-sessn"
            impl.append(rows)
        elif o["k"] == "D":
            rc, out, err = cic(ctx, "history delete %d" % o["n"], root, db, root)
            impl.append(read_rows(db))
        else:
            fl = "".join([" -a" if o["a"] else "", " -p" if o["p"] else ""])
            pat = (" -- " + shq(o["pattern"])) if o["pattern"] else ""
            rc, out, err = cic(ctx, "history --limit=%d%s%s" % (o["limit"], fl, pat), o["dir"], db, root)
            if out.endswith("\n"):
                out = out[:-1]
            impl.append(("ERR", err) if err.strip() else ("OK", out))
    return impl


def layer2(ctx, res, V, work):
    rng = ctx.rng
    n = 160 if ctx.thorough else 40
    scns = []
    for i in range(n):
        root = os.path.join(work, "l2_%d" % i)
        os.makedirs(root)
        scns.append(prefix_scenario(root) if i == 0 else wide_delete_scenario(root) if i == 1 else gen_scenario(rng, root, l2=True))
    if ctx.replay_ops and ctx.replay_layer == "L2":
        scns = scns[:1]
        root = os.path.join(work, "l2_0")
        for o in ctx.replay_ops:
            if "dir" in o:
                o["dir"] = root + "/" + os.path.basename(o["dir"])
        scns[0] = ctx.replay_ops
    with ThreadPoolExecutor(max_workers=C.NCPU) as ex:
        impls = list(ex.map(lambda a: run_l2_scenario(ctx, a[0], a[1], work), enumerate(scns)))
    lines = ["scn\t" + "\t".join(C.enc(op_field(o)) for o in ops) for ops in scns]
    path = C.write_cases("c18_l2.txt", lines)
    mo = C.run_model(ctx.model["C18"], path)
    for i, ops in enumerate(scns):
        check_scenario(V, ops, mo[i].split("\t"), impls[i], os.path.join(work, "sh2_%d.sqlite" % i))
        if i == 0:
            res.sample({"layer": "L2", "ops": [describe(o) for o in ops], "impl_final_table": repr(
                [x for x in impls[i] if isinstance(x, list)][-1:])[:600]})
    res.count("L2_process_scenarios", len(scns))
    res.count("L2_cicada_processes", sum(len(s) for s in scns))


# ------------------------------------------------------------------ L3: interactive sessions
def pty_session(ctx, root, db, typed, fast=False):
    """One interactive cicada process on a pty (120x24), cwd = root, database = db (shared with other
    processes of the sequence); types the lines, then ` exit`. Waits for the prompt before every line;
    with fast=True it goes on as soon as the prompt shows (no quiet period): the lines are submitted back to back,
    many within one second."""
    import pty, select
    env = {"HOME": root, "XDG_CONFIG_HOME": root, "HISTORY_FILE": db, "PATH": "/usr/bin:/bin", "TERM": "xterm",
           "LANG": "C.UTF-8", "HISTORY_DELETE_DUPS": "0"}
    pid, fd = pty.fork()
    if pid == 0:
        import fcntl, struct, termios
        fcntl.ioctl(0, termios.TIOCSWINSZ, struct.pack("HHHH", 24, 120, 0, 0))   # a 0x0 window makes lineread panic
        os.chdir(root)
        os.execve(ctx.cicada, ["cicada"], env)

    def wait_prompt(limit=20.0, quiet=0.2):
        """read until a prompt (`$ `) has been printed and the terminal is quiet"""
        out = b""
        end = time.time() + limit
        quiet_since = None
        while time.time() < end:
            r, _, _ = select.select([fd], [], [], 0.05)
            if r:
                try:
                    b = os.read(fd, 4096)
                except OSError:
                    break
                if not b:
                    break
                out += b
                quiet_since = None
                if quiet == 0 and b"$ " in out:
                    return True
            else:
                if b"$ " in out:
                    if quiet_since is None:
                        quiet_since = time.time()
                    elif time.time() - quiet_since > quiet:
                        return True
        return False
    ok = wait_prompt()
    for t in typed:
        os.write(fd, t.encode() + b"\r")
        ok = wait_prompt(quiet=0 if fast else 0.2) and ok
    os.write(fd, b" exit\r")
    for _ in range(200):
        try:
            p, _ = os.waitpid(pid, os.WNOHANG)
        except ChildProcessError:
            break
        if p:
            break
        try:
            r, _, _ = select.select([fd], [], [], 0.05)
            if r:
                os.read(fd, 4096)
        except OSError:
            time.sleep(0.05)
    else:
        try:
            os.kill(pid, 9)
            os.waitpid(pid, 0)
        except OSError:
            pass
    try:
        os.close(fd)
    except OSError:
        pass
    return ok


L3_WORDS = ["true", "true a", "true 'it''s'", "true \"it's\" %_", "true a\\\\b ;true )", "true é日", "true -- x", "true  b"]
L3_SAFE = ["true", "true a", "true  b", "true é日", "echo one >/dev/null", "true -- x"]


def ref_bang(prev, line):
    """tools::extend_bangbang for lines of plain blank-separated words: unchanged without `!!` or while nothing was
    recorded yet; else the words joined by single blanks with `!!` replaced by the previously recorded line"""
    if "!!" not in line or prev == "":
        return line
    return " ".join(w.replace("!!", prev) for w in line.split(" ") if w != "")


def ref_session(typed):
    """the property, for ONE process: every typed line once -- its `!!` expanded, which is the text the shell runs and
    records -- except blank lines, lines TYPED with a leading blank (whatever else they hold), and a line whose text equals
    the line recorded just before it IN THIS PROCESS"""
    prev, exp = "", []
    for t in typed:
        if not t.strip():
            continue
        line = ref_bang(prev, t)
        if t.startswith(" ") or line == prev:
            continue
        exp.append(line)
        prev = line
    return exp


L3_BANG = [" true hidden-bang !!", " true !! hidden-tail", " !! hidden-head", "true shown !!", "true  two-blanks  !! tail", "!!",
           " !!", "true x!!y"]


def gen_sequence(rng, ix):
    """1-3 shell processes on one database: interactive sessions and `-c history add` processes.  The first line of a
    later interactive session is, by construction, often the line recorded last by an earlier process, the newest row by
    time, or an older row."""
    procs, stored, by_time = [], [], []
    nproc = 1 if ix % 4 == 3 else rng.choice([2, 3, 3])
    for k in range(nproc):
        if k > 0 and rng.random() < 0.3:
            line = rng.choice(L3_SAFE + [s for s in stored if "'" not in s and '"' not in s and "\\" not in s][-2:])
            now = rng.random() < 0.6
            procs.append({"k": "A", "line": line, "now": now})
            stored.append(line.strip())
            if now:
                by_time.append(line.strip())
            continue
        typed = []
        if stored:
            r = rng.random()
            if r < 0.4:
                typed.append(stored[-1])                      # the row with the greatest rowid
            elif r < 0.7 and by_time:
                typed.append(by_time[-1])                     # the row with the greatest tsb
            elif r < 0.85:
                typed.append(rng.choice(stored))              # an older row
        for _ in range(rng.randint(2, 5)):
            w = rng.choice(L3_WORDS if ix % 2 else L3_SAFE)
            r = rng.random()
            if r < 0.25 and typed:
                w = typed[-1]                                 # immediate repeat
            elif r < 0.4:
                w = " " + w                                   # leading space
            elif r < 0.6 and ix % 2 == 0:
                w = rng.choice(L3_BANG)                       # `!!`, with and without a leading blank (plain-word sessions only)
            typed.append(w)
        if k == 0:
            j = rng.randint(0, len(typed) - 1)
            typed.insert(j + 1, typed[j])
            typed.append(" " + rng.choice(L3_SAFE))
            typed.append(rng.choice(L3_SAFE))
        procs.append({"k": "I", "typed": typed})
        rec = ref_session(typed)
        stored += rec
        by_time += rec
    return procs


def describe_procs(procs):
    out = []
    for i, p in enumerate(procs):
        if p["k"] == "I":
            out.append("process %d: interactive cicada on a pty, types %r%s then ` exit`" % (
                i + 1, p["typed"], " back to back" if p.get("fast") else ""))
        else:
            out.append("process %d: cicada -c \"history add %s-- %s\"" % (i + 1, "-t <now> " if p["now"] else "", shq(p["line"])))
    return out


LISTINGS = [("history -n -l 100", False, 100), ("history -n -a -l 100", True, 100), ("history -n -l 2", False, 2),
            ("history -n -a -l 2", True, 2)]


def run_sequence(ctx, work, ix, procs):
    root = os.path.join(work, "l3_%d" % ix)
    os.makedirs(root)
    db = os.path.join(root, "h.sqlite")
    mkdb(db)
    ok = True
    for p in procs:
        if p["k"] == "I":
            ok = pty_session(ctx, root, db, p["typed"], fast=p.get("fast", False)) and ok
        else:
            ts = ("-t %.3f " % time.time()) if p["now"] else ""
            cic(ctx, "history add %s-- %s" % (ts, shq(p["line"])), root, db, root)
    rows = sorted(read_rows(db), key=lambda r: r[0])
    # what LATER shell processes see
    lists = []
    for cmd, _, _ in LISTINGS:
        rc, out, err = cic(ctx, cmd, root, db, root)
        lists.append(out[:-1].split("\n") if out.endswith("\n") else (out.split("\n") if out else []))
    return ok, rows, lists


def layer3(ctx, res, V, work):
    rng = ctx.rng
    n = 16 if ctx.thorough else 6
    # fixed sequences: (1) the first line of process 3 equals the newest row by time (process 2's row has tsb 0);
    # (2) six lines submitted back to back in one session, then listed by later processes
    seqs = [[{"k": "I", "typed": ["echo one >/dev/null"]}, {"k": "A", "line": "echo two", "now": False},
             {"k": "I", "typed": ["echo one >/dev/null", "echo one >/dev/null", "echo two"]}],
            [{"k": "I", "fast": True, "typed": ["true mark-%d" % i for i in range(1, 7)]}],
            # (3) `!!` with and without a leading blank, other text before / after it
            [{"k": "I", "typed": ["!! first", "true a", " true hidden-bang !!", "true shown !!", " !!", "!!", " true !! hidden-tail",
                                  "true  pre  !! post", " true c", "true x!!y"]}],
            [{"k": "I", "fast": True, "typed": ["true a", "true b", "true c"]}, {"k": "A", "line": "true added", "now": True},
             {"k": "I", "fast": True, "typed": ["true d", "true e", "true a"]}]]
    for i in range(n):
        q = gen_sequence(rng, i)
        for p in q:
            if p["k"] == "I" and i % 2 == 0:
                p["fast"] = True
        seqs.append(q)
    if ctx.replay_procs:
        seqs = [ctx.replay_procs]
    with ThreadPoolExecutor(max_workers=6) as ex:
        got = list(ex.map(lambda a: run_sequence(ctx, work, a[0], a[1]), enumerate(seqs)))
    path = C.write_cases("c18_l3.txt", ["\t".join(["procs"] + [C.enc(US.join(["I"] + p["typed"]) if p["k"] == "I" else
                                                                     US.join(["A", p["line"]])) for p in procs]) for procs in seqs])
    mo = C.run_model(ctx.model["C18"], path)
    for procs, (ok, rows, lists), m in zip(seqs, got, mo):
        g = [r[1] for r in rows]
        want = [C.dec(x) for x in m.split("\t")] if m else []
        exp, src = [], []
        for k, p in enumerate(procs):
            e = ref_session(p["typed"]) if p["k"] == "I" else [p["line"].strip(WS)]
            exp += e
            src += [(p["k"], k)] * len(e)
        if want != exp:
            V.violate(kind="correspondence", failing_input=False, function="db_procs/session_run", procs=procs,
                      input=describe_procs(procs), model=want, expected=exp)
        if g != exp:
            if not ok and len(g) < len(exp) and g == exp[:len(g)] and not ctx.replay_procs:
                # the pty did not show a prompt in time (overloaded machine): not a verdict about the shell
                res.extra["L3_sequences_not_evaluated_timeout"] = res.extra.get("L3_sequences_not_evaluated_timeout", 0) + 1
                continue
            k = next((i for i in range(min(len(g), len(exp))) if g[i] != exp[i]), min(len(g), len(exp)))
            V.violate(kind="oracle", failing_input=True, procs=procs, input=describe_procs(procs), expected=exp, observed=g,
                      first_difference={"row": k + 1, "expected": exp[k] if k < len(exp) else None,
                                        "observed": g[k] if k < len(g) else None},
                      entry="shell processes sharing one database (HISTORY_DELETE_DUPS=0)",
                      note="rows in the database differ from: every submitted line once per submission, verbatim, except "
                           "leading-space lines and immediate repeats within one session")
            continue
        res.nontrivial("procs:" + "|".join(describe_procs(procs)))
        # ---- submission order as later processes see it.  tsb of typed lines comes from the shell's clock.
        tsb = [r[3] for r in rows]
        bad_clock = [i for i in range(len(rows) - 1) if src[i][0] == "I" and src[i + 1][0] == "I" and not tsb[i] < tsb[i + 1]]
        if bad_clock:
            i = bad_clock[0]
            V.violate(kind="oracle", failing_input=True, procs=procs, input=describe_procs(procs),
                      observed={"rows (rowid, inp, tsb)": [(r[0], r[1], r[3]) for r in rows],
                                "listing `history -n -l 100` in a later process": lists[0]},
                      expected={"tsb": "strictly increasing in submission order", "listing": g},
                      note="lines %r and %r were submitted one after the other but their recorded times do not increase "
                           "(%r, %r): a listing by time cannot show them in submission order" % (g[i], g[i + 1], tsb[i], tsb[i + 1]))
            continue
        order = [r[1] for r in sorted(rows, key=lambda r: (r[3], r[0]))]     # by time, ties by submission
        groups = {}
        for r, sc in zip(rows, src):
            groups.setdefault(r[3], []).append(sc[0])
        if any(len(v) > 1 for v in groups.values()):
            res.nontrivial("tied-add-rows:" + "|".join(describe_procs(procs)))
        for (cmd, asc, lim), got_l in zip(LISTINGS, lists):
            want_l = order[:lim] if asc else order[-lim:]
            if got_l == want_l:
                res.nontrivial("order:%s:%r" % (cmd, want_l))
                continue
            V.violate(kind="oracle", failing_input=True, procs=procs, input=describe_procs(procs) + ["later process: cicada -c '%s'" % cmd],
                      expected=want_l, observed=got_l, rows=[(r[0], r[1], r[3]) for r in rows],
                      note="the listing in a later shell process does not show the recorded lines in submission order")
            break
    res.count("L3_process_sequences", len(seqs))
    res.count("L3_processes", sum(len(s) for s in seqs))
    res.count("L3_listings_by_later_processes", len(seqs) * len(LISTINGS))
    res.sample({"layer": "L3", "procs": describe_procs(seqs[1]), "recorded": [(r[1], r[3]) for r in got[1][1]], "listings": got[1][2]})


def run(ctx, res):
    res.rule = ("L0: random literals / LIKE pairs, model vs sqlite3; L1: random scenarios (3-10 ops of add / list / delete) over "
                "texts, patterns and directory names from %r with both quote kinds, in-process; L2: the same through real "
                "`cicada -c` processes sharing one database file with cwd = the named directory; L3: pty sessions with leading "
                "spaces and repeats. non-trivial = distinct stored text+directory, distinct non-empty listing, distinct "
                "removed row, distinct known-class behaviour, distinct session with a skipped line" % (ALPHA,))
    known = C.known_findings("C18")
    ctx.replay_ops, ctx.replay_layer, ctx.replay_procs = None, None, None
    if ctx.replay:
        import json
        r = json.load(open(ctx.replay))
        ctx.replay_ops, ctx.replay_layer, ctx.replay_procs = r.get("ops"), r.get("layer"), r.get("procs")
    work = tempfile.mkdtemp(prefix="c18_")
    try:
        layer0(ctx, res)
        V = Verdicts(res, "L1", known)
        layer1(ctx, res, V, work)
        V2 = Verdicts(res, "L2", known)
        layer2(ctx, res, V2, work)
        V3 = Verdicts(res, "L3", known)
        layer3(ctx, res, V3, work)
        res.extra["not_covered"] = ["`history -d` date rendering", "HISTORY_TABLE other than the default",
                                    "init's load order into the line editor, delete_duplicated_histories (HISTORY_DELETE_DUPS=0 in L3)",
                                    "concurrent writers / locking (sqlite's)"]
    finally:
        shutil.rmtree(work, ignore_errors=True)
