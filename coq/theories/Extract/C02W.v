From Coq Require Import Extraction ExtrOcamlBasic.
From Cicada Require Import Model.WaitFg.
Extraction Language OCaml.
Extraction "c02w_model.ml" wait_fg_job.
