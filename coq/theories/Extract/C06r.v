From Coq Require Import Extraction ExtrOcamlBasic.
From Cicada Require Import Gen.JobsRepaired.
Extraction Language OCaml.
Extraction "c06r_model.ml" step trace init_rst binary_search.
