From Coq Require Import Extraction ExtrOcamlBasic.
From Cicada Require Import Base.Chars Base.Tag Model.Tokenizer Model.Cmds Model.Rerender.
Extraction Language OCaml.
Extraction "c16_model.ml" parse_line is_complete line_to_cmds wrap_sep_string tokens_to_line rerender is_args_in_token
  expand_args_for_single_token expand_args no_positional seg_tokens env_args_to_command_line fold_lines fold_lines_fixed no_cont.
