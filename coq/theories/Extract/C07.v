From Coq Require Import Extraction ExtrOcamlBasic.
From Cicada Require Import Model.Jobs Model.Term.
Extraction "c07_model.ml" Term.step Term.init Term.run Term.trace.
