From Coq Require Import Extraction ExtrOcamlBasic.
From Cicada Require Import Base.Chars Base.Tag Model.Tokenizer Model.Expand Model.Redirect Model.FullPlan.
Extraction Language OCaml.
Extraction "c13_model.ml" parse_line plan_tokens do_expansion_log plan plan_log.
