From Coq Require Import Extraction ExtrOcamlBasic.
From Cicada Require Import Base.Chars Model.Vars Model.VarsSpec.
Extraction Language OCaml.
Extraction "c09_model.ml" unquote is_env valid_ident unset_name_ok split_env_loose split_env_strict drain
  split_into_fields set_env get_env remove_env expand_lookup run_proc step run_hist
  render spec_step wf_op abs.
