(* Shared engine of C02 / C04 / C08: the descriptor model of run_pipeline. Model/ only. *)
From Coq Require Import Extraction ExtrOcamlBasic.
From Cicada Require Import Model.OsLite Model.Pipeline.
Extraction Language OCaml.
Extraction "fds_model.ml" run_pipeline known_dupleak known_capredir known_capdup lookahead_leak is_single_builtin out_of_scope
  posix_sinks posix_opens std_in std_out std_err lookup.
