From Coq Require Import Extraction ExtrOcamlBasic.
From Cicada Require Import Base.Chars Model.Redirs.
Extraction Language OCaml.
Extraction "c04r_model.ml" tokens_to_redirections from_tokens from_tokens_core.
