From Coq Require Import Extraction ExtrOcamlBasic.
From Cicada Require Import Base.Chars Model.History.
Extraction Language OCaml.
Extraction "c18_model.ml" insert_sql select_sql delete_sql intended_row parse_insert lex_literal like
  db_insert db_delete db_list session_run has_sq has_nul.
