From Coq Require Import Extraction ExtrOcamlBasic.
From Cicada Require Import Base.Chars Model.History.
Extraction Language OCaml.
Extraction "c18_model.ml" insert_stmt select_stmt delete_sql intended_row insert_rows like
  db_insert db_delete db_list session_run db_procs extend_bangbang.
