From Coq Require Import Extraction ExtrOcamlBasic.
From Cicada Require Import Model.Jobs.
Extraction Language OCaml.
Extraction "c06_model.ml" step trace init_rst position insert_job remove_pid_from_job
  mark_job_member_stopped mark_job_member_continued sh_mark_job_as_running sh_mark_job_as_stopped.
