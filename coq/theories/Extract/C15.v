From Coq Require Import Extraction ExtrOcamlBasic.
From Cicada Require Import Base.Chars Model.Args Model.ShellScript.
Extraction Language OCaml.
Extraction "c15_model.ml" expand_args_for_single_token is_args_in_token expand_args_in_tokens function_table
  script_status func_call_status run_script exec_line.
