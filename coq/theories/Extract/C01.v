From Coq Require Import Extraction ExtrOcamlBasic.
From Cicada Require Import Base.Chars Base.Tag Model.Tokenizer Model.Redirect Model.Cmds.
Extraction Language OCaml.
Extraction "c01_model.ml" parse_line is_complete is_arithmetic tokens_to_redirections from_tokens
  plan_tokens line_to_cmds unquote.
