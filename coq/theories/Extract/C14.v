From Coq Require Import Extraction ExtrOcamlBasic.
From Cicada Require Import Base.Chars Base.Peg Gen.LocustGrammar Model.Script Model.ScriptAst Model.Cmds Model.ListExec Model.CondLine.
Extraction Language OCaml.
Extraction "c14_model.ml" run_line_of parse_from annotate l_grammar L_EXP l_names run_lines
  render_block tree_of_script sem_block wf_block wfp_block depth_block strip_eoi L_EOI.
