From Coq Require Import Extraction ExtrOcamlBasic.
From Cicada Require Import Base.Chars Model.Cmds Model.ListExec.
Extraction Language OCaml.
Extraction "c03_model.ml" line_to_cmds run_command_line run_tokens.
