From Coq Require Import Extraction ExtrOcamlBasic.
From Cicada Require Import Base.Chars Base.Tag Model.Tokenizer Model.Redirect Model.Cmds
  Model.Highlight Model.WordStart Model.FirstWord Model.C05Classes Model.Alias Model.AliasSites.
Extraction Language OCaml.
Extraction "c05_model.ml" parse_line is_complete is_arithmetic line_to_cmds plan_and_lookup expand_alias_sites from_tokens tokens_to_redirections
  plans_empty_command highlight highlight_tokens find_token_range escaped_word_start
  lookahead_guarded rparen_guarded known_foreign.
