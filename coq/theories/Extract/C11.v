From Coq Require Import Extraction ExtrOcamlBasic.
From Cicada Require Import Base.Chars Base.Tag Base.Regex Gen.ShellRegexes Model.Expand Model.ExpandRef Model.Tokenizer.
Extraction Language OCaml.
Extraction "c11_model.ml" env_in_token expand_env_once expand_env need_expand_brace brace_getitem
  brace_getgroup expand_brace expand_brace_range expand_home needs_globbing expand_glob should_do_dollar
  subst_dollar subst_dot do_command_substitution do_expansion_log do_expansion tokens_to_line
  Expand.is_arithmetic parse_line range_list find_range dot_split find_dollar
  render_pieces den_pieces wf_pieces count_refs gate_ok gate_ok_dq render_term den_term wf_term range_ref.
