From Coq Require Import Extraction ExtrOcamlBasic.
From Cicada Require Import Base.Chars Base.Tag Model.Alias.
Extraction Language OCaml.
Extraction "c17_model.ml" expand_alias expand_spec alias_builtin unalias_builtin add_alias get_alias_content listing_line lookup.
