From Coq Require Import Extraction ExtrOcamlBasic.
From Cicada Require Import Model.Complete Model.Tokenizer Model.Redirect Model.Cmds.
Extraction "c20_model.ml" escape_path wrap_sep_string escaped_word_start split_bytes byte_len needs_expand_home
  split_pathname complete_path tab_line run_line literal_token parse_line line_to_cmds plan_tokens for_cd dispatch.
