From Coq Require Import Extraction ExtrOcamlBasic.
From Cicada Require Import Base.Chars Gen.CalcTables Model.Calc Model.CalcPeg Model.CalcFloat.
Extraction Language OCaml.
Extraction "c19_model.ml" is_arithmetic parse_line_arith parse_calc pratt_tree run_calculator try_run_calculator peg_pairs run_calculator_f f64_syntax.
