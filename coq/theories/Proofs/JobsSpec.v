(** The property C06 as a decidable predicate on histories: ground truth
    (process states given by the consumed wait statuses), validity of a
    history (the property's quantifier), goodness of the state after its last
    operation, and the known failing classes. *)
From Coq Require Import ZArith List Bool Arith Lia.
From Cicada Require Import Model.Jobs.
Import ListNotations.
Local Open Scope Z_scope.

Inductive pstate := PR | PS | PD.
Definition pstate_eqb (a b : pstate) : bool :=
  match a, b with PR, PR | PS, PS | PD, PD => true | _, _ => false end.

Definition ev_effect (e : ev) : pstate :=
  match e with Exited _ _ | Signaled _ _ => PD | StoppedE _ _ => PS | Continued _ => PR end.

Definition op_events (o : op) : list ev :=
  match o with Launch _ _ _ => [] | Wait _ _ evs => evs | Poll evs => evs end.
Definition all_events (h : list op) : list ev := concat (map op_events h).
Definition launched (h : list op) : list Z :=
  concat (map (fun o => match o with Launch _ pids _ => pids | _ => [] end) h).

(** the statuses the shell has consumed so far: all but the still pending ones *)
Definition consumed (h : list op) : list ev :=
  firstn (length (all_events h) - length (r_pend (run h))) (all_events h).

Definition pst_in (evs : list ev) (p : Z) : pstate :=
  fold_left (fun st e => if ev_pid e =? p then ev_effect e else st) evs PR.
Definition pst (h : list op) (p : Z) : pstate := pst_in (consumed h) p.

(** ---- validity: the quantifier of the property *)
Fixpoint nodupb (l : list Z) : bool :=
  match l with [] => true | x :: r => negb (memZ x r) && nodupb r end.

(** per process (stop cont)* then exit|kill, only for launched processes *)
Fixpoint events_ok (known : list Z) (st : list (Z * pstate)) (evs : list ev) : bool :=
  match evs with
  | [] => true
  | e :: r =>
      let p := ev_pid e in
      let cur := match find (fun x => fst x =? p) st with Some (_, s) => s | None => PR end in
      memZ p known &&
      match e, cur with
      | Continued _, PS => true
      | Continued _, _ => false
      | _, PR => true
      | _, _ => false
      end && events_ok known ((p, ev_effect e) :: st) r
  end.

(** launches: non-empty, gid = first pid, fresh positive pids; a foreground
    launch is directly followed by the wait on it, and a wait occurs only there;
    the statuses given to a wait let it return (no foreground member left running) *)
Fixpoint shape_ok (seen : list Z) (delivered : list ev) (h : list op) : bool :=
  match h with
  | [] => true
  | Launch gid pids bg :: r =>
      match pids with [] => false | p0 :: _ => gid =? p0 end &&
      forallb (fun p => (0 <? p) && negb (memZ p seen)) pids && nodupb pids &&
      (if bg then match r with Wait _ _ _ :: _ => false | _ => true end
       else match r with
            | Wait g ps evs :: _ =>
                (g =? gid) && (length ps =? length pids)%nat && forallb (fun p => memZ p pids) ps &&
                forallb (fun p => memZ p ps) pids &&
                forallb (fun p => negb (pstate_eqb (pst_in (delivered ++ evs) p) PR)) pids
            | _ => false
            end) &&
      shape_ok (pids ++ seen) delivered r
  | Wait _ _ evs :: r => shape_ok seen (delivered ++ evs) r
  | Poll evs :: r => shape_ok seen (delivered ++ evs) r
  end.

Definition first_is_wait (h : list op) : bool := match h with Wait _ _ _ :: _ => true | _ => false end.

(** events are only for processes launched before them *)
Fixpoint order_ok (seen : list Z) (h : list op) : bool :=
  match h with
  | [] => true
  | Launch _ pids _ :: r => order_ok (pids ++ seen) r
  | o :: r => forallb (fun e => memZ (ev_pid e) seen) (op_events o) && order_ok seen r
  end.

Definition valid (h : list op) : bool :=
  negb (first_is_wait h) && shape_ok [] [] h && order_ok [] h && events_ok (launched h) [] (all_events h).

(** ---- goodness of the state after the last operation *)
Definition in_table (p : Z) (t : table) : bool := existsb (fun j => memZ p (jpids j)) t.
Definition view_stopped (p : Z) (t : table) : bool := existsb (fun j => memZ p (jpids j) && memZ p (jstopped j)) t.

Definition good_table (h : list op) : bool :=
  let t := tab (r_sh (run h)) in
  forallb (fun p => match pst h p with
                    | PD => negb (in_table p t)
                    | PR => in_table p t && negb (view_stopped p t)
                    | PS => in_table p t && view_stopped p t
                    end) (launched h)
  && forallb (fun j =>
        let live := filter (fun p => negb (pstate_eqb (pst h p) PD)) (jpids j) in
        negb (match live with [] => true | _ => false end) &&
        Bool.eqb (match jst j with Stopped => true | Running => false end)
                 (forallb (fun p => pstate_eqb (pst h p) PS) live)) t.

Definition last_status (evs : list ev) (p : Z) : Z :=
  fold_left (fun st e => if (ev_pid e =? p) && negb (is_cont e) then ev_status e else st) evs 0.

Definition good_wait (h : list op) (pids : list Z) : bool :=
  let r := run h in
  if r_blocked r then existsb (fun p => pstate_eqb (pst h p) PR) pids
  else forallb (fun p => negb (pstate_eqb (pst h p) PR)) pids
       && existsb (fun p => pstate_eqb (pst_in (removelast (consumed h)) p) PR) pids
       && (r_status r =? last_status (consumed h) (last pids 0)).

Definition good (h : list op) : bool :=
  match last h (Launch 0 [] true) with
  | Launch _ _ _ => true
  | Wait _ pids _ => good_wait h pids
  | Poll _ => match r_pend (run h) with [] => good_table h | _ => true end
  end.

(** ---- the known failing classes *)
Fixpoint ascb (l : list Z) : bool :=
  match l with
  | [] => true
  | x :: r => match r with [] => true | y :: _ => (x <? y) && ascb r end
  end.

(** (a) a job whose pid vector is not ascending *)
Definition known_unsorted (h : list op) : bool :=
  existsb (fun o => match o with Launch _ pids _ => negb (ascb pids) | _ => false end) h.

(** (b,e,f) a stop or continue of a member of a multi-process job *)
Definition multi_pids (h : list op) : list Z :=
  concat (map (fun o => match o with
                        | Launch _ pids _ => match pids with _ :: _ :: _ => pids | _ => [] end
                        | _ => [] end) h).
Definition is_stop_or_cont (e : ev) : bool :=
  match e with StoppedE _ _ | Continued _ => true | _ => false end.
Definition known_member_stop (h : list op) : bool :=
  existsb (fun e => is_stop_or_cont e && memZ (ev_pid e) (multi_pids h)) (all_events h).

(** (c) a stop and a continue of one process, neither for the waited job, with no poll in between *)
Fixpoint sc_parked (ps pc : list Z) (h : list op) : bool :=
  match h with
  | [] => false
  | o :: r =>
      let fg := match o with Wait _ pids _ => pids | _ => [] end in
      let evs := filter (fun e => negb (memZ (ev_pid e) fg)) (op_events o) in
      let ps' := map ev_pid (filter (fun e => match e with StoppedE _ _ => true | _ => false end) evs) ++ ps in
      let pc' := map ev_pid (filter is_cont evs) ++ pc in
      existsb (fun p => memZ p pc') ps' ||
      match o with Poll _ => sc_parked [] [] r | _ => sc_parked ps' pc' r end
  end.
Definition known_stop_cont_parked (h : list op) : bool := sc_parked [] [] h.

Definition known (h : list op) : bool :=
  known_unsorted h || known_member_stop h || known_stop_cont_parked h.

(** ---- witnesses *)
Definition w_unsorted : list op :=
  [Launch 9 [9; 3] false; Wait 9 [9; 3] [Exited 9 0; Exited 3 0]; Poll []].
Definition w_count_waited : list op :=
  [Launch 3 [3; 9] false; Wait 3 [3; 9] [StoppedE 3 19; Continued 3; Exited 3 0; Exited 9 5]].
Definition w_stop_cont_parked : list op :=
  [Launch 5 [5] true; Poll [StoppedE 5 19; Continued 5]].
Definition w_exit_among_stopped : list op :=
  [Launch 5 [5; 6] true; Poll [StoppedE 5 19]; Poll [Exited 6 0]].
Definition w_partial_continue : list op :=
  [Launch 5 [5; 6] true; Poll [StoppedE 5 19; StoppedE 6 19]; Poll [Continued 5]].
(** a good one, for non-vacuity: non-monotone pids, foreground and background, a
    background exit reaped by the foreground wait, a stop/continue of a single-process job *)
Definition w_good : list op :=
  [Launch 40 [40; 50] true; Launch 7 [7] true; Launch 10 [10; 20; 30] false;
   Wait 10 [10; 20; 30] [Exited 20 0; Exited 50 1; StoppedE 7 19; Signaled 10 9; Exited 30 3];
   Poll []; Poll [Continued 7]; Poll [Exited 40 0; Exited 7 2]].
