(** The property C06 as a decidable predicate on histories: ground truth
    (process states given by the consumed wait statuses), validity of a
    history (the property's quantifier), goodness of the state after its last
    operation, and the known failing classes. *)
From Coq Require Import ZArith List Bool Arith Lia.
From Cicada Require Import Model.Jobs.
Import ListNotations.
Local Open Scope Z_scope.

Inductive pstate := PR | PS | PD.
Definition pstate_eqb (a b : pstate) : bool :=
  match a, b with PR, PR | PS, PS | PD, PD => true | _, _ => false end.

Definition ev_effect (e : ev) : pstate :=
  match e with Exited _ _ | Signaled _ _ => PD | StoppedE _ _ => PS | Continued _ => PR end.

Definition op_events (o : op) : list ev :=
  match o with Launch _ _ _ => [] | Wait _ _ evs => evs | Poll evs => evs end.
Definition all_events (h : list op) : list ev := concat (map op_events h).
Definition launched (h : list op) : list Z :=
  concat (map (fun o => match o with Launch _ pids _ => pids | _ => [] end) h).

(** the statuses the shell has consumed so far: all but the still pending ones *)
Definition consumed (h : list op) : list ev :=
  firstn (length (all_events h) - length (r_pend (run h))) (all_events h).

Definition pst_in (evs : list ev) (p : Z) : pstate :=
  fold_left (fun st e => if ev_pid e =? p then ev_effect e else st) evs PR.
Definition pst (h : list op) (p : Z) : pstate := pst_in (consumed h) p.

(** ---- validity: the quantifier of the property, as a check of each
    operation against a bookkeeping state (so that every prefix of a valid
    history is valid) *)
Fixpoint nodupb (l : list Z) : bool :=
  match l with [] => true | x :: r => negb (memZ x r) && nodupb r end.

Fixpoint list_eqb (a b : list Z) : bool :=
  match a, b with
  | [], [] => true
  | x :: a', y :: b' => (x =? y) && list_eqb a' b'
  | _, _ => false
  end.

Record vst := mkv {
  v_seen : list Z;                    (* pids launched so far *)
  v_deliv : list ev;                  (* statuses the kernel has reported so far *)
  v_expect : option (Z * list Z) }.   (* a foreground launch whose wait must come next *)

Definition v0 := mkv [] [] None.

(** per process (stop cont)* then exit|kill, only for launched processes *)
Definition ev_ok (seen : list Z) (deliv : list ev) (e : ev) : bool :=
  memZ (ev_pid e) seen &&
  match e, pst_in deliv (ev_pid e) with
  | Continued _, PS => true
  | Continued _, _ => false
  | _, PR => true
  | _, _ => false
  end.

Fixpoint evs_ok (seen : list Z) (deliv : list ev) (evs : list ev) : bool :=
  match evs with
  | [] => true
  | e :: r => ev_ok seen deliv e && evs_ok seen (deliv ++ [e]) r
  end.

(** launches: non-empty, gid = first pid, fresh positive distinct pids; a
    foreground launch is directly followed by the wait on it (same gid and pid
    vector) and a wait occurs only there; the statuses reported up to the end of
    a wait let it return (no member left running) *)
Definition vcheck (v : vst) (o : op) : bool :=
  match o with
  | Launch gid pids bg =>
      match v_expect v with None => true | Some _ => false end &&
      match pids with [] => false | p0 :: _ => gid =? p0 end &&
      forallb (fun p => (0 <? p) && negb (memZ p (v_seen v))) pids && nodupb pids
  | Wait gid pids evs =>
      match v_expect v with
      | Some (g, ps) => (gid =? g) && list_eqb pids ps
      | None => false
      end &&
      evs_ok (v_seen v) (v_deliv v) evs &&
      forallb (fun p => negb (pstate_eqb (pst_in (v_deliv v ++ evs) p) PR)) pids
  | Poll evs =>
      match v_expect v with None => true | Some _ => false end &&
      evs_ok (v_seen v) (v_deliv v) evs
  end.

Definition vnext (v : vst) (o : op) : vst :=
  match o with
  | Launch gid pids bg => mkv (pids ++ v_seen v) (v_deliv v) (if bg then None else Some (gid, pids))
  | Wait gid pids evs => mkv (v_seen v) (v_deliv v ++ evs) None
  | Poll evs => mkv (v_seen v) (v_deliv v ++ evs) None
  end.

Fixpoint valid_from (v : vst) (h : list op) : bool :=
  match h with [] => true | o :: r => vcheck v o && valid_from (vnext v o) r end.
Definition valid (h : list op) : bool := valid_from v0 h.
Definition vrun (h : list op) : vst := fold_left vnext h v0.

(** ---- goodness of the state after the last operation *)
Definition in_table (p : Z) (t : table) : bool := existsb (fun j => memZ p (jpids j)) t.
Definition view_stopped (p : Z) (t : table) : bool := existsb (fun j => memZ p (jpids j) && memZ p (jstopped j)) t.

Definition good_table (h : list op) : bool :=
  let t := tab (r_sh (run h)) in
  forallb (fun p => match pst h p with
                    | PD => negb (in_table p t)
                    | PR => in_table p t && negb (view_stopped p t)
                    | PS => in_table p t && view_stopped p t
                    end) (launched h)
  && forallb (fun j =>
        let live := filter (fun p => negb (pstate_eqb (pst h p) PD)) (jpids j) in
        negb (match live with [] => true | _ => false end) &&
        Bool.eqb (match jst j with Stopped => true | Running => false end)
                 (forallb (fun p => pstate_eqb (pst h p) PS) live)) t.

Definition last_status (evs : list ev) (p : Z) : Z :=
  fold_left (fun st e => if (ev_pid e =? p) && negb (is_cont e) then ev_status e else st) evs 0.

Definition good_wait (h : list op) (pids : list Z) : bool :=
  let r := run h in
  if r_blocked r then existsb (fun p => pstate_eqb (pst h p) PR) pids
  else forallb (fun p => negb (pstate_eqb (pst h p) PR)) pids
       && existsb (fun p => pstate_eqb (pst_in (removelast (consumed h)) p) PR) pids
       && (r_status r =? last_status (consumed h) (last pids 0)).

Definition good (h : list op) : bool :=
  match last h (Launch 0 [] true) with
  | Launch _ _ _ => true
  | Wait _ pids _ => good_wait h pids
  | Poll _ => match r_pend (run h) with [] => good_table h | _ => true end
  end.

Definition is_stop_or_cont (e : ev) : bool :=
  match e with StoppedE _ _ | Continued _ => true | _ => false end.

(** ---- regression histories: the witnesses of the defects repaired in /repo (now good) and two broader ones *)
Definition w_count_waited : list op :=
  [Launch 3 [3; 9] false; Wait 3 [3; 9] [StoppedE 3 19; Continued 3; Exited 3 0; Exited 9 5]].
Definition w_stop_cont_parked : list op :=
  [Launch 5 [5] true; Poll [StoppedE 5 19; Continued 5]].
Definition w_exit_among_stopped : list op :=
  [Launch 5 [5; 6] true; Poll [StoppedE 5 19]; Poll [Exited 6 0]].
Definition w_partial_continue : list op :=
  [Launch 5 [5; 6] true; Poll [StoppedE 5 19; StoppedE 6 19]; Poll [Continued 5]].
(** a good one, for non-vacuity: non-monotone pids, foreground and background, a
    background exit reaped by the foreground wait, a stop/continue of a single-process job *)
Definition w_good : list op :=
  [Launch 50 [50; 40] true; Launch 7 [7] true; Launch 10 [10; 20; 30] false;
   Wait 10 [10; 20; 30] [Exited 20 0; Exited 50 1; StoppedE 7 19; Signaled 10 9; Exited 30 3];
   Poll []; Poll [Continued 7]; Poll [Exited 40 0; Exited 7 2]].
(** exit / kill only: pid vectors in any order, background exits reaped by a foreground wait *)
Definition w_exit_only : list op :=
  [Launch 9 [9; 3; 6] true; Launch 50 [50; 2] false;
   Wait 50 [50; 2] [Exited 3 0; Signaled 50 9; Exited 9 1; Exited 2 7];
   Launch 8 [8] true; Poll [Signaled 8 15]; Poll [Exited 6 0]].
