(** C15: positional-parameter substitution of expand_args_for_single_token is a
    single left-to-right pass (substituted text is not rescanned), specified by
    the relation [Subst]. *)
From Cicada Require Import Base.Chars Model.Args.
From Coq Require Import ZArith Lia.
Local Open Scope N_scope.

(** Reference: read the token left to right; a dollar that starts a reference
    is replaced, together with the reference, by the value of its key; every
    other character is copied. *)
Inductive Subst (args : list str) : str -> str -> Prop :=
| S_nil : Subst args [] []
| S_copy c r out :
    (if c =? c_dollar then ref_at r else None) = None ->
    Subst args r out -> Subst args (c :: r) (c :: out)
| S_ref r k tail v out :
    ref_at r = Some (k, tail) -> key_value args k = Some v ->
    Subst args tail out -> Subst args (c_dollar :: r) (v ++ out).

Definition no_nl (s : str) : bool := forallb (fun c => negb (c =? c_nl)) s.

Lemma no_nl_has_nl s : no_nl s = true -> has_nl s = false.
Proof.
  induction s as [|c r IH]; cbn; [reflexivity|]. intro H. apply andb_prop in H as [H1 H2].
  apply negb_true_iff in H1. rewrite H1. cbn. apply IH, H2.
Qed.

(** the remainder of a reference is a proper suffix *)
Lemma take_digits_suffix s : forall acc n r, take_digits s acc = (n, r) -> exists pre, s = pre ++ r.
Proof.
  induction s as [|c s IH]; intros acc n r H; cbn in H.
  - injection H as _ <-. exists []. reflexivity.
  - destruct (is_digit c).
    + apply IH in H as [pre ->]. exists (c :: pre). reflexivity.
    + injection H as _ <-. exists []. reflexivity.
Qed.

Lemma drop_rb_suffix s : exists pre, s = pre ++ drop_rb s.
Proof.
  destruct s as [|c r]; cbn; [exists []; reflexivity|].
  destruct (c =? c_rbrace); [exists [c] | exists []]; reflexivity.
Qed.

Lemma ref_body_suffix s k t : ref_body s = Some (k, t) -> exists pre, s = pre ++ t /\ pre <> [].
Proof.
  destruct s as [|c r]; [discriminate|]. unfold ref_body.
  destruct (c =? c_at).
  - intro H. injection H as _ <-. destruct (drop_rb_suffix r) as [pre E].
    exists (c :: pre). split; [cbn; congruence | discriminate].
  - destruct (is_digit c) eqn:D; [|discriminate].
    destruct (take_digits (c :: r) 0) as [n r'] eqn:T.
    intro H. injection H as _ <-.
    cbn [take_digits] in T. rewrite D in T.
    apply take_digits_suffix in T as [pre1 ->].
    destruct (drop_rb_suffix r') as [pre2 E].
    exists (c :: pre1 ++ pre2). split; [|discriminate].
    cbn. rewrite <- app_assoc. congruence.
Qed.

Lemma ref_at_suffix s k t : ref_at s = Some (k, t) -> exists pre, s = pre ++ t /\ pre <> [].
Proof.
  destruct s as [|c r]; cbn; [discriminate|].
  destruct (c =? c_lbrace).
  - intro H. apply ref_body_suffix in H as [pre [-> Hp]]. exists (c :: pre). split; [reflexivity|discriminate].
  - intro H. apply (ref_body_suffix (c :: r)) in H. exact H.
Qed.

Lemma suffix_len (pre t : str) : pre <> [] -> (length t < length (pre ++ t))%nat.
Proof. destruct pre; [congruence|]. intros _. cbn. rewrite app_length. lia. Qed.

Lemma no_nl_suffix pre t : no_nl (pre ++ t) = true -> no_nl t = true.
Proof. unfold no_nl. rewrite forallb_app. intro H. apply andb_prop in H. tauto. Qed.

(** one step of the loop over a character that does not start a reference *)
Lemma expand_loop_copy f args c r res :
  (if c =? c_dollar then ref_at r else None) = None ->
  no_nl (c :: r) = true ->
  expand_loop (S f) args (c :: r) res = expand_loop (S f) args r (res ++ [c]).
Proof.
  intros Hc Hn. cbn [expand_loop].
  rewrite (no_nl_has_nl _ Hn).
  assert (Hn' : no_nl r = true) by (unfold no_nl in Hn; cbn [forallb] in Hn; apply andb_prop in Hn; tauto).
  rewrite (no_nl_has_nl _ Hn').
  cbn [find_ref]. rewrite Hc.
  destruct (find_ref r) as [[[h k] t]|].
  - destruct (key_value args k) as [v|]; [|reflexivity].
    cbn [app]. rewrite <- !app_assoc. cbn [app]. reflexivity.
  - rewrite <- app_assoc. reflexivity.
Qed.

Lemma expand_loop_subst args : forall tok out, Subst args tok out ->
  forall f res, (length tok <= f)%nat -> no_nl tok = true ->
  expand_loop (S f) args tok res = Ok (res ++ out).
Proof.
  induction 1 as [|c r out Hc HS IH|r k tail v out Hr Hv HS IH]; intros f res Hf Hn.
  - cbn. reflexivity.
  - rewrite expand_loop_copy by assumption.
    assert (Hn' : no_nl r = true) by (unfold no_nl in Hn; cbn [forallb] in Hn; apply andb_prop in Hn; tauto).
    cbn [length] in Hf. rewrite IH by (assumption || lia).
    rewrite <- app_assoc. reflexivity.
  - cbn [expand_loop]. rewrite (no_nl_has_nl _ Hn).
    cbn [find_ref]. rewrite N.eqb_refl, Hr, Hv. cbn [app].
    destruct (ref_at_suffix _ _ _ Hr) as [pre [E Hp]].
    assert (Hn' : no_nl tail = true).
    { unfold no_nl in Hn. cbn [forallb] in Hn. apply andb_prop in Hn as [_ Hn]. rewrite E in Hn. eapply no_nl_suffix; exact Hn. }
    assert (Hl : (length tail < length r)%nat) by (rewrite E; apply suffix_len; assumption).
    cbn [length] in Hf.
    destruct tail as [|t0 tail'].
    + inversion HS; subst. cbn. rewrite app_nil_r. reflexivity.
    + cbn [is_empty]. destruct f as [|f]; [lia|].
      rewrite IH by (assumption || lia). rewrite app_assoc. reflexivity.
Qed.

Theorem expand_single_subst : forall args token out,
  no_nl token = true -> Subst args token out ->
  expand_args_for_single_token token args = Ok out.
Proof.
  intros args token out Hn HS. unfold expand_args_for_single_token.
  rewrite (expand_loop_subst args token out HS) by (assumption || lia). reflexivity.
Qed.

(** the specification is functional *)
Lemma Subst_det args : forall tok o1, Subst args tok o1 -> forall o2, Subst args tok o2 -> o1 = o2.
Proof.
  induction 1 as [|c r out Hc HS IH|r k tail v out Hr Hv HS IH]; intros o2 H2; inversion H2; subst.
  - reflexivity.
  - f_equal. apply IH. assumption.
  - rewrite N.eqb_refl in Hc. congruence.
  - match goal with H : (if _ then _ else _) = None |- _ => rewrite N.eqb_refl in H; congruence end.
  - match goal with H : ref_at r = Some _ |- _ => rewrite Hr in H; injection H as <- <- end.
    match goal with H : key_value args k = Some _ |- _ => rewrite Hv in H; injection H as <- end.
    f_equal. apply IH. assumption.
Qed.

(** a token with a newline is returned unchanged, whatever references it holds *)
Theorem expand_single_newline : forall args token,
  has_nl token = true -> expand_args_for_single_token token args = Ok token.
Proof. intros args token H. unfold expand_args_for_single_token. cbn [expand_loop]. rewrite H. reflexivity. Qed.

(** try_run_func: the status of a call is that of the last result of the body (0 if there is none) *)
Theorem func_status_last : forall crs, func_call_status crs = script_status crs.
Proof. reflexivity. Qed.
