(** Facts about the split of attached [<file] words in [Command::from_tokens] (/repo 543507e),
    shared by the proofs about the planner. *)
From Coq Require Import List Bool NArith Lia.
From Cicada Require Import Base.Chars Base.Tag Model.Redirect.
Import ListNotations.

Lemma split_lts_id : forall l, existsb att_lt l = false -> split_lts l = l.
Proof.
  induction l as [|t r IH]; intros H; [reflexivity|]. cbn [existsb] in H. apply orb_false_iff in H as [H1 H2].
  unfold split_lts. cbn [flat_map]. unfold split_lt. rewrite H1. cbn [app]. f_equal. now apply IH.
Qed.

Lemma from_tokens_nosplit : forall l, existsb att_lt l = false -> from_tokens l = from_tokens_core l.
Proof. intros l H. unfold from_tokens. now rewrite split_lts_id. Qed.

Lemma att_lt_tagged : forall tg w, tag_eqb tg TNone = false -> att_lt (tg, w) = false.
Proof. intros tg w H. destruct tg; try reflexivity. discriminate. Qed.

Lemma att_lt_first : forall tg c r, (c =? c_lt)%N = false -> att_lt (tg, c :: r) = false.
Proof. intros tg c r H. destruct tg; try reflexivity. destruct r; [reflexivity|]. cbn. now rewrite H. Qed.

Lemma att_lt_nil : forall tg, att_lt (tg, []) = false.
Proof. destruct tg; reflexivity. Qed.

Lemma split_lts_app : forall a b, split_lts (a ++ b) = split_lts a ++ split_lts b.
Proof. intros. unfold split_lts. apply flat_map_app. Qed.

Lemma has_from_app : forall a b, has_from (a ++ b) = has_from a || has_from b.
Proof. intros. unfold has_from. apply existsb_app. Qed.

(** an attached word leaves an untagged [<] in the list that enters the loop *)
Lemma split_lts_has_from : forall l, existsb att_lt l = true -> has_from (split_lts l) = true.
Proof.
  induction l as [|t r IH]; intros H; [discriminate|]. cbn [existsb] in H.
  change (split_lts (t :: r)) with (split_lt t ++ split_lts r). rewrite has_from_app.
  destruct (att_lt t) eqn:A.
  - unfold split_lt. rewrite A. reflexivity.
  - cbn [orb] in H. rewrite (IH H). apply orb_true_r.
Qed.

Lemma att_lt_sw : forall tg w, starts_with_c c_lt w = false -> att_lt (tg, w) = false.
Proof. intros tg [|c r] H; [apply att_lt_nil|]. apply att_lt_first. exact H. Qed.
