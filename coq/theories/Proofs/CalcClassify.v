(** is_arithmetic: the three matchers against a plain list predicate. *)
From Coq Require Import Lia.
From Cicada Require Import Base.Chars Model.Calc.
Local Open Scope N_scope.

Lemma re1_search_existsb l : re1_search l = existsb is_digit l.
Proof. induction l as [|c r IH]; cbn; [reflexivity|]. destruct (is_digit c); cbn; auto. Qed.

Lemma re2_search_existsb l : re2_search l = existsb is_op_char l.
Proof. induction l as [|c r IH]; cbn; [reflexivity|]. destruct (is_op_char c); cbn; auto. Qed.

(** the last character, if any *)
Fixpoint last_opt (l : str) : option char :=
  match l with
  | [] => None
  | [c] => Some c
  | _ :: r => last_opt r
  end.

Definition last_in_b (l : str) : bool :=
  match last_opt l with Some c => in_set_b c | None => false end.

Lemma set_b_sub_a c : in_set_b c = true -> in_set_a c = true.
Proof.
  unfold in_set_b, in_set_a. intros H.
  repeat (apply orb_true_iff in H as [H|H]); rewrite ?H, ?orb_true_r; reflexivity.
Qed.

Lemma re3_tail_spec l : re3_tail l = forallb in_set_a l && last_in_b l.
Proof.
  induction l as [|c r IH]; [reflexivity|].
  cbn [re3_tail forallb]. rewrite IH. unfold last_in_b. destruct r as [|d r'].
  - cbn. destruct (in_set_b c) eqn:B; destruct (in_set_a c) eqn:A; try reflexivity.
    rewrite (set_b_sub_a c B) in A. discriminate.
  - cbn [is_empty last_opt]. rewrite andb_false_r. cbn [orb].
    rewrite andb_assoc. reflexivity.
Qed.

Lemma re3_match_spec l :
  re3_match l = forallb in_set_a l && last_in_b l && (Nat.leb 2 (length l)).
Proof.
  destruct l as [|c r]; [reflexivity|]. unfold re3_match. rewrite re3_tail_spec.
  destruct r as [|d r'].
  - cbn. rewrite !andb_false_r. reflexivity.
  - unfold last_in_b. cbn [forallb last_opt length Nat.leb]. rewrite andb_true_r, andb_assoc. reflexivity.
Qed.

(** a digit is not an operator character: a line with both has two characters *)
Lemma digit_not_op c : is_digit c = true -> is_op_char c = false.
Proof.
  unfold is_digit, is_op_char. intros H. apply andb_true_iff in H as [H1 H2].
  apply N.leb_le in H1. apply N.leb_le in H2.
  repeat match goal with |- context [c =? ?k] => destruct (N.eqb_spec c k); [lia|] end. reflexivity.
Qed.

Lemma two_chars l : existsb is_digit l = true -> existsb is_op_char l = true -> (Nat.leb 2 (length l)) = true.
Proof.
  destruct l as [|c [|d r]]; cbn; try discriminate; try reflexivity.
  rewrite !orb_false_r. intros H1 H2. rewrite (digit_not_op c H1) in H2. discriminate.
Qed.

(** the descriptive predicate of the property text *)
Definition arith_desc (l : str) : bool :=
  forallb in_set_a l && existsb is_digit l && existsb is_op_char l && last_in_b l.

Theorem is_arithmetic_desc l : is_arithmetic l = arith_desc l.
Proof.
  unfold is_arithmetic, arith_desc. rewrite re1_search_existsb, re2_search_existsb, re3_match_spec.
  destruct (existsb is_digit l) eqn:D; cbn [negb]; [|rewrite andb_false_r; reflexivity].
  destruct (existsb is_op_char l) eqn:O; cbn [negb]; [|rewrite andb_false_r; reflexivity].
  rewrite (two_chars l D O). rewrite !andb_true_r. reflexivity.
Qed.

(** ... and as a proposition over the list *)
Theorem is_arithmetic_iff l :
  is_arithmetic l = true <->
  (Forall (fun c => in_set_a c = true) l /\ Exists (fun c => is_digit c = true) l /\
   Exists (fun c => is_op_char c = true) l /\ exists c, last_opt l = Some c /\ in_set_b c = true).
Proof.
  rewrite is_arithmetic_desc. unfold arith_desc. rewrite !andb_true_iff.
  rewrite forallb_forall, <- Forall_forall. rewrite !existsb_exists, <- !Exists_exists.
  unfold last_in_b. split.
  - intros [[[A D] O] B]. repeat split; try assumption.
    destruct (last_opt l) as [c|]; [|discriminate]. exists c. split; [reflexivity|exact B].
  - intros (A & D & O & c & E & B). rewrite E. repeat split; assumption.
Qed.

(** the parse_line shortcut *)
Lemma parse_line_arith_some l : is_arithmetic l = true -> parse_line_arith l = Some (split_sp l).
Proof. unfold parse_line_arith. intros ->. reflexivity. Qed.
