(** The generic pest interpreter (Base/Peg.v) run on the GENERATED calculator
    grammar (Gen/CalcGrammar.v) computes what the hand-written PEG model of
    Model/Calc.v computes: same acceptance, same pair lists, on every input;
    and it never runs out of fuel above a linear bound. The correspondence for
    the atomic rule num is a Section hypothesis here (proved in CalcPegNum.v
    and discharged in CalcPegTie.v). *)
From Coq Require Import Lia Arith.
From Cicada Require Import Base.Chars Base.Peg Gen.CalcGrammar Model.Calc Model.CalcPeg Proofs.CalcPegNum
  Proofs.CalcWf Proofs.CalcFuel.
Local Open Scope N_scope.

Definition X : pexp := PSeq (PRef 3) (PRef 10).

Definition convs (src : str) : list Peg.tree -> option (list (pair str)) :=
  fix go (l : list Peg.tree) : option (list (pair str)) :=
    match l with
    | [] => Some []
    | k :: l' => match conv src k, go l' with
                 | Some p, Some ps => Some (p :: ps)
                 | _, _ => None
                 end
    end.

Lemma conv_expr src s e kids :
  conv src (Peg.Node 9 s e kids) = match convs src kids with Some ps => Some (PExpr ps) | None => None end.
Proof. reflexivity. Qed.

Lemma convs_cons src k l :
  convs src (k :: l) = match conv src k, convs src l with Some p, Some ps => Some (p :: ps) | _, _ => None end.
Proof. reflexivity. Qed.

Definition op_rule (o : op) : N := match o with Add => 4 | Sub => 5 | Mul => 6 | Div => 7 | Pow => 8 end.
Lemma conv_op src o s e : conv src (Peg.Node (op_rule o) s e []) = Some (POp o).
Proof. destruct o; reflexivity. Qed.
Lemma conv_num src s e : conv src (Peg.Node 1 s e []) = Some (PNum (sub src s e)).
Proof. reflexivity. Qed.

(* one-step unfoldings *)
Lemma ev_seq g f a b at_ pos r :
  ev g (S f) (PSeq a b) at_ pos r =
  match ev g f a at_ pos r with
  | Peg.POk p1 r1 k1 =>
      match ev g f PSkip at_ p1 r1 with
      | Peg.POk p2 r2 k2 =>
          match ev g f b at_ p2 r2 with
          | Peg.POk p3 r3 k3 => Peg.POk p3 r3 (k1 ++ k2 ++ k3)
          | x => x
          end
      | x => x
      end
  | x => x
  end.
Proof. reflexivity. Qed.
Lemma ev_alt g f a b at_ pos r :
  ev g (S f) (PAlt a b) at_ pos r =
  match ev g f a at_ pos r with Peg.PFail => ev g f b at_ pos r | x => x end.
Proof. reflexivity. Qed.
Lemma ev_rep g f a at_ pos r :
  ev g (S f) (PRep a) at_ pos r =
  match ev g f a at_ pos r with
  | Peg.POk p1 r1 k1 =>
      match ev g f (PRepTail a) at_ p1 r1 with
      | Peg.POk p2 r2 k2 => Peg.POk p2 r2 (k1 ++ k2)
      | x => x
      end
  | Peg.PFail => Peg.POk pos r []
  | Peg.PFuel => Peg.PFuel
  end.
Proof. reflexivity. Qed.
Lemma ev_reptail g f a at_ pos r :
  ev g (S f) (PRepTail a) at_ pos r =
  match ev g f PSkip at_ pos r with
  | Peg.POk p1 r1 k1 =>
      match ev g f a at_ p1 r1 with
      | Peg.POk p2 r2 k2 =>
          if Nat.eqb p2 pos then Peg.PFuel
          else match ev g f (PRepTail a) at_ p2 r2 with
               | Peg.POk p3 r3 k3 => Peg.POk p3 r3 (k1 ++ k2 ++ k3)
               | x => x
               end
      | Peg.PFail => Peg.POk pos r []
      | Peg.PFuel => Peg.PFuel
      end
  | Peg.PFail => Peg.POk pos r []
  | Peg.PFuel => Peg.PFuel
  end.
Proof. reflexivity. Qed.
Lemma ev_str g f (c : char) at_ pos r :
  ev g (S f) (PStr [c]) at_ pos r =
  match r with
  | y :: r' => if c =? y then Peg.POk (pos + 1) r' [] else Peg.PFail
  | [] => Peg.PFail
  end.
Proof. destruct r as [|y r']; [reflexivity|]. cbn. destruct (c =? y); reflexivity. Qed.
Lemma ev_ref9 f pos r :
  ev k_grammar (S f) (PRef 9) AtNon pos r =
  match ev k_grammar f (PSeq (PRef 10) (PRep X)) AtNon pos r with
  | Peg.POk p r' kids => Peg.POk p r' [Peg.Node 9 pos p kids]
  | x => x
  end.
Proof. reflexivity. Qed.
Lemma ev_ref10 f pos r :
  ev k_grammar (S f) (PRef 10) AtNon pos r =
  ev k_grammar f (PAlt (PRef 1) (PSeq (PStr [40]) (PSeq (PRef 9) (PStr [41])))) AtNon pos r.
Proof.
  change (ev k_grammar (S f) (PRef 10) AtNon pos r) with
    (match ev k_grammar f (PAlt (PRef 1) (PSeq (PStr [40]) (PSeq (PRef 9) (PStr [41])))) AtNon pos r with
     | Peg.POk p r' kids => Peg.POk p r' kids | x => x end).
  destruct (ev k_grammar f _ AtNon pos r); reflexivity.
Qed.
Lemma ev_ref11 f pos r :
  ev k_grammar (S f) (PRef 11) AtNon pos r =
  ev k_grammar f (PSeq PSoi (PSeq (PRef 9) PEoi)) AtNon pos r.
Proof.
  change (ev k_grammar (S f) (PRef 11) AtNon pos r) with
    (match ev k_grammar f (PSeq PSoi (PSeq (PRef 9) PEoi)) AtNon pos r with
     | Peg.POk p r' kids => Peg.POk p r' kids | x => x end).
  destruct (ev k_grammar f _ AtNon pos r); reflexivity.
Qed.

Lemma ev_ref12 f pos r :
  ev k_grammar (S f) (PRef 12) AtNon pos r = ev k_grammar f (PAlt (PStr [32]) (PStr [9])) AtAtomic pos r.
Proof.
  change (ev k_grammar (S f) (PRef 12) AtNon pos r) with
    (match ev k_grammar f (PAlt (PStr [32]) (PStr [9])) AtAtomic pos r with
     | Peg.POk p r' kids => Peg.POk p r' kids | x => x end).
  destruct (ev k_grammar f _ AtAtomic pos r); reflexivity.
Qed.
Lemma ev_ref3 f pos r :
  ev k_grammar (S f) (PRef 3) AtNon pos r =
  ev k_grammar f (PAlt (PRef 4) (PAlt (PRef 5) (PAlt (PRef 6) (PAlt (PRef 7) (PRef 8))))) AtNon pos r.
Proof.
  change (ev k_grammar (S f) (PRef 3) AtNon pos r) with
    (match ev k_grammar f (PAlt (PRef 4) (PAlt (PRef 5) (PAlt (PRef 6) (PAlt (PRef 7) (PRef 8))))) AtNon pos r with
     | Peg.POk p r' kids => Peg.POk p r' kids | x => x end).
  destruct (ev k_grammar f _ AtNon pos r); reflexivity.
Qed.
Definition op_res (k : N) (c : char) (pos : nat) (r : str) : Peg.pres :=
  match r with
  | y :: r' => if c =? y then Peg.POk (pos + 1) r' [Peg.Node k pos (pos + 1) []] else Peg.PFail
  | [] => Peg.PFail
  end.
Lemma ev_ref4 f pos r : ev k_grammar (S (S f)) (PRef 4) AtNon pos r = op_res 4 43 pos r.
Proof. change (ev k_grammar (S (S f)) (PRef 4) AtNon pos r) with
  (match ev k_grammar (S f) (PStr [43]) AtNon pos r with Peg.POk p r' kids => Peg.POk p r' [Peg.Node 4 pos p kids] | x => x end).
  rewrite ev_str. destruct r as [|y r']; [reflexivity|]. unfold op_res. destruct (43 =? y); reflexivity. Qed.
Lemma ev_ref5 f pos r : ev k_grammar (S (S f)) (PRef 5) AtNon pos r = op_res 5 45 pos r.
Proof. change (ev k_grammar (S (S f)) (PRef 5) AtNon pos r) with
  (match ev k_grammar (S f) (PStr [45]) AtNon pos r with Peg.POk p r' kids => Peg.POk p r' [Peg.Node 5 pos p kids] | x => x end).
  rewrite ev_str. destruct r as [|y r']; [reflexivity|]. unfold op_res. destruct (45 =? y); reflexivity. Qed.
Lemma ev_ref6 f pos r : ev k_grammar (S (S f)) (PRef 6) AtNon pos r = op_res 6 42 pos r.
Proof. change (ev k_grammar (S (S f)) (PRef 6) AtNon pos r) with
  (match ev k_grammar (S f) (PStr [42]) AtNon pos r with Peg.POk p r' kids => Peg.POk p r' [Peg.Node 6 pos p kids] | x => x end).
  rewrite ev_str. destruct r as [|y r']; [reflexivity|]. unfold op_res. destruct (42 =? y); reflexivity. Qed.
Lemma ev_ref7 f pos r : ev k_grammar (S (S f)) (PRef 7) AtNon pos r = op_res 7 47 pos r.
Proof. change (ev k_grammar (S (S f)) (PRef 7) AtNon pos r) with
  (match ev k_grammar (S f) (PStr [47]) AtNon pos r with Peg.POk p r' kids => Peg.POk p r' [Peg.Node 7 pos p kids] | x => x end).
  rewrite ev_str. destruct r as [|y r']; [reflexivity|]. unfold op_res. destruct (47 =? y); reflexivity. Qed.
Lemma ev_ref8 f pos r : ev k_grammar (S (S f)) (PRef 8) AtNon pos r = op_res 8 94 pos r.
Proof. change (ev k_grammar (S (S f)) (PRef 8) AtNon pos r) with
  (match ev k_grammar (S f) (PStr [94]) AtNon pos r with Peg.POk p r' kids => Peg.POk p r' [Peg.Node 8 pos p kids] | x => x end).
  rewrite ev_str. destruct r as [|y r']; [reflexivity|]. unfold op_res. destruct (94 =? y); reflexivity. Qed.

Lemma ev_skip f pos r :
  ev k_grammar (S f) PSkip AtNon pos r =
  match ev k_grammar f (PRef 12) AtNon pos r with
  | Peg.POk p1 r1 k1 =>
      if Nat.eqb p1 pos then Peg.PFuel
      else match ev k_grammar f PSkip AtNon p1 r1 with
           | Peg.POk p2 r2 k2 => Peg.POk p2 r2 (k1 ++ k2)
           | x => x
           end
  | Peg.PFail => Peg.POk pos r []
  | Peg.PFuel => Peg.PFuel
  end.
Proof. reflexivity. Qed.

(** the implicit skip is skip_ws *)
Lemma skip_sim : forall (s : str) (pos f : nat), (length s + 6 <= f)%nat ->
  ev k_grammar f PSkip AtNon pos s = Peg.POk (pos + (length s - length (skip_ws s))) (skip_ws s) [].
Proof.
  induction s as [|c r IH]; intros pos f Hf.
  - replace f with (5 + (f - 5))%nat by (cbn [length] in Hf; lia). cbn. f_equal. lia.
  - cbn [length] in Hf. replace f with (4 + (f - 4))%nat by lia.
    cbn [Nat.add]. rewrite ev_skip.
    set (f3 := S (S (S (f - 4)))).
    assert (E : ev k_grammar f3 (PRef 12) AtNon pos (c :: r) =
                if (c =? 32) || (c =? 9) then Peg.POk (pos + 1) r [] else Peg.PFail).
    { subst f3. rewrite ev_ref12, ev_alt, !ev_str. rewrite (N.eqb_sym 32 c), (N.eqb_sym 9 c).
      destruct (c =? 32); [reflexivity|]. destruct (c =? 9); reflexivity. }
    rewrite E. cbn [skip_ws]. destruct ((c =? 32) || (c =? 9)).
    + assert (N1 : Nat.eqb (pos + 1) pos = false) by (apply Nat.eqb_neq; lia). rewrite N1.
      rewrite (IH (pos + 1)%nat f3) by (subst f3; lia). cbn [app length].
      pose proof (skip_ws_len r). f_equal. lia.
    + cbn [length]. f_equal. lia.
Qed.

Lemma op_sim : forall (s : str) (pos f : nat), (8 <= f)%nat ->
  ev k_grammar f (PRef 3) AtNon pos s =
  match p_op s with
  | Some (o, r) => Peg.POk (pos + 1) r [Peg.Node (op_rule o) pos (pos + 1) []]
  | None => Peg.PFail
  end.
Proof.
  intros s pos f Hf. replace f with (8 + (f - 8))%nat by lia. cbn [Nat.add].
  rewrite ev_ref3, ev_alt, ev_ref4, ev_alt, ev_ref5, ev_alt, ev_ref6, ev_alt, ev_ref7, ev_ref8.
  destruct s as [|c r]; [reflexivity|]. unfold op_res. cbn [p_op].
  rewrite (N.eqb_sym 43 c), (N.eqb_sym 45 c), (N.eqb_sym 42 c), (N.eqb_sym 47 c), (N.eqb_sym 94 c).
  destruct (c =? 43); [reflexivity|]. destruct (c =? 45); [reflexivity|].
  destruct (c =? 42); [reflexivity|]. destruct (c =? 47); [reflexivity|].
  destruct (c =? 94); reflexivity.
Qed.

(* ------------------------------------------------------------------ *)
(** * Positions: every remaining input is a suffix of the source *)
Section Sim.
Variable src : str.

Definition suffix (s : str) : Prop := exists pre, src = pre ++ s.
Definition posn (s : str) : nat := (length src - length s)%nat.

Lemma suffix_len s : suffix s -> (length s <= length src)%nat.
Proof. intros [pre ->]. rewrite app_length. lia. Qed.
Lemma suffix_app t r : suffix (t ++ r) -> suffix r.
Proof. intros [pre H]. exists (pre ++ t). rewrite <- app_assoc. exact H. Qed.
Lemma suffix_cons c r : suffix (c :: r) -> suffix r.
Proof. apply (suffix_app [c] r). Qed.
Lemma posn_app t r : suffix (t ++ r) -> posn r = (posn (t ++ r) + length t)%nat.
Proof. intros H. apply suffix_len in H. unfold posn. rewrite app_length in *. lia. Qed.
Lemma posn_cons c r : suffix (c :: r) -> posn r = (posn (c :: r) + 1)%nat.
Proof. apply (posn_app [c] r). Qed.
Lemma skip_ws_split s : exists b, s = b ++ skip_ws s.
Proof.
  induction s as [|c r [b IH]]; [exists []; reflexivity|]. cbn [skip_ws].
  destruct ((c =? 32) || (c =? 9)); [exists (c :: b); cbn; congruence|exists []; reflexivity].
Qed.
Lemma suffix_skip s : suffix s -> suffix (skip_ws s).
Proof. intros H. destruct (skip_ws_split s) as [b E]. rewrite E in H. exact (suffix_app _ _ H). Qed.
Lemma posn_neq s s' : suffix s -> (length s' < length s)%nat -> Nat.eqb (posn s') (posn s) = false.
Proof. intros H L. apply suffix_len in H. apply Nat.eqb_neq. unfold posn. lia. Qed.

Lemma skipn_pre (pre x : str) : skipn (length pre) (pre ++ x) = x.
Proof. induction pre as [|a p IH]; [reflexivity|exact IH]. Qed.
Lemma firstn_pre (t x : str) : firstn (length t) (t ++ x) = t.
Proof. induction t as [|a p IH]; [reflexivity|]. cbn. f_equal. exact IH. Qed.
Lemma sub_num t r : suffix (t ++ r) -> sub src (posn (t ++ r)) (posn r) = t.
Proof.
  intros H. rewrite (posn_app t r H). destruct H as [pre E]. unfold sub.
  replace (posn (t ++ r)) with (length pre) by (unfold posn; rewrite E, !app_length; lia).
  replace (length pre + length t - length pre)%nat with (length t) by lia.
  rewrite E, skipn_pre. apply firstn_pre.
Qed.

(* leaf lemmas in position-free form *)
Lemma skip_posn s f : suffix s -> (length s + 6 <= f)%nat ->
  ev k_grammar f PSkip AtNon (posn s) s = Peg.POk (posn (skip_ws s)) (skip_ws s) [].
Proof.
  intros H Hf. rewrite skip_sim by exact Hf. f_equal. apply suffix_len in H.
  pose proof (skip_ws_len s). unfold posn. lia.
Qed.
Lemma str_posn f (c : char) s : suffix s ->
  ev k_grammar (S f) (PStr [c]) AtNon (posn s) s =
  match s with
  | y :: r' => if c =? y then Peg.POk (posn r') r' [] else Peg.PFail
  | [] => Peg.PFail
  end.
Proof.
  intros H. rewrite ev_str. destruct s as [|y r']; [reflexivity|]. rewrite (posn_cons y r' H). reflexivity.
Qed.
Lemma op_posn s f : suffix s -> (8 <= f)%nat ->
  ev k_grammar f (PRef 3) AtNon (posn s) s =
  match p_op s with
  | Some (o, r) => Peg.POk (posn r) r [Peg.Node (op_rule o) (posn s) (posn r) []]
  | None => Peg.PFail
  end.
Proof.
  intros H Hf. rewrite op_sim by exact Hf. destruct (p_op s) as [[o r]|] eqn:E; [|reflexivity].
  assert (exists c, s = c :: r) as [c ->].
  { destruct s as [|c s0]; [discriminate|]. exists c. cbn [p_op] in E.
    destruct (c =? 43); [injection E as _ <-; reflexivity|]. destruct (c =? 45); [injection E as _ <-; reflexivity|].
    destruct (c =? 42); [injection E as _ <-; reflexivity|]. destruct (c =? 47); [injection E as _ <-; reflexivity|].
    destruct (c =? 94); [injection E as _ <-; reflexivity|discriminate]. }
  rewrite (posn_cons c r H). reflexivity.
Qed.
Lemma p_op_suffix s o r : suffix s -> p_op s = Some (o, r) -> suffix r.
Proof.
  intros H E. pose proof (p_op_len _ _ _ E) as L. destruct s as [|c s0]; [discriminate|].
  assert (s0 = r) as <-.
  { cbn [p_op] in E.
    destruct (c =? 43); [injection E as _ <-; reflexivity|]. destruct (c =? 45); [injection E as _ <-; reflexivity|].
    destruct (c =? 42); [injection E as _ <-; reflexivity|]. destruct (c =? 47); [injection E as _ <-; reflexivity|].
    destruct (c =? 94); [injection E as _ <-; reflexivity|discriminate]. }
  exact (suffix_cons _ _ H).
Qed.
Lemma num_posn s f : suffix s -> (length s + 24 <= f)%nat ->
  ev k_grammar f (PRef 1) AtNon (posn s) s =
  match p_num s with
  | Some (t, r) => Peg.POk (posn r) r [Peg.Node 1 (posn s) (posn r) []]
  | None => Peg.PFail
  end.
Proof.
  intros H Hf. rewrite num_sim by exact Hf. destruct (p_num s) as [[t r]|] eqn:E; [|reflexivity].
  apply p_num_app in E. subst s. rewrite (posn_app t r H). reflexivity.
Qed.
End Sim.

(* ------------------------------------------------------------------ *)
(** * The simulation *)
Lemma p_rep_nofail h : forall acc s, p_rep h acc s <> Calc.PFail.
Proof.
  induction h as [|h IH]; intros acc s; [discriminate|]. rewrite p_rep_S.
  destruct (p_iter h (skip_ws s)) as [[[o t'] s3]| |]; [apply IH|discriminate|discriminate].
Qed.

Section Sim2.
Variable src : str.
Notation suffix := (suffix src).
Notation posn := (posn src).
Notation kev := (ev k_grammar).

Ltac fS f Hf := destruct f as [|f]; [exfalso; cbn [length] in Hf; lia|].

Lemma sim h :
  (forall s f, suffix s -> (8 * length s + 43 <= f)%nat ->
     match p_expr h s with
     | Calc.PFuel => True
     | Calc.PFail => kev f (PRef 9) AtNon (posn s) s = Peg.PFail
     | Calc.POk (ps, s') => suffix s' /\ exists kids, convs src kids = Some ps /\
          kev f (PRef 9) AtNon (posn s) s = Peg.POk (posn s') s' [Peg.Node 9 (posn s) (posn s') kids]
     end) /\
  (forall acc s f, suffix s -> (8 * length s + 36 <= f)%nat ->
     match p_rep h acc s with
     | Calc.POk (ps, s') => suffix s' /\ exists kids tl, ps = acc ++ tl /\ convs src kids = Some tl /\
          kev f (PRepTail X) AtNon (posn s) s = Peg.POk (posn s') s' kids
     | _ => True
     end) /\
  (forall s f, suffix s -> (8 * length s + 34 <= f)%nat ->
     match p_iter h s with
     | Calc.PFuel => True
     | Calc.PFail => kev f X AtNon (posn s) s = Peg.PFail
     | Calc.POk (o, t, s') => suffix s' /\ exists k1 k2, conv src k1 = Some (POp o) /\ conv src k2 = Some t /\
          kev f X AtNon (posn s) s = Peg.POk (posn s') s' [k1; k2]
     end) /\
  (forall s f, suffix s -> (8 * length s + 40 <= f)%nat ->
     match p_term h s with
     | Calc.PFuel => True
     | Calc.PFail => kev f (PRef 10) AtNon (posn s) s = Peg.PFail
     | Calc.POk (t, s') => suffix s' /\ exists k, conv src k = Some t /\
          kev f (PRef 10) AtNon (posn s) s = Peg.POk (posn s') s' [k]
     end).
Proof.
  induction h as [|h (IHe & IHr & IHi & IHt)]; [repeat split; intros; exact I|].
  destruct (parser_len h) as (Le & Lr & Li & Lt).
  repeat split.
  - (* expr *)
    intros s f Hs Hf. rewrite p_expr_S. fS f Hf. rewrite ev_ref9. fS f Hf. rewrite ev_seq.
    specialize (IHt s f Hs ltac:(lia)).
    destruct (p_term h s) as [[t s1]| |] eqn:Et; cbn [pbind]; [|rewrite IHt; reflexivity|exact I].
    destruct IHt as (Hs1 & k & Hk & ->). apply Lt in Et.
    pose proof (suffix_len _ _ Hs) as L0. pose proof (skip_ws_len s1) as Lk.
    rewrite (skip_posn src s1 f Hs1) by lia.
    pose proof (suffix_skip _ _ Hs1) as Hs2.
    fS f Hf. rewrite ev_rep.
    specialize (IHi (skip_ws s1) f Hs2 ltac:(lia)).
    destruct (p_iter h (skip_ws s1)) as [[[o t'] s3]| |] eqn:Ei; [| |exact I].
    + destruct IHi as (Hs3 & k1 & k2 & Hk1 & Hk2 & ->). apply Li in Ei.
      specialize (IHr [t; POp o; t'] s3 f Hs3 ltac:(lia)).
      destruct (p_rep h [t; POp o; t'] s3) as [[ps s']| |] eqn:Er;
        [|exfalso; exact (p_rep_nofail _ _ _ Er)|exact I].
      destruct IHr as (Hs' & kids & tl & -> & Hc & ->). split; [exact Hs'|].
      exists (k :: k1 :: k2 :: kids). split; [|reflexivity].
      rewrite !convs_cons, Hk, Hk1, Hk2, Hc. reflexivity.
    + rewrite IHi. split; [exact Hs2|]. exists [k]. split; [|reflexivity].
      rewrite convs_cons, Hk. reflexivity.
  - (* rep *)
    intros acc s f Hs Hf. rewrite p_rep_S. fS f Hf. rewrite ev_reptail.
    pose proof (suffix_len _ _ Hs) as L0. pose proof (skip_ws_len s) as Lk.
    rewrite (skip_posn src s f Hs) by lia.
    pose proof (suffix_skip _ _ Hs) as Hs2.
    specialize (IHi (skip_ws s) f Hs2 ltac:(lia)).
    destruct (p_iter h (skip_ws s)) as [[[o t'] s3]| |] eqn:Ei; [| |exact I].
    + destruct IHi as (Hs3 & k1 & k2 & Hk1 & Hk2 & ->). apply Li in Ei.
      rewrite (posn_neq src s s3 Hs) by lia.
      specialize (IHr (acc ++ [POp o; t']) s3 f Hs3 ltac:(lia)).
      destruct (p_rep h (acc ++ [POp o; t']) s3) as [[ps s']| |]; try exact I.
      destruct IHr as (Hs' & kids & tl & -> & Hc & ->). split; [exact Hs'|].
      exists (k1 :: k2 :: kids), (POp o :: t' :: tl). split; [rewrite <- app_assoc; reflexivity|].
      split; [|reflexivity]. rewrite !convs_cons, Hk1, Hk2, Hc. reflexivity.
    + rewrite IHi. split; [exact Hs|]. exists [], []. split; [rewrite app_nil_r; reflexivity|].
      split; reflexivity.
  - (* iter *)
    intros s f Hs Hf. rewrite p_iter_S. unfold X. fS f Hf. rewrite ev_seq.
    rewrite (op_posn src s f Hs) by lia.
    destruct (p_op s) as [[o s1]|] eqn:Eo; [|reflexivity].
    pose proof (p_op_suffix src _ _ _ Hs Eo) as Hs1. apply p_op_len in Eo.
    pose proof (skip_ws_len s1) as Lk.
    rewrite (skip_posn src s1 f Hs1) by lia.
    pose proof (suffix_skip _ _ Hs1) as Hs2.
    specialize (IHt (skip_ws s1) f Hs2 ltac:(lia)).
    destruct (p_term h (skip_ws s1)) as [[t s2]| |]; cbn [pbind]; [|rewrite IHt; reflexivity|exact I].
    destruct IHt as (Hs' & k & Hk & ->). split; [exact Hs'|].
    exists (Peg.Node (op_rule o) (posn s) (posn s1) []), k.
    split; [apply conv_op|]. split; [exact Hk|reflexivity].
  - (* term *)
    intros s f Hs Hf. rewrite p_term_S. fS f Hf. rewrite ev_ref10. fS f Hf. rewrite ev_alt.
    rewrite (num_posn src s f Hs) by lia.
    destruct (p_num s) as [[n r]|] eqn:En.
    + pose proof (p_num_app _ _ _ En) as ->. split; [exact (suffix_app _ _ _ Hs)|].
      exists (Peg.Node 1 (posn (n ++ r)) (posn r) []). split; [|reflexivity].
      rewrite conv_num, (sub_num src n r Hs). reflexivity.
    + fS f Hf. rewrite ev_seq. fS f Hf. rewrite (str_posn src f _ s Hs).
      destruct s as [|c r]; [reflexivity|]. rewrite (N.eqb_sym 40 c).
      destruct (c =? 40); [|reflexivity].
      pose proof (suffix_cons _ _ _ Hs) as Hr. cbn [length] in Hf. pose proof (skip_ws_len r) as Lk.
      rewrite (skip_posn src r (S f) Hr) by lia.
      pose proof (suffix_skip _ _ Hr) as Hr2.
      rewrite ev_seq.
      specialize (IHe (skip_ws r) f Hr2 ltac:(lia)).
      destruct (p_expr h (skip_ws r)) as [[inner s1]| |] eqn:Ee; cbn [pbind]; [|rewrite IHe; reflexivity|exact I].
      destruct IHe as (Hs1 & kids & Hc & ->). apply Le in Ee. pose proof (skip_ws_len s1) as Lk1.
      rewrite (skip_posn src s1 f Hs1) by lia.
      pose proof (suffix_skip _ _ Hs1) as Hs2.
      fS f Hf. rewrite (str_posn src f _ _ Hs2).
      destruct (skip_ws s1) as [|c' r']; [reflexivity|]. rewrite (N.eqb_sym 41 c').
      destruct (c' =? 41); [|reflexivity].
      split; [exact (suffix_cons _ _ _ Hs2)|].
      exists (Peg.Node 9 (posn (skip_ws r)) (posn s1) kids). split; [|reflexivity].
      rewrite conv_expr, Hc. reflexivity.
Qed.
End Sim2.

(* ------------------------------------------------------------------ *)
(** * Whole lines *)
Definition of_hand (r : Calc.pres (list (pair str))) : peg_result :=
  match r with Calc.POk ps => GOk ps | Calc.PFail => GFail | Calc.PFuel => GFuel end.

Lemma ev_soi f r : ev k_grammar (S f) PSoi AtNon 0 r = Peg.POk 0 r [].
Proof. reflexivity. Qed.
Lemma ev_eoi f p r : ev k_grammar (S f) PEoi AtNon p r =
  match r with [] => Peg.POk p r [Peg.Node 0 p p []] | _ => Peg.PFail end.
Proof. destruct r; reflexivity. Qed.

Lemma top_sim (line : str) (f : nat) : (8 * length line + 50 <= f)%nat ->
  match ev k_grammar f (PRef 11) AtNon 0 line with
  | Peg.PFail => GFail
  | Peg.PFuel => GFuel
  | Peg.POk _ _ kids =>
      match kids with
      | first :: _ => match conv line first with Some (PExpr ps) => GOk ps | _ => GBad end
      | [] => GBad
      end
  end = of_hand (parse_calc line).
Proof.
  intros Hf. assert (Hs : suffix line line) by (exists []; reflexivity).
  assert (P0 : posn line line = 0%nat) by (unfold posn; lia).
  destruct f as [|f]; [exfalso; lia|]. rewrite ev_ref11.
  destruct f as [|f]; [exfalso; lia|]. rewrite ev_seq.
  destruct f as [|f]; [exfalso; lia|]. rewrite ev_soi. rewrite <- P0 at 1.
  pose proof (skip_ws_len line) as Lk.
  rewrite (skip_posn line line (S f) Hs) by lia.
  pose proof (suffix_skip _ _ Hs) as Hs2. rewrite ev_seq.
  unfold parse_calc.
  pose proof (proj1 (sim line (parse_fuel line)) (skip_ws line) f Hs2 ltac:(lia)) as S1.
  pose proof (p_expr_fuel_suffices (skip_ws line) (parse_fuel line) ltac:(unfold parse_fuel; lia)) as NF.
  destruct (p_expr (parse_fuel line) (skip_ws line)) as [[ps s1]| |] eqn:Ee; cbn [pbind];
    [|rewrite S1; reflexivity|contradiction].
  destruct S1 as (Hs1 & kids & Hc & ->).
  apply (proj1 (parser_len _)) in Ee. pose proof (skip_ws_len s1) as Lk1.
  rewrite (skip_posn line s1 f Hs1) by lia.
  destruct f as [|f]; [exfalso; lia|]. rewrite ev_eoi.
  destruct (skip_ws s1); [|reflexivity].
  cbn [app]. rewrite conv_expr, Hc. reflexivity.
Qed.

Theorem peg_is_hand (line : str) : peg_pairs line = of_hand (parse_calc line).
Proof.
  unfold peg_pairs. change (id_of n_calculation k_names) with (Some 11).
  unfold parse_from. apply top_sim. unfold peg_fuel. lia.
Qed.

(** with any fuel above 8 * length + 50 *)
Theorem peg_is_hand_fuel (line : str) (f : nat) : (8 * length line + 50 <= f)%nat ->
  ev k_grammar f (PRef 11) AtNon 0 line <> Peg.PFuel.
Proof.
  intros Hf E. pose proof (top_sim line f Hf) as T. rewrite E in T.
  pose proof (parse_calc_nofuel line) as N. destruct (parse_calc line); try discriminate. contradiction.
Qed.

Theorem peg_nofuel (line : str) : peg_pairs line <> GFuel.
Proof.
  rewrite peg_is_hand. pose proof (parse_calc_nofuel line) as N.
  destruct (parse_calc line); [discriminate|discriminate|contradiction].
Qed.
