(** [escaped_word_start] always returns the byte offset of a character
    boundary of the line: lineread's slices [&buffer[start..end]] cannot
    panic, whatever multi-byte characters the line holds. Invariant over the
    character loop: index + extra_bytes = byte length of the part read so far,
    start_position = byte length of some prefix of it. *)
From Cicada Require Import Base.Chars Base.Tag Model.Complete.
From Coq Require Import Lia.
Local Open Scope N_scope.

Lemma utf8_len_pos c : 1 <= utf8_len c.
Proof. unfold utf8_len. destruct (c <? 128); [lia|]. destruct (c <? 2048); [lia|]. destruct (c <? 65536); lia. Qed.

Lemma byte_len_app a b : byte_len (a ++ b) = byte_len a + byte_len b.
Proof. induction a as [|c a IH]; cbn [app byte_len]; [lia|]. rewrite IH. lia. Qed.

Lemma split_bytes_prefix p rest : split_bytes (byte_len p) (p ++ rest) = Some (p, rest).
Proof.
  induction p as [|c p IH].
  - destruct rest; reflexivity.
  - cbn [app byte_len split_bytes]. pose proof (utf8_len_pos c).
    destruct (N.eqb_spec (utf8_len c + byte_len p) 0); [lia|].
    destruct (N.leb_spec (utf8_len c) (utf8_len c + byte_len p)); [|lia].
    replace (utf8_len c + byte_len p - utf8_len c) with (byte_len p) by lia. now rewrite IH.
Qed.

Definition ews_inv (p : str) (i : N) (s : ews) : Prop :=
  i + e_extra s = byte_len p /\ exists p0 p1, p = p0 ++ p1 /\ e_start s = byte_len p0.

Lemma ews_step_inv p i s c : ews_inv p i s -> ews_inv (p ++ [c]) (i + 1) (ews_step s i c).
Proof.
  intros (Hb & p0 & p1 & Hp & Hs). pose proof (utf8_len_pos c) as Hpos.
  assert (Hst : exists q0 q1, p ++ [c] = q0 ++ q1 /\
                (if e_space s then i + e_extra s else e_start s) = byte_len q0).
  { destruct (e_space s).
    - exists p, [c]. split; [reflexivity|exact Hb].
    - exists p0, (p1 ++ [c]). split; [rewrite Hp; now rewrite app_assoc|exact Hs]. }
  unfold ews_step.
  destruct (N.eqb_spec c c_bs) as [->|Hn1].
  - split; [|exact Hst]. cbn [e_extra]. rewrite byte_len_app. cbn. lia.
  - destruct ((c =? c_space) && negb (e_bs s) && negb (e_wq s)) eqn:E.
    + split; [|exact Hst]. cbn [e_extra]. rewrite byte_len_app.
      apply andb_true_iff in E as [E _]. apply andb_true_iff in E as [E _]. apply N.eqb_eq in E. subst. cbn. lia.
    + split; [|exact Hst]. cbn [e_extra]. rewrite byte_len_app. cbn [byte_len]. lia.
Qed.

Lemma ews_loop_inv l : forall p i s, ews_inv p i s -> ews_inv (p ++ l) (i + N.of_nat (length l)) (ews_loop s i l).
Proof.
  induction l as [|c l IH]; intros p i s H.
  - cbn [ews_loop length]. rewrite app_nil_r. replace (i + N.of_nat 0) with i by lia. exact H.
  - cbn [ews_loop]. apply ews_step_inv with (c := c) in H. apply IH in H.
    rewrite <- app_assoc in H. cbn [app] in H.
    replace (i + N.of_nat (length (c :: l))) with (i + 1 + N.of_nat (length l)) by (cbn [length]; lia). exact H.
Qed.

Theorem word_start_boundary line :
  exists pre word, line = pre ++ word /\ split_bytes (escaped_word_start line) line = Some (pre, word).
Proof.
  assert (H0 : ews_inv [] 0 ews0).
  { split; [reflexivity|]. exists [], []. split; reflexivity. }
  apply (ews_loop_inv line) in H0. cbn [app] in H0. destruct H0 as (_ & p0 & p1 & Hp & Hs).
  unfold escaped_word_start. destruct (e_space (ews_loop ews0 0 line)).
  - exists line, []. split; [now rewrite app_nil_r|].
    rewrite <- (app_nil_r line) at 2. apply split_bytes_prefix.
  - exists p0, p1. split; [exact Hp|]. rewrite Hs, Hp. apply split_bytes_prefix.
Qed.
