(** From text to tree for canonical renderings of expression trees over
    NUMBERS: leaves are natural numbers printed in decimal, parentheses exactly
    where standard precedence / associativity require them, one fixed blank
    string (possibly empty) at every token boundary. The PEG model accepts the
    whole text and the Pratt parser returns exactly the tree; the decimal
    literals are read back by [parse_i64] as the numbers they print. *)
From Coq Require Import ZArith Lia.
From Cicada Require Import Base.Chars Model.Calc Proofs.CalcPratt Proofs.CalcFusion Proofs.CalcInt
  Proofs.CalcWf Proofs.CalcPrint Proofs.CalcLine Proofs.CalcFuel.
Local Open Scope N_scope.

(* ------------------------------------------------------------------ *)
(** * Decimal printing *)

Fixpoint dec_aux (fuel : nat) (n : N) (acc : str) : str :=
  match fuel with
  | O => acc
  | S f => if n / 10 =? 0 then (48 + n mod 10) :: acc
           else dec_aux f (n / 10) ((48 + n mod 10) :: acc)
  end.
Definition dec (n : N) : str := dec_aux (S (N.to_nat (N.size n))) n [].

Lemma dec_aux_acc f : forall n acc, dec_aux f n acc = dec_aux f n [] ++ acc.
Proof.
  induction f as [|f IH]; intros n acc; [reflexivity|]. cbn [dec_aux].
  destruct (n / 10 =? 0); [reflexivity|].
  rewrite (IH _ (_ :: acc)), (IH _ [_]), <- app_assoc. reflexivity.
Qed.

Lemma digit_char n : is_digit (48 + n mod 10) = true.
Proof.
  unfold is_digit. pose proof (N.mod_lt n 10 ltac:(discriminate)) as H.
  remember (n mod 10) as m. apply andb_true_intro. split; apply N.leb_le; lia.
Qed.

Lemma dec_aux_digits f : forall n, forallb is_digit (dec_aux f n []) = true.
Proof.
  induction f as [|f IH]; intros n; [reflexivity|]. cbn [dec_aux].
  destruct (n / 10 =? 0).
  - cbn [forallb]. rewrite digit_char. reflexivity.
  - rewrite dec_aux_acc, forallb_app, IH. cbn [forallb]. rewrite digit_char. reflexivity.
Qed.

Lemma dec_aux_S_nonempty f n : dec_aux (S f) n [] <> [].
Proof.
  cbn [dec_aux]. destruct (n / 10 =? 0); [discriminate|].
  rewrite dec_aux_acc. destruct (dec_aux f (n / 10) []); discriminate.
Qed.

Lemma dec_digits n : forallb is_digit (dec n) = true.
Proof. apply dec_aux_digits. Qed.
Lemma dec_nonempty n : dec n <> [].
Proof. apply dec_aux_S_nonempty. Qed.

Lemma digits_val_app xs : forall a ys,
  digits_val a (xs ++ ys) = match digits_val a xs with Some v => digits_val v ys | None => None end.
Proof.
  induction xs as [|c r IH]; intros a ys; [reflexivity|]. cbn [app digits_val].
  destruct (is_digit c); [apply IH|reflexivity].
Qed.

Lemma last_digit n q : q = n / 10 -> (10 * Z.of_N q + (Z.of_N (48 + n mod 10) - 48) = Z.of_N n)%Z.
Proof.
  intros ->. pose proof (N.div_mod n 10 ltac:(discriminate)) as H.
  pose proof (N.mod_lt n 10 ltac:(discriminate)) as H1.
  remember (n / 10) as q. remember (n mod 10) as m. lia.
Qed.

Lemma dec_aux_val f : forall n, n < 2 ^ N.of_nat f -> digits_val 0 (dec_aux f n []) = Some (Z.of_N n).
Proof.
  induction f as [|f IH]; intros n Hn.
  - change (2 ^ N.of_nat 0) with 1 in Hn. assert (n = 0) as -> by lia. reflexivity.
  - rewrite Nat2N.inj_succ, N.pow_succ_r' in Hn. cbn [dec_aux].
    pose proof (N.div_mod n 10 ltac:(discriminate)) as Hd.
    pose proof (N.mod_lt n 10 ltac:(discriminate)) as Hm.
    destruct (N.eqb_spec (n / 10) 0) as [E|E].
    + cbn [digits_val]. rewrite digit_char. f_equal.
      rewrite <- (last_digit n 0) by (symmetry; exact E). reflexivity.
    + rewrite dec_aux_acc, digits_val_app, IH.
      * cbn [digits_val]. rewrite digit_char. f_equal. apply last_digit. reflexivity.
      * remember (n / 10) as q. remember (n mod 10) as m. remember (2 ^ N.of_nat f) as P. lia.
Qed.

Theorem dec_val n : digits_val 0 (dec n) = Some (Z.of_N n).
Proof.
  apply dec_aux_val. rewrite Nat2N.inj_succ, N2Nat.id, N.pow_succ_r'.
  pose proof (N.size_gt n) as H. remember (2 ^ N.size n) as P. lia.
Qed.

(** [str::parse::<i64>] reads the decimal text of every number up to i64::MAX back as that number *)
Theorem parse_i64_dec n : (Z.of_N n <= i64_max)%Z -> parse_i64 (dec n) = Some (Z.of_N n).
Proof.
  intros Hn. pose proof (dec_val n) as Hv. pose proof (dec_digits n) as Hd. pose proof (dec_nonempty n) as Hne.
  destruct (dec n) as [|c r]; [contradiction|].
  assert (Hc : is_digit c = true) by (cbn [forallb] in Hd; apply andb_true_iff in Hd as [H _]; exact H).
  pose proof (digit_not_sign c Hc) as Hs. apply orb_false_iff in Hs as [H43 H45].
  unfold parse_i64. rewrite H45, H43, Hv.
  assert (Hi : in_i64 (Z.of_N n) = true).
  { unfold in_i64. apply andb_true_intro. split; apply Z.leb_le; [|exact Hn].
    assert (i64_min < 0)%Z by reflexivity. lia. }
  rewrite Hi. reflexivity.
Qed.

Lemma dec_leaf_ok n : leaf_ok (dec n).
Proof.
  apply (int_lit_ok [] (dec n)). split; [left; reflexivity|]. split; [apply dec_nonempty|apply dec_digits].
Qed.

(* ------------------------------------------------------------------ *)
(** * The text of a tree of numbers *)

(** the tree with its leaves printed *)
Fixpoint dtree (t : tree N) : tree str :=
  match t with
  | Leaf n => Leaf (dec n)
  | Node o a b => Node o (dtree a) (dtree b)
  end.

(** no redundant parentheses *)
Fixpoint lit (t : tree N) : ptree str :=
  match t with
  | Leaf n => QLeaf (dec n)
  | Node o a b => QNode o (lit a) (lit b)
  end.

Lemma strip_lit t : strip (lit t) = dtree t.
Proof. induction t as [n|o a IHa b IHb]; cbn [lit strip dtree]; congruence. Qed.

Lemma lit_leaves_ok t : leaves_ok (lit t).
Proof. induction t as [n|o a IHa b IHb]; cbn [lit leaves_ok]; [apply dec_leaf_ok|split; assumption]. Qed.

(** canonical text: minimal parentheses, [sp] at every token boundary and around the line *)
Definition text (sp : str) (t : tree N) : str := render_str sp (lit t).

Theorem render_parse sp t :
  forallb is_blankc sp = true ->
  exists ps, parse_calc (text sp t) = POk ps /\ pratt_tree (2 * tot ps + 1) ps = Ok (dtree t).
Proof.
  intros Hsp. exists (render (lit t)). split.
  - apply parse_render_str; [exact Hsp|apply lit_leaves_ok].
  - rewrite pratt_tree_render by lia. rewrite strip_lit. reflexivity.
Qed.

(** the same with the fuel explicit: any fuel of at least 2 * length + 3 *)
Theorem render_parse_fuel sp t fuel :
  forallb is_blankc sp = true -> (2 * length (text sp t) + 3 <= fuel)%nat ->
  exists ps rest, p_expr fuel (skip_ws (text sp t)) = POk (ps, rest) /\ skip_ws rest = [] /\
                  pratt_tree (2 * tot ps + 1) ps = Ok (dtree t).
Proof.
  intros Hsp Hf. destruct (render_parse sp t Hsp) as (ps & Hp & Ht).
  unfold parse_calc in Hp. pose proof (skip_ws_len (text sp t)) as Hk.
  rewrite (p_expr_any_fuel (skip_ws (text sp t)) (parse_fuel (text sp t)) fuel) in Hp
    by (unfold parse_fuel; lia).
  destruct (p_expr fuel (skip_ws (text sp t))) as [[ps' rest]| |]; try discriminate.
  cbn [pbind] in Hp. destruct (skip_ws rest) eqn:Er; [|discriminate].
  injection Hp as ->. exists ps, rest. auto.
Qed.

Theorem line_tree_text sp t : forallb is_blankc sp = true -> line_tree (text sp t) = Some (dtree t).
Proof.
  intros Hsp. unfold text. rewrite line_tree_render; [rewrite strip_lit; reflexivity|exact Hsp|apply lit_leaves_ok].
Qed.

(* ------------------------------------------------------------------ *)
(** * Integer mode on the text of a tree of numbers *)

Lemma has_dot_app x y : has_dot (x ++ y) = has_dot x || has_dot y.
Proof. apply existsb_app. Qed.
Lemma has_dot_cons c x : has_dot (c :: x) = (c =? 46) || has_dot x.
Proof. reflexivity. Qed.

Lemma has_dot_class (P : char -> bool) s :
  (forall c, P c = true -> (c =? 46) = false) -> forallb P s = true -> has_dot s = false.
Proof.
  intros HP. induction s as [|c r IH]; [reflexivity|]. cbn [forallb]. intros H.
  apply andb_true_iff in H as [Hc Hr]. rewrite has_dot_cons, (HP c Hc), (IH Hr). reflexivity.
Qed.

Lemma blank_nodot c : is_blankc c = true -> (c =? 46) = false.
Proof.
  unfold is_blankc. intros H. apply orb_true_iff in H as [H|H]; apply N.eqb_eq in H; subst; reflexivity.
Qed.
Lemma digit_nodot c : is_digit c = true -> (c =? 46) = false.
Proof.
  unfold is_digit. intros H. apply andb_true_iff in H as [H _]. apply N.leb_le in H. apply N.eqb_neq. lia.
Qed.

Lemma str_tail_app sp a b : str_tail sp (a ++ b) = str_tail sp a ++ str_tail sp b.
Proof.
  induction a as [|x r IH]; [reflexivity|]. cbn [app str_tail]. rewrite IH, <- !app_assoc. reflexivity.
Qed.

Lemma str_seq_join sp a o b : a <> [] -> b <> [] ->
  str_seq sp (a ++ POp o :: b) = str_seq sp a ++ sp ++ [op_char o] ++ sp ++ str_seq sp b.
Proof.
  destruct a as [|x r]; [contradiction|]. destruct b as [|y r2]; [contradiction|]. intros _ _.
  cbn [app str_seq]. rewrite str_tail_app. cbn [str_tail str_pair]. rewrite <- !app_assoc. reflexivity.
Qed.

Lemma par_nodot sp l : has_dot sp = false -> has_dot (str_seq sp l) = false -> has_dot (str_seq sp [PExpr l]) = false.
Proof.
  intros Hsp H. cbn [str_seq str_tail]. rewrite app_nil_r, str_pair_expr.
  rewrite has_dot_cons, !has_dot_app, Hsp, H. reflexivity.
Qed.

Lemma text_nodot sp t : has_dot sp = false ->
  render (lit t) <> [] /\ has_dot (str_seq sp (render (lit t))) = false.
Proof.
  intros Hsp. induction t as [n|o a [Na Da] b [Nb Db]]; cbn [lit render].
  - split; [discriminate|]. cbn [str_seq str_tail]. rewrite app_nil_r.
    apply (has_dot_class is_digit); [exact digit_nodot|apply dec_digits].
  - set (A := if std_needs_l o (lit a) then [PExpr (render (lit a))] else render (lit a)).
    set (B := if std_needs_r o (lit b) then [PExpr (render (lit b))] else render (lit b)).
    assert (HA : A <> [] /\ has_dot (str_seq sp A) = false).
    { subst A. destruct (std_needs_l o (lit a)); [split; [discriminate|apply par_nodot; assumption]|split; assumption]. }
    assert (HB : B <> [] /\ has_dot (str_seq sp B) = false).
    { subst B. destruct (std_needs_r o (lit b)); [split; [discriminate|apply par_nodot; assumption]|split; assumption]. }
    destruct HA as [NA DA], HB as [NB DB]. split.
    + destruct A; [contradiction|discriminate].
    + rewrite str_seq_join by assumption. rewrite !has_dot_app, DA, DB, Hsp.
      destruct o; reflexivity.
Qed.

Theorem run_calculator_text sp t :
  forallb is_blankc sp = true -> run_calculator (text sp t) = RInt (Ok (ref_eval (dtree t))).
Proof.
  intros Hsp. unfold text. rewrite <- strip_lit.
  assert (Hd : has_dot sp = false) by (apply (has_dot_class is_blankc); [exact blank_nodot|exact Hsp]).
  apply run_calculator_render; [exact Hsp|apply lit_leaves_ok|].
  unfold render_str. rewrite !has_dot_app, Hd, (proj2 (text_nodot sp t Hd)). reflexivity.
Qed.
