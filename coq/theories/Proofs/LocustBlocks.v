(** C14, parser half, blocks: compositional parse lemmas (a block rule takes the parse of its
    body as a hypothesis), then induction over the syntax tree. Newline spelling, no indentation. *)
From Cicada Require Import Base.Chars Base.Peg Gen.LocustGrammar Model.Script Model.ScriptAst
  Proofs.PegProofs Proofs.LocustParse Proofs.ScriptProofs.
From Coq Require Import ZArith Lia Arith.
Local Open Scope N_scope.

(** [parsed e pre text rest tt]: in the source  pre ++ text ++ rest,  expression [e] started after
    [pre] consumes exactly [text] and yields pairs whose trimmed trees are [tt]. *)
Definition parsed (e : pexp) (pre text rest : str) (tt : list ttree) : Prop :=
  exists Ts, EV e AtNon (length pre) (text ++ rest) (POk (length pre + length text) rest Ts) /\
             map (annotate (pre ++ text ++ rest)) Ts = tt.

Lemma annotate_node a t b r kids :
  annotate (a ++ t ++ b) (Node r (length a) (length a + length t) kids) =
  TNode r (trim t) (map (annotate (a ++ t ++ b)) kids).
Proof. cbn [annotate]. rewrite sub_mid. reflexivity. Qed.

(** the same with the source and the span given up to equality *)
Lemma annotate_node_eq a t b src r s e kids :
  src = a ++ t ++ b -> s = length a -> e = (length a + length t)%nat ->
  annotate src (Node r s e kids) = TNode r (trim t) (map (annotate src) kids).
Proof. intros -> -> ->. apply annotate_node. Qed.

Ltac norm_app := repeat first [rewrite <- app_assoc | progress cbn [app]]; try reflexivity.
Ltac len_eq :=
  repeat first [rewrite app_length | progress cbn [length]]; unfold char, str;
  change (length s_while) with 6%nat; change (length s_if) with 3%nat; change (length s_done) with 4%nat;
  change (length s_fi) with 2%nat; change (length s_else) with 4%nat; change (length s_for) with 4%nat;
  change (length s_in) with 4%nat; try lia.

Lemma kw_done_ok pos rest : EV (PRef L_KW_DONE) AtNon pos (s_done ++ 10 :: rest) (POk (pos + 5) rest []).
Proof.
  ref_s. apply (evals_of_ev l_grammar 6); [|discriminate]. vm_compute.
  rewrite !Nat.add_succ_r, !Nat.add_0_r. reflexivity.
Qed.

Lemma kw_fi_ok pos rest : EV (PRef L_KW_FI) AtNon pos (s_fi ++ 10 :: rest) (POk (pos + 3) rest []).
Proof.
  ref_s. apply (evals_of_ev l_grammar 6); [|discriminate]. vm_compute.
  rewrite !Nat.add_succ_r, !Nat.add_0_r. reflexivity.
Qed.

Lemma ends_nonws_app x k c : is_ws c = false -> ends_nonws (x ++ k ++ [c]) = true.
Proof. intro H. unfold ends_nonws. rewrite !rev_app_distr. cbn [rev app]. rewrite H. reflexivity. Qed.

Lemma trim_cond cond : cond_ok cond = true -> trim cond = cond.
Proof.
  intro H. unfold cond_ok in H. apply andb_prop in H as [H He]. apply andb_prop in H as [_ Hs].
  apply trim_self; assumption.
Qed.

(** ---- while cond NL body done NL ---- *)
Lemma while_block pre cond body rest btt :
  cond_ok cond = true ->
  starts_blank (body ++ s_done ++ 10 :: rest) = false ->
  parsed (PRef L_EXP_BODY) (pre ++ s_while ++ cond ++ [10]) body (s_done ++ 10 :: rest) [TNode L_EXP_BODY (trim body) btt] ->
  parsed (PRef L_EXP_WHILE) pre (s_while ++ cond ++ 10 :: body ++ s_done ++ [10]) rest
    [TNode L_EXP_WHILE (s_while ++ cond ++ 10 :: body ++ s_done)
       [TNode L_WHILE_HEAD (trim (s_while ++ cond ++ [10])) [TNode L_TEST cond []];
        TNode L_EXP_BODY (trim body) btt]].
Proof.
  intros Hc Hsb [Tb [EVb Ab]].
  set (src := pre ++ (s_while ++ cond ++ 10 :: body ++ s_done ++ [10]) ++ rest).
  assert (Hsrc : (pre ++ s_while ++ cond ++ [10]) ++ body ++ s_done ++ 10 :: rest = src) by (unfold src; norm_app).
  rewrite Hsrc in Ab.
  replace (length (pre ++ s_while ++ cond ++ [10])) with (S (length pre + 6 + length cond)) in EVb by len_eq.
  eexists. split.
  - eapply evals_ref_normal_ok; [reflexivity | reflexivity |].
    replace ((s_while ++ cond ++ 10 :: body ++ s_done ++ [10]) ++ rest)
      with (s_while ++ cond ++ 10 :: body ++ s_done ++ 10 :: rest) by norm_app.
    eapply evals_seq_ok; [apply opt_soi | apply skip_none; reflexivity |].
    eapply evals_seq_ok; [apply while_head_parses, Hc | apply skip_none, Hsb |].
    eapply evals_seq_ok; [exact EVb | apply skip_none; reflexivity |].
    replace (length pre + length (s_while ++ cond ++ (10%N :: body ++ s_done ++ [10%N])))%nat
      with (S (length pre + 6 + length cond) + length body + 5)%nat by len_eq.
    apply kw_done_ok.
  - cbn [map app].
    rewrite (annotate_node_eq pre (s_while ++ cond ++ 10 :: body ++ s_done ++ [10]) rest) by first [solve [reflexivity] | solve [len_eq]].
    f_equal. f_equal.
    + replace (s_while ++ cond ++ 10 :: body ++ s_done ++ [10]) with ((s_while ++ cond ++ 10 :: body ++ s_done) ++ [10]) by norm_app.
      apply trim_line; [reflexivity|].
      replace (s_while ++ cond ++ 10 :: body ++ s_done) with ((s_while ++ cond ++ 10 :: body) ++ [100; 111; 110] ++ [101]) by norm_app.
      apply ends_nonws_app. reflexivity.
    + cbn [map app]. rewrite ?app_nil_r. fold src. rewrite Ab. f_equal.
      rewrite (annotate_node_eq pre (s_while ++ cond ++ [10]) (body ++ s_done ++ 10 :: rest)) by first [solve [unfold src; norm_app] | solve [len_eq]].
      f_equal. cbn [map]. f_equal.
      rewrite (annotate_node_eq (pre ++ s_while) cond (10 :: body ++ s_done ++ 10 :: rest)) by first [solve [unfold src; norm_app] | solve [len_eq]].
      rewrite trim_cond by exact Hc. reflexivity.
Qed.

(** ---- sequences of items under a repetition ---- *)
Lemma parsed_alt_l a b pre text rest tt : parsed a pre text rest tt -> parsed (PAlt a b) pre text rest tt.
Proof. intros [Ts [H1 H2]]. exists Ts. split; [apply evals_alt_l, H1 | exact H2]. Qed.

Lemma parsed_alt_r a b pre text rest tt :
  EV a AtNon (length pre) (text ++ rest) PFail -> parsed b pre text rest tt -> parsed (PAlt a b) pre text rest tt.
Proof. intros Hf [Ts [H1 H2]]. exists Ts. split; [apply evals_alt_r; assumption | exact H2]. Qed.

Section Items.
Variable A : pexp.

Definition item_ok (text : str) (tt : ttree) : Prop :=
  (forall rest, starts_blank (text ++ rest) = false) /\ text <> [] /\
  forall pre rest, parsed A pre text rest [tt].
Definition stop_ok (rest : str) : Prop :=
  starts_blank rest = false /\ forall pos, EV A AtNon pos rest PFail.

Fixpoint cat (items : list (str * ttree)) : str :=
  match items with [] => [] | it :: r => fst it ++ cat r end.

Definition items_ok (items : list (str * ttree)) : Prop :=
  Forall (fun it => item_ok (fst it) (snd it)) items.

Lemma cat_start items rest : items_ok items -> starts_blank rest = false -> starts_blank (cat items ++ rest) = false.
Proof.
  intros H Hr. destruct items as [|[t tt] r]; [exact Hr|]. inversion H as [|x l [Hs _] _]; subst.
  cbn [cat fst]. rewrite <- app_assoc. apply Hs.
Qed.

Lemma items_tail : forall items pre rest, items_ok items -> stop_ok rest ->
  parsed (PRepTail A) pre (cat items) rest (map snd items).
Proof.
  induction items as [|[t tt] r IH]; intros pre rest H [Hr Hstop].
  - exists []. cbn [cat app length map]. rewrite Nat.add_0_r. split; [|reflexivity].
    eapply evals_reptail_stop; [apply skip_none, Hr | apply Hstop].
  - inversion H as [|x l Hit Hrest]; subst. destruct Hit as [Hs [Hne Hp]]. cbn [fst snd] in *.
    destruct (Hp pre (cat r ++ rest)) as [T1 [E1 A1]].
    destruct (IH (pre ++ t) rest Hrest (conj Hr Hstop)) as [T2 [E2 A2]].
    exists ([] ++ T1 ++ T2). cbn [cat fst]. split.
    + rewrite <- app_assoc.
      rewrite app_length in E2.
      replace (length pre + length (t ++ cat r))%nat with (length pre + length t + length (cat r))%nat
        by (rewrite app_length; lia).
      eapply evals_reptail_step; [apply skip_none, Hs | exact E1 | | exact E2].
      destruct t; [congruence | cbn [length]; lia].
    + cbn [app map snd]. rewrite map_app.
      replace (pre ++ (t ++ cat r) ++ rest) with (pre ++ t ++ cat r ++ rest) by norm_app.
      rewrite A1.
      replace (pre ++ t ++ cat r ++ rest) with ((pre ++ t) ++ cat r ++ rest) by norm_app.
      rewrite A2. reflexivity.
Qed.

Lemma items_rep : forall items pre rest, items_ok items -> stop_ok rest ->
  parsed (PRep A) pre (cat items) rest (map snd items).
Proof.
  intros [|[t tt] r] pre rest H [Hr Hstop].
  - exists []. cbn [cat app length map]. rewrite Nat.add_0_r. split; [|reflexivity].
    apply evals_rep_none, Hstop.
  - inversion H as [|x l Hit Hrest]; subst. destruct Hit as [Hs [Hne Hp]]. cbn [fst snd] in *.
    destruct (Hp pre (cat r ++ rest)) as [T1 [E1 A1]].
    destruct (items_tail r (pre ++ t) rest Hrest (conj Hr Hstop)) as [T2 [E2 A2]].
    exists (T1 ++ T2). cbn [cat fst]. split.
    + rewrite <- app_assoc. rewrite app_length in E2.
      replace (length pre + length (t ++ cat r))%nat with (length pre + length t + length (cat r))%nat
        by (rewrite app_length; lia).
      eapply evals_rep_some; [exact E1 | exact E2].
    + cbn [map snd]. rewrite map_app.
      replace (pre ++ (t ++ cat r) ++ rest) with (pre ++ t ++ cat r ++ rest) by norm_app.
      rewrite A1.
      replace (pre ++ t ++ cat r ++ rest) with ((pre ++ t) ++ cat r ++ rest) by norm_app.
      rewrite A2. reflexivity.
Qed.

(** A ~ A*  over a non-empty sequence *)
Lemma items_plus : forall it r pre rest, items_ok (it :: r) -> stop_ok rest ->
  parsed (PSeq A (PRep A)) pre (cat (it :: r)) rest (map snd (it :: r)).
Proof.
  intros [t tt] r pre rest H [Hr Hstop].
  inversion H as [|x l Hit Hrest]; subst. destruct Hit as [Hs [Hne Hp]]. cbn [fst snd] in *.
  destruct (Hp pre (cat r ++ rest)) as [T1 [E1 A1]].
  destruct (items_rep r (pre ++ t) rest Hrest (conj Hr Hstop)) as [T2 [E2 A2]].
  exists (T1 ++ [] ++ T2). cbn [cat fst]. split.
  - rewrite <- app_assoc. rewrite app_length in E2.
    replace (length pre + length (t ++ cat r))%nat with (length pre + length t + length (cat r))%nat
      by (rewrite app_length; lia).
    eapply evals_seq_ok; [exact E1 | apply skip_none, cat_start; assumption | exact E2].
  - cbn [app map snd]. rewrite map_app.
    replace (pre ++ (t ++ cat r) ++ rest) with (pre ++ t ++ cat r ++ rest) by norm_app.
    rewrite A1.
    replace (pre ++ t ++ cat r ++ rest) with ((pre ++ t) ++ cat r ++ rest) by norm_app.
    rewrite A2. reflexivity.
Qed.
End Items.

(** EXP_BODY over a non-empty sequence of items *)
Lemma exp_body_items it r pre rest : items_ok X_body (it :: r) -> stop_ok X_body rest ->
  parsed (PRef L_EXP_BODY) pre (cat (it :: r)) rest [TNode L_EXP_BODY (trim (cat (it :: r))) (map snd (it :: r))].
Proof.
  intros H Hs. destruct (items_plus X_body it r pre rest H Hs) as [Ts [E A1]].
  eexists. split.
  - eapply evals_ref_normal_ok; [reflexivity | reflexivity | exact E].
  - cbn [map]. rewrite annotate_node. rewrite A1. reflexivity.
Qed.

(** ---- closing keywords stop the body repetition; the end of input stops the top one ---- *)
Lemma X_stop_else pos rest : EV X_body AtNon pos (s_else ++ 10 :: rest) PFail.
Proof. apply (evals_of_ev l_grammar 40); [|discriminate]. destruct pos; vm_compute; reflexivity. Qed.

Lemma stop_done rest : stop_ok X_body (s_done ++ 10 :: rest).
Proof. split; [reflexivity | intro pos; apply X_stop_done]. Qed.
Lemma stop_fi rest : stop_ok X_body (s_fi ++ 10 :: rest).
Proof. split; [reflexivity | intro pos; apply X_stop_fi]. Qed.
Lemma stop_else rest : stop_ok X_body (s_else ++ 10 :: rest).
Proof. split; [reflexivity | intro pos; apply X_stop_else]. Qed.
Lemma stop_nil : stop_ok Y_top [].
Proof. split; [reflexivity | intro pos; apply Y_nil]. Qed.

(** ---- a command line as an item ---- *)
Lemma cmd_parsed pre line rest : cmd_ok line = true -> parsed (PRef L_CMD) pre (line ++ [10]) rest [cmd_t line].
Proof.
  intro H. eexists. split.
  - replace ((line ++ [10]) ++ rest) with (line ++ 10 :: rest) by norm_app.
    replace (length pre + length (line ++ [10%N]))%nat with (S (length pre + length line)) by len_eq.
    apply cmd_parses, H.
  - cbn [map]. rewrite (annotate_node_eq pre (line ++ [10]) rest) by first [solve [reflexivity] | solve [len_eq]].
    unfold cmd_t. cbn [map]. f_equal. f_equal. unfold cmd_ok in H.
    apply andb_prop in H as [H _]. apply andb_prop in H as [H He]. apply andb_prop in H as [_ Hs].
    apply trim_line; assumption.
Qed.

Lemma cmd_line_start line rest : cmd_ok line = true -> starts_blank ((line ++ [10]) ++ rest) = false.
Proof. intro H. replace ((line ++ [10]) ++ rest) with (line ++ 10 :: rest) by norm_app. apply (cmd_ok_facts line H rest). Qed.

Lemma cmd_item_X line : cmd_ok line = true -> item_ok X_body (line ++ [10]) (cmd_t line).
Proof.
  intro H. split; [intro rest; apply cmd_line_start, H|]. split; [destruct line; discriminate|].
  intros pre rest. apply parsed_alt_l, cmd_parsed, H.
Qed.

Lemma cmd_item_Y line : cmd_ok line = true -> item_ok Y_top (line ++ [10]) (cmd_t line).
Proof.
  intro H. split; [intro rest; apply cmd_line_start, H|]. split; [destruct line; discriminate|].
  intros pre rest. pose proof (cmd_line_start line rest H) as Hb.
  assert (F := cmd_ok_facts line H rest). destruct F as [_ [F1 [F2 F3]]].
  replace (line ++ 10 :: rest) with ((line ++ [10]) ++ rest) in F1, F2, F3 by norm_app.
  unfold Y_top.
  apply parsed_alt_r; [apply exp_if_fails; assumption|].
  apply parsed_alt_r; [apply exp_for_fails; assumption|].
  apply parsed_alt_r; [apply exp_while_fails; assumption|].
  apply cmd_parsed, H.
Qed.

(** ---- CMD fails on a line that starts with a block keyword ---- *)
Lemma cmd_fails_kw pos r p r' k : EV (PRef L_KW_LIST) AtNon pos r (POk p r' k) -> EV (PRef L_CMD) AtNon pos r PFail.
Proof.
  intro H. ref_nf. apply evals_alt_r; ref_s; apply evals_seq_fail; eapply evals_not_fail; exact H.
Qed.

Lemma kw_list_while pos x : EV (PRef L_KW_LIST) AtNon pos (s_while ++ x) (POk (pos + 6) x []).
Proof.
  ref_s.
  apply evals_alt_r; [ref_s; apply evals_str_fail; reflexivity|].
  apply evals_alt_r; [ref_s; apply evals_str_fail; reflexivity|].
  apply evals_alt_r; [ref_s; apply evals_str_fail; reflexivity|].
  apply evals_alt_r; [ref_nf; apply evals_seq_fail, evals_str_fail; reflexivity|].
  apply evals_alt_r; [ref_s; apply evals_seq_fail, evals_str_fail; reflexivity|].
  apply evals_alt_l. ref_s. apply evals_str_ok, strip_prefix_app_some.
Qed.

Lemma kw_list_if pos x : EV (PRef L_KW_LIST) AtNon pos (s_if ++ x) (POk (pos + 3) x []).
Proof. ref_s. apply evals_alt_l. ref_s. apply evals_str_ok, strip_prefix_app_some. Qed.

Lemma kw_list_for pos x : EV (PRef L_KW_LIST) AtNon pos (s_for ++ x) (POk (pos + 4) x []).
Proof.
  ref_s. apply evals_alt_r; [ref_s; apply evals_str_fail; reflexivity|].
  apply evals_alt_l. ref_s. apply evals_str_ok, strip_prefix_app_some.
Qed.

(** ---- while as an item ---- *)
Definition while_text (cond body : str) : str := s_while ++ cond ++ 10 :: body ++ s_done ++ [10].
Definition while_tree (cond body : str) (btt : list ttree) : ttree :=
  TNode L_EXP_WHILE (s_while ++ cond ++ 10 :: body ++ s_done)
    [TNode L_WHILE_HEAD (trim (s_while ++ cond ++ [10])) [TNode L_TEST cond []]; TNode L_EXP_BODY (trim body) btt].

Lemma while_parsed pre cond it r rest : cond_ok cond = true -> items_ok X_body (it :: r) ->
  parsed (PRef L_EXP_WHILE) pre (while_text cond (cat (it :: r))) rest [while_tree cond (cat (it :: r)) (map snd (it :: r))].
Proof.
  intros Hc Hi. apply while_block; [exact Hc | apply cat_start with (A := X_body); [exact Hi | reflexivity] |].
  apply exp_body_items; [exact Hi | apply stop_done].
Qed.

Lemma while_item_X cond it r : cond_ok cond = true -> items_ok X_body (it :: r) ->
  item_ok X_body (while_text cond (cat (it :: r))) (while_tree cond (cat (it :: r)) (map snd (it :: r))).
Proof.
  intros Hc Hi. split; [intro rest; reflexivity|]. split; [discriminate|].
  intros pre rest. unfold X_body.
  apply parsed_alt_r; [eapply cmd_fails_kw; unfold while_text; rewrite <- app_assoc; apply kw_list_while|].
  apply parsed_alt_r; [apply exp_if_fails; reflexivity|].
  apply parsed_alt_l. apply while_parsed; assumption.
Qed.

Lemma while_item_Y cond it r : cond_ok cond = true -> items_ok X_body (it :: r) ->
  item_ok Y_top (while_text cond (cat (it :: r))) (while_tree cond (cat (it :: r)) (map snd (it :: r))).
Proof.
  intros Hc Hi. split; [intro rest; reflexivity|]. split; [discriminate|].
  intros pre rest. unfold Y_top.
  apply parsed_alt_r; [apply exp_if_fails; reflexivity|].
  apply parsed_alt_r; [apply exp_for_fails; reflexivity|].
  apply parsed_alt_l. apply while_parsed; assumption.
Qed.

(** ---- if cond NL body fi NL   and   if cond NL body else NL body2 fi NL ---- *)
Lemma elseif_rep_none pos x : strip_prefix s_elseif x = None -> EV (PRep (PRef L_IF_ELSEIF_BR)) AtNon pos x (POk pos x []).
Proof.
  intro H. apply evals_rep_none. ref_nf. apply evals_seq_fail. ref_nf. apply evals_seq_fail. ref_s.
  apply evals_str_fail, H.
Qed.

Lemma else_opt_none pos x : strip_prefix s_else x = None -> EV (POpt (PRef L_IF_ELSE_BR)) AtNon pos x (POk pos x []).
Proof.
  intro H. apply evals_opt_none. ref_nf. apply evals_seq_fail. ref_nf. apply evals_seq_fail.
  apply evals_str_fail, H.
Qed.

Definition if_text (cond body : str) : str := s_if ++ cond ++ 10 :: body ++ s_fi ++ [10].
Definition if_br_tree (cond body : str) (btt : list ttree) : ttree :=
  TNode L_IF_IF_BR (trim (s_if ++ cond ++ 10 :: body))
    [TNode L_IF_HEAD (trim (s_if ++ cond ++ [10])) [TNode L_TEST cond []]; TNode L_EXP_BODY (trim body) btt].
Definition if_tree (cond body : str) (btt : list ttree) : ttree :=
  TNode L_EXP_IF (s_if ++ cond ++ 10 :: body ++ s_fi) [if_br_tree cond body btt].

(** IF_IF_BR, given the parse of its body *)
Lemma if_br_block pre cond body rest btt :
  cond_ok cond = true -> starts_blank (body ++ rest) = false ->
  parsed (PRef L_EXP_BODY) (pre ++ s_if ++ cond ++ [10]) body rest [TNode L_EXP_BODY (trim body) btt] ->
  parsed (PRef L_IF_IF_BR) pre (s_if ++ cond ++ 10 :: body) rest [if_br_tree cond body btt].
Proof.
  intros Hc Hsb [Tb [EVb Ab]].
  set (src := pre ++ (s_if ++ cond ++ 10 :: body) ++ rest).
  assert (Hsrc : (pre ++ s_if ++ cond ++ [10]) ++ body ++ rest = src) by (unfold src; norm_app).
  rewrite Hsrc in Ab.
  replace (length (pre ++ s_if ++ cond ++ [10])) with (S (length pre + 3 + length cond)) in EVb by len_eq.
  eexists. split.
  - eapply evals_ref_normal_ok; [reflexivity | reflexivity |].
    replace ((s_if ++ cond ++ 10 :: body) ++ rest) with (s_if ++ cond ++ 10 :: body ++ rest) by norm_app.
    eapply evals_seq_ok; [apply if_head_parses, Hc | apply skip_none, Hsb |].
    replace (length pre + length (s_if ++ cond ++ (10%N :: body)))%nat
      with (S (length pre + 3 + length cond) + length body)%nat by len_eq.
    exact EVb.
  - cbn [map app]. fold src.
    rewrite (annotate_node_eq pre (s_if ++ cond ++ 10 :: body) rest) by first [solve [reflexivity] | solve [len_eq]].
    unfold if_br_tree. f_equal. f_equal.
    cbn [map app]. rewrite ?app_nil_r. fold src. rewrite Ab. f_equal.
    rewrite (annotate_node_eq pre (s_if ++ cond ++ [10]) (body ++ rest)) by first [solve [unfold src; norm_app] | solve [len_eq]].
    f_equal. cbn [map]. f_equal.
    rewrite (annotate_node_eq (pre ++ s_if) cond (10 :: body ++ rest)) by first [solve [unfold src; norm_app] | solve [len_eq]].
    rewrite trim_cond by exact Hc. reflexivity.
Qed.

Lemma if_block pre cond body rest btt :
  cond_ok cond = true -> starts_blank (body ++ s_fi ++ 10 :: rest) = false ->
  parsed (PRef L_EXP_BODY) (pre ++ s_if ++ cond ++ [10]) body (s_fi ++ 10 :: rest) [TNode L_EXP_BODY (trim body) btt] ->
  parsed (PRef L_EXP_IF) pre (if_text cond body) rest [if_tree cond body btt].
Proof.
  intros Hc Hsb Hbody.
  destruct (if_br_block pre cond body (s_fi ++ 10 :: rest) btt Hc Hsb Hbody) as [Tb [EVb Ab]].
  unfold if_text.
  set (src := pre ++ (s_if ++ cond ++ 10 :: body ++ s_fi ++ [10]) ++ rest).
  assert (Hsrc : pre ++ (s_if ++ cond ++ 10 :: body) ++ s_fi ++ 10 :: rest = src) by (unfold src; norm_app).
  rewrite Hsrc in Ab.
  eexists. split.
  - eapply evals_ref_normal_ok; [reflexivity | reflexivity |].
    replace ((s_if ++ cond ++ 10 :: body ++ s_fi ++ [10]) ++ rest)
      with ((s_if ++ cond ++ 10 :: body) ++ s_fi ++ 10 :: rest) by norm_app.
    eapply evals_seq_ok; [apply opt_soi | apply skip_none; reflexivity |].
    eapply evals_seq_ok; [exact EVb | apply skip_none; reflexivity |].
    eapply evals_seq_ok; [apply elseif_rep_none; reflexivity | apply skip_none; reflexivity |].
    eapply evals_seq_ok; [apply else_opt_none; reflexivity | apply skip_none; reflexivity |].
    replace (length pre + length (s_if ++ cond ++ (10%N :: body ++ s_fi ++ [10%N])))%nat
      with (length pre + length (s_if ++ cond ++ (10%N :: body)) + 3)%nat by len_eq.
    apply kw_fi_ok.
  - cbn [map app]. fold src.
    rewrite (annotate_node_eq pre (s_if ++ cond ++ 10 :: body ++ s_fi ++ [10]) rest) by first [solve [reflexivity] | solve [len_eq]].
    unfold if_tree. f_equal. f_equal.
    + replace (s_if ++ cond ++ 10 :: body ++ s_fi ++ [10]) with ((s_if ++ cond ++ 10 :: body ++ s_fi) ++ [10]) by norm_app.
      apply trim_line; [reflexivity|].
      replace (s_if ++ cond ++ 10 :: body ++ s_fi) with ((s_if ++ cond ++ 10 :: body) ++ [102] ++ [105]) by norm_app.
      apply ends_nonws_app. reflexivity.
    + cbn [map app]. rewrite ?app_nil_r. fold src. exact Ab.
Qed.

Definition else_br_tree (body2 : str) (btt2 : list ttree) : ttree :=
  TNode L_IF_ELSE_BR (trim (s_else ++ 10 :: body2)) [TNode L_KW_ELSE s_else []; TNode L_EXP_BODY (trim body2) btt2].

Lemma kw_else_ok pos rest : EV (PRef L_KW_ELSE) AtNon pos (s_else ++ 10 :: rest) (POk (S (pos + 4)) rest [Node L_KW_ELSE pos (S (pos + 4)) []]).
Proof.
  eapply evals_ref_normal_ok; [reflexivity | reflexivity |].
  change (@nil tree) with ([] ++ [] ++ @nil tree)%list.
  eapply evals_seq_ok; [apply evals_str_ok, strip_prefix_app_some | apply skip_none; reflexivity | apply nl_ok].
Qed.

Lemma else_br_block pre body2 rest btt2 :
  starts_blank (body2 ++ rest) = false ->
  parsed (PRef L_EXP_BODY) (pre ++ s_else ++ [10]) body2 rest [TNode L_EXP_BODY (trim body2) btt2] ->
  parsed (PRef L_IF_ELSE_BR) pre (s_else ++ 10 :: body2) rest [else_br_tree body2 btt2].
Proof.
  intros Hsb [Tb [EVb Ab]].
  set (src := pre ++ (s_else ++ 10 :: body2) ++ rest).
  assert (Hsrc : (pre ++ s_else ++ [10]) ++ body2 ++ rest = src) by (unfold src; norm_app).
  rewrite Hsrc in Ab.
  replace (length (pre ++ s_else ++ [10])) with (S (length pre + 4)) in EVb by len_eq.
  eexists. split.
  - eapply evals_ref_normal_ok; [reflexivity | reflexivity |].
    replace ((s_else ++ 10 :: body2) ++ rest) with (s_else ++ 10 :: body2 ++ rest) by norm_app.
    eapply evals_seq_ok; [apply kw_else_ok | apply skip_none, Hsb |].
    replace (length pre + length (s_else ++ (10%N :: body2)))%nat with (S (length pre + 4) + length body2)%nat by len_eq.
    exact EVb.
  - cbn [map app]. fold src.
    rewrite (annotate_node_eq pre (s_else ++ 10 :: body2) rest) by first [solve [reflexivity] | solve [len_eq]].
    unfold else_br_tree. f_equal. f_equal.
    cbn [map app]. rewrite ?app_nil_r. fold src. rewrite Ab. f_equal.
    rewrite (annotate_node_eq pre (s_else ++ [10]) (body2 ++ rest)) by first [solve [unfold src; norm_app] | solve [len_eq]].
    reflexivity.
Qed.

Definition ifelse_text (cond body body2 : str) : str := s_if ++ cond ++ 10 :: body ++ s_else ++ 10 :: body2 ++ s_fi ++ [10].
Definition ifelse_tree (cond body body2 : str) (btt btt2 : list ttree) : ttree :=
  TNode L_EXP_IF (s_if ++ cond ++ 10 :: body ++ s_else ++ 10 :: body2 ++ s_fi) [if_br_tree cond body btt; else_br_tree body2 btt2].

Lemma ifelse_block pre cond body body2 rest btt btt2 :
  cond_ok cond = true ->
  starts_blank (body ++ s_else ++ 10 :: body2 ++ s_fi ++ 10 :: rest) = false ->
  starts_blank (body2 ++ s_fi ++ 10 :: rest) = false ->
  parsed (PRef L_EXP_BODY) (pre ++ s_if ++ cond ++ [10]) body (s_else ++ 10 :: body2 ++ s_fi ++ 10 :: rest) [TNode L_EXP_BODY (trim body) btt] ->
  parsed (PRef L_EXP_BODY) ((pre ++ (s_if ++ cond ++ 10 :: body)) ++ s_else ++ [10]) body2 (s_fi ++ 10 :: rest) [TNode L_EXP_BODY (trim body2) btt2] ->
  parsed (PRef L_EXP_IF) pre (ifelse_text cond body body2) rest [ifelse_tree cond body body2 btt btt2].
Proof.
  intros Hc Hsb Hsb2 Hbody Hbody2.
  destruct (if_br_block pre cond body _ btt Hc Hsb Hbody) as [T1 [E1 A1]].
  destruct (else_br_block (pre ++ (s_if ++ cond ++ 10 :: body)) body2 _ btt2 Hsb2 Hbody2) as [T2 [E2 A2]].
  unfold ifelse_text.
  set (src := pre ++ (s_if ++ cond ++ 10 :: body ++ s_else ++ 10 :: body2 ++ s_fi ++ [10]) ++ rest).
  assert (Hs1 : pre ++ (s_if ++ cond ++ 10 :: body) ++ s_else ++ 10 :: body2 ++ s_fi ++ 10 :: rest = src) by (unfold src; norm_app).
  assert (Hs2 : (pre ++ (s_if ++ cond ++ 10 :: body)) ++ (s_else ++ 10 :: body2) ++ s_fi ++ 10 :: rest = src) by (unfold src; norm_app).
  rewrite Hs1 in A1. rewrite Hs2 in A2.
  rewrite app_length in E2.
  eexists. split.
  - eapply evals_ref_normal_ok; [reflexivity | reflexivity |].
    replace ((s_if ++ cond ++ 10 :: body ++ s_else ++ 10 :: body2 ++ s_fi ++ [10]) ++ rest)
      with ((s_if ++ cond ++ 10 :: body) ++ s_else ++ 10 :: body2 ++ s_fi ++ 10 :: rest) by norm_app.
    eapply evals_seq_ok; [apply opt_soi | apply skip_none; reflexivity |].
    eapply evals_seq_ok; [exact E1 | apply skip_none; reflexivity |].
    eapply evals_seq_ok; [apply elseif_rep_none; reflexivity | apply skip_none; reflexivity |].
    replace (s_else ++ 10 :: body2 ++ s_fi ++ 10 :: rest) with ((s_else ++ 10 :: body2) ++ s_fi ++ 10 :: rest) by norm_app.
    eapply evals_seq_ok; [apply evals_opt_some; exact E2 | apply skip_none; reflexivity |].
    replace (length pre + length (s_if ++ cond ++ (10%N :: body ++ s_else ++ (10%N :: body2 ++ s_fi ++ [10%N]))))%nat
      with (length pre + length (s_if ++ cond ++ (10%N :: body)) + length (s_else ++ (10%N :: body2)) + 3)%nat by len_eq.
    apply kw_fi_ok.
  - cbn [map app]. fold src.
    rewrite (annotate_node_eq pre (s_if ++ cond ++ 10 :: body ++ s_else ++ 10 :: body2 ++ s_fi ++ [10]) rest) by first [solve [reflexivity] | solve [len_eq]].
    unfold ifelse_tree. f_equal. f_equal.
    + replace (s_if ++ cond ++ 10 :: body ++ s_else ++ 10 :: body2 ++ s_fi ++ [10])
        with ((s_if ++ cond ++ 10 :: body ++ s_else ++ 10 :: body2 ++ s_fi) ++ [10]) by norm_app.
      apply trim_line; [reflexivity|].
      replace (s_if ++ cond ++ 10 :: body ++ s_else ++ 10 :: body2 ++ s_fi)
        with ((s_if ++ cond ++ 10 :: body ++ s_else ++ 10 :: body2) ++ [102] ++ [105]) by norm_app.
      apply ends_nonws_app. reflexivity.
    + cbn [map app]. rewrite ?app_nil_r. rewrite map_app. fold src. rewrite A1, A2. reflexivity.
Qed.

(** ---- if / if-else as items ---- *)
Lemma if_parsed pre cond it r rest : cond_ok cond = true -> items_ok X_body (it :: r) ->
  parsed (PRef L_EXP_IF) pre (if_text cond (cat (it :: r))) rest [if_tree cond (cat (it :: r)) (map snd (it :: r))].
Proof.
  intros Hc Hi. apply if_block; [exact Hc | apply cat_start with (A := X_body); [exact Hi | reflexivity] |].
  apply exp_body_items; [exact Hi | apply stop_fi].
Qed.

Lemma ifelse_parsed pre cond it r it2 r2 rest : cond_ok cond = true -> items_ok X_body (it :: r) -> items_ok X_body (it2 :: r2) ->
  parsed (PRef L_EXP_IF) pre (ifelse_text cond (cat (it :: r)) (cat (it2 :: r2))) rest
    [ifelse_tree cond (cat (it :: r)) (cat (it2 :: r2)) (map snd (it :: r)) (map snd (it2 :: r2))].
Proof.
  intros Hc Hi Hi2. apply ifelse_block.
  - exact Hc.
  - apply cat_start with (A := X_body); [exact Hi | reflexivity].
  - apply cat_start with (A := X_body); [exact Hi2 | reflexivity].
  - apply exp_body_items; [exact Hi | apply stop_else].
  - apply exp_body_items; [exact Hi2 | apply stop_fi].
Qed.

Lemma if_alts_X pre text rest tt : (exists x, text = s_if ++ x) -> parsed (PRef L_EXP_IF) pre text rest tt -> parsed X_body pre text rest tt.
Proof.
  intros [x ->] H. unfold X_body.
  apply parsed_alt_r; [eapply cmd_fails_kw; rewrite <- app_assoc; apply kw_list_if|].
  apply parsed_alt_l, H.
Qed.

Lemma if_alts_Y pre text rest tt : parsed (PRef L_EXP_IF) pre text rest tt -> parsed Y_top pre text rest tt.
Proof. intro H. unfold Y_top. apply parsed_alt_l, H. Qed.

(** ---- the fragment of the syntax trees ---- *)
Fixpoint frag_block (b : block) : bool :=
  match b with
  | BNil => true
  | BCons s r => frag_stmt s && frag_block r
  end
with frag_stmt (s : stmt) : bool :=
  match s with
  | SCmd [] line => cmd_ok line
  | SBreak [] => true
  | SCont [] => true
  | SIf [] false cond body rest => cond_ok cond && nonempty_block body && frag_block body && frag_arms rest
  | SWhile [] false cond body => cond_ok cond && nonempty_block body && frag_block body
  | SFor [] false var words body => wfp_var var && cond_ok words && nonempty_block body && frag_block body
  | _ => false
  end
with frag_arms (a : arms) : bool :=
  match a with
  | ANone [] => true
  | AElse [] body [] => nonempty_block body && frag_block body
  | AElif [] false cond body rest => cond_ok cond && nonempty_block body && frag_block body && frag_arms rest
  | _ => false
  end.

Fixpoint items_of_block (b : block) : list (str * ttree) :=
  match b with
  | BNil => []
  | BCons s r => (render_stmt s, tree_of_stmt s) :: items_of_block r
  end.

Lemma items_cat : forall b, cat (items_of_block b) = render_block b.
Proof. fix IH 1. intros [|s r]; [reflexivity|]. cbn [items_of_block cat fst]. rewrite IH. reflexivity. Qed.

Lemma items_kids : forall b, map snd (items_of_block b) = kids_of_block b.
Proof. fix IH 1. intros [|s r]; [reflexivity|]. cbn [items_of_block map snd]. rewrite IH. reflexivity. Qed.

Lemma render_cmd_eq line : render_stmt (SCmd [] line) = line ++ [10].
Proof. reflexivity. Qed.

Lemma render_while_eq cond body : render_stmt (SWhile [] false cond body) = while_text cond (render_block body).
Proof.
  change (render_stmt (SWhile [] false cond body)) with ([] ++ (s_while ++ cond ++ [10] ++ render_block body ++ [] ++ s_done) ++ [10]).
  unfold while_text. norm_app.
Qed.

Lemma render_if_eq cond body : render_stmt (SIf [] false cond body (ANone [])) = if_text cond (render_block body).
Proof.
  change (render_stmt (SIf [] false cond body (ANone []))) with ([] ++ (s_if ++ cond ++ [10] ++ render_block body ++ [] ++ s_fi) ++ [10]).
  unfold if_text. norm_app.
Qed.

Lemma render_ifelse_eq cond body body2 :
  render_stmt (SIf [] false cond body (AElse [] body2 [])) = ifelse_text cond (render_block body) (render_block body2).
Proof.
  change (render_stmt (SIf [] false cond body (AElse [] body2 [])))
    with ([] ++ (s_if ++ cond ++ [10] ++ render_block body ++ [] ++ s_else ++ [10] ++ render_block body2 ++ [] ++ s_fi) ++ [10]).
  unfold ifelse_text. norm_app.
Qed.

Lemma tree_while_eq cond body :
  tree_of_stmt (SWhile [] false cond body) = while_tree cond (render_block body) (kids_of_block body).
Proof. reflexivity. Qed.
Lemma tree_if_eq cond body :
  tree_of_stmt (SIf [] false cond body (ANone [])) = if_tree cond (render_block body) (kids_of_block body).
Proof. reflexivity. Qed.
Lemma tree_ifelse_eq cond body body2 :
  tree_of_stmt (SIf [] false cond body (AElse [] body2 [])) =
  ifelse_tree cond (render_block body) (render_block body2) (kids_of_block body) (kids_of_block body2).
Proof. reflexivity. Qed.

(** ================= for v in words NL body done NL ================= *)
From Coq Require Import ZifyBool.

Definition IDS : pexp := PAlt (PAlt (PRange 97 122) (PRange 65 90)) (PStr [95]).
Definition IDC : pexp := PAlt (PAlt (PRange 48 57) (PAlt (PRange 97 122) (PRange 65 90))) (PStr [95]).

Lemma under_fail c r : (c =? 95) = false -> strip_prefix [95] (c :: r) = None.
Proof. intro H. cbn [strip_prefix]. rewrite N.eqb_sym, H. reflexivity. Qed.
Lemma under_ok c r : (c =? 95) = true -> strip_prefix [95] (c :: r) = Some r.
Proof. intro H. cbn [strip_prefix]. rewrite N.eqb_sym, H. reflexivity. Qed.

Lemma idc_ok pos c r : is_alnum_us c = true -> evals l_grammar IDC AtAtomic pos (c :: r) (POk (S pos) r []).
Proof.
  intro H. unfold is_alnum_us, is_digit, is_alpha in H. unfold IDC.
  destruct ((48 <=? c) && (c <=? 57)) eqn:D; [apply evals_alt_l, evals_alt_l, evals_range_ok, D|].
  destruct ((97 <=? c) && (c <=? 122)) eqn:L.
  { apply evals_alt_l. apply evals_alt_r; [apply evals_range_fail, D|]. apply evals_alt_l, evals_range_ok, L. }
  destruct ((65 <=? c) && (c <=? 90)) eqn:U.
  { apply evals_alt_l. apply evals_alt_r; [apply evals_range_fail, D|].
    apply evals_alt_r; [apply evals_range_fail, L|]. apply evals_range_ok, U. }
  cbn [orb] in H.
  apply evals_alt_r.
  { apply evals_alt_r; [apply evals_range_fail, D|]. apply evals_alt_r; [apply evals_range_fail, L | apply evals_range_fail, U]. }
  replace (S pos) with (pos + length [95%N])%nat by (cbn; lia). apply evals_str_ok, under_ok, H.
Qed.

Lemma ids_ok pos c r : is_alpha c || (c =? 95) = true -> evals l_grammar IDS AtAtomic pos (c :: r) (POk (S pos) r []).
Proof.
  intro H. unfold is_alpha in H. unfold IDS.
  destruct ((97 <=? c) && (c <=? 122)) eqn:L; [apply evals_alt_l, evals_alt_l, evals_range_ok, L|].
  destruct ((65 <=? c) && (c <=? 90)) eqn:U.
  { apply evals_alt_l. apply evals_alt_r; [apply evals_range_fail, L | apply evals_range_ok, U]. }
  cbn [orb] in H.
  apply evals_alt_r; [apply evals_alt_r; [apply evals_range_fail, L | apply evals_range_fail, U]|].
  replace (S pos) with (pos + length [95%N])%nat by (cbn; lia). apply evals_str_ok, under_ok, H.
Qed.

Lemma idc_stop pos r : evals l_grammar IDC AtAtomic pos (32 :: r) PFail.
Proof. apply (evals_of_ev l_grammar 6); [reflexivity|discriminate]. Qed.

Lemma ident_tail : forall t pos rest, forallb is_alnum_us t = true ->
  evals l_grammar (PRepTail IDC) AtAtomic pos (t ++ 32 :: rest) (POk (pos + length t) (32 :: rest) []).
Proof.
  induction t as [|c t IH]; intros pos rest H.
  - cbn [app length]. rewrite Nat.add_0_r. eapply evals_reptail_stop; [apply evals_skip_atomic | apply idc_stop].
  - cbn [forallb] in H. apply andb_prop in H as [Hc Ht]. cbn [app length].
    replace (pos + S (length t))%nat with (S pos + length t)%nat by lia.
    change (@nil tree) with ([] ++ [] ++ @nil tree)%list.
    eapply evals_reptail_step; [apply evals_skip_atomic | apply idc_ok, Hc | lia | apply IH, Ht].
Qed.

Lemma for_var_parses pos var rest : wfp_var var = true ->
  EV (PRef L_FOR_VAR) AtNon pos (var ++ 32 :: rest) (POk (pos + length var) (32 :: rest) [Node L_FOR_VAR pos (pos + length var) []]).
Proof.
  intro H. destruct var as [|c t]; [discriminate|]. cbn [wfp_var] in H. apply andb_prop in H as [Hc Ht].
  eapply evals_ref_atomic_ok; [reflexivity|].
  cbn [app length]. replace (pos + S (length t))%nat with (S pos + length t)%nat by lia.
  eapply evals_seq_ok; [apply ids_ok, Hc | apply evals_skip_atomic |].
  destruct t as [|c2 t2].
  - cbn [app length]. rewrite Nat.add_0_r. apply evals_rep_none, idc_stop.
  - cbn [forallb] in Ht. apply andb_prop in Ht as [Hc2 Ht2]. cbn [app length].
    replace (S pos + S (length t2))%nat with (S (S pos) + length t2)%nat by lia.
    change (@nil tree) with ([] ++ @nil tree)%list.
    eapply evals_rep_some; [apply idc_ok, Hc2 | apply ident_tail, Ht2].
Qed.

Lemma alnum_not_ws c : is_alnum_us c = true -> is_ws c = false.
Proof. unfold is_alnum_us, is_digit, is_alpha, is_ws. intro H. lia. Qed.

Lemma var_trim var : wfp_var var = true -> trim var = var.
Proof.
  intro H. destruct var as [|c t]; [discriminate|]. cbn [wfp_var] in H. apply andb_prop in H as [Hc Ht].
  assert (Hc' : is_alnum_us c = true) by (unfold is_alnum_us; apply orb_prop in Hc as [Hc|Hc]; rewrite Hc; lia).
  apply trim_self.
  - cbn. rewrite (alnum_not_ws c Hc'). reflexivity.
  - unfold ends_nonws. destruct (rev (c :: t)) as [|x xs] eqn:E.
    + apply (f_equal (@rev char)) in E. rewrite rev_involutive in E. discriminate.
    + assert (In x (c :: t)) by (apply in_rev; rewrite E; left; reflexivity).
      assert (is_alnum_us x = true).
      { destruct H as [<-|Hin]; [exact Hc'|]. rewrite forallb_forall in Ht. apply Ht, Hin. }
      rewrite (alnum_not_ws x); [reflexivity|assumption].
Qed.

Lemma for_head_parses pos var words rest : wfp_var var = true -> cond_ok words = true ->
  let p1 := (pos + 4)%nat in let p2 := (p1 + length var)%nat in
  let p3 := (p2 + 4)%nat in let p4 := (p3 + length words)%nat in
  EV (PRef L_FOR_HEAD) AtNon pos (s_for ++ var ++ s_in ++ words ++ 10 :: rest)
     (POk (S p4) rest
        [Node L_FOR_HEAD pos (S p4) [Node L_FOR_INIT p1 (S p4) [Node L_FOR_VAR p1 p2 []; Node L_TEST p3 p4 []]]]).
Proof.
  intros Hv Hw p1 p2 p3 p4.
  replace (s_for ++ var ++ s_in ++ words ++ 10 :: rest)
    with (s_for ++ (var ++ 32 :: ([105; 110] ++ ([32] ++ (words ++ 10 :: rest))))) by (unfold s_in; norm_app).
  eapply evals_ref_normal_ok; [reflexivity | reflexivity |].
  change [Node L_FOR_INIT p1 (S p4) [Node L_FOR_VAR p1 p2 []; Node L_TEST p3 p4 []]]
    with ([] ++ [] ++ [Node L_FOR_INIT p1 (S p4) [Node L_FOR_VAR p1 p2 []; Node L_TEST p3 p4 []]])%list.
  eapply evals_seq_ok; [ref_s; apply evals_str_ok, strip_prefix_app_some | |].
  - apply skip_none. destruct var as [|c t]; [discriminate|]. cbn [wfp_var] in Hv. apply andb_prop in Hv as [Hc _].
    cbn. apply blank_ws, alnum_not_ws. unfold is_alnum_us. apply orb_prop in Hc as [Hc|Hc]; rewrite Hc; lia.
  - change (pos + length s_for)%nat with p1.
    eapply evals_ref_normal_ok; [reflexivity | reflexivity |].
    change [Node L_FOR_VAR p1 p2 []; Node L_TEST p3 p4 []]
      with ([Node L_FOR_VAR p1 p2 []] ++ [] ++ ([] ++ [] ++ ([Node L_TEST p3 p4 []] ++ [] ++ [])))%list.
    eapply evals_seq_ok; [apply for_var_parses, Hv | |].
    + replace (32 :: [105; 110] ++ [32] ++ words ++ 10 :: rest) with ([32] ++ ([105; 110] ++ [32] ++ words ++ 10 :: rest)) by reflexivity.
      apply skip_blanks; reflexivity.
    + eapply evals_seq_ok; [apply evals_str_ok, strip_prefix_app_some | |].
      * apply skip_blanks; [reflexivity | apply cond_starts, Hw].
      * match goal with |- evals _ _ _ ?p _ _ => replace p with p3 by (unfold p3, p2; cbn [length]; lia) end.
        eapply evals_seq_ok; [apply test_parses, Hw | apply skip_none; reflexivity | apply then_do_fail].
Qed.

Definition for_text (var words body : str) : str := s_for ++ var ++ s_in ++ words ++ 10 :: body ++ s_done ++ [10].
Definition for_tree (var words body : str) (btt : list ttree) : ttree :=
  TNode L_EXP_FOR (s_for ++ var ++ s_in ++ words ++ 10 :: body ++ s_done)
    [TNode L_FOR_HEAD (trim (s_for ++ var ++ s_in ++ words ++ [10]))
       [TNode L_FOR_INIT (trim (var ++ s_in ++ words ++ [10])) [TNode L_FOR_VAR var []; TNode L_TEST words []]];
     TNode L_EXP_BODY (trim body) btt].

Lemma for_block pre var words body rest btt :
  wfp_var var = true -> cond_ok words = true ->
  starts_blank (body ++ s_done ++ 10 :: rest) = false ->
  parsed (PRef L_EXP_BODY) (pre ++ s_for ++ var ++ s_in ++ words ++ [10]) body (s_done ++ 10 :: rest) [TNode L_EXP_BODY (trim body) btt] ->
  parsed (PRef L_EXP_FOR) pre (for_text var words body) rest [for_tree var words body btt].
Proof.
  intros Hv Hw Hsb [Tb [EVb Ab]]. unfold for_text.
  set (src := pre ++ (s_for ++ var ++ s_in ++ words ++ 10 :: body ++ s_done ++ [10]) ++ rest).
  assert (Hsrc : (pre ++ s_for ++ var ++ s_in ++ words ++ [10]) ++ body ++ s_done ++ 10 :: rest = src) by (unfold src; norm_app).
  rewrite Hsrc in Ab.
  replace (length (pre ++ s_for ++ var ++ s_in ++ words ++ [10]))
    with (S (length pre + 4 + length var + 4 + length words)) in EVb by len_eq.
  eexists. split.
  - eapply evals_ref_normal_ok; [reflexivity | reflexivity |].
    replace ((s_for ++ var ++ s_in ++ words ++ 10 :: body ++ s_done ++ [10]) ++ rest)
      with (s_for ++ var ++ s_in ++ words ++ 10 :: body ++ s_done ++ 10 :: rest) by norm_app.
    eapply evals_seq_ok; [apply opt_soi | apply skip_none; reflexivity |].
    eapply evals_seq_ok; [apply for_head_parses; assumption | apply skip_none, Hsb |].
    eapply evals_seq_ok; [exact EVb | apply skip_none; reflexivity |].
    replace (length pre + length (s_for ++ var ++ s_in ++ words ++ (10%N :: body ++ s_done ++ [10%N])))%nat
      with (S (length pre + 4 + length var + 4 + length words) + length body + 5)%nat by len_eq.
    apply kw_done_ok.
  - cbn [map app]. fold src.
    rewrite (annotate_node_eq pre (s_for ++ var ++ s_in ++ words ++ 10 :: body ++ s_done ++ [10]) rest) by first [solve [reflexivity] | solve [len_eq]].
    unfold for_tree. f_equal. f_equal.
    + replace (s_for ++ var ++ s_in ++ words ++ 10 :: body ++ s_done ++ [10])
        with ((s_for ++ var ++ s_in ++ words ++ 10 :: body ++ s_done) ++ [10]) by norm_app.
      apply trim_line; [reflexivity|].
      replace (s_for ++ var ++ s_in ++ words ++ 10 :: body ++ s_done)
        with ((s_for ++ var ++ s_in ++ words ++ 10 :: body) ++ [100; 111; 110] ++ [101]) by norm_app.
      apply ends_nonws_app. reflexivity.
    + cbn [map app]. rewrite ?app_nil_r. fold src. rewrite Ab. f_equal.
      rewrite (annotate_node_eq pre (s_for ++ var ++ s_in ++ words ++ [10]) (body ++ s_done ++ 10 :: rest)) by first [solve [unfold src; norm_app] | solve [len_eq]].
      f_equal. cbn [map]. f_equal.
      rewrite (annotate_node_eq (pre ++ s_for) (var ++ s_in ++ words ++ [10]) (body ++ s_done ++ 10 :: rest)) by first [solve [unfold src; norm_app] | solve [len_eq]].
      f_equal. cbn [map]. f_equal; [|f_equal].
      * rewrite (annotate_node_eq (pre ++ s_for) var (s_in ++ words ++ 10 :: body ++ s_done ++ 10 :: rest)) by first [solve [unfold src; norm_app] | solve [len_eq]].
        rewrite var_trim by exact Hv. reflexivity.
      * rewrite (annotate_node_eq (pre ++ s_for ++ var ++ s_in) words (10 :: body ++ s_done ++ 10 :: rest)) by first [solve [unfold src; norm_app] | solve [len_eq]].
        rewrite trim_cond by exact Hw. reflexivity.
Qed.

(** ================= else-if arms: a repetition whose items parse only before a stop text ================= *)
Section ItemsR.
Variable A : pexp.
Variable R : str -> Prop.   (* what the text after an item must satisfy for the item to parse *)

Definition itemR_ok (text : str) (tt : ttree) : Prop :=
  (forall rest, starts_blank (text ++ rest) = false) /\ text <> [] /\
  forall pre rest, R rest -> parsed A pre text rest [tt].
Definition itemsR_ok (items : list (str * ttree)) : Prop :=
  Forall (fun it => itemR_ok (fst it) (snd it)) items.
Fixpoint Rs (items : list (str * ttree)) (rest : str) : Prop :=
  R (cat items ++ rest) /\ match items with [] => True | _ :: r => Rs r rest end.

Lemma Rs_head r rest : Rs r rest -> R (cat r ++ rest).
Proof. destruct r; intros [h _]; exact h. Qed.

Lemma catR_start items rest : itemsR_ok items -> starts_blank rest = false -> starts_blank (cat items ++ rest) = false.
Proof.
  intros H Hr. destruct items as [|[t tt] r]; [exact Hr|]. inversion H as [|x l [Hs _] _]; subst.
  cbn [cat fst]. rewrite <- app_assoc. apply Hs.
Qed.

Lemma itemsR_tail : forall items pre rest, itemsR_ok items -> Rs items rest -> stop_ok A rest ->
  parsed (PRepTail A) pre (cat items) rest (map snd items).
Proof.
  induction items as [|[t tt] r IH]; intros pre rest H HR [Hr Hstop].
  - exists []. cbn [cat app length map]. rewrite Nat.add_0_r. split; [|reflexivity].
    eapply evals_reptail_stop; [apply skip_none, Hr | apply Hstop].
  - inversion H as [|x l Hit Hrest]; subst. destruct Hit as [Hs [Hne Hp]]. cbn [fst snd] in *.
    destruct HR as [_ HR]. destruct (Hp pre (cat r ++ rest) (Rs_head r rest HR)) as [T1 [E1 A1]].
    destruct (IH (pre ++ t) rest Hrest HR (conj Hr Hstop)) as [T2 [E2 A2]].
    exists ([] ++ T1 ++ T2). cbn [cat fst]. split.
    + rewrite <- app_assoc.
      rewrite app_length in E2.
      replace (length pre + length (t ++ cat r))%nat with (length pre + length t + length (cat r))%nat
        by (rewrite app_length; lia).
      eapply evals_reptail_step; [apply skip_none, Hs | exact E1 | | exact E2].
      destruct t; [congruence | cbn [length]; lia].
    + cbn [app map snd]. rewrite map_app.
      replace (pre ++ (t ++ cat r) ++ rest) with (pre ++ t ++ cat r ++ rest) by norm_app.
      rewrite A1.
      replace (pre ++ t ++ cat r ++ rest) with ((pre ++ t) ++ cat r ++ rest) by norm_app.
      rewrite A2. reflexivity.
Qed.

Lemma itemsR_rep : forall items pre rest, itemsR_ok items -> Rs items rest -> stop_ok A rest ->
  parsed (PRep A) pre (cat items) rest (map snd items).
Proof.
  intros [|[t tt] r] pre rest H HR [Hr Hstop].
  - exists []. cbn [cat app length map]. rewrite Nat.add_0_r. split; [|reflexivity].
    apply evals_rep_none, Hstop.
  - inversion H as [|x l Hit Hrest]; subst. destruct Hit as [Hs [Hne Hp]]. cbn [fst snd] in *.
    destruct HR as [_ HR]. destruct (Hp pre (cat r ++ rest) (Rs_head r rest HR)) as [T1 [E1 A1]].
    destruct (itemsR_tail r (pre ++ t) rest Hrest HR (conj Hr Hstop)) as [T2 [E2 A2]].
    exists (T1 ++ T2). cbn [cat fst]. split.
    + rewrite <- app_assoc. rewrite app_length in E2.
      replace (length pre + length (t ++ cat r))%nat with (length pre + length t + length (cat r))%nat
        by (rewrite app_length; lia).
      eapply evals_rep_some; [exact E1 | exact E2].
    + cbn [map snd]. rewrite map_app.
      replace (pre ++ (t ++ cat r) ++ rest) with (pre ++ t ++ cat r ++ rest) by norm_app.
      rewrite A1.
      replace (pre ++ t ++ cat r ++ rest) with ((pre ++ t) ++ cat r ++ rest) by norm_app.
      rewrite A2. reflexivity.
Qed.

End ItemsR.

Notation EI := (PRef L_IF_ELSEIF_BR).

Lemma elseif_head_parses pos cond rest : cond_ok cond = true ->
  EV (PRef L_IF_ELSEIF_HEAD) AtNon pos (s_elseif ++ cond ++ 10 :: rest)
     (POk (S (pos + 8 + length cond)) rest
        [Node L_IF_ELSEIF_HEAD pos (S (pos + 8 + length cond)) [Node L_TEST (pos + 8) (pos + 8 + length cond) []]]).
Proof.
  intro H. eapply evals_ref_normal_ok; [reflexivity | reflexivity |].
  change [Node L_TEST (pos + 8) (pos + 8 + length cond) []]
    with ([] ++ [] ++ ([Node L_TEST (pos + 8) (pos + 8 + length cond) []] ++ [] ++ []))%list.
  eapply evals_seq_ok.
  - ref_s. apply evals_str_ok. apply strip_prefix_app_some.
  - apply skip_none, cond_starts, H.
  - eapply evals_seq_ok.
    + apply test_parses, H.
    + apply skip_none. reflexivity.
    + apply then_do_fail.
Qed.

Definition elif_text (cond body : str) : str := s_elseif ++ cond ++ 10 :: body.
Definition elif_tree (cond body : str) (btt : list ttree) : ttree :=
  TNode L_IF_ELSEIF_BR (trim (s_elseif ++ cond ++ 10 :: body))
    [TNode L_IF_ELSEIF_HEAD (trim (s_elseif ++ cond ++ [10])) [TNode L_TEST cond []]; TNode L_EXP_BODY (trim body) btt].

Lemma elif_br_block pre cond body rest btt :
  cond_ok cond = true -> starts_blank (body ++ rest) = false ->
  parsed (PRef L_EXP_BODY) (pre ++ s_elseif ++ cond ++ [10]) body rest [TNode L_EXP_BODY (trim body) btt] ->
  parsed EI pre (elif_text cond body) rest [elif_tree cond body btt].
Proof.
  intros Hc Hsb [Tb [EVb Ab]]. unfold elif_text.
  set (src := pre ++ (s_elseif ++ cond ++ 10 :: body) ++ rest).
  assert (Hsrc : (pre ++ s_elseif ++ cond ++ [10]) ++ body ++ rest = src) by (unfold src; norm_app).
  rewrite Hsrc in Ab.
  replace (length (pre ++ s_elseif ++ cond ++ [10])) with (S (length pre + 8 + length cond)) in EVb
    by (repeat first [rewrite app_length | progress cbn [length]]; change (length s_elseif) with 8%nat; lia).
  eexists. split.
  - eapply evals_ref_normal_ok; [reflexivity | reflexivity |].
    replace ((s_elseif ++ cond ++ 10 :: body) ++ rest) with (s_elseif ++ cond ++ 10 :: body ++ rest) by norm_app.
    eapply evals_seq_ok; [apply elseif_head_parses, Hc | apply skip_none, Hsb |].
    replace (length pre + length (s_elseif ++ cond ++ (10%N :: body)))%nat
      with (S (length pre + 8 + length cond) + length body)%nat
      by (repeat first [rewrite app_length | progress cbn [length]]; change (length s_elseif) with 8%nat; lia).
    exact EVb.
  - cbn [map app]. fold src.
    rewrite (annotate_node_eq pre (s_elseif ++ cond ++ 10 :: body) rest) by first [solve [reflexivity] | solve [len_eq]].
    unfold elif_tree. f_equal. f_equal.
    cbn [map app]. rewrite ?app_nil_r. fold src. rewrite Ab. f_equal.
    rewrite (annotate_node_eq pre (s_elseif ++ cond ++ [10]) (body ++ rest))
      by first [solve [unfold src; norm_app] | solve [repeat first [rewrite app_length | progress cbn [length]]; change (length s_elseif) with 8%nat; lia]].
    f_equal. cbn [map]. f_equal.
    rewrite (annotate_node_eq (pre ++ s_elseif) cond (10 :: body ++ rest))
      by first [solve [unfold src; norm_app] | solve [repeat first [rewrite app_length | progress cbn [length]]; change (length s_elseif) with 8%nat; lia]].
    rewrite trim_cond by exact Hc. reflexivity.
Qed.

(** what may follow a body inside an `if`: the next arm, the else arm or fi *)
Lemma X_stop_elseif pos x : EV X_body AtNon pos (s_elseif ++ x) PFail.
Proof. apply (evals_of_ev l_grammar 40); [|discriminate]. destruct pos; vm_compute; reflexivity. Qed.
Lemma stop_elseif x : stop_ok X_body (s_elseif ++ x).
Proof. split; [reflexivity | intro pos; apply X_stop_elseif]. Qed.

Lemma EI_stop_else pos x : EV EI AtNon pos (s_else ++ 10 :: x) PFail.
Proof. ref_nf. apply evals_seq_fail. ref_nf. apply evals_seq_fail. ref_s. apply evals_str_fail. reflexivity. Qed.
Lemma EI_stop_fi pos x : EV EI AtNon pos (s_fi ++ 10 :: x) PFail.
Proof. ref_nf. apply evals_seq_fail. ref_nf. apply evals_seq_fail. ref_s. apply evals_str_fail. reflexivity. Qed.

(** the general if: first branch, else-if arms (E, already parsed as a repetition), optional else arm (L) *)
Lemma if_gen_block pre cond body E L rest btt etts ltts :
  cond_ok cond = true ->
  parsed (PRef L_IF_IF_BR) pre (s_if ++ cond ++ 10 :: body) (E ++ L ++ s_fi ++ 10 :: rest) [if_br_tree cond body btt] ->
  parsed (PRep EI) (pre ++ (s_if ++ cond ++ 10 :: body)) E (L ++ s_fi ++ 10 :: rest) etts ->
  parsed (POpt (PRef L_IF_ELSE_BR)) ((pre ++ (s_if ++ cond ++ 10 :: body)) ++ E) L (s_fi ++ 10 :: rest) ltts ->
  starts_blank (E ++ L ++ s_fi ++ 10 :: rest) = false -> starts_blank (L ++ s_fi ++ 10 :: rest) = false ->
  parsed (PRef L_EXP_IF) pre (s_if ++ cond ++ 10 :: body ++ E ++ L ++ s_fi ++ [10]) rest
    [TNode L_EXP_IF (s_if ++ cond ++ 10 :: body ++ E ++ L ++ s_fi) (if_br_tree cond body btt :: etts ++ ltts)].
Proof.
  intros Hc [T1 [E1 A1]] [T2 [E2 A2]] [T3 [E3 A3]] Hs1 Hs2.
  set (ifbr := s_if ++ cond ++ 10 :: body) in *.
  set (src := pre ++ (s_if ++ cond ++ 10 :: body ++ E ++ L ++ s_fi ++ [10]) ++ rest).
  assert (H1 : pre ++ ifbr ++ E ++ L ++ s_fi ++ 10 :: rest = src) by (unfold src, ifbr; norm_app).
  assert (H2 : (pre ++ ifbr) ++ E ++ L ++ s_fi ++ 10 :: rest = src) by (unfold src, ifbr; norm_app).
  assert (H3 : ((pre ++ ifbr) ++ E) ++ L ++ s_fi ++ 10 :: rest = src) by (unfold src, ifbr; norm_app).
  rewrite H1 in A1. rewrite H2 in A2. rewrite H3 in A3.
  rewrite app_length in E2. rewrite !app_length in E3.
  eexists. split.
  - eapply evals_ref_normal_ok; [reflexivity | reflexivity |].
    replace ((s_if ++ cond ++ 10 :: body ++ E ++ L ++ s_fi ++ [10]) ++ rest)
      with (ifbr ++ E ++ L ++ s_fi ++ 10 :: rest) by (unfold ifbr; norm_app).
    eapply evals_seq_ok; [apply opt_soi | apply skip_none; reflexivity |].
    eapply evals_seq_ok; [exact E1 | apply skip_none, Hs1 |].
    eapply evals_seq_ok; [exact E2 | apply skip_none, Hs2 |].
    eapply evals_seq_ok; [exact E3 | apply skip_none; reflexivity |].
    replace (length pre + length (s_if ++ cond ++ (10%N :: body ++ E ++ L ++ s_fi ++ [10%N])))%nat
      with (length pre + length ifbr + length E + length L + 3)%nat by (unfold ifbr; len_eq).
    apply kw_fi_ok.
  - cbn [map app]. fold src.
    rewrite (annotate_node_eq pre (s_if ++ cond ++ 10 :: body ++ E ++ L ++ s_fi ++ [10]) rest) by first [solve [reflexivity] | solve [len_eq]].
    f_equal. f_equal.
    + replace (s_if ++ cond ++ 10 :: body ++ E ++ L ++ s_fi ++ [10]) with ((s_if ++ cond ++ 10 :: body ++ E ++ L ++ s_fi) ++ [10]) by norm_app.
      apply trim_line; [reflexivity|].
      replace (s_if ++ cond ++ 10 :: body ++ E ++ L ++ s_fi) with ((s_if ++ cond ++ 10 :: body ++ E ++ L) ++ [102] ++ [105]) by norm_app.
      apply ends_nonws_app. reflexivity.
    + cbn [map app]. rewrite ?app_nil_r. rewrite !map_app. fold src. rewrite A1, A2, A3. reflexivity.
Qed.

(** ================= the fragment: induction over the syntax tree ================= *)
Lemma nonempty_items b : nonempty_block b = true -> exists it r, items_of_block b = it :: r.
Proof. destruct b as [|s r]; [discriminate|]. intros _. eexists. eexists. reflexivity. Qed.

(** for as an item *)
Lemma for_parsed pre var words it r rest : wfp_var var = true -> cond_ok words = true -> items_ok X_body (it :: r) ->
  parsed (PRef L_EXP_FOR) pre (for_text var words (cat (it :: r))) rest [for_tree var words (cat (it :: r)) (map snd (it :: r))].
Proof.
  intros Hv Hw Hi. apply for_block; [exact Hv | exact Hw | apply cat_start with (A := X_body); [exact Hi | reflexivity] |].
  apply exp_body_items; [exact Hi | apply stop_done].
Qed.

Lemma render_for_eq var words body : render_stmt (SFor [] false var words body) = for_text var words (render_block body).
Proof.
  change (render_stmt (SFor [] false var words body))
    with ([] ++ (s_for ++ var ++ s_in ++ words ++ [10] ++ render_block body ++ [] ++ s_done) ++ [10]).
  unfold for_text. norm_app.
Qed.
Lemma tree_for_eq var words body :
  tree_of_stmt (SFor [] false var words body) = for_tree var words (render_block body) (kids_of_block body).
Proof. reflexivity. Qed.

(** the arms of an if: else-if items, then the optional else part *)
Fixpoint elif_items (a : arms) : list (str * ttree) :=
  match a with
  | AElif _ _ cond body r =>
      (elif_text cond (render_block body), elif_tree cond (render_block body) (kids_of_block body)) :: elif_items r
  | _ => []
  end.
Fixpoint else_text (a : arms) : str :=
  match a with
  | AElif _ _ _ _ r => else_text r
  | AElse _ body _ => s_else ++ 10 :: render_block body
  | ANone _ => []
  end.
Fixpoint else_trees (a : arms) : list ttree :=
  match a with
  | AElif _ _ _ _ r => else_trees r
  | AElse _ body _ => [else_br_tree (render_block body) (kids_of_block body)]
  | ANone _ => []
  end.

Lemma core_arms_eq : forall a, frag_arms a = true -> core_arms a = cat (elif_items a) ++ else_text a ++ s_fi.
Proof.
  fix IH 1. intros [i|i body j|i sp cond body r] H.
  - destruct i; [reflexivity | discriminate H].
  - destruct i; [|discriminate H]. destruct j; [|destruct body; discriminate H].
    change (core_arms (AElse [] body [])) with ([] ++ s_else ++ [10] ++ render_block body ++ [] ++ s_fi).
    cbn [elif_items cat else_text]. norm_app.
  - destruct i; [|discriminate H]. destruct sp; [discriminate H|].
    change (frag_arms (AElif [] false cond body r)) with (cond_ok cond && nonempty_block body && frag_block body && frag_arms r) in H.
    apply andb_prop in H as [_ Hr].
    change (core_arms (AElif [] false cond body r)) with ([] ++ s_elseif ++ cond ++ [10] ++ render_block body ++ core_arms r).
    rewrite (IH r Hr). cbn [elif_items cat fst else_text]. unfold elif_text. norm_app.
Qed.

Lemma nodes_arms_eq : forall a, frag_arms a = true -> nodes_of_arms a = map snd (elif_items a) ++ else_trees a.
Proof.
  fix IH 1. intros [i|i body j|i sp cond body r] H.
  - reflexivity.
  - destruct i; [|discriminate H]. destruct j; [|destruct body; discriminate H]. reflexivity.
  - destruct i; [|discriminate H]. destruct sp; [discriminate H|].
    change (frag_arms (AElif [] false cond body r)) with (cond_ok cond && nonempty_block body && frag_block body && frag_arms r) in H.
    apply andb_prop in H as [_ Hr].
    rewrite ScriptProofs.nodes_elif. rewrite (IH r Hr). reflexivity.
Qed.

Lemma parsed_opt_some a pre text rest tt : parsed a pre text rest tt -> parsed (POpt a) pre text rest tt.
Proof. intros [Ts [H1 H2]]. exists Ts. split; [apply evals_opt_some, H1 | exact H2]. Qed.

Notation Rx := (stop_ok X_body).

Definition Q_block (b : block) : Prop :=
  frag_block b = true -> items_ok X_body (items_of_block b) /\ items_ok Y_top (items_of_block b).
Definition Q_stmt (s : stmt) : Prop :=
  frag_stmt s = true ->
  item_ok X_body (render_stmt s) (tree_of_stmt s) /\ item_ok Y_top (render_stmt s) (tree_of_stmt s).
Definition Q_arms (a : arms) : Prop :=
  frag_arms a = true ->
  itemsR_ok EI Rx (elif_items a) /\
  (forall rest, Rs Rx (elif_items a) (else_text a ++ s_fi ++ 10 :: rest)) /\
  (forall rest, stop_ok EI (else_text a ++ s_fi ++ 10 :: rest)) /\
  (forall pre rest, parsed (POpt (PRef L_IF_ELSE_BR)) pre (else_text a) (s_fi ++ 10 :: rest) (else_trees a)).

Lemma body_parsed pre it r rest : items_ok X_body (it :: r) -> Rx rest ->
  starts_blank (cat (it :: r) ++ rest) = false /\
  parsed (PRef L_EXP_BODY) pre (cat (it :: r)) rest [TNode L_EXP_BODY (trim (cat (it :: r))) (map snd (it :: r))].
Proof.
  intros Hi HR. split; [apply cat_start with (A := X_body); [exact Hi | apply HR] | apply exp_body_items; assumption].
Qed.

Lemma frag_all : (forall b, Q_block b) /\ (forall s, Q_stmt s) /\ (forall a, Q_arms a).
Proof.
  apply ScriptProofs.ast_mutind; unfold Q_block, Q_stmt, Q_arms.
  - (* BNil *) intros _. split; constructor.
  - (* BCons *) intros s IHs r IHr H.
    change (frag_block (BCons s r)) with (frag_stmt s && frag_block r) in H. apply andb_prop in H as [Hs Hr].
    destruct (IHs Hs) as [SX SY]. destruct (IHr Hr) as [RX RY].
    cbn [items_of_block]. split; constructor; assumption.
  - (* SCmd *) intros ind line H. destruct ind; [|discriminate H].
    change (frag_stmt (SCmd [] line)) with (cmd_ok line) in H.
    rewrite render_cmd_eq. split; [apply cmd_item_X, H | apply cmd_item_Y, H].
  - (* SBlank *) intros ws H. discriminate H.
  - (* SBreak *) intros ind H. destruct ind; [|discriminate H].
    change (render_stmt (SBreak [])) with (kw_break ++ [10]). change (tree_of_stmt (SBreak [])) with (cmd_t kw_break).
    split; [apply cmd_item_X | apply cmd_item_Y]; reflexivity.
  - (* SCont *) intros ind H. destruct ind; [|discriminate H].
    change (render_stmt (SCont [])) with (kw_continue ++ [10]). change (tree_of_stmt (SCont [])) with (cmd_t kw_continue).
    split; [apply cmd_item_X | apply cmd_item_Y]; reflexivity.
  - (* SIf *) intros ind sp cond body IHb rest IHa H.
    destruct ind; [|discriminate H]. destruct sp; [discriminate H|].
    change (frag_stmt (SIf [] false cond body rest)) with (cond_ok cond && nonempty_block body && frag_block body && frag_arms rest) in H.
    apply andb_prop in H as [H Ha]. apply andb_prop in H as [H Hb]. apply andb_prop in H as [Hc Hne].
    destruct (IHb Hb) as [BX _]. destruct (nonempty_items body Hne) as [it [r Eit]].
    destruct (IHa Ha) as [A1 [A2 [A3 A4]]].
    assert (Etext : render_stmt (SIf [] false cond body rest) =
                    s_if ++ cond ++ 10 :: cat (it :: r) ++ cat (elif_items rest) ++ else_text rest ++ s_fi ++ [10]).
    { change (render_stmt (SIf [] false cond body rest)) with ([] ++ (s_if ++ cond ++ [10] ++ render_block body ++ core_arms rest) ++ [10]).
      rewrite (core_arms_eq rest Ha), <- Eit, items_cat. norm_app. }
    assert (Etree : tree_of_stmt (SIf [] false cond body rest) =
                    TNode L_EXP_IF (s_if ++ cond ++ 10 :: cat (it :: r) ++ cat (elif_items rest) ++ else_text rest ++ s_fi)
                      (if_br_tree cond (cat (it :: r)) (map snd (it :: r)) :: map snd (elif_items rest) ++ else_trees rest)).
    { rewrite ScriptProofs.tree_if. rewrite (nodes_arms_eq rest Ha). rewrite <- Eit, items_cat, items_kids.
      change (core_stmt (SIf [] false cond body rest)) with (s_if ++ cond ++ [10] ++ render_block body ++ core_arms rest).
      rewrite (core_arms_eq rest Ha). unfold if_br_tree, body_node.
      f_equal; norm_app. }
    rewrite Eit in BX.
    assert (P : forall pre rest0, parsed (PRef L_EXP_IF) pre (render_stmt (SIf [] false cond body rest)) rest0 [tree_of_stmt (SIf [] false cond body rest)]).
    { intros pre rest0. rewrite Etext, Etree.
      pose proof (A2 rest0) as HRs. pose proof (Rs_head Rx _ _ HRs) as HR1.
      destruct (body_parsed (pre ++ s_if ++ cond ++ [10]) it r _ BX HR1) as [Hsb Hbody].
      apply if_gen_block.
      - exact Hc.
      - apply if_br_block; assumption.
      - apply (itemsR_rep EI Rx); [exact A1 | exact HRs | apply A3].
      - apply A4.
      - apply HR1.
      - apply (A3 rest0).
    }
    split; (split; [intro; rewrite Etext; reflexivity|]; split; [rewrite Etext; discriminate|]); intros pre rest0.
    + apply if_alts_X; [rewrite Etext; eexists; reflexivity | apply P].
    + apply if_alts_Y, P.
  - (* SFor *) intros ind sp var words body IHb H.
    destruct ind; [|discriminate H]. destruct sp; [discriminate H|].
    change (frag_stmt (SFor [] false var words body)) with (wfp_var var && cond_ok words && nonempty_block body && frag_block body) in H.
    apply andb_prop in H as [H Hb]. apply andb_prop in H as [H Hne]. apply andb_prop in H as [Hv Hw].
    destruct (IHb Hb) as [BX _]. destruct (nonempty_items body Hne) as [it [r Eit]].
    rewrite render_for_eq, tree_for_eq. rewrite <- (items_cat body), <- (items_kids body). rewrite Eit in *.
    split; (split; [intro; reflexivity|]; split; [discriminate|]); intros pre rest0.
    + unfold X_body.
      apply parsed_alt_r; [eapply cmd_fails_kw; unfold for_text; rewrite <- app_assoc; apply kw_list_for|].
      apply parsed_alt_r; [apply exp_if_fails; reflexivity|].
      apply parsed_alt_r; [apply exp_while_fails; reflexivity|].
      apply for_parsed; assumption.
    + unfold Y_top.
      apply parsed_alt_r; [apply exp_if_fails; reflexivity|].
      apply parsed_alt_l. apply for_parsed; assumption.
  - (* SWhile *) intros ind sp cond body IHb H.
    destruct ind; [|discriminate H]. destruct sp; [discriminate H|].
    change (frag_stmt (SWhile [] false cond body)) with (cond_ok cond && nonempty_block body && frag_block body) in H.
    apply andb_prop in H as [H Hb]. apply andb_prop in H as [Hc Hne].
    destruct (IHb Hb) as [BX _]. destruct (nonempty_items body Hne) as [it [r Eit]].
    rewrite render_while_eq, tree_while_eq. rewrite <- (items_cat body), <- (items_kids body). rewrite Eit in *.
    split; [apply while_item_X | apply while_item_Y]; assumption.
  - (* ANone *) intros ind H. destruct ind; [|discriminate H]. cbn [elif_items else_text else_trees app].
    split; [constructor|]. split; [intro rest; split; [apply stop_fi | exact I]|].
    split; [intro rest; split; [reflexivity | intro pos; apply EI_stop_fi]|].
    intros pre rest. exists []. cbn [app length map]. rewrite Nat.add_0_r. split; [|reflexivity].
    apply else_opt_none. reflexivity.
  - (* AElse *) intros ind body IHb ind_fi H.
    destruct ind; [|discriminate H]. destruct ind_fi; [|destruct body; discriminate H].
    change (frag_arms (AElse [] body [])) with (nonempty_block body && frag_block body) in H.
    apply andb_prop in H as [Hne Hb]. destruct (IHb Hb) as [BX _].
    destruct (nonempty_items body Hne) as [it [r Eit]].
    cbn [elif_items else_text else_trees].
    split; [constructor|].
    split; [intro rest; split; [rewrite <- app_assoc; apply stop_else | exact I]|].
    split; [intro rest; rewrite <- app_assoc; split; [reflexivity | intro pos; apply EI_stop_else]|].
    intros pre rest. apply parsed_opt_some.
    rewrite <- (items_cat body), <- (items_kids body). rewrite Eit in *.
    destruct (body_parsed (pre ++ s_else ++ [10]) it r _ BX (stop_fi rest)) as [Hsb Hbody].
    apply else_br_block; assumption.
  - (* AElif *) intros ind sp cond body IHb rest IHa H.
    destruct ind; [|discriminate H]. destruct sp; [discriminate H|].
    change (frag_arms (AElif [] false cond body rest)) with (cond_ok cond && nonempty_block body && frag_block body && frag_arms rest) in H.
    apply andb_prop in H as [H Ha]. apply andb_prop in H as [H Hb]. apply andb_prop in H as [Hc Hne].
    destruct (IHb Hb) as [BX _]. destruct (nonempty_items body Hne) as [it [r Eit]].
    destruct (IHa Ha) as [A1 [A2 [A3 A4]]].
    cbn [elif_items else_text else_trees].
    rewrite <- (items_cat body), <- (items_kids body). rewrite Eit in *.
    split.
    { constructor; [|exact A1]. cbn [fst snd].
      split; [intro; reflexivity|]. split; [discriminate|].
      intros pre rest0 HR.
      destruct (body_parsed (pre ++ s_elseif ++ cond ++ [10]) it r _ BX HR) as [Hsb Hbody].
      apply elif_br_block; assumption. }
    split.
    { intro rest0. split; [|apply A2].
      cbn [cat fst]. unfold elif_text. rewrite <- !app_assoc. apply stop_elseif. }
    split; [exact A3 | exact A4].
Qed.

(** ---- ideal trees hold no EOI pair ---- *)
Notation fe := (fun k => negb (t_rule k =? L_EOI)).
Notation se := (strip_eoi L_EOI).

Lemma strip_node r x kids : se (TNode r x kids) = TNode r x (filter fe (map se kids)).
Proof. reflexivity. Qed.

Lemma strip_all : (forall b, filter fe (map se (kids_of_block b)) = kids_of_block b) /\
                  (forall s, se (tree_of_stmt s) = tree_of_stmt s /\ (t_rule (tree_of_stmt s) =? L_EOI) = false) /\
                  (forall a, filter fe (map se (nodes_of_arms a)) = nodes_of_arms a).
Proof.
  apply ScriptProofs.ast_mutind.
  - reflexivity.
  - intros s [IHs Hr] r IHr. rewrite ScriptProofs.kids_cons. cbn [map filter]. rewrite IHs, Hr. cbn [negb]. rewrite IHr. reflexivity.
  - intros; split; reflexivity.
  - intros; split; reflexivity.
  - intros; split; reflexivity.
  - intros; split; reflexivity.
  - intros ind sp cond body IHb rest IHa. rewrite ScriptProofs.tree_if. split; [|reflexivity].
    rewrite strip_node. f_equal. cbn [map filter t_rule]. change (L_IF_IF_BR =? L_EOI) with false. cbn [negb].
    rewrite IHa. f_equal. rewrite strip_node. f_equal. unfold body_node. cbn [map filter t_rule se].
    change (L_IF_HEAD =? L_EOI) with false. change (L_EXP_BODY =? L_EOI) with false. change (L_TEST =? L_EOI) with false.
    cbn [negb map filter]. rewrite IHb. reflexivity.
  - intros ind sp var words body IHb. rewrite ScriptProofs.tree_for. split; [|reflexivity].
    rewrite strip_node. f_equal. unfold body_node. cbn [map filter t_rule se].
    change (L_FOR_HEAD =? L_EOI) with false. change (L_EXP_BODY =? L_EOI) with false. change (L_TEST =? L_EOI) with false.
    change (L_FOR_INIT =? L_EOI) with false. change (L_FOR_VAR =? L_EOI) with false.
    cbn [negb map filter]. rewrite IHb. reflexivity.
  - intros ind sp cond body IHb. rewrite ScriptProofs.tree_while. split; [|reflexivity].
    rewrite strip_node. f_equal. unfold body_node. cbn [map filter t_rule se].
    change (L_WHILE_HEAD =? L_EOI) with false. change (L_EXP_BODY =? L_EOI) with false. change (L_TEST =? L_EOI) with false.
    cbn [negb map filter]. rewrite IHb. reflexivity.
  - reflexivity.
  - intros ind body IHb ind_fi. rewrite ScriptProofs.nodes_else. unfold body_node. cbn [map filter t_rule se].
    change (L_IF_ELSE_BR =? L_EOI) with false. change (L_KW_ELSE =? L_EOI) with false. change (L_EXP_BODY =? L_EOI) with false.
    cbn [negb map filter]. rewrite IHb. reflexivity.
  - intros ind sp cond body IHb rest IHa. rewrite ScriptProofs.nodes_elif. unfold body_node. cbn [map filter t_rule se].
    change (L_IF_ELSEIF_BR =? L_EOI) with false. change (L_IF_ELSEIF_HEAD =? L_EOI) with false.
    change (L_EXP_BODY =? L_EOI) with false. change (L_TEST =? L_EOI) with false.
    cbn [negb map filter]. rewrite IHb, IHa. reflexivity.
Qed.

(** ---- C14_parse_partial: every script of the fragment is parsed, completely, to its ideal tree ---- *)
Theorem parse_blocks : forall b, frag_block b = true ->
  exists kids,
    EV (PRef L_EXP) AtNon 0 (render_block b) (POk (length (render_block b)) [] kids) /\
    map (fun k => strip_eoi L_EOI (annotate (render_block b) k)) kids = [tree_of_script b].
Proof.
  intros b H. destruct (proj1 frag_all b H) as [_ HY].
  destruct (items_rep Y_top (items_of_block b) [] [] HY stop_nil) as [Ts [E A]].
  rewrite items_cat, items_kids in *. cbn [app length] in E, A. rewrite app_nil_r in E, A.
  eexists. split.
  - eapply evals_ref_normal_ok; [reflexivity | reflexivity |].
    eapply evals_seq_ok; [apply (evals_of_ev l_grammar 1); [reflexivity|discriminate] | |].
    + apply skip_none. rewrite <- (items_cat b), <- (app_nil_r (cat (items_of_block b))).
      apply cat_start with (A := Y_top); [exact HY | reflexivity].
    + eapply evals_seq_ok; [exact E | apply skip_none; reflexivity |].
      apply (evals_of_ev l_grammar 1); [reflexivity|discriminate].
  - cbn [map app]. f_equal. unfold tree_of_script. cbn [annotate]. rewrite strip_node, sub_all. f_equal.
    rewrite map_app. cbn [map annotate]. rewrite A.
    rewrite map_app, filter_app. rewrite (proj1 strip_all b).
    cbn [map filter t_rule se]. rewrite ?N.eqb_refl. cbn [negb filter]. apply app_nil_r.
Qed.

Corollary parse_blocks_from : forall b, frag_block b = true ->
  parse_from l_grammar L_EXP (render_block b) = PFuel \/ parse_ok b.
Proof.
  intros b H. destruct (parse_blocks b H) as [kids [[f0 Hf] Hk]].
  destruct (parse_from l_grammar L_EXP (render_block b)) as [| |p r k] eqn:E; [|left; reflexivity|].
  - right. exfalso. unfold parse_from in E.
    pose proof (Hf (Nat.max f0 (peg_fuel (render_block b))) (Nat.le_max_l _ _)) as H1.
    rewrite (ev_mono_le l_grammar _ _ _ _ _ _ _ E) in H1; [discriminate|discriminate|apply Nat.le_max_r].
  - right. unfold parse_from in E.
    pose proof (Hf (Nat.max f0 (peg_fuel (render_block b))) (Nat.le_max_l _ _)) as H1.
    rewrite (ev_mono_le l_grammar _ _ _ _ _ _ _ E) in H1; [|discriminate|apply Nat.le_max_r].
    injection H1 as -> -> ->. exists (length (render_block b)), kids. split; [exact E | exact Hk].
Qed.

