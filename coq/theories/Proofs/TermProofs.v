(** Proofs about Model/Term.v: who owns the terminal (C07). *)
From Coq Require Import ZArith List Bool Arith Lia.
From Cicada Require Import Model.Jobs Model.Term.
Import ListNotations.
Local Open Scope Z_scope.

(** ---------- the ownership invariant *)
Definition winv (c : cfg) (gid : Z) (v : via) (ow : Z) : Prop :=
  match v with
  | VLaunch tg => if tg then ow = gid else ow = c_sh c
  | VFg => ow = gid
  end.

Definition Inv (c : cfg) (s : st) : Prop :=
  match md s with
  | AtPrompt => owner s = c_sh c
  | Waiting g _ _ v => winv c g v (owner s)
  end.

Lemma finish_inv c k0 g v ow h : winv c g v ow -> Inv c (finish c k0 v ow h).
Proof.
  unfold Inv, finish, end_of_line, winv; cbn. destruct v as [tg|]; [destruct tg|]; auto.
Qed.

Lemma settle_inv c fuel : forall s, Inv c s -> Inv c (settle c fuel s).
Proof.
  induction fuel as [|f IH]; intros s H; cbn [settle]; auto.
  destruct (md s) as [|g pids w v] eqn:M; auto.
  assert (W : winv c g v (owner s)) by (unfold Inv in H; rewrite M in H; exact H).
  destruct (next_status (procs (k s))) as [[e ps]|].
  - destruct (wait_body (set_procs (k s) ps) g pids w e) as [k' w'].
    destruct (negb (is_cont e) && (length pids <=? length w')%nat).
    + eapply finish_inv; eauto.
    + apply IH. unfold Inv; cbn. exact W.
  - destruct (all_gone (procs (k s))); [eapply finish_inv; eauto | exact H].
Qed.

Lemma enter_wait_inv c k0 g pids v ow h : winv c g v ow -> Inv c (enter_wait c k0 g pids v ow h).
Proof.
  intro W. unfold enter_wait. destruct pids.
  - eapply finish_inv; eauto.
  - apply settle_inv. unfold Inv; cbn. exact W.
Qed.

Lemma end_of_line_inv c k0 ow h : ow = c_sh c -> Inv c (end_of_line k0 ow h).
Proof. intro; unfold Inv, end_of_line; cbn; auto. Qed.

Lemma launch_inv c s pids bg :
  md s = AtPrompt -> Inv c s -> Inv c (launch c s pids bg).
Proof.
  intros M H. assert (O : owner s = c_sh c) by (unfold Inv in H; rewrite M in H; exact H).
  unfold launch. destruct pids as [|p0 rest]; auto.
  destruct bg.
  - apply end_of_line_inv. cbn [negb]. rewrite andb_false_r. cbn. exact O.
  - apply enter_wait_inv. unfold winv.
    match goal with |- context [if ?b then _ else _] => destruct b end; auto.
Qed.

Lemma do_fg_inv c s arg pick : md s = AtPrompt -> Inv c s -> Inv c (do_fg c s arg pick).
Proof.
  intros M H. assert (O : owner s = c_sh c) by (unfold Inv in H; rewrite M in H; exact H).
  unfold do_fg. destruct (ctab (quiet (k s))); [apply end_of_line_inv; auto|].
  destruct (find_job _ arg pick) as [j0|]; [|apply end_of_line_inv; auto].
  match goal with |- context [if ?b then _ else _] => destruct b end.
  - apply enter_wait_inv. reflexivity.
  - apply end_of_line_inv; auto.
Qed.

Lemma do_bg_inv c s arg pick : md s = AtPrompt -> Inv c s -> Inv c (do_bg s arg pick).
Proof.
  intros M H. assert (O : owner s = c_sh c) by (unfold Inv in H; rewrite M in H; exact H).
  unfold do_bg. destruct (ctab (quiet (k s))); [apply end_of_line_inv; auto|].
  destruct (find_job _ arg pick) as [j0|]; [|apply end_of_line_inv; auto].
  destruct (jst j0); apply end_of_line_inv; auto.
Qed.

Lemma do_jobs_inv c s : md s = AtPrompt -> Inv c s -> Inv c (do_jobs s).
Proof.
  intros M H. assert (O : owner s = c_sh c) by (unfold Inv in H; rewrite M in H; exact H).
  unfold do_jobs. destruct (ctab (quiet (k s))); apply end_of_line_inv; auto.
Qed.

Lemma clear_inv c s : Inv c s -> Inv c (clear s).
Proof. unfold Inv, clear; cbn; auto. Qed.

Lemma kernel_inv c s f : Inv c s -> Inv c (kernel c s f).
Proof. intro H. unfold kernel, settle_all. apply settle_inv. unfold Inv in *; cbn; exact H. Qed.

Lemma typed_inv c s f :
  (md s = AtPrompt -> Inv c s -> Inv c (f s)) -> Inv c s -> Inv c (typed s f).
Proof.
  intros Hf H. unfold typed. destruct (md s) eqn:M; [apply Hf; auto | apply clear_inv; auto].
Qed.

Lemma step_inv c s a : Inv c s -> Inv c (step c s a).
Proof.
  intro H. destruct a; cbn [step].
  - apply typed_inv; auto. intros; apply launch_inv; auto.
  - apply typed_inv; auto. intros; apply do_fg_inv; auto.
  - apply typed_inv; auto. intros; apply do_bg_inv; auto.
  - apply typed_inv; auto. intros; apply do_jobs_inv; auto.
  - apply typed_inv; auto. intros M H0. apply end_of_line_inv. unfold Inv in H0; rewrite M in H0; exact H0.
  - apply typed_inv; auto. intros M H0. apply end_of_line_inv. unfold Inv in H0; rewrite M in H0; exact H0.
  - unfold key. destruct (md s); [apply clear_inv | apply kernel_inv]; auto.
  - unfold key. destruct (md s); [apply clear_inv | apply kernel_inv]; auto.
  - apply kernel_inv; auto.
  - apply kernel_inv; auto.
Qed.

Lemma fold_inv c acts : forall s, Inv c s -> Inv c (fold_left (step c) acts s).
Proof. induction acts as [|a r IH]; intros s H; cbn; auto. apply IH, step_inv, H. Qed.

Lemma init_inv c : Inv c (init c).
Proof. unfold Inv, init; cbn; auto. Qed.

Lemma run_inv c acts : Inv c (run c acts).
Proof. apply fold_inv, init_inv. Qed.

(** at every prompt the terminal belongs to the shell: all schedules, all actions *)
Theorem prompt_owner c acts : md (run c acts) = AtPrompt -> owner (run c acts) = c_sh c.
Proof. intro M. pose proof (run_inv c acts) as H. unfold Inv in H. rewrite M in H. exact H. Qed.

(** the owner is the shell or the job being waited for: nobody else, ever *)
Theorem owner_cases c acts :
  owner (run c acts) = c_sh c \/
  exists pids w v, md (run c acts) = Waiting (owner (run c acts)) pids w v.
Proof.
  pose proof (run_inv c acts) as H. unfold Inv in H.
  destruct (md (run c acts)) as [|g pids w v] eqn:M; auto.
  destruct v as [tg|]; cbn in H; [destruct tg|]; subst; eauto.
Qed.

(** ---------- while waiting on J the owner is gid J, when tcsetpgrp at launch succeeds *)
Definition tty (c : cfg) : bool := c_hasterm c && c_isatty c.

Definition Given (s : st) : Prop :=
  match md s with Waiting _ _ _ (VLaunch tg) => tg = true | _ => True end.

Lemma finish_given c k0 v ow h : Given (finish c k0 v ow h).
Proof. unfold Given, finish, end_of_line; cbn; auto. Qed.

Lemma settle_given c fuel : forall s, Given s -> Given (settle c fuel s).
Proof.
  induction fuel as [|f IH]; intros s H; cbn [settle]; auto.
  destruct (md s) as [|g pids w v] eqn:M; auto.
  destruct (next_status (procs (k s))) as [[e ps]|].
  - destruct (wait_body (set_procs (k s) ps) g pids w e) as [k' w'].
    destruct (negb (is_cont e) && (length pids <=? length w')%nat).
    + apply finish_given.
    + apply IH. unfold Given in *; cbn. rewrite M in H. exact H.
  - destruct (all_gone (procs (k s))); [apply finish_given | unfold Given; rewrite M; unfold Given in H; rewrite M in H; exact H].
Qed.

Lemma enter_wait_given c k0 g pids v ow h :
  match v with VLaunch tg => tg = true | VFg => True end -> Given (enter_wait c k0 g pids v ow h).
Proof.
  intro W. unfold enter_wait. destruct pids; [apply finish_given|].
  apply settle_given. unfold Given; cbn. exact W.
Qed.

Lemma eol_given k0 ow h : Given (end_of_line k0 ow h).
Proof. unfold Given, end_of_line; cbn; auto. Qed.

Lemma group_exists_launch p0 rest ps : group_exists p0 (ps ++ stages p0 (p0 :: rest)) = true.
Proof.
  unfold group_exists. rewrite existsb_app. apply orb_true_iff. right.
  cbn. rewrite Z.eqb_refl. reflexivity.
Qed.

Lemma step_given c s a : tty c = true -> Given s -> Given (step c s a).
Proof.
  intros T H.
  assert (CL : Given (clear s)) by (unfold Given, clear in *; cbn; exact H).
  assert (KN : forall f, Given (kernel c s f)).
  { intro f. unfold kernel, settle_all. apply settle_given. unfold Given in *; cbn; exact H. }
  destruct a; cbn [step]; unfold typed, key; destruct (md s) eqn:M; auto; try apply eol_given.
  - unfold launch. destruct pids as [|p0 rest]; [unfold Given; rewrite M; auto|].
    destruct bg; [apply eol_given|]. apply enter_wait_given.
    unfold tty in T. rewrite T, group_exists_launch. reflexivity.
  - unfold do_fg. destruct (ctab (quiet (k s))); [apply eol_given|].
    destruct (find_job _ arg pick); [|apply eol_given].
    match goal with |- context [if ?b then _ else _] => destruct b end;
      [apply enter_wait_given; auto | apply eol_given].
  - unfold do_bg. destruct (ctab (quiet (k s))); [apply eol_given|].
    destruct (find_job _ arg pick) as [j0|]; [|apply eol_given]. destruct (jst j0); apply eol_given.
  - unfold do_jobs. destruct (ctab (quiet (k s))); apply eol_given.
Qed.

Lemma fold_given c acts : tty c = true ->
  forall s, Given s -> Given (fold_left (step c) acts s).
Proof.
  intros T. induction acts as [|a r IH]; intros s H; cbn; auto.
  apply IH; auto. apply step_given; auto.
Qed.

Theorem wait_owner c acts g pids w v :
  tty c = true ->
  md (run c acts) = Waiting g pids w v -> owner (run c acts) = g.
Proof.
  intros T M.
  pose proof (run_inv c acts) as H. unfold Inv in H. rewrite M in H.
  assert (G : Given (run c acts)).
  { apply fold_given; auto. unfold Given, init; cbn; auto. }
  unfold Given in G. rewrite M in G. destruct v as [tg|]; cbn in H; auto. subst tg. exact H.
Qed.

(** ---------- a job launched with & is never the owner unless fg names it *)
Definition wgid (m : mode) : option Z :=
  match m with AtPrompt => None | Waiting g _ _ _ => Some g end.

Definition NotW (g : Z) (s : st) : Prop := wgid (md s) <> Some g.

Lemma finish_notw c g k0 v ow h : NotW g (finish c k0 v ow h).
Proof. unfold NotW, finish, end_of_line; cbn; discriminate. Qed.

Lemma settle_notw c g fuel : forall s, NotW g s -> NotW g (settle c fuel s).
Proof.
  induction fuel as [|f IH]; intros s H; cbn [settle]; auto.
  destruct (md s) as [|g0 pids w v] eqn:M; auto.
  destruct (next_status (procs (k s))) as [[e ps]|].
  - destruct (wait_body (set_procs (k s) ps) g0 pids w e) as [k' w'].
    destruct (negb (is_cont e) && (length pids <=? length w')%nat).
    + apply finish_notw.
    + apply IH. unfold NotW in *; cbn. rewrite M in H. exact H.
  - destruct (all_gone (procs (k s))); [apply finish_notw | exact H].
Qed.

Lemma enter_wait_notw c g k0 g0 pids v ow h : g0 <> g -> NotW g (enter_wait c k0 g0 pids v ow h).
Proof.
  intro N. unfold enter_wait. destruct pids; [apply finish_notw|].
  apply settle_notw. unfold NotW; cbn. congruence.
Qed.

Lemma eol_notw g k0 ow h : NotW g (end_of_line k0 ow h).
Proof. unfold NotW, end_of_line; cbn; discriminate. Qed.

(** actions that could put group [g] in the foreground: fg, or a launch led by [g] *)
Definition may_fg (g : Z) (a : action) : bool :=
  match a with
  | AFg _ _ => true
  | ALaunch pids _ => hd 0 pids =? g
  | _ => false
  end.

Lemma step_notw c g s a : may_fg g a = false -> NotW g s -> NotW g (step c s a).
Proof.
  intros A H.
  assert (CL : NotW g (clear s)) by (unfold NotW, clear in *; cbn; exact H).
  assert (KN : forall f, NotW g (kernel c s f)).
  { intro f. unfold kernel, settle_all. apply settle_notw. unfold NotW in *; cbn; exact H. }
  destruct a; cbn [step]; unfold typed, key; destruct (md s) eqn:M; auto; try apply eol_notw;
    try discriminate A.
  - unfold launch. destruct pids as [|p0 rest]; [exact H|].
    destruct bg; [apply eol_notw|]. apply enter_wait_notw.
    cbn in A. apply Z.eqb_neq in A. exact A.
  - unfold do_bg. destruct (ctab (quiet (k s))); [apply eol_notw|].
    destruct (find_job _ arg pick) as [j0|]; [|apply eol_notw]. destruct (jst j0); apply eol_notw.
  - unfold do_jobs. destruct (ctab (quiet (k s))); apply eol_notw.
Qed.

Lemma fold_notw c g acts : forallb (fun a => negb (may_fg g a)) acts = true ->
  forall s, NotW g s -> NotW g (fold_left (step c) acts s).
Proof.
  induction acts as [|a r IH]; intros A s H; cbn; auto.
  cbn in A. apply andb_true_iff in A as [A1 A2]. apply IH; auto. apply step_notw; auto.
  apply negb_true_iff; auto.
Qed.

Lemma fold_left_app_step c (a b : list action) s :
  fold_left (step c) (a ++ b) s = fold_left (step c) b (fold_left (step c) a s).
Proof. apply fold_left_app. Qed.

Theorem bg_never_owner c pre pids post :
  hd 0 pids <> c_sh c ->
  md (run c pre) = AtPrompt ->
  forallb (fun a => negb (may_fg (hd 0 pids) a)) post = true ->
  owner (run c (pre ++ ALaunch pids true :: post)) <> hd 0 pids.
Proof.
  intros NS M NF.
  set (g := hd 0 pids) in *.
  assert (E : run c (pre ++ ALaunch pids true :: post)
              = fold_left (step c) post (step c (run c pre) (ALaunch pids true))).
  { unfold run. rewrite fold_left_app. reflexivity. }
  assert (N0 : NotW g (step c (run c pre) (ALaunch pids true))).
  { cbn [step]. unfold typed. rewrite M. unfold launch.
    destruct pids as [|p0 rest]; [unfold NotW; rewrite M; cbn; discriminate | apply eol_notw]. }
  pose proof (fold_notw c g post NF _ N0) as N.
  rewrite <- E in N.
  destruct (owner_cases c (pre ++ ALaunch pids true :: post)) as [O|[ps [w [v O]]]].
  - rewrite O. auto.
  - intro Q. apply N. rewrite O. cbn. rewrite Q. reflexivity.
Qed.

(** ---------- process groups: fixed at launch, one group per pipeline *)
Definition pg (p : proc) : Z * Z := (ppid p, ppgid p).
Definition groups (s : st) : list (Z * Z) := map pg (procs (k s)).

Lemma deliver_pg sig p : pg (deliver sig p) = pg p.
Proof.
  unfold deliver, pg. destruct (pst p); auto.
  - destruct (is_stop_sig sig); auto. destruct (sig =? SIGCONT); auto.
  - destruct (sig =? SIGKILL); auto. destruct (sig =? SIGCONT).
    + destruct (ppend p); auto.
    + destruct (is_stop_sig sig); auto. destruct (ppend p); auto.
Qed.

Lemma do_exit_pg n p : pg (do_exit n p) = pg p.
Proof. unfold do_exit, pg. destruct (pst p); auto. destruct (ppend p); auto. Qed.

Lemma on_pid_pg f pid ps : (forall p, pg (f p) = pg p) -> map pg (on_pid f pid ps) = map pg ps.
Proof.
  intro F. unfold on_pid. rewrite map_map. apply map_ext. intro p.
  destruct (ppid p =? pid); auto.
Qed.

Lemma on_group_pg f g ps : (forall p, pg (f p) = pg p) -> map pg (on_group f g ps) = map pg ps.
Proof.
  intro F. unfold on_group. rewrite map_map. apply map_ext. intro p.
  destruct (ppgid p =? g); auto.
Qed.

Lemma next_status_pg ps : forall e ps', next_status ps = Some (e, ps') -> map pg ps' = map pg ps.
Proof.
  induction ps as [|p r IH]; intros e ps' H; cbn in H; [discriminate|].
  assert (SK : match next_status r with Some (e0, r') => Some (e0, p :: r') | None => None end = Some (e, ps')
               -> map pg ps' = map pg (p :: r)).
  { destruct (next_status r) as [[e0 r']|]; [|discriminate]. intro Q. inversion Q; subst.
    cbn. f_equal. eapply IH; eauto. }
  destruct (pst p).
  - destruct (pnote p); auto. inversion H; subst. reflexivity.
  - destruct (pnote p); auto. inversion H; subst. reflexivity.
  - inversion H; subst. reflexivity.
  - auto.
Qed.

Lemma wait_body_procs k0 g pids w e : procs (fst (wait_body k0 g pids w e)) = procs k0.
Proof. unfold wait_body. destruct (wait_one (shl k0) g pids w e). reflexivity. Qed.

Lemma drain_pg fuel : forall ps, map pg (snd (drain fuel ps)) = map pg ps.
Proof.
  induction fuel as [|f IH]; intro ps; cbn [drain]; auto.
  destruct (next_status ps) as [[e ps']|] eqn:N; auto.
  specialize (IH ps'). destruct (drain f ps') as [q ps'']. cbn in *. rewrite IH.
  eapply next_status_pg; eauto.
Qed.

Lemma poll_pg r k0 : map pg (procs (poll r k0)) = map pg (procs k0).
Proof.
  unfold poll, poll_evs. destruct (ctab k0); [reflexivity|].
  pose proof (drain_pg (S (length (procs k0))) (procs k0)) as D.
  destruct (drain (S (length (procs k0))) (procs k0)) as [q ps]. exact D.
Qed.

Lemma finish_groups c k0 v ow h : groups (finish c k0 v ow h) = map pg (procs k0).
Proof. unfold groups, finish, end_of_line; cbn. apply poll_pg. Qed.

Lemma settle_groups c fuel : forall s, groups (settle c fuel s) = groups s.
Proof.
  induction fuel as [|f IH]; intro s; cbn [settle]; auto.
  destruct (md s) as [|g pids w v]; auto.
  destruct (next_status (procs (k s))) as [[e ps]|] eqn:N.
  - pose proof (wait_body_procs (set_procs (k s) ps) g pids w e) as WB.
    destruct (wait_body (set_procs (k s) ps) g pids w e) as [k' w']. cbn in WB.
    assert (E : map pg (procs k') = groups s).
    { rewrite WB. unfold groups. eapply next_status_pg; eauto. }
    destruct (negb (is_cont e) && (length pids <=? length w')%nat).
    + rewrite finish_groups. exact E.
    + rewrite IH. exact E.
  - destruct (all_gone (procs (k s))); auto. apply finish_groups.
Qed.

Lemma enter_wait_groups c k0 g pids v ow h : groups (enter_wait c k0 g pids v ow h) = map pg (procs k0).
Proof.
  unfold enter_wait. destruct pids; [apply finish_groups|].
  unfold settle_all. rewrite settle_groups. reflexivity.
Qed.

Lemma eol_groups k0 ow h : groups (end_of_line k0 ow h) = map pg (procs k0).
Proof. unfold groups, end_of_line; cbn. apply poll_pg. Qed.

(** the groups a launch creates: every stage in the group of stage 0 *)
Definition new_groups (pids : list Z) : list (Z * Z) := map (fun p => (p, hd 0 pids)) pids.

Definition added (s : st) (a : action) : list (Z * Z) :=
  match a, md s with
  | ALaunch pids _, AtPrompt => new_groups pids
  | _, _ => []
  end.

(** no action ever moves a process to another group; only a launch typed at
    the prompt adds processes, and exactly those of [new_groups] *)
Theorem step_groups c s a : groups (step c s a) = groups s ++ added s a.
Proof.
  assert (KN : forall f, (forall ps, map pg (f ps) = map pg ps) -> groups (kernel c s f) = groups s).
  { intros f F. unfold kernel, settle_all. rewrite settle_groups. unfold groups; cbn. apply F. }
  assert (CL : groups (clear s) = groups s) by reflexivity.
  unfold added.
  destruct a; cbn [step]; unfold typed, key; destruct (md s) eqn:M;
    rewrite ?app_nil_r; auto;
    try (apply KN; intro; first [apply on_group_pg; apply deliver_pg | apply on_pid_pg; first [apply deliver_pg | apply do_exit_pg]]);
    try (rewrite eol_groups; reflexivity).
  - unfold launch, new_groups. destruct pids as [|p0 rest]; [rewrite app_nil_r; reflexivity|].
    destruct bg; [rewrite eol_groups | rewrite enter_wait_groups]; cbn [procs];
      rewrite map_app; unfold stages; rewrite map_map; reflexivity.
  - unfold do_fg. destruct (ctab (quiet (k s))); [rewrite eol_groups; reflexivity|].
    destruct (find_job _ arg pick) as [j0|]; [|rewrite eol_groups; reflexivity].
    match goal with |- context [if ?b then _ else _] => destruct b end.
    + rewrite enter_wait_groups. cbn [procs]. apply on_group_pg, deliver_pg.
    + rewrite eol_groups. reflexivity.
  - unfold do_bg. destruct (ctab (quiet (k s))); [rewrite eol_groups; reflexivity|].
    destruct (find_job _ arg pick) as [j0|]; [|rewrite eol_groups; reflexivity].
    destruct (jst j0); rewrite eol_groups; cbn [procs]; apply on_group_pg, deliver_pg.
  - unfold do_jobs. destruct (ctab (quiet (k s))); rewrite eol_groups; cbn [procs say quiet]; auto.
    unfold say; cbn [procs]. rewrite poll_pg. reflexivity.
Qed.

(** every process belongs to a launch of the session and sits in the group of its first stage *)
Definition led (acts : list action) (q : Z * Z) : Prop :=
  exists pids bg, In (ALaunch pids bg) acts /\ In (fst q) pids /\ snd q = hd 0 pids.

Lemma added_led s a : Forall (led [a]) (added s a).
Proof.
  unfold added. destruct a; try constructor. destruct (md s); [|constructor].
  unfold new_groups. apply Forall_forall. intros q I. apply in_map_iff in I as [p [E I]]. subst q.
  exists pids, bg. cbn. auto.
Qed.

Lemma led_mono a b q : led a q -> led (b ++ a) q /\ led (a ++ b) q.
Proof.
  intros [pids [bg [I R]]]. split; exists pids, bg; split; auto; apply in_or_app; auto.
Qed.

Lemma fold_groups c acts : forall s done,
  Forall (led done) (groups s) ->
  Forall (led (done ++ acts)) (groups (fold_left (step c) acts s)).
Proof.
  induction acts as [|a r IH]; intros s done H; cbn.
  - rewrite app_nil_r. exact H.
  - replace (done ++ a :: r) with ((done ++ [a]) ++ r) by (rewrite <- app_assoc; reflexivity).
    apply IH; auto. rewrite step_groups. apply Forall_app. split.
    + eapply Forall_impl; [|exact H]. intros q L. apply (led_mono done [a] q L).
    + eapply Forall_impl; [|apply added_led]. intros q L. apply (led_mono [a] done q L).
Qed.

Theorem one_group c acts : Forall (led acts) (groups (run c acts)).
Proof.
  change acts with ([] ++ acts) at 1. apply fold_groups; auto. constructor.
Qed.
