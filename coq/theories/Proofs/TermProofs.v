(** Proofs about Model/Term.v: who owns the terminal, the shell's signal mask,
    process groups (C07). *)
From Coq Require Import ZArith List Bool Arith Lia.
From Cicada Require Import Model.Jobs Model.Term.
Import ListNotations.
Local Open Scope Z_scope.

(** ---------- what never changes in a process: pid, group, inherited mask *)
Definition stat (p : proc) : Z * Z * bool := (ppid p, ppgid p, pblk p).
Definition pg (p : proc) : Z * Z := (ppid p, ppgid p).
Definition groups (s : st) : list (Z * Z) := map pg (procs (k s)).
Definition clean (ps : list proc) : Prop := Forall (fun p => pblk p = false) ps.

Lemma stat_pg ps ps' : map stat ps' = map stat ps -> map pg ps' = map pg ps.
Proof.
  intro H. assert (E : forall l, map pg l = map (fun t => (fst (fst t), snd (fst t))) (map stat l)).
  { intro l. rewrite map_map. apply map_ext. intro p. reflexivity. }
  rewrite (E ps'), (E ps), H. reflexivity.
Qed.

Lemma stat_clean ps ps' : map stat ps' = map stat ps -> clean ps -> clean ps'.
Proof.
  unfold clean. revert ps'. induction ps as [|p r IH]; intros ps' H C; destruct ps' as [|p' r']; try discriminate; auto.
  cbn in H. inversion H. inversion C; subst. constructor; auto. unfold stat in *. congruence.
Qed.

Lemma deliver_stat sig p : stat (deliver sig p) = stat p.
Proof.
  unfold deliver, stat. destruct (pblk p && (sig =? SIGTSTP)); auto. destruct (pst p); auto.
  - destruct (is_stop_sig sig); auto. destruct (sig =? SIGCONT); auto.
  - destruct (sig =? SIGKILL); auto. destruct (sig =? SIGCONT).
    + destruct (ppend p); auto.
    + destruct (is_stop_sig sig); auto. destruct (ppend p); auto.
Qed.

Lemma do_exit_stat n p : stat (do_exit n p) = stat p.
Proof. unfold do_exit, stat. destruct (pst p); auto. destruct (ppend p); auto. Qed.

Lemma on_pid_stat f pid ps : (forall p, stat (f p) = stat p) -> map stat (on_pid f pid ps) = map stat ps.
Proof.
  intro F. unfold on_pid. rewrite map_map. apply map_ext. intro p. destruct (ppid p =? pid); auto.
Qed.

Lemma on_group_stat f g ps : (forall p, stat (f p) = stat p) -> map stat (on_group f g ps) = map stat ps.
Proof.
  intro F. unfold on_group. rewrite map_map. apply map_ext. intro p. destruct (ppgid p =? g); auto.
Qed.

Lemma next_status_stat ps : forall e ps', next_status ps = Some (e, ps') -> map stat ps' = map stat ps.
Proof.
  induction ps as [|p r IH]; intros e ps' H; cbn in H; [discriminate|].
  assert (SK : match next_status r with Some (e0, r') => Some (e0, p :: r') | None => None end = Some (e, ps')
               -> map stat ps' = map stat (p :: r)).
  { destruct (next_status r) as [[e0 r']|]; [|discriminate]. intro Q. inversion Q; subst.
    cbn. f_equal. eapply IH; eauto. }
  destruct (pst p).
  - destruct (pnote p); auto. inversion H; subst. reflexivity.
  - destruct (pnote p); auto. inversion H; subst. reflexivity.
  - inversion H; subst. reflexivity.
  - auto.
Qed.

Lemma wait_body_procs k0 g pids w e : procs (fst (wait_body k0 g pids w e)) = procs k0.
Proof. unfold wait_body. destruct (wait_one (shl k0) g pids w e). reflexivity. Qed.

Lemma drain_stat fuel : forall ps, map stat (snd (drain fuel ps)) = map stat ps.
Proof.
  induction fuel as [|f IH]; intro ps; cbn [drain]; auto.
  destruct (next_status ps) as [[e ps']|] eqn:N; auto.
  specialize (IH ps'). destruct (drain f ps') as [q ps'']. cbn in *. rewrite IH.
  eapply next_status_stat; eauto.
Qed.

Lemma poll_stat r k0 : map stat (procs (poll r k0)) = map stat (procs k0).
Proof.
  unfold poll, poll_evs. destruct (ctab k0); [reflexivity|].
  pose proof (drain_stat (S (length (procs k0))) (procs k0)) as D.
  destruct (drain (S (length (procs k0))) (procs k0)) as [q ps]. exact D.
Qed.

(** ---------- give_terminal_to: the mask afterwards is the mask before, whatever tcsetpgrp returned *)
Lemma give_eq ok gid ow m : give_terminal_to ok gid ow m = (ok, if ok then gid else ow, m).
Proof. reflexivity. Qed.

Theorem give_terminal_to_mask : forall ok gid ow m, snd (give_terminal_to ok gid ow m) = m.
Proof. reflexivity. Qed.

(** ---------- the combined invariant: owner, mask, processes start with the initial mask *)
Definition tty (c : cfg) : bool := c_hasterm c && c_isatty c.

Definition winv (c : cfg) (gid : Z) (v : via) (ow : Z) : Prop :=
  match v with
  | VLaunch tg => (if tg then ow = gid else ow = c_sh c) /\ (tty c = true -> tg = true)
  | VFg => ow = gid
  end.

Definition Good (c : cfg) (s : st) : Prop :=
  smask s = false /\ clean (procs (k s)) /\
  match md s with
  | AtPrompt | Between _ => owner s = c_sh c
  | Waiting g _ _ v _ => winv c g v (owner s)
  end.

Lemma next_good c k0 ow g rest : ow = c_sh c -> clean (procs k0) -> Good c (next k0 ow false g rest).
Proof. intros; unfold Good, next; cbn; auto. Qed.

Lemma eol_good c k0 ow g : ow = c_sh c -> clean (procs k0) -> Good c (end_of_line k0 ow false g).
Proof.
  intros O C. unfold Good, end_of_line; cbn. repeat split; auto.
  eapply stat_clean; [apply poll_stat | exact C].
Qed.

Lemma finish_good c k0 g v ow h rest : winv c g v ow -> clean (procs k0) -> Good c (finish c k0 v ow false h rest).
Proof.
  intros W C. unfold finish. destruct v as [tg|]; [destruct tg|]; cbn.
  - apply next_good; auto.
  - apply next_good; auto. destruct W as [W _]. exact W.
  - apply next_good; auto.
Qed.

Lemma settle_good c fuel : forall s, Good c s -> Good c (settle c fuel s).
Proof.
  induction fuel as [|f IH]; intros s H; cbn [settle]; auto.
  destruct (md s) as [| |g pids w v rest] eqn:M; auto.
  destruct H as [HM [HC HW]]. rewrite M in HW. rewrite HM.
  destruct (next_status (procs (k s))) as [[e ps]|] eqn:N.
  - pose proof (wait_body_procs (set_procs (k s) ps) g pids w e) as WB.
    destruct (wait_body (set_procs (k s) ps) g pids w e) as [k' w']. cbn in WB.
    assert (C' : clean (procs k')).
    { rewrite WB. eapply stat_clean; [eapply next_status_stat; eauto | exact HC]. }
    destruct (negb (is_cont e) && (length pids <=? length w')%nat).
    + eapply finish_good; eauto.
    + apply IH. unfold Good; cbn. auto.
  - destruct (all_gone (procs (k s))).
    + eapply finish_good; eauto.
    + unfold Good. rewrite M. auto.
Qed.

Lemma enter_wait_good c k0 g pids v ow h rest :
  winv c g v ow -> clean (procs k0) -> Good c (enter_wait c k0 g pids v ow false h rest).
Proof.
  intros W C. unfold enter_wait. destruct pids.
  - eapply finish_good; eauto.
  - apply settle_good. unfold Good; cbn. auto.
Qed.

(** a command starts with the shell owning the terminal, the initial mask, clean processes *)
Definition Pre (c : cfg) (s : st) : Prop := smask s = false /\ clean (procs (k s)) /\ owner s = c_sh c.

Lemma group_exists_launch p0 rest m ps : group_exists p0 (ps ++ stages p0 m (p0 :: rest)) = true.
Proof.
  unfold group_exists. rewrite existsb_app. apply orb_true_iff. right.
  cbn. rewrite Z.eqb_refl. reflexivity.
Qed.

Lemma stages_clean p0 pids : clean (stages p0 false pids).
Proof. unfold clean, stages. apply Forall_forall. intros p I. apply in_map_iff in I as [x [E _]]. subst p. reflexivity. Qed.

Lemma launch_good c s pids bg rest : Pre c s -> Good c (launch c s pids bg rest).
Proof.
  intros [HM [HC HO]]. unfold launch. destruct pids as [|p0 r]; [rewrite HM; apply next_good; auto|].
  rewrite HM.
  assert (C2 : clean (procs (k s) ++ stages p0 false (p0 :: r))) by (apply Forall_app; split; [exact HC | apply stages_clean]).
  rewrite group_exists_launch, give_eq.
  destruct (c_hasterm c && c_isatty c && negb bg) eqn:G.
  - destruct bg; [rewrite andb_false_r in G; discriminate|].
    apply enter_wait_good; auto. split; auto.
  - destruct bg.
    + apply next_good; auto.
    + apply enter_wait_good; auto. split; auto. intro T. unfold tty in T. rewrite T in G. discriminate.
Qed.

Lemma on_group_clean f g ps : (forall p, stat (f p) = stat p) -> clean ps -> clean (on_group f g ps).
Proof. intros F C. eapply stat_clean; [apply on_group_stat; exact F | exact C]. Qed.

Lemma do_fg_good c s arg pick rest : Pre c s -> Good c (do_fg c s arg pick rest).
Proof.
  intros [HM [HC HO]]. unfold do_fg. rewrite HM.
  destruct (ctab (k s)); [apply next_good; auto|].
  destruct (find_job _ arg pick) as [j0|]; [|apply next_good; auto].
  rewrite give_eq. destruct (group_exists (jgid j0) (procs (say (k s) [OFgCmd (jid j0)]))).
  - apply enter_wait_good; [reflexivity|]. cbn. apply on_group_clean; auto. apply deliver_stat.
  - apply next_good; auto.
Qed.

Lemma do_bg_good c s arg pick rest : Pre c s -> Good c (do_bg s arg pick rest).
Proof.
  intros [HM [HC HO]]. unfold do_bg. rewrite HM.
  destruct (ctab (k s)); [apply next_good; auto|].
  destruct (find_job _ arg pick) as [j0|]; [|apply next_good; auto].
  destruct (jst j0); apply next_good; auto; cbn; apply on_group_clean; auto; apply deliver_stat.
Qed.

Lemma do_jobs_good c s rest : Pre c s -> Good c (do_jobs s rest).
Proof.
  intros [HM [HC HO]]. unfold do_jobs. rewrite HM.
  destruct (ctab (k s)); apply next_good; auto.
  cbn. eapply stat_clean; [apply poll_stat | exact HC].
Qed.

Lemma exec_good c s x rest : Pre c s -> Good c (exec c s x rest).
Proof.
  intro P. destruct x; cbn [exec].
  - apply launch_good; auto.
  - apply do_fg_good; auto.
  - apply do_bg_good; auto.
  - apply do_jobs_good; auto.
  - destruct P as [HM [HC HO]]. rewrite HM. apply next_good; auto.
Qed.

Lemma drive_good c fuel : forall s, Good c s -> Good c (drive c fuel s).
Proof.
  induction fuel as [|f IH]; intros s H; cbn [drive]; auto.
  destruct (md s) as [|[|x r]| ] eqn:M; auto.
  - destruct H as [HM [HC HO]]. rewrite M in HO. rewrite HM. apply eol_good; auto.
  - apply IH. apply exec_good. destruct H as [HM [HC HO]]. rewrite M in HO. repeat split; auto.
Qed.

Lemma kernel_good c s f : (forall ps, map stat (f ps) = map stat ps) -> Good c s -> Good c (kernel c s f).
Proof.
  intros F [HM [HC HW]]. unfold kernel, drive_all, settle_all. apply drive_good, settle_good.
  unfold Good; cbn. repeat split; auto. eapply stat_clean; [apply F | exact HC].
Qed.

Lemma clear_good c s : Good c s -> Good c (clear s).
Proof. intro H. exact H. Qed.

Lemma typed_line_good c s l : Good c s -> Good c (typed_line c s l).
Proof.
  intro H. unfold typed_line. destruct (md s) eqn:M; try (apply clear_good; exact H).
  unfold drive_all. apply drive_good. destruct H as [HM [HC HO]]. rewrite M in HO.
  unfold Good; cbn. auto.
Qed.

Lemma key_good c s sig : Good c s -> Good c (key c s sig).
Proof.
  intro H. unfold key. destruct (md s); [apply clear_good; auto| |];
    (apply kernel_good; auto; intro; apply on_group_stat; apply deliver_stat).
Qed.

Lemma step_good c s a : Good c s -> Good c (step c s a).
Proof.
  intro H. unfold step. destruct (cmds_of a) as [l|] eqn:CM; [apply typed_line_good; auto|].
  destruct a; try discriminate CM; auto.
  - apply key_good; auto.
  - apply key_good; auto.
  - apply kernel_good; auto. intro. apply on_pid_stat. apply do_exit_stat.
  - apply kernel_good; auto. intro. apply on_pid_stat. apply deliver_stat.
Qed.

Lemma fold_good c acts : forall s, Good c s -> Good c (fold_left (step c) acts s).
Proof. induction acts as [|a r IH]; intros s H; cbn; auto. apply IH, step_good, H. Qed.

Lemma run_good c acts : Good c (run c acts).
Proof. apply fold_good. unfold Good, init; cbn. repeat split; auto. constructor. Qed.

(** at every prompt the terminal belongs to the shell: all action lists, all configurations *)
Theorem prompt_owner c acts : md (run c acts) = AtPrompt -> owner (run c acts) = c_sh c.
Proof. intro M. destruct (run_good c acts) as [_ [_ H]]. rewrite M in H. exact H. Qed.

(** the shell's signal mask is the initial one in every state, in particular at
    every prompt; every process started with the initial mask *)
Theorem mask_initial c acts :
  smask (run c acts) = false /\ Forall (fun p => pblk p = false) (procs (k (run c acts))).
Proof. destruct (run_good c acts) as [A [B _]]. auto. Qed.

(** the owner is the shell or the job being waited for: nobody else, ever *)
Theorem owner_cases c acts :
  owner (run c acts) = c_sh c \/
  exists pids w v rest, md (run c acts) = Waiting (owner (run c acts)) pids w v rest.
Proof.
  destruct (run_good c acts) as [_ [_ H]].
  destruct (md (run c acts)) as [| |g pids w v rest] eqn:M; auto.
  destruct v as [tg|]; cbn in H.
  - destruct H as [H _]. destruct tg; subst; eauto 6.
  - subst. eauto 6.
Qed.

(** while the shell waits on job J the owner is gid J *)
Theorem wait_owner c acts g pids w v rest :
  tty c = true -> md (run c acts) = Waiting g pids w v rest -> owner (run c acts) = g.
Proof.
  intros T M. destruct (run_good c acts) as [_ [_ H]]. rewrite M in H.
  destruct v as [tg|]; cbn in H; auto. destruct H as [H G]. rewrite (G T) in H. exact H.
Qed.

(** ---------- a job launched with & is never the owner unless fg names it *)
Definition wgid (m : mode) : option Z :=
  match m with Waiting g _ _ _ _ => Some g | _ => None end.

Definition may_fg_cmd (g : Z) (x : cmd) : bool :=
  match x with
  | CFg _ _ => true
  | CLaunch pids _ => hd 0 pids =? g
  | _ => false
  end.

(** actions that could put group [g] in the foreground: a line with an fg, or with a launch led by [g] *)
Definition may_fg (g : Z) (a : action) : bool :=
  match cmds_of a with Some l => existsb (may_fg_cmd g) l | None => false end.

Definition NotW (g : Z) (s : st) : Prop :=
  wgid (md s) <> Some g /\ existsb (may_fg_cmd g) (rest_of (md s)) = false.

Lemma next_notw g k0 ow m h rest : existsb (may_fg_cmd g) rest = false -> NotW g (next k0 ow m h rest).
Proof. intro R. unfold NotW, next; cbn. split; [discriminate | exact R]. Qed.

Lemma finish_notw c g k0 v ow m h rest : existsb (may_fg_cmd g) rest = false -> NotW g (finish c k0 v ow m h rest).
Proof.
  intro R. unfold finish. destruct (match v with VFg => true | VLaunch tg => tg end); cbn; apply next_notw; auto.
Qed.

Lemma settle_notw c g fuel : forall s, NotW g s -> NotW g (settle c fuel s).
Proof.
  induction fuel as [|f IH]; intros s H; cbn [settle]; auto.
  destruct (md s) as [| |g0 pids w v rest] eqn:M; auto.
  destruct H as [H1 H2]. rewrite M in H1, H2. cbn in H1, H2.
  destruct (next_status (procs (k s))) as [[e ps]|].
  - destruct (wait_body (set_procs (k s) ps) g0 pids w e) as [k' w'].
    destruct (negb (is_cont e) && (length pids <=? length w')%nat).
    + apply finish_notw; auto.
    + apply IH. unfold NotW; cbn. auto.
  - destruct (all_gone (procs (k s))); [apply finish_notw; auto | unfold NotW; rewrite M; cbn; auto].
Qed.

Lemma enter_wait_notw c g k0 g0 pids v ow m h rest :
  g0 <> g -> existsb (may_fg_cmd g) rest = false -> NotW g (enter_wait c k0 g0 pids v ow m h rest).
Proof.
  intros N R. unfold enter_wait. destruct pids; [apply finish_notw; auto|].
  apply settle_notw. unfold NotW; cbn. split; auto. congruence.
Qed.

Lemma exec_notw c g s x rest :
  may_fg_cmd g x = false -> existsb (may_fg_cmd g) rest = false -> NotW g (exec c s x rest).
Proof.
  intros A R. destruct x; cbn [exec]; try discriminate A.
  - unfold launch. destruct pids as [|p0 r]; [apply next_notw; auto|].
    destruct (if c_hasterm c && c_isatty c && negb bg then _ else _) as [[tg ow] m].
    destruct bg; [apply next_notw; auto|]. apply enter_wait_notw; auto.
    cbn in A. apply Z.eqb_neq in A. exact A.
  - unfold do_bg. destruct (ctab (k s)); [apply next_notw; auto|].
    destruct (find_job _ arg pick) as [j0|]; [|apply next_notw; auto]. destruct (jst j0); apply next_notw; auto.
  - unfold do_jobs. destruct (ctab (k s)); apply next_notw; auto.
  - apply next_notw; auto.
Qed.

Lemma drive_notw c g fuel : forall s, NotW g s -> NotW g (drive c fuel s).
Proof.
  induction fuel as [|f IH]; intros s H; cbn [drive]; auto.
  destruct (md s) as [|[|x r]| ] eqn:M; auto.
  - unfold NotW, end_of_line; cbn. split; [discriminate | reflexivity].
  - destruct H as [_ H2]. rewrite M in H2. cbn in H2. apply orb_false_iff in H2 as [A R].
    apply IH. apply exec_notw; auto.
Qed.

Lemma kernel_notw c g s f : NotW g s -> NotW g (kernel c s f).
Proof. intro H. unfold kernel, drive_all, settle_all. apply drive_notw, settle_notw. exact H. Qed.

Lemma step_notw c g s a : may_fg g a = false -> NotW g s -> NotW g (step c s a).
Proof.
  intros A H. unfold step. unfold may_fg in A. destruct (cmds_of a) as [l|] eqn:CM.
  - unfold typed_line. destruct (md s) eqn:M; try exact H.
    unfold drive_all. apply drive_notw. unfold NotW; cbn. split; [discriminate | exact A].
  - destruct a; try discriminate CM; auto; try (unfold key; destruct (md s); try exact H); apply kernel_notw; exact H.
Qed.

Lemma fold_notw c g acts : forallb (fun a => negb (may_fg g a)) acts = true ->
  forall s, NotW g s -> NotW g (fold_left (step c) acts s).
Proof.
  induction acts as [|a r IH]; intros A s H; cbn; auto.
  cbn in A. apply andb_true_iff in A as [A1 A2]. apply IH; auto. apply step_notw; auto.
  apply negb_true_iff; auto.
Qed.

Lemma step_at_prompt_line c s l : md s = AtPrompt -> step c s (ALaunch l true) = typed_line c s [CLaunch l true].
Proof. reflexivity. Qed.

Theorem bg_never_owner c pre pids post :
  hd 0 pids <> c_sh c ->
  md (run c pre) = AtPrompt ->
  forallb (fun a => negb (may_fg (hd 0 pids) a)) post = true ->
  owner (run c (pre ++ ALaunch pids true :: post)) <> hd 0 pids.
Proof.
  intros NS M NF.
  set (g := hd 0 pids) in *.
  assert (E : run c (pre ++ ALaunch pids true :: post)
              = fold_left (step c) post (step c (run c pre) (ALaunch pids true))).
  { unfold run. rewrite fold_left_app. reflexivity. }
  assert (N0 : NotW g (step c (run c pre) (ALaunch pids true))).
  { unfold step; cbn [cmds_of]. unfold typed_line. rewrite M. unfold drive_all; cbn [md rest_of length].
    cbn [drive]. cbn [md]. cbn [exec]. unfold launch. cbn [k owner smask gh md].
    destruct pids as [|p0 rest].
    - cbn. unfold NotW, end_of_line; cbn. split; [discriminate | reflexivity].
    - destruct (if c_hasterm c && c_isatty c && negb true then _ else _) as [[tg ow] m].
      cbn. unfold NotW, end_of_line; cbn. split; [discriminate | reflexivity]. }
  pose proof (fold_notw c g post NF _ N0) as [N _].
  rewrite <- E in N.
  destruct (owner_cases c (pre ++ ALaunch pids true :: post)) as [O|[ps [w [v [rs O]]]]].
  - rewrite O. auto.
  - intro Q. apply N. rewrite O. cbn. rewrite Q. reflexivity.
Qed.

(** ---------- process groups: fixed at launch, one group per pipeline *)
Definition new_groups (pids : list Z) : list (Z * Z) := map (fun p => (p, hd 0 pids)) pids.
Definition newg (x : cmd) : list (Z * Z) := match x with CLaunch pids _ => new_groups pids | _ => [] end.

(** [q] = (pid, pgid) comes from a launch among the commands [l]: pid is one of its stages, pgid its first *)
Definition ledc (l : list cmd) (q : Z * Z) : Prop :=
  exists pids bg, In (CLaunch pids bg) l /\ In (fst q) pids /\ snd q = hd 0 pids.

Lemma groups_stat s s' : map stat (procs (k s')) = map stat (procs (k s)) -> groups s' = groups s.
Proof. intro H. unfold groups. apply stat_pg. exact H. Qed.

Lemma next_groups k0 ow m h rest : groups (next k0 ow m h rest) = map pg (procs k0).
Proof. reflexivity. Qed.

Lemma finish_groups c k0 v ow m h rest : groups (finish c k0 v ow m h rest) = map pg (procs k0).
Proof. unfold finish. destruct (match v with VFg => true | VLaunch tg => tg end); reflexivity. Qed.

Lemma finish_rest c k0 v ow m h rest : rest_of (md (finish c k0 v ow m h rest)) = rest.
Proof. unfold finish. destruct (match v with VFg => true | VLaunch tg => tg end); reflexivity. Qed.

Lemma settle_groups c fuel : forall s, groups (settle c fuel s) = groups s /\ rest_of (md (settle c fuel s)) = rest_of (md s).
Proof.
  induction fuel as [|f IH]; intro s; cbn [settle]; auto.
  destruct (md s) as [| |g pids w v rest] eqn:M; try (rewrite M; auto).
  destruct (next_status (procs (k s))) as [[e ps]|] eqn:N.
  - pose proof (wait_body_procs (set_procs (k s) ps) g pids w e) as WB.
    destruct (wait_body (set_procs (k s) ps) g pids w e) as [k' w']. cbn in WB.
    assert (E : map pg (procs k') = groups s).
    { rewrite WB. unfold groups. apply stat_pg. eapply next_status_stat; eauto. }
    destruct (negb (is_cont e) && (length pids <=? length w')%nat).
    + rewrite finish_groups, finish_rest. auto.
    + destruct (IH (mkst k' (Waiting g pids w' v rest) (owner s) (smask s) (gh s) (wevs s ++ [e]))) as [A B].
      rewrite A, B. auto.
  - destruct (all_gone (procs (k s))); [rewrite finish_groups, finish_rest | rewrite M]; auto.
Qed.

Lemma enter_wait_groups c k0 g pids v ow m h rest :
  groups (enter_wait c k0 g pids v ow m h rest) = map pg (procs k0) /\
  rest_of (md (enter_wait c k0 g pids v ow m h rest)) = rest.
Proof.
  unfold enter_wait. destruct pids; [rewrite finish_groups, finish_rest; auto|].
  unfold settle_all. destruct (settle_groups c (S (length (procs k0)))
    (mkst k0 (Waiting g (z :: pids) [] v rest) ow m h [])) as [A B]. cbn in A, B. auto.
Qed.

(** one command: exactly the processes of a launch are added, nobody moves *)
Lemma exec_groups c s x rest :
  groups (exec c s x rest) = groups s ++ newg x /\ rest_of (md (exec c s x rest)) = rest.
Proof.
  destruct x; cbn [exec newg]; rewrite ?app_nil_r.
  - unfold launch, new_groups. destruct pids as [|p0 r]; [cbn; rewrite app_nil_r; auto|].
    destruct (if c_hasterm c && c_isatty c && negb bg then _ else _) as [[tg ow] m].
    assert (E : map pg (procs (k s) ++ stages p0 (smask s) (p0 :: r)) = groups s ++ map (fun p => (p, hd 0 (p0 :: r))) (p0 :: r)).
    { rewrite map_app. unfold stages. rewrite map_map. reflexivity. }
    destruct bg.
    + split; [|reflexivity]. rewrite next_groups. exact E.
    + destruct (enter_wait_groups c (mkcore (procs (k s) ++ stages p0 (smask s) (p0 :: r))
        (if c_isatty c then mksh (Jobs.launch (ctab (k s)) p0 (p0 :: r) false) (mp (shl (k s))) else shl (k s)) (outs (k s)))
        p0 (p0 :: r) (VLaunch tg) ow m (if c_isatty c then gh s ++ [Launch p0 (p0 :: r) false] else gh s) rest) as [A B].
      rewrite A, B. cbn [procs]. auto.
  - unfold do_fg. destruct (ctab (k s)); [auto|].
    destruct (find_job _ arg pick) as [j0|]; [|auto].
    destruct (give_terminal_to _ (jgid j0) (owner s) (smask s)) as [[gv ow] m]. destruct gv; [|auto].
    match goal with |- context [enter_wait c ?kk ?g ?p ?v ?o ?mm ?h ?r] =>
      destruct (enter_wait_groups c kk g p v o mm h r) as [A B] end.
    rewrite A, B. cbn [procs]. split; auto. apply stat_pg. apply on_group_stat. apply deliver_stat.
  - unfold do_bg. destruct (ctab (k s)); [auto|].
    destruct (find_job _ arg pick) as [j0|]; [|auto].
    destruct (jst j0); (split; [|reflexivity]); rewrite next_groups; cbn [procs]; apply stat_pg, on_group_stat, deliver_stat.
  - unfold do_jobs. destruct (ctab (k s)); [auto|]. split; [|reflexivity].
    rewrite next_groups. unfold say; cbn [procs]. apply stat_pg, poll_stat.
  - auto.
Qed.

Lemma ledc_mono l l' q : incl l l' -> ledc l q -> ledc l' q.
Proof. intros I [pids [bg [A B]]]. exists pids, bg. split; auto. Qed.

Lemma newg_led x : Forall (ledc [x]) (newg x).
Proof.
  destruct x; cbn; try constructor. unfold new_groups. apply Forall_forall. intros q I.
  apply in_map_iff in I as [p [E I]]. subst q. exists pids, bg. cbn. auto.
Qed.

(** the rest of a line: only processes of its launches are added; what is left to run is a part of it *)
Lemma drive_groups c fuel : forall s, exists ex,
  groups (drive c fuel s) = groups s ++ ex /\ Forall (ledc (rest_of (md s))) ex /\
  incl (rest_of (md (drive c fuel s))) (rest_of (md s)).
Proof.
  induction fuel as [|f IH]; intro s; cbn [drive].
  - exists []. rewrite app_nil_r. repeat split; auto. apply incl_refl.
  - destruct (md s) as [|[|x r]| ] eqn:M; try (exists []; rewrite app_nil_r, M; repeat split; auto; apply incl_refl).
    + exists []. rewrite app_nil_r. repeat split; auto.
      * unfold groups, end_of_line; cbn. apply stat_pg, poll_stat.
      * cbn. apply incl_refl.
    + destruct (exec_groups c s x r) as [A B]. destruct (IH (exec c s x r)) as [ex [E1 [E2 E3]]].
      exists (newg x ++ ex). rewrite E1, A, app_assoc. repeat split; auto.
      * apply Forall_app. split.
        -- eapply Forall_impl; [|apply newg_led]. intros q L. eapply ledc_mono; [|exact L].
           intros y [Y|[]]. subst. cbn. auto.
        -- rewrite B in E2. eapply Forall_impl; [|exact E2]. intros q L. eapply ledc_mono; [|exact L].
           cbn. apply incl_tl, incl_refl.
      * rewrite B in E3. cbn. apply incl_tl. exact E3.
Qed.

Definition line_of (a : action) : list cmd := match cmds_of a with Some l => l | None => [] end.

(** no action ever moves a process to another group; processes are only added,
    and only those of launches of the line being run *)
Theorem step_groups c s a : exists ex,
  groups (step c s a) = groups s ++ ex /\ Forall (ledc (rest_of (md s) ++ line_of a)) ex /\
  incl (rest_of (md (step c s a))) (rest_of (md s) ++ line_of a).
Proof.
  assert (KN : forall f, (forall ps, map stat (f ps) = map stat ps) -> exists ex,
    groups (kernel c s f) = groups s ++ ex /\ Forall (ledc (rest_of (md s))) ex /\
    incl (rest_of (md (kernel c s f))) (rest_of (md s))).
  { intros f F. unfold kernel, drive_all, settle_all.
    match goal with |- context [drive c ?fu (settle c ?fs ?s0)] =>
      destruct (settle_groups c fs s0) as [A B]; destruct (drive_groups c fu (settle c fs s0)) as [ex [E1 [E2 E3]]] end.
    exists ex. rewrite E1, A. rewrite B in E2. cbn [md] in E2.
    split; [|split; [exact E2 | eapply incl_tran; [exact E3 | rewrite B; apply incl_refl]]].
    f_equal. unfold groups; cbn. apply stat_pg, F. }
  assert (LIFT : forall st', (exists ex, groups st' = groups s ++ ex /\ Forall (ledc (rest_of (md s))) ex /\
                                incl (rest_of (md st')) (rest_of (md s))) ->
                 exists ex, groups st' = groups s ++ ex /\ Forall (ledc (rest_of (md s) ++ line_of a)) ex /\
                                incl (rest_of (md st')) (rest_of (md s) ++ line_of a)).
  { intros st' [ex [A [B C]]]. exists ex. repeat split; auto.
    - eapply Forall_impl; [|exact B]. intros q L. eapply ledc_mono; [|exact L]. apply incl_appl, incl_refl.
    - eapply incl_tran; [exact C|]. apply incl_appl, incl_refl. }
  assert (ID : exists ex, groups s = groups s ++ ex /\ Forall (ledc (rest_of (md s))) ex /\ incl (rest_of (md s)) (rest_of (md s))).
  { exists []. rewrite app_nil_r. repeat split; auto. apply incl_refl. }
  assert (CL : exists ex, groups (clear s) = groups s ++ ex /\ Forall (ledc (rest_of (md s) ++ line_of a)) ex /\
                          incl (rest_of (md (clear s))) (rest_of (md s) ++ line_of a)) by (apply LIFT; exact ID).
  assert (KL : forall f, (forall ps, map stat (f ps) = map stat ps) -> exists ex,
    groups (kernel c s f) = groups s ++ ex /\ Forall (ledc (rest_of (md s) ++ line_of a)) ex /\
    incl (rest_of (md (kernel c s f))) (rest_of (md s) ++ line_of a)) by (intros f F; apply LIFT, KN, F).
  assert (SL : exists ex, groups s = groups s ++ ex /\ Forall (ledc (rest_of (md s) ++ line_of a)) ex /\
                          incl (rest_of (md s)) (rest_of (md s) ++ line_of a)) by (apply LIFT; exact ID).
  clear KN LIFT ID.
  unfold step. destruct (cmds_of a) as [l|] eqn:CM.
  - assert (LA : line_of a = l) by (unfold line_of; rewrite CM; reflexivity).
    unfold typed_line. destruct (md s) eqn:M; try exact CL.
    unfold drive_all.
    match goal with |- context [drive c ?fu ?s0] => destruct (drive_groups c fu s0) as [ex [E1 [E2 E3]]] end.
    cbn [md rest_of] in E2, E3. exists ex. rewrite LA. cbn [app]. split; [exact E1 | split; [exact E2 | exact E3]].
  - destruct a; try discriminate CM; try exact SL.
    + unfold key. destruct (md s) eqn:M; try exact CL; apply KL; intro; apply on_group_stat; apply deliver_stat.
    + unfold key. destruct (md s) eqn:M; try exact CL; apply KL; intro; apply on_group_stat; apply deliver_stat.
    + apply KL. intro. apply on_pid_stat. apply do_exit_stat.
    + apply KL. intro. apply on_pid_stat. apply deliver_stat.
Qed.

(** every process belongs to a launch typed in the session and sits in the group of its first stage *)
Definition typed_cmds (acts : list action) : list cmd := concat (map line_of acts).
Definition led (acts : list action) (q : Z * Z) : Prop := ledc (typed_cmds acts) q.

Lemma typed_snoc acts a : typed_cmds (acts ++ [a]) = typed_cmds acts ++ line_of a.
Proof. unfold typed_cmds. rewrite map_app, concat_app. cbn. rewrite app_nil_r. reflexivity. Qed.

Lemma fold_groups c acts : forall s done,
  Forall (led done) (groups s) -> incl (rest_of (md s)) (typed_cmds done) ->
  Forall (led (done ++ acts)) (groups (fold_left (step c) acts s)).
Proof.
  induction acts as [|a r IH]; intros s done H R; cbn.
  - rewrite app_nil_r. exact H.
  - replace (done ++ a :: r) with ((done ++ [a]) ++ r) by (rewrite <- app_assoc; reflexivity).
    destruct (step_groups c s a) as [ex [E1 [E2 E3]]].
    assert (I : incl (rest_of (md s) ++ line_of a) (typed_cmds (done ++ [a]))).
    { rewrite typed_snoc. apply incl_app; [apply incl_appl; exact R | apply incl_appr, incl_refl]. }
    apply IH.
    + rewrite E1. apply Forall_app. split.
      * eapply Forall_impl; [|exact H]. intros q L. unfold led in *. eapply ledc_mono; [|exact L].
        rewrite typed_snoc. apply incl_appl, incl_refl.
      * eapply Forall_impl; [|exact E2]. intros q L. unfold led. eapply ledc_mono; [exact I | exact L].
    + eapply incl_tran; [exact E3 | exact I].
Qed.

Theorem one_group c acts : Forall (led acts) (groups (run c acts)).
Proof.
  change acts with ([] ++ acts) at 1. apply fold_groups; [constructor | intros x []].
Qed.
