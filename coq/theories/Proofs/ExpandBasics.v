(** Pins of the capture-regex literals, the unconditional facts about the parameter-expansion
    pass (quoted tokens are untouched; it is a map), and worlds for witnesses. *)
From Coq Require Import List NArith ZArith Bool Lia PeanoNat.
From Cicada Require Import Base.Chars Base.Tag Base.Regex Gen.ShellRegexes Model.Expand Model.ExpandRef.
Import ListNotations.
From Coq Require String.
Import String.StringSyntax.
Local Open Scope N_scope.

(* ------------------------------------------------------------------ pins *)
(** The hand-written first-match functions of Model/Expand.v were derived from exactly these
    literals (generated from the source on every run). An edited literal breaks these. *)
Example pin_dollar_find : src_dollar_find = [92; 36; 92; 40; 40; 46; 43; 41; 92; 41].
Proof. reflexivity. Qed.
Example pin_dollar_splice : src_dollar_splice =
  [40; 63; 80; 60; 104; 101; 97; 100; 62; 91; 94; 92; 36; 93; 42; 41; 92; 36; 92; 40; 46; 43; 92; 41; 40; 63; 80; 60; 116;
   97; 105; 108; 62; 46; 42; 41].
Proof. reflexivity. Qed.
Example pin_dot_split : src_dot_split =
  [94; 40; 91; 94; 96; 93; 42; 41; 96; 40; 91; 94; 96; 93; 43; 41; 96; 40; 46; 42; 41; 36].
Proof. reflexivity. Qed.
Example pin_home : src_home = [94; 126; 40; 63; 80; 60; 116; 97; 105; 108; 62; 46; 42; 41].
Proof. reflexivity. Qed.
(** the range pattern's captures are hand-written too (find_range); its yes/no use is generated *)
Example pin_brace_range : rx_brace_range_src =
  [92; 123; 40; 45; 63; 91; 48; 45; 57; 93; 43; 41; 92; 46; 92; 46; 40; 45; 63; 91; 48; 45; 57; 93; 43; 41; 40; 92; 46; 92;
   46; 41; 63; 40; 91; 48; 45; 57; 93; 43; 41; 63; 92; 125].
Proof. reflexivity. Qed.

(* ------------------------------------------------------------------ the index buffer is a map *)
(** expand_home and expand_env keep a hand-counted index over ALL tokens and write the new texts back
    by index, in reverse.  Because the counter also runs over the skipped tokens, the write-back hits
    exactly the token each text was computed from: the pass is the per-token map. *)
Lemma set_text_at (pre : tokens) tg x s r :
  set_text (length pre) s (pre ++ (tg, x) :: r) = pre ++ (tg, s) :: r.
Proof. induction pre as [|[a b] pre IH]; cbn; [reflexivity|]. rewrite IH. reflexivity. Qed.

Lemma text_collect_apply sel : forall toks (pre : tokens),
  apply_texts (text_collect sel toks (length pre)) (pre ++ toks) = pre ++ map (text_tok sel) toks.
Proof.
  induction toks as [|t r IH]; intros pre; [reflexivity|].
  cbn [text_collect map]. unfold text_tok at 1.
  assert (Hshift : forall q : tokens, q ++ t :: r = (q ++ [t]) ++ r) by (intros q; rewrite <- app_assoc; reflexivity).
  assert (Hlen : S (length pre) = length (pre ++ [t])) by (rewrite app_length; cbn; rewrite Nat.add_1_r; reflexivity).
  destruct (sel t) as [s|] eqn:E.
  - unfold apply_texts. cbn [rev]. rewrite fold_left_app. cbn [fold_left fst snd].
    fold (apply_texts (text_collect sel r (S (length pre))) (pre ++ t :: r)).
    rewrite Hlen, Hshift, IH, <- app_assoc. cbn [app]. destruct t as [tg x]. cbn [fst]. apply set_text_at.
  - rewrite Hlen, Hshift, IH, <- app_assoc. reflexivity.
Qed.

Theorem text_pass_map sel toks : text_pass sel toks = map (text_tok sel) toks.
Proof. exact (text_collect_apply sel toks []). Qed.

Lemma env_tok_eq W t : text_tok (env_sel W) t = expand_env_tok W t.
Proof.
  unfold text_tok, env_sel, expand_env_tok.
  destruct (fst t); try reflexivity; destruct (env_in_tagged_token (snd t) _); reflexivity.
Qed.

(** the gate of an unquoted token is the old gate; telling it the token is double-quoted only lets more through *)
Lemma tagged_gate_unquoted t : env_in_tagged_token t false = env_in_token t.
Proof. reflexivity. Qed.
Lemma tagged_gate_mono t : env_in_token t = true -> env_in_tagged_token t true = true.
Proof.
  unfold env_in_token, env_in_tagged_token.
  destruct (rx_search rx_env_special t); [reflexivity|].
  destruct (negb (rx_search rx_env_name t)); [intros H; exact H|].
  destruct (rx_search rx_env_sub1 t || rx_search rx_env_sub2 t || rx_search rx_env_sub3 t); [intros H; exact H|].
  reflexivity.
Qed.
Lemma home_tok_eq W t : text_tok (home_sel W) t = expand_home_tok W t.
Proof.
  unfold text_tok, home_sel, expand_home_tok. destruct (tag_is_empty (fst t)); [|reflexivity].
  destruct (strip_prefix [126] (snd t)); reflexivity.
Qed.

Theorem expand_env_map W toks : expand_env W toks = map (expand_env_tok W) toks.
Proof. unfold expand_env. rewrite text_pass_map. apply map_ext. apply env_tok_eq. Qed.
Theorem expand_home_map W toks : expand_home W toks = map (expand_home_tok W) toks.
Proof. unfold expand_home. rewrite text_pass_map. apply map_ext. apply home_tok_eq. Qed.

(* ------------------------------------------------------------------ quoted tokens *)
Lemma expand_env_tok_quoted W t : fst t = TSq \/ fst t = TBq -> expand_env_tok W t = t.
Proof. intros [H|H]; unfold expand_env_tok; rewrite H; reflexivity. Qed.

Lemma expand_env_quoted W toks :
  (forall t, In t toks -> fst t = TSq \/ fst t = TBq) -> expand_env W toks = toks.
Proof.
  rewrite expand_env_map. induction toks as [|t r IH]; intros H; [reflexivity|]. cbn [map].
  rewrite expand_env_tok_quoted by (apply H; left; reflexivity).
  rewrite IH by (intros x Hx; apply H; right; exact Hx). reflexivity.
Qed.

(** the pass is a map: it keeps the number, order and tags of the tokens, and a single-quoted
    token inside any line is returned as it is *)
Lemma expand_env_app W a b : expand_env W (a ++ b) = expand_env W a ++ expand_env W b.
Proof. rewrite !expand_env_map. apply map_app. Qed.

Lemma expand_env_tok_tag W t : fst (expand_env_tok W t) = fst t.
Proof. unfold expand_env_tok. destruct (fst t) eqn:E; try (destruct (env_in_tagged_token (snd t) _)); cbn; auto. Qed.

Lemma expand_env_keeps_sq W pre s post :
  expand_env W (pre ++ (TSq, s) :: post) = expand_env W pre ++ (TSq, s) :: expand_env W post.
Proof. rewrite expand_env_app. f_equal. rewrite !expand_env_map. reflexivity. Qed.

(* ------------------------------------------------------------------ worlds for witnesses *)
Definition tbl_lookup (tbl : list (str * str)) (k : str) : option str :=
  match find (fun e => str_eqb (fst e) k) tbl with Some e => Some (snd e) | None => None end.

Definition world_of (shv : list (str * str)) (runs : list (str * option str)) : World :=
  mkWorld (fun _ => None) (tbl_lookup shv) 0%Z 4242%Z (s2l "/home/u") (fun _ => Some [])
          (fun l => match find (fun e => str_eqb (fst e) l) runs with Some e => snd e | None => Some [] end)
          (fun _ => None).
