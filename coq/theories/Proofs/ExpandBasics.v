(** Pins of the capture-regex literals, and the unconditional facts about the
    parameter-expansion loop: quoted tokens are untouched; a fixed point of
    expand_one_env that still tests positive makes the loop diverge. *)
From Coq Require Import List NArith ZArith Bool Lia.
From Cicada Require Import Base.Chars Base.Tag Base.Regex Gen.ShellRegexes Model.Expand Model.ExpandRef.
Import ListNotations.
From Coq Require String.
Import String.StringSyntax.
Local Open Scope N_scope.

(* ------------------------------------------------------------------ pins *)
(** The hand-written first-match functions of Model/Expand.v were derived from exactly these
    literals (generated from the source on every run). An edited literal breaks these. *)
Example pin_env_re1 : src_env_re1 =
  [94; 40; 46; 42; 63; 41; 92; 36; 40; 91; 65; 45; 90; 97; 45; 122; 48; 45; 57; 95; 93; 43; 124; 92; 36; 124; 92; 63; 41;
   40; 46; 42; 41; 36].
Proof. reflexivity. Qed.
Example pin_env_re2 : src_env_re2 =
  [40; 46; 42; 63; 41; 92; 36; 92; 123; 40; 91; 65; 45; 90; 97; 45; 122; 48; 45; 57; 95; 93; 43; 124; 92; 36; 124; 92; 63;
   41; 92; 125; 40; 46; 42; 41; 36].
Proof. reflexivity. Qed.
Example pin_dollar_find : src_dollar_find = [92; 36; 92; 40; 40; 46; 43; 41; 92; 41].
Proof. reflexivity. Qed.
Example pin_dollar_splice : src_dollar_splice =
  [40; 63; 80; 60; 104; 101; 97; 100; 62; 91; 94; 92; 36; 93; 42; 41; 92; 36; 92; 40; 46; 43; 92; 41; 40; 63; 80; 60; 116;
   97; 105; 108; 62; 46; 42; 41].
Proof. reflexivity. Qed.
Example pin_dot_split : src_dot_split =
  [94; 40; 91; 94; 96; 93; 42; 41; 96; 40; 91; 94; 96; 93; 43; 41; 96; 40; 46; 42; 41; 36].
Proof. reflexivity. Qed.
Example pin_home : src_home = [94; 126; 40; 63; 80; 60; 116; 97; 105; 108; 62; 46; 42; 41].
Proof. reflexivity. Qed.
Example pin_dollar_template : src_dollar_template =
  [36; 123; 123; 104; 101; 97; 100; 125; 125; 123; 125; 36; 123; 123; 116; 97; 105; 108; 125; 125].
Proof. reflexivity. Qed.
Example pin_home_template : src_home_template = [123; 125; 36; 116; 97; 105; 108].
Proof. reflexivity. Qed.
(** the range pattern's captures are hand-written too (find_range); its yes/no use is generated *)
Example pin_brace_range : rx_brace_range_src =
  [92; 123; 40; 45; 63; 91; 48; 45; 57; 93; 43; 41; 92; 46; 92; 46; 40; 45; 63; 91; 48; 45; 57; 93; 43; 41; 40; 92; 46; 92;
   46; 41; 63; 40; 91; 48; 45; 57; 93; 43; 41; 63; 92; 125].
Proof. reflexivity. Qed.

(* ------------------------------------------------------------------ quoted tokens *)
Lemma expand_env_tok_quoted f W t : fst t = TSq \/ fst t = TBq -> expand_env_tok f W t = Ok t.
Proof. intros [H|H]; unfold expand_env_tok; rewrite H; reflexivity. Qed.

Lemma expand_env_quoted f W toks :
  (forall t, In t toks -> fst t = TSq \/ fst t = TBq) -> expand_env f W toks = Ok toks.
Proof.
  induction toks as [|t r IH]; intros H; cbn [expand_env]; [reflexivity|].
  rewrite expand_env_tok_quoted by (apply H; left; reflexivity).
  cbn [bind]. rewrite IH by (intros x Hx; apply H; right; exact Hx). reflexivity.
Qed.

(** a single-quoted token inside any line is returned as it is (when the line is expanded at all) *)
Lemma expand_env_keeps_sq f W pre s post r :
  expand_env f W (pre ++ (TSq, s) :: post) = Ok r ->
  exists pre' post', r = pre' ++ (TSq, s) :: post' /\ length pre' = length pre.
Proof.
  revert r; induction pre as [|t pre IH]; intros r H; cbn [app expand_env] in H.
  - rewrite expand_env_tok_quoted in H by (left; reflexivity). cbn [bind] in H.
    destruct (expand_env f W post) as [p| |]; cbn in H; try discriminate.
    injection H as <-. exists [], p. split; reflexivity.
  - destruct (expand_env_tok f W t) as [t'| |]; cbn [bind] in H; try discriminate.
    destruct (expand_env f W (pre ++ (TSq, s) :: post)) as [q| |] eqn:E; cbn in H; try discriminate.
    injection H as <-. destruct (IH q eq_refl) as (pre' & post' & -> & L).
    exists (t' :: pre'), post'. split; [reflexivity|]. cbn. rewrite L. reflexivity.
Qed.

(* ------------------------------------------------------------------ divergence *)
Lemma expand_env_loop_S f W t :
  expand_env_loop (S f) W t = if env_in_token t then expand_env_loop f W (expand_one_env W t) else Ok t.
Proof. reflexivity. Qed.

(** [while env_in_token(t) { t = expand_one_env(t) }] never ends on a fixed point that tests positive *)
Lemma expand_env_loop_diverges W t :
  expand_one_env W t = t -> env_in_token t = true -> forall f, expand_env_loop f W t = OutOfFuel.
Proof.
  intros Hfix Hin f. induction f as [|f IH]; [reflexivity|].
  rewrite expand_env_loop_S, Hin, Hfix. exact IH.
Qed.

Lemma expand_env_diverges W tg t :
  tg <> TSq -> tg <> TBq -> expand_one_env W t = t -> env_in_token t = true ->
  forall f, expand_env f W [(tg, t)] = OutOfFuel.
Proof.
  intros H1 H2 Hfix Hin f. cbn [expand_env]. unfold expand_env_tok. cbn [fst snd].
  rewrite Hin, (expand_env_loop_diverges W t Hfix Hin f).
  destruct tg; try contradiction; reflexivity.
Qed.

(** cycles of any length: if the k-fold iterate comes back and every iterate tests positive *)
Fixpoint iter_one (k : nat) (W : World) (t : str) : str :=
  match k with O => t | S k' => iter_one k' W (expand_one_env W t) end.

Lemma expand_env_loop_ge f W t r : expand_env_loop f W t = Ok r -> forall g, (f <= g)%nat -> expand_env_loop g W t = Ok r.
Proof.
  revert t; induction f as [|f IH]; intros t H g Hg; [discriminate|].
  destruct g as [|g]; [lia|]. rewrite expand_env_loop_S in *.
  destruct (env_in_token t); [|exact H]. apply IH; [exact H | lia].
Qed.

(* ------------------------------------------------------------------ worlds for witnesses *)
Definition tbl_lookup (tbl : list (str * str)) (k : str) : option str :=
  match find (fun e => str_eqb (fst e) k) tbl with Some e => Some (snd e) | None => None end.

Definition world_of (shv : list (str * str)) (runs : list (str * option str)) : World :=
  mkWorld (fun _ => None) (tbl_lookup shv) 0%Z 4242%Z (s2l "/home/u") (fun _ => Some [])
          (fun l => match find (fun e => str_eqb (fst e) l) runs with Some e => snd e | None => Some [] end)
          (fun _ => None).
