(** The ;/&&/|| loop of [run_command_line] implements the reference
    semantics of command lists, for every program and every runner. *)
From Cicada Require Import Base.Chars Model.Cmds Model.ListExec.
From Coq Require Import ZArith Lia.
Local Open Scope Z_scope.

Definition op_tok (o : lop) : str :=
  match o with
  | OpSemi => [59%N] | OpAnd => [38%N; 38%N] | OpOr => [124%N; 124%N] | OpNone => []
  end.

(** A program: first pipeline, then (operator, pipeline) pairs. *)
Definition prog := (str * list (lop * str))%type.

Definition tokens_of_tail (t : list (lop * str)) : list str :=
  flat_map (fun '(o, p) => [op_tok o; p]) t.
Definition tokens_of (p : prog) : list str := fst p :: tokens_of_tail (snd p).

Definition is_pipeline (p : str) : Prop := op_of p = OpNone.
Definition is_op (o : lop) : Prop := o <> OpNone.

Definition wf_tail (t : list (lop * str)) : Prop :=
  Forall (fun '(o, p) => is_op o /\ is_pipeline p) t.
Definition wf_prog (p : prog) : Prop := is_pipeline (fst p) /\ wf_tail (snd p).

Section Ref.
  Variable W : Type.
  Variable run : W -> str -> W * Z.

  (** Reference semantics of the property: [;] always runs, [&&] runs iff the
      status so far is zero, [||] iff non-zero; a skipped pipeline leaves world
      and status unchanged and evaluation goes on with the next operator. *)
  Definition runs (o : lop) (status : Z) : bool :=
    match o with
    | OpAnd => status =? 0
    | OpOr => negb (status =? 0)
    | _ => true
    end.

  Fixpoint ref_tail (w : W) (status : Z) (ran : list (str * Z)) (t : list (lop * str))
    : W * Z * list (str * Z) :=
    match t with
    | [] => (w, status, ran)
    | (o, p) :: t' =>
        if runs o status
        then let '(w', st) := run w p in ref_tail w' st (ran ++ [(p, st)]) t'
        else ref_tail w status ran t'
    end.

  Definition ref_exec (w : W) (p : prog) : W * Z * list (str * Z) :=
    let '(w', st) := run w (fst p) in ref_tail w' st [(fst p, st)] (snd p).

  Definition obs (s : est W) : W * Z * list (str * Z) := (e_w _ s, e_status _ s, e_ran _ s).

  Lemma op_of_op_tok o : is_op o -> op_of (op_tok o) = o.
  Proof. destruct o; cbn; intros H; reflexivity. Qed.

  Lemma exec_token_op s o : is_op o ->
    exec_token W run s (op_tok o) = mke W (e_w _ s) (e_status _ s) o (e_ran _ s).
  Proof. intros Ho. unfold exec_token. rewrite (op_of_op_tok o Ho). destruct o; try reflexivity. now contradiction Ho. Qed.

  Lemma exec_token_pipe w st o ran p : is_pipeline p -> is_op o ->
    exec_token W run (mke W w st o ran) p =
    if runs o st then let '(w', s') := run w p in mke W w' s' o (ran ++ [(p, s')])
    else mke W w st o ran.
  Proof.
    intros Hp Ho. unfold exec_token. unfold is_pipeline in Hp. rewrite Hp. cbn [e_sep e_status e_w e_ran].
    destruct o; cbn [runs]; try reflexivity; try (now contradiction Ho).
    destruct (st =? 0); reflexivity.
  Qed.

  Lemma exec_tail t : wf_tail t -> forall w st sep ran,
    obs (fold_left (exec_token W run) (tokens_of_tail t) (mke W w st sep ran)) = ref_tail w st ran t.
  Proof.
    induction t as [|[o p] t IH]; intros Hwf w st sep ran; [reflexivity|].
    unfold wf_tail in Hwf. apply Forall_cons_iff in Hwf. destruct Hwf as [Hh Hwf']. cbn in Hh. destruct Hh as [Ho Hp].
    cbn [tokens_of_tail flat_map app fold_left].
    rewrite (exec_token_op _ o Ho). cbn [e_w e_status e_ran].
    rewrite (exec_token_pipe w st o ran p Hp Ho). cbn [ref_tail].
    destruct (runs o st); [destruct (run w p) as [w' s']|]; apply IH; assumption.
  Qed.

  Theorem run_tokens_ref (w : W) (p : prog) :
    wf_prog p -> obs (run_tokens W run w (tokens_of p)) = ref_exec w p.
  Proof.
    intros [H1 H2]. unfold run_tokens, tokens_of, ref_exec. cbn [fold_left].
    unfold exec_token at 2. unfold is_pipeline in H1. rewrite H1. cbn [e_sep e_w e_status e_ran].
    destruct (run w (fst p)) as [w' st]. cbn [app]. apply exec_tail. exact H2.
  Qed.
End Ref.
