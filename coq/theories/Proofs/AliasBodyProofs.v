(** C13, delivery path "written inside an alias body": the command word of the line is an
    alias whose value is a command line with quoted arguments, one of them a
    double-quoted word with a reference.  [expand_alias] (the FIRST pass) replaces the
    command word by the TOKENS of the value -- the tokenizer's tokens, tags included --
    so from then on the line is indistinguishable from the body written in place, and
    [C13_dq] applies: the value is one argument, whatever operator characters it holds. *)
From Coq Require Import List NArith ZArith Bool Lia.
From Cicada Require Import Base.Chars Base.Tag Model.Tokenizer Model.Expand Model.ExpandRef Model.Redirect Model.FullPlan.
From Cicada Require Import Proofs.TokenizerProofs Proofs.SubstProofs Proofs.ExpandBasics Proofs.C13Proofs.
From Cicada Require Proofs.RedirectProofs Proofs.ExpandInert.
Import ListNotations.
From Coq Require String.
Import String.StringSyntax.
Local Open Scope N_scope.

Module RP := Cicada.Proofs.RedirectProofs.
Module EI := Cicada.Proofs.ExpandInert.

(** the passes after [expand_alias] do not know where the tokens came from *)
Lemma do_expansion_via_alias tokenize W fuel (toks toks1 : tokens) :
  Expand.is_arithmetic (tokens_to_line toks) = false -> is_export_prompt toks = false ->
  expand_alias tokenize W toks = toks1 ->
  Expand.is_arithmetic (tokens_to_line toks1) = false -> is_export_prompt toks1 = false ->
  expand_alias tokenize W toks1 = toks1 ->
  do_expansion tokenize W fuel toks = do_expansion tokenize W fuel toks1.
Proof.
  intros A1 P1 E1 A2 P2 E2. unfold do_expansion, do_expansion_log.
  rewrite A1, P1, A2, P2, E1, E2. reflexivity.
Qed.

(** the alias word in command position, followed by tagged tokens, becomes the tokens of its value *)
Lemma expand_alias_head tokenize W (aname body : str) (l : tokens) :
  aname <> [124] -> aname <> s2l "xargs" -> aliases W aname = Some body -> body <> [] -> Forall EI.tagged l ->
  expand_alias tokenize W ((TNone, aname) :: l) = tokenize body ++ l.
Proof.
  intros Hp Hx Ha Hb Hl. unfold expand_alias. cbn [alias_collect tag_is_empty tag_eqb andb].
  rewrite (proj2 (str_eqb_neq _ _) Hp), (proj2 (str_eqb_neq _ _) Hx), Ha.
  destruct body as [|c body]; [congruence|]. cbn [is_empty].
  rewrite EI.alias_collect_tagged by exact Hl.
  unfold apply_buff. cbn [map rev app fold_left fst snd]. unfold splice. cbn [firstn skipn app]. reflexivity.
Qed.

Lemma calm_tagged args : Forall EI.tagged (toks_of args).
Proof.
  induction args as [|[n a] args IH]; [constructor|]. cbn [toks_of map]. constructor; [|exact IH].
  destruct a; reflexivity.
Qed.

Theorem plan_dq_in_alias_body : forall W fuel (aname : str) (args : list (nat * qarg))
    cmd (bargs1 bargs2 : list (nat * qarg)) n noeq br (pre name post : str),
  (* the line: the alias word and quoted arguments *)
  plain_word aname = true -> forallb arith_body aname = false ->
  aname <> s2l "xargs" -> aname <> s2l "export" -> (exists c, In c aname /\ EI.arith_char c = false) ->
  forallb (fun '(_, a) => wf_qarg a) args = true -> Forall (fun '(_, a) => calm_qarg a) args ->
  (* its value: a command line as in C13_dq *)
  aliases W aname = Some (render_cmd cmd (bargs1 ++ (n, QDq (pre ++ render_piece (PRef br name) ++ post)) :: bargs2)) ->
  plain_word cmd = true -> forallb arith_body cmd = false -> split_env cmd = None -> EI.cmd_ok W cmd ->
  forallb (fun '(_, a) => wf_qarg a) bargs1 = true -> forallb (fun '(_, a) => wf_qarg a) bargs2 = true ->
  Forall (fun '(_, a) => calm_qarg a) bargs1 -> Forall (fun '(_, a) => calm_qarg a) bargs2 ->
  wf_qarg (QDq (pre ++ render_piece (PRef br name) ++ post)) = true ->
  ~ In 36 pre -> ~ In 36 post -> forallb (okg noeq) (pre ++ post) = true -> is_name name = true ->
  (br = true \/ match post with c :: _ => is_alnum_us c = false | [] => True end) ->
  ~ In 96 (pre ++ key_value W name ++ post) -> has_dollar_paren (pre ++ key_value W name ++ post) = false ->
  plan W fuel (render_cmd aname args)
  = Ok (one_cmd ((TNone, cmd) :: toks_of bargs1 ++ (TDq, pre ++ key_value W name ++ post) :: toks_of bargs2 ++ toks_of args)).
Proof.
  intros W fuel aname args cmd bargs1 bargs2 n noeq br pre name post
         Hpa Haa Hx He (c & Hcin & Hcar) Hwa Hca Hal Hp Ha Hse Hc Hw1 Hw2 Hc1 Hc2 Hwq Hpre Hpost Hg Hn Hbr H96 Hdp.
  set (body := render_cmd cmd (bargs1 ++ (n, QDq (pre ++ render_piece (PRef br name) ++ post)) :: bargs2)) in *.
  set (text := pre ++ key_value W name ++ post) in *.
  assert (Hpipe : aname <> [124]).
  { intros ->. discriminate Hpa. }
  (* tokens of the line and of the body *)
  assert (Tl : parse_line (render_cmd aname args) = (TNone, aname) :: toks_of args) by (now apply parse_line_quoted).
  assert (Tb : parse_line body = (TNone, cmd) :: toks_of bargs1 ++ (TDq, pre ++ render_piece (PRef br name) ++ post) :: toks_of bargs2).
  { unfold body. rewrite parse_line_quoted; [|exact Hp|exact Ha|].
    - rewrite map_app. reflexivity.
    - rewrite forallb_app. cbn [forallb]. now rewrite Hw1, Hw2, Hwq. }
  assert (Hbne : body <> []).
  { unfold body, render_cmd. destruct cmd; [discriminate Hp|discriminate]. }
  set (l1 := toks_of bargs1). set (l2 := toks_of bargs2 ++ toks_of args).
  set (toks1 := (TNone, cmd) :: l1 ++ (TDq, pre ++ render_piece (PRef br name) ++ post) :: l2).
  assert (E1 : expand_alias parse_line W ((TNone, aname) :: toks_of args) = toks1).
  { rewrite (expand_alias_head parse_line W aname body (toks_of args) Hpipe Hx Hal Hbne (calm_tagged args)).
    rewrite Tb. unfold toks1, l1, l2. cbn [app]. rewrite <- app_assoc. cbn [app]. reflexivity. }
  assert (Htag1 : Forall EI.tagged (l1 ++ (TDq, pre ++ render_piece (PRef br name) ++ post) :: l2)).
  { apply Forall_app. split; [apply calm_tagged|]. constructor; [reflexivity|].
    unfold l2. apply Forall_app. split; apply calm_tagged. }
  unfold plan. rewrite Tl.
  rewrite (do_expansion_via_alias parse_line W fuel ((TNone, aname) :: toks_of args) toks1).
  - (* from here on: the body written in place *)
    assert (E : do_expansion parse_line W fuel toks1 = Ok ((TNone, cmd) :: l1 ++ (TDq, text) :: l2)).
    { apply EI.do_expansion_dq_value with (noeq := noeq); try assumption.
      - now apply calm_inert.
      - unfold l2. apply Forall_app. split; now apply calm_inert. }
    rewrite E. cbn [bind]. f_equal. unfold one_cmd.
    replace ((TNone, cmd) :: toks_of bargs1 ++ (TDq, text) :: toks_of bargs2 ++ toks_of args)
      with ((TNone, cmd) :: l1 ++ (TDq, text) :: l2) by reflexivity.
    apply RP.plan_quoted; [now apply RP.plain_word_cmd_ok|].
    rewrite forallb_app. cbn [forallb]. unfold l1, l2. rewrite forallb_app.
    rewrite !inert_quoted by (now apply calm_inert). reflexivity.
  - apply (EI.is_arithmetic_false _ c); [|exact Hcar]. apply EI.line_has_cmd; [|exact Hcin].
    intros ->. discriminate Hcar.
  - unfold is_export_prompt. destruct (toks_of args) as [|[tg b] r]; [reflexivity|].
    rewrite (proj2 (str_eqb_neq _ _) He). reflexivity.
  - exact E1.
  - apply (EI.not_arithmetic W cmd _ Hc).
  - apply (EI.not_export_prompt W cmd _ Hc).
  - apply (EI.expand_alias_tagged parse_line W cmd _ Hc Htag1).
Qed.
