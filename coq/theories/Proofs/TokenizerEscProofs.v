(** The tokenizer on the BACKSLASH-ESCAPED style: a plain command word followed
    by one word in which some characters are written with a backslash in front
    (any character may be) and the others are ordinary characters, is cut into
    exactly two tokens; the second holds the characters without the
    backslashes. Its tag is the quirk of parse_line: a backslash tag when the word
    starts with an escaped bar or dollar, else a single-quote tag when it holds an
    escaped angle bracket, else none. Induction over the items of the word.
    Complements Proofs/TokenizerProofs.v (single- and double-quoted style). *)
From Cicada Require Import Base.Chars Base.Tag Model.Tokenizer Proofs.TokenizerProofs.
From Coq Require Import Lia.
Local Open Scope N_scope.

(** * States *)
(** inside an unquoted word: [sp] is the token's separator ([TNone], or [TBs]
    after a leading escaped bar / dollar), [bs] = a backslash is pending,
    [sm] = sep_made ([TSq] after an escaped angle bracket) *)
Definition st_ew (r : list (tag * str)) (sp : tag) (tk : str) (bs : bool) (hd : bool) (sm : tag) : st :=
  mk r sp TNone tk bs false false false hd false sm false.
(** between two tokens with a pending backslash *)
Definition st_rbs (r : list (tag * str)) (hd : bool) : st :=
  mk r TNone TNone [] true false true false hd false TNone false.
(** between two tokens, after a backslash-tagged token (the separator is not reset) *)
Definition st_round_bs (r : list (tag * str)) (hd : bool) (sm : tag) : st :=
  mk r TBs TNone [] false false true false hd false sm false.

Definition nb_tag (sp : tag) : Prop := sp = TNone \/ sp = TBs.
Definition is_angle (c : char) : bool := cls_eqb (classify c) KGt || cls_eqb (classify c) KLt.
Definition is_bar_dollar (c : char) : bool := cls_eqb (classify c) KPipe || cls_eqb (classify c) KDollar.

Lemma st_word_ew r tk hd : st_word r tk hd = st_ew r TNone tk false hd TNone.
Proof. reflexivity. Qed.

(** * Step lemmas *)
Lemma step_ew_plain r sp tk hd sm c nxt :
  nb_tag sp -> classify c = KOther ->
  step (st_ew r sp tk false hd sm) c nxt = Cont (st_ew r sp (c :: tk) false hd sm).
Proof.
  intros Hsp Hc. cbv beta delta [step]. rewrite Hc.
  destruct Hsp as [-> | ->]; destruct hd; destruct sm; reflexivity.
Qed.

Lemma step_ew_bs r sp tk hd sm nxt :
  nb_tag sp -> step (st_ew r sp tk false hd sm) c_bs nxt = Cont (st_ew r sp tk true hd sm).
Proof. intros [-> | ->]; destruct hd; destruct sm; reflexivity. Qed.

(** the character after a backslash, inside a word *)
Definition sm_upd (sp sm : tag) (c : char) : tag :=
  if tag_eqb sp TNone && is_angle c then TSq else sm.

Lemma step_ew_esc r sp tk hd sm c nxt :
  nb_tag sp ->
  step (st_ew r sp tk true hd sm) c nxt = Cont (st_ew r sp (c :: tk) false hd (sm_upd sp sm c)).
Proof.
  intros Hsp. cbv beta delta [step sm_upd is_angle].
  destruct Hsp as [-> | ->]; destruct (classify c) eqn:K; destruct hd; destruct sm; reflexivity.
Qed.

Lemma step_round_bs r hd nxt : step (st_round r hd) c_bs nxt = Cont (st_rbs r hd).
Proof. destruct hd; reflexivity. Qed.

(** the character after a backslash, at the start of a word *)
Lemma step_rbs r hd c nxt :
  step (st_rbs r hd) c nxt =
  Cont (if is_bar_dollar c then st_ew r TBs [c] false hd TNone
        else st_ew r TNone [c] false hd (sm_upd TNone TNone c)).
Proof.
  cbv beta delta [step sm_upd is_angle is_bar_dollar].
  destruct (classify c) eqn:K; destruct hd; reflexivity.
Qed.

(** a blank ends the word *)
Lemma step_ew_space_none r tk hd sm nxt :
  sm = TNone \/ sm = TSq ->
  step (st_ew r TNone tk false hd sm) c_space nxt = Cont (st_round ((sm, rev tk) :: r) hd).
Proof. intros [-> | ->]; destruct hd; reflexivity. Qed.

Lemma step_ew_space_bs r tk hd sm nxt :
  step (st_ew r TBs tk false hd sm) c_space nxt = Cont (st_round_bs ((TBs, rev tk) :: r) hd sm).
Proof. destruct hd; destruct sm; reflexivity. Qed.

Lemma step_round_bs_space r hd sm nxt :
  step (st_round_bs r hd sm) c_space nxt = Cont (st_round_bs r hd sm).
Proof. destruct hd; destruct sm; reflexivity. Qed.

(** * Items of an escaped word *)
Definition eitem := (char * bool)%type.      (* character, written with a backslash? *)
Definition render_eitem (i : eitem) : str := if snd i then [c_bs; fst i] else [fst i].
Definition render_eitems (l : list eitem) : str := flat_map render_eitem l.
Definition eitem_text (l : list eitem) : str := map fst l.
(** an unescaped character must be ordinary for the tokenizer; an escaped one is arbitrary *)
Definition wf_eitem (i : eitem) : bool := snd i || cls_eqb (classify (fst i)) KOther.

Definition sm_eitem (sp : tag) (sm : tag) (i : eitem) : tag := if snd i then sm_upd sp sm (fst i) else sm.
Definition sm_after (sp sm : tag) (l : list eitem) : tag := fold_left (sm_eitem sp) l sm.

Lemma loop_eitems l : forallb wf_eitem l = true -> forall r sp tk hd sm rest,
  nb_tag sp ->
  loop (st_ew r sp tk false hd sm) (render_eitems l ++ rest) =
  loop (st_ew r sp (rev (eitem_text l) ++ tk) false hd (sm_after sp sm l)) rest.
Proof.
  induction l as [|[c e] l IH]; intros Hwf r sp tk hd sm rest Hsp; [reflexivity|].
  cbn [forallb] in Hwf. apply andb_true_iff in Hwf as [Hi Hl].
  unfold render_eitems. cbn [flat_map]. fold (render_eitems l). rewrite <- app_assoc.
  unfold render_eitem at 1. cbn [fst snd]. destruct e.
  - cbn [app]. rewrite loop_cons, (step_ew_bs r sp tk hd sm _ Hsp).
    rewrite loop_cons, (step_ew_esc r sp tk hd sm c _ Hsp).
    rewrite (IH Hl) by exact Hsp. cbn [eitem_text map rev fst sm_after fold_left sm_eitem snd].
    now rewrite <- app_assoc.
  - unfold wf_eitem in Hi. cbn [fst snd orb] in Hi. apply cls_eqb_eq in Hi.
    cbn [app]. rewrite loop_cons, (step_ew_plain r sp tk hd sm c _ Hsp Hi).
    rewrite (IH Hl) by exact Hsp. cbn [eitem_text map rev fst sm_after fold_left sm_eitem snd].
    now rewrite <- app_assoc.
Qed.

(** * The tag of the token *)
Definition has_esc_angle (l : list eitem) : bool := existsb (fun i => snd i && is_angle (fst i)) l.
Definition starts_bar_dollar (l : list eitem) : bool :=
  match l with i :: _ => snd i && is_bar_dollar (fst i) | [] => false end.
Definition eitems_tag (l : list eitem) : tag :=
  if starts_bar_dollar l then TBs else if has_esc_angle l then TSq else TNone.

Lemma sm_after_sq sp l : sm_after sp TSq l = TSq.
Proof.
  induction l as [|[c e] l IH]; [reflexivity|]. cbn [sm_after fold_left]. unfold sm_eitem at 2. cbn [fst snd].
  destruct e; [|exact IH]. unfold sm_upd. destruct (tag_eqb sp TNone && is_angle c); exact IH.
Qed.

Lemma sm_after_none l : sm_after TNone TNone l = if has_esc_angle l then TSq else TNone.
Proof.
  induction l as [|[c e] l IH]; [reflexivity|]. cbn [sm_after fold_left has_esc_angle existsb fst snd].
  unfold sm_eitem at 2. cbn [fst snd]. destruct e; cbn [andb orb]; [|exact IH].
  unfold sm_upd. cbn [tag_eqb andb]. destruct (is_angle c); cbn [orb]; [apply sm_after_sq|exact IH].
Qed.

Lemma sm_after_bs sm l : sm_after TBs sm l = sm.
Proof.
  revert sm; induction l as [|[c e] l IH]; intros sm; [reflexivity|]. cbn [sm_after fold_left].
  unfold sm_eitem at 2. cbn [fst snd]. destruct e; [|apply IH]. unfold sm_upd. cbn [tag_eqb andb]. apply IH.
Qed.

Lemma sm_none_or_sq l : sm_after TNone TNone l = TNone \/ sm_after TNone TNone l = TSq.
Proof. rewrite sm_after_none. destruct (has_esc_angle l); auto. Qed.

(** the escaped word from the start of a round up to the state after its last character *)
Lemma loop_word_eitems l : l <> [] -> forallb wf_eitem l = true -> forall r hd rest,
  exists sp sm, nb_tag sp /\
    loop (st_round r hd) (render_eitems l ++ rest) = loop (st_ew r sp (rev (eitem_text l)) false hd sm) rest /\
    (sp = TBs -> eitems_tag l = TBs) /\
    (sp = TNone -> eitems_tag l = sm /\ (sm = TNone \/ sm = TSq)).
Proof.
  destruct l as [|[c e] l]; [congruence|]. intros _ Hwf r hd rest.
  cbn [forallb] in Hwf. apply andb_true_iff in Hwf as [Hi Hl].
  unfold render_eitems. cbn [flat_map]. fold (render_eitems l). rewrite <- app_assoc.
  unfold render_eitem at 1. cbn [fst snd]. destruct e.
  - cbn [app]. rewrite loop_cons, step_round_bs, loop_cons, step_rbs.
    destruct (is_bar_dollar c) eqn:Hbd.
    + exists TBs, TNone. split; [now right|]. split.
      * rewrite (loop_eitems l Hl) by now right. rewrite sm_after_bs.
        cbn [eitem_text map rev fst]. reflexivity.
      * split; [|discriminate]. intros _. unfold eitems_tag, starts_bar_dollar. cbn [fst snd andb]. now rewrite Hbd.
    + exists TNone, (sm_after TNone (sm_upd TNone TNone c) l). split; [now left|]. split.
      * rewrite (loop_eitems l Hl) by now left. cbn [eitem_text map rev fst]. reflexivity.
      * split; [discriminate|]. intros _.
        assert (E : sm_after TNone (sm_upd TNone TNone c) l = sm_after TNone TNone ((c, true) :: l)) by reflexivity.
        rewrite E. split; [|apply sm_none_or_sq].
        unfold eitems_tag, starts_bar_dollar. cbn [fst snd andb]. rewrite Hbd. now rewrite sm_after_none.
  - unfold wf_eitem in Hi. cbn [fst snd orb] in Hi. apply cls_eqb_eq in Hi.
    cbn [app]. rewrite loop_cons, (step_round_plain r hd c _ Hi), st_word_ew.
    exists TNone, (sm_after TNone TNone l). split; [now left|]. split.
    + rewrite (loop_eitems l Hl) by now left. cbn [eitem_text map rev fst]. reflexivity.
    + split; [discriminate|]. intros _. split; [|apply sm_none_or_sq].
      unfold eitems_tag, starts_bar_dollar. cbn [fst snd andb]. rewrite sm_after_none.
      unfold has_esc_angle. cbn [existsb fst snd andb orb]. reflexivity.
Qed.

(** * Whole lines: command word, a blank, the escaped word, any number of blanks *)
Lemma finish_ew r sp tk hd sm : tk <> [] -> nb_tag sp -> (sp = TNone -> sm = TNone \/ sm = TSq) ->
  finish (st_ew r sp tk false hd sm) = rev r ++ [((if tag_eqb sp TNone then sm else TBs), rev tk)].
Proof.
  intros Htk Hsp Hsm. destruct tk as [|x tk]; [congruence|].
  destruct Hsp as [-> | ->].
  - destruct (Hsm eq_refl) as [-> | ->]; destruct hd; reflexivity.
  - destruct hd; destruct sm; reflexivity.
Qed.

Lemma loop_trailing_spaces_round n r hd : finish (loop (st_round r hd) (spaces n)) = rev r.
Proof.
  rewrite <- (app_nil_r (spaces n)), loop_round_spaces. destruct hd; reflexivity.
Qed.

Lemma loop_trailing_spaces_round_bs n r hd sm : finish (loop (st_round_bs r hd sm) (spaces n)) = rev r.
Proof.
  induction n as [|n IH]; [destruct hd; destruct sm; reflexivity|].
  cbn [spaces repeat]. rewrite loop_cons, step_round_bs_space. exact IH.
Qed.

Theorem parse_line_escaped_eitems cmd (l : list eitem) n :
  plain_word cmd = true -> forallb arith_body cmd = false ->
  l <> [] -> forallb wf_eitem l = true ->
  parse_line (cmd ++ c_space :: render_eitems l ++ spaces n) = [(TNone, cmd); (eitems_tag l, eitem_text l)].
Proof.
  intros Hw Hna Hne Hwf. unfold parse_line. rewrite (not_arith _ _ Hna).
  apply andb_true_iff in Hw as [Hne' Hall]. destruct cmd as [|c cmd]; [discriminate|].
  cbn [forallb] in Hall. apply andb_true_iff in Hall as [Hc Hall]. apply cls_eqb_eq in Hc.
  change st0 with (st_round [] false). cbn [app]. rewrite loop_cons, (step_round_plain [] false c _ Hc).
  assert (E : forall rest, loop (st_word [] [c] false) (cmd ++ rest) =
              loop (st_word [] (rev cmd ++ [c]) false) rest).
  { intros rest. destruct cmd as [|c' cmd']; [reflexivity|].
    apply loop_word; [|exact Hall]. cbn. cbn in Hall. apply andb_true_iff in Hall as [H1 _]. now rewrite H1. }
  rewrite E. rewrite loop_cons, step_word_space.
  match goal with |- context [loop (st_round ?r0 false) _] =>
    destruct (loop_word_eitems l Hne Hwf r0 false (spaces n)) as (sp & sm & Hsp & Eq & Hbs & Hnone) end.
  rewrite Eq. rewrite rev_app_distr, rev_involutive. cbn [rev app].
  assert (Htk : rev (eitem_text l) <> []).
  { destruct l as [|i l']; [congruence|]. cbn [eitem_text map rev]. destruct (rev (map fst l')); discriminate. }
  destruct n as [|n].
  - cbn [spaces repeat loop]. rewrite finish_ew; [|exact Htk|exact Hsp|intros E0; now destruct (Hnone E0)].
    rewrite rev_involutive. cbn [rev app]. destruct Hsp as [-> | ->].
    + destruct (Hnone eq_refl) as [-> _]. reflexivity.
    + rewrite (Hbs eq_refl). reflexivity.
  - cbn [spaces repeat]. rewrite loop_cons. destruct Hsp as [-> | ->].
    + destruct (Hnone eq_refl) as [-> Hsm]. rewrite (step_ew_space_none _ _ _ _ _ Hsm).
      rewrite loop_trailing_spaces_round. cbn [rev app]. now rewrite rev_involutive.
    + rewrite step_ew_space_bs, loop_trailing_spaces_round_bs. cbn [rev app].
      rewrite rev_involutive, (Hbs eq_refl). reflexivity.
Qed.

(** * Escaping by a character class: every character of the class is escaped.
    If the class covers every character that is special for the tokenizer, the
    escaped text of ANY non-empty string is read back as that string. *)
Section EscapeBy.
  Variable cls : char -> bool.
  Hypothesis cls_covers : forall c, cls c = false -> classify c = KOther.

  Definition escape_text (s : str) : str := flat_map (fun c => if cls c then [c_bs; c] else [c]) s.
  Definition eitems_of (s : str) : list eitem := map (fun c => (c, cls c)) s.

  Lemma render_eitems_of s : render_eitems (eitems_of s) = escape_text s.
  Proof.
    induction s as [|c s IH]; [reflexivity|]. unfold render_eitems, eitems_of, escape_text in *.
    cbn [map flat_map]. rewrite IH. unfold render_eitem. cbn [fst snd]. reflexivity.
  Qed.
  Lemma eitem_text_of s : eitem_text (eitems_of s) = s.
  Proof. unfold eitem_text, eitems_of. rewrite map_map. cbn [fst]. apply map_id. Qed.
  Lemma wf_eitems_of s : forallb wf_eitem (eitems_of s) = true.
  Proof.
    induction s as [|c s IH]; [reflexivity|]. cbn [eitems_of map forallb]. fold (eitems_of s). rewrite IH, andb_true_r.
    unfold wf_eitem. cbn [fst snd]. destruct (cls c) eqn:E; [reflexivity|].
    rewrite (cls_covers _ E). reflexivity.
  Qed.

  (** tag of the token that an escaped text becomes *)
  Definition text_tag (s : str) : tag := eitems_tag (eitems_of s).

  Theorem parse_line_escaped cmd name n :
    plain_word cmd = true -> forallb arith_body cmd = false -> name <> [] ->
    parse_line (cmd ++ c_space :: escape_text name ++ spaces n) = [(TNone, cmd); (text_tag name, name)].
  Proof.
    intros Hw Hna Hne. rewrite <- render_eitems_of.
    rewrite parse_line_escaped_eitems; try assumption.
    - now rewrite eitem_text_of.
    - destruct name; [congruence|discriminate].
    - apply wf_eitems_of.
  Qed.
End EscapeBy.
