(** Unanchored search, unfolded one position at a time: a match starts here or in the tail. Round 9 (regexgen). *)
From Coq Require Import List NArith Bool Lia.
From Cicada Require Import Base.Chars Base.Regex Proofs.RegexCalc.
Import ListNotations.
Local Open Scope N_scope.

Lemma rc_search_unfold r s :
  rx_search (mkrx false r false) s =
  matchb (Cat r (Star any)) s || match s with [] => false | _ :: t => rx_search (mkrx false r false) t end.
Proof.
  unfold rx_search, rx_full. cbn [rx_ab rx_re rx_ae]. unfold any. rewrite rc_Cat_Star_Chr at 1.
  destruct s; reflexivity.
Qed.

Lemma rc_Cat_ext_r' a b b' :
  (forall s, matchb b s = matchb b' s) -> forall s, matchb (Cat a b) s = matchb (Cat a b') s.
Proof.
  intros H. apply matchb_ext. intros s.
  assert (E : forall x, Matches b x <-> Matches b' x) by (intros x; rewrite <- !matchb_spec, H; reflexivity).
  split; intros M; apply cat_inv in M as (s1 & s2 & -> & M1 & M2); constructor; try exact M1; apply E; exact M2.
Qed.

(** an optional class, then anything: always matches (after any starred prefix) *)
Lemma rc_opt_any_all a b t : matchb (Cat (Star a) (Cat (Alt b Eps) (Star any))) t = true.
Proof.
  apply matchb_spec. change t with ([] ++ t). constructor; [constructor|].
  change t with ([] ++ t). constructor; [apply MAltR; constructor | apply any_star].
Qed.
