(** C14: a condition line that is an and-or list is decided by the status of its LAST EXECUTED
    pipeline (C03's reference semantics), not by "every result is 0". *)
From Cicada Require Import Base.Chars Model.Cmds Model.ListExec Model.Script Model.CondLine
  Proofs.ListExecProofs Proofs.CmdsProofs.
From Coq Require Import ZArith Lia.

Section Cond.
Variable W : Type.
Variable run : W -> str -> W * Z.

Lemma last_status_snoc l x : last_status (l ++ [x]) = Some x.
Proof.
  induction l as [|a l IH]; [reflexivity|]. cbn [app].
  assert (H : l ++ [x] <> []) by (destruct l; discriminate).
  destruct (l ++ [x]) as [|y r] eqn:E; [congruence|]. exact IH.
Qed.

(** in the reference semantics the running status is the status of the last executed pipeline *)
Lemma ref_tail_last : forall t w st ran,
  last_status (map snd ran) = Some st ->
  let '(_, st', ran') := ref_tail W run w st ran t in last_status (map snd ran') = Some st'.
Proof.
  induction t as [|[o p] t IH]; intros w st ran H; cbn [ref_tail]; [exact H|].
  destruct (runs o st).
  - destruct (run w p) as [w' st1]. apply IH. rewrite map_app. cbn [map snd]. apply last_status_snoc.
  - apply IH, H.
Qed.

Lemma ref_exec_last w p :
  let '(_, st, ran) := ref_exec W run w p in last_status (map snd ran) = Some st.
Proof. unfold ref_exec. destruct (run w (fst p)) as [w' st]. apply ref_tail_last. reflexivity. Qed.

(** the condition test of run_exp_test_br on a well-formed and-or list *)
Theorem cond_list_last w ws0 seg0 items ws_end :
  forallb is_ws ws0 = true -> wf_seg seg0 = true -> forallb wf_item items = true -> forallb is_ws ws_end = true ->
  last_is_zero (snd (run_line_of W run w (render_line ws0 seg0 items ws_end))) =
  (let '(_, st, _) := ref_exec W run w (prog_of seg0 items) in Z.eqb st 0) /\
  fst (run_line_of W run w (render_line ws0 seg0 items ws_end)) =
  (let '(w1, _, _) := ref_exec W run w (prog_of seg0 items) in w1).
Proof.
  intros H0 Hs Hi He.
  pose proof (run_command_line_ref W run w ws0 seg0 items ws_end H0 Hs Hi He) as R.
  pose proof (ref_exec_last w (prog_of seg0 items)) as L.
  unfold run_line_of. cbn [fst snd]. unfold obs in R.
  destruct (ref_exec W run w (prog_of seg0 items)) as [[w1 st] ran].
  injection R as R1 R2 R3. rewrite R3, R1. unfold last_is_zero. rewrite L. split; reflexivity.
Qed.
End Cond.
