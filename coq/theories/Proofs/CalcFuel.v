(** The parse fuel of the PEG model of the calculator grammar suffices on EVERY
    input: every successful sub-parser consumes input (a term at least one
    character, an operator-term iteration at least two), so the recursion depth
    of [p_expr] on a text of length n is at most 2n+3; [parse_fuel] is 4n+8.
    Also: more fuel never changes a result that is not out-of-fuel. *)
From Coq Require Import Lia.
From Cicada Require Import Base.Chars Model.Calc Proofs.CalcPratt Proofs.CalcWf.
Local Open Scope N_scope.

Lemma skip_ws_len s : (length (skip_ws s) <= length s)%nat.
Proof.
  induction s as [|c r IH]; [apply le_n|]. cbn [skip_ws].
  destruct ((c =? 32) || (c =? 9)); cbn [length]; lia.
Qed.

Lemma take_digits_len s : (length (snd (take_digits s)) <= length s)%nat.
Proof.
  induction s as [|c r IH]; [apply le_n|]. cbn [take_digits].
  destruct (is_digit c); [|cbn; lia].
  destruct (take_digits r) as [d r']. cbn [snd length] in *. lia.
Qed.

Lemma take_digits_len2 s d r : take_digits s = (d, r) -> (length d + length r = length s)%nat.
Proof.
  revert d r. induction s as [|c s IH]; intros d r; cbn [take_digits].
  - intros H. injection H as <- <-. reflexivity.
  - destruct (is_digit c).
    + destruct (take_digits s) as [d' r'] eqn:E. intros H. injection H as <- <-.
      specialize (IH _ _ eq_refl). cbn [length]. lia.
    + intros H. injection H as <- <-. reflexivity.
Qed.

Lemma p_int_len s t r : p_int s = Some (t, r) -> (length r < length s)%nat.
Proof.
  unfold p_int.
  destruct s as [|c s0].
  - cbn. discriminate.
  - destruct ((c =? 43) || (c =? 45)).
    + destruct (take_digits s0) as [ds s2] eqn:E. apply take_digits_len2 in E.
      destruct ds as [|d0 ds]; [discriminate|]. intros H. injection H as <- <-. cbn [length] in *. lia.
    + destruct (take_digits (c :: s0)) as [ds s2] eqn:E. apply take_digits_len2 in E.
      destruct ds as [|d0 ds]; [discriminate|]. intros H. injection H as <- <-. cbn [length] in *. lia.
Qed.

(** the optional exponent part never gives input back *)
Lemma p_num_len s t r : p_num s = Some (t, r) -> (length r < length s)%nat.
Proof.
  unfold p_num. destruct (p_int s) as [[t1 s1]|] eqn:E; [|discriminate].
  apply p_int_len in E.
  assert (X : forall (t2 s2 : str), (length s2 <= length s1)%nat ->
            (let '(t3, s3) := match s2 with
                     | c :: r => if (c =? 101) || (c =? 69) then
                                   match p_int r with
                                   | Some (ti, r') => (c :: ti, r')
                                   | None => ([], s2)
                                   end
                                 else ([], s2)
                     | [] => ([], s2)
                     end in Some (t1 ++ t2 ++ t3, s3)) = Some (t, r) -> (length r < length s)%nat).
  { intros t2 s2 Hl. destruct s2 as [|c r2].
    - intros H. injection H as <- <-. lia.
    - destruct ((c =? 101) || (c =? 69)).
      + destruct (p_int r2) as [[ti r']|] eqn:Ei.
        * apply p_int_len in Ei. intros H. injection H as <- <-. cbn [length] in *. lia.
        * intros H. injection H as <- <-. lia.
      + intros H. injection H as <- <-. lia. }
  destruct s1 as [|c r1].
  - apply (X [] []). apply le_n.
  - destruct (c =? 46).
    + destruct (take_digits r1) as [ds r'] eqn:Et. apply take_digits_len2 in Et.
      apply (X (c :: ds) r'). cbn [length]. lia.
    + apply (X [] (c :: r1)). apply le_n.
Qed.

Lemma p_op_len s o r : p_op s = Some (o, r) -> length s = S (length r).
Proof.
  destruct s as [|c s0]; [discriminate|]. cbn [p_op].
  destruct (c =? 43); [intros H; injection H as <- <-; reflexivity|].
  destruct (c =? 45); [intros H; injection H as <- <-; reflexivity|].
  destruct (c =? 42); [intros H; injection H as <- <-; reflexivity|].
  destruct (c =? 47); [intros H; injection H as <- <-; reflexivity|].
  destruct (c =? 94); [intros H; injection H as <- <-; reflexivity|discriminate].
Qed.

(** every successful sub-parser consumes input *)
Lemma parser_len f :
  (forall s ps s', p_expr f s = POk (ps, s') -> (length s' < length s)%nat) /\
  (forall acc s ps s', p_rep f acc s = POk (ps, s') -> (length s' <= length s)%nat) /\
  (forall s o t s', p_iter f s = POk (o, t, s') -> (length s' + 2 <= length s)%nat) /\
  (forall s t s', p_term f s = POk (t, s') -> (length s' < length s)%nat).
Proof.
  induction f as [|f (IHe & IHr & IHi & IHt)]; [repeat split; intros; discriminate|].
  repeat split.
  - intros s ps s'. rewrite p_expr_S. destruct (p_term f s) as [[t s1]| |] eqn:Et; try discriminate.
    cbn [pbind]. apply IHt in Et. pose proof (skip_ws_len s1) as Hk.
    destruct (p_iter f (skip_ws s1)) as [[[o t'] s3]| |] eqn:Ei; try discriminate.
    + apply IHi in Ei. intros H. apply IHr in H. lia.
    + intros H. injection H as <- <-. lia.
  - intros acc s ps s'. rewrite p_rep_S. pose proof (skip_ws_len s) as Hk.
    destruct (p_iter f (skip_ws s)) as [[[o t'] s3]| |] eqn:Ei; try discriminate.
    + apply IHi in Ei. intros H. apply IHr in H. lia.
    + intros H. injection H as <- <-. lia.
  - intros s o t s'. rewrite p_iter_S. destruct (p_op s) as [[o' s1]|] eqn:Eo; [|discriminate].
    apply p_op_len in Eo. pose proof (skip_ws_len s1) as Hk.
    destruct (p_term f (skip_ws s1)) as [[t' s2]| |] eqn:Et; try discriminate.
    cbn [pbind]. apply IHt in Et. intros H. injection H as <- <- <-. lia.
  - intros s t s'. rewrite p_term_S. destruct (p_num s) as [[n r]|] eqn:En.
    + apply p_num_len in En. intros H. injection H as <- <-. exact En.
    + destruct s as [|c r]; [discriminate|]. destruct (c =? 40); [|discriminate].
      pose proof (skip_ws_len r) as Hk.
      destruct (p_expr f (skip_ws r)) as [[inner s1]| |] eqn:Ee; try discriminate.
      cbn [pbind]. apply IHe in Ee. pose proof (skip_ws_len s1) as Hk1.
      destruct (skip_ws s1) as [|c' r']; [discriminate|].
      destruct (c' =? 41); [|discriminate]. intros H. injection H as <- <-.
      cbn [length] in *. lia.
Qed.

(** fuel 2n+3 is enough for [p_expr] on a text of length n (2n+2 for a term or
    a repetition tail, 2n+1 for one iteration) *)
Lemma parser_nofuel f :
  (forall s, (2 * length s + 3 <= f)%nat -> p_expr f s <> PFuel) /\
  (forall acc s, (2 * length s + 2 <= f)%nat -> p_rep f acc s <> PFuel) /\
  (forall s, (2 * length s + 1 <= f)%nat -> p_iter f s <> PFuel) /\
  (forall s, (2 * length s + 2 <= f)%nat -> p_term f s <> PFuel).
Proof.
  induction f as [|f (IHe & IHr & IHi & IHt)]; [repeat split; intros; lia|].
  destruct (parser_len f) as (Le & Lr & Li & Lt).
  repeat split.
  - intros s Hf. rewrite p_expr_S. destruct (p_term f s) as [[t s1]| |] eqn:Et.
    + cbn [pbind]. apply Lt in Et. pose proof (skip_ws_len s1) as Hk.
      destruct (p_iter f (skip_ws s1)) as [[[o t'] s3]| |] eqn:Ei.
      * apply Li in Ei. apply IHr. lia.
      * discriminate.
      * exfalso. apply (IHi (skip_ws s1)); [lia|exact Ei].
    + discriminate.
    + exfalso. apply (IHt s); [lia|exact Et].
  - intros acc s Hf. rewrite p_rep_S. pose proof (skip_ws_len s) as Hk.
    destruct (p_iter f (skip_ws s)) as [[[o t'] s3]| |] eqn:Ei.
    + apply Li in Ei. apply IHr. lia.
    + discriminate.
    + exfalso. apply (IHi (skip_ws s)); [lia|exact Ei].
  - intros s Hf. rewrite p_iter_S. destruct (p_op s) as [[o' s1]|] eqn:Eo; [|discriminate].
    apply p_op_len in Eo. pose proof (skip_ws_len s1) as Hk.
    destruct (p_term f (skip_ws s1)) as [[t' s2]| |] eqn:Et; cbn [pbind]; try discriminate.
    exfalso. apply (IHt (skip_ws s1)); [lia|exact Et].
  - intros s Hf. rewrite p_term_S. destruct (p_num s) as [[n r]|]; [discriminate|].
    destruct s as [|c r]; [discriminate|]. destruct (c =? 40); [|discriminate].
    pose proof (skip_ws_len r) as Hk. cbn [length] in Hf.
    destruct (p_expr f (skip_ws r)) as [[inner s1]| |] eqn:Ee; cbn [pbind].
    + destruct (skip_ws s1) as [|c' r']; [discriminate|]. destruct (c' =? 41); discriminate.
    + discriminate.
    + exfalso. apply (IHe (skip_ws r)); [lia|exact Ee].
Qed.

Theorem p_expr_fuel_suffices (s : str) (fuel : nat) :
  (2 * length s + 3 <= fuel)%nat -> p_expr fuel s <> PFuel.
Proof. exact (proj1 (parser_nofuel fuel) s). Qed.

Theorem parse_calc_nofuel (line : str) : parse_calc line <> PFuel.
Proof.
  unfold parse_calc. pose proof (skip_ws_len line) as Hk.
  destruct (p_expr (parse_fuel line) (skip_ws line)) as [[ps s1]| |] eqn:E; cbn [pbind].
  - destruct (skip_ws s1); discriminate.
  - discriminate.
  - exfalso. apply (p_expr_fuel_suffices (skip_ws line) (parse_fuel line)); [unfold parse_fuel; lia|exact E].
Qed.

Theorem run_calculator_nofuel (line : str) : run_calculator line <> RFuel.
Proof.
  unfold run_calculator. pose proof (parse_calc_nofuel line) as H.
  destruct (parse_calc line); [destruct (has_dot line); discriminate|discriminate|contradiction].
Qed.

(* ------------------------------------------------------------------ *)
(** * More fuel does not change a result *)

Lemma parser_mono f :
  (forall s r, p_expr f s = r -> r <> PFuel -> p_expr (S f) s = r) /\
  (forall acc s r, p_rep f acc s = r -> r <> PFuel -> p_rep (S f) acc s = r) /\
  (forall s r, p_iter f s = r -> r <> PFuel -> p_iter (S f) s = r) /\
  (forall s r, p_term f s = r -> r <> PFuel -> p_term (S f) s = r).
Proof.
  induction f as [|f (IHe & IHr & IHi & IHt)].
  { repeat split; intros; subst; cbn in *; congruence. }
  repeat split.
  - intros s r. rewrite (p_expr_S (S f)), (p_expr_S f).
    destruct (p_term f s) as [[t s1]| |] eqn:Et; cbn [pbind].
    + rewrite (IHt _ _ Et) by discriminate. cbn [pbind].
      destruct (p_iter f (skip_ws s1)) as [[[o t'] s3]| |] eqn:Ei.
      * rewrite (IHi _ _ Ei) by discriminate. intros H Hn. exact (IHr _ _ _ H Hn).
      * rewrite (IHi _ _ Ei) by discriminate. intros H _. exact H.
      * intros <- Hn. contradiction.
    + rewrite (IHt _ _ Et) by discriminate. intros H _. exact H.
    + intros <- Hn. contradiction.
  - intros acc s r. rewrite (p_rep_S (S f)), (p_rep_S f).
    destruct (p_iter f (skip_ws s)) as [[[o t'] s3]| |] eqn:Ei.
    + rewrite (IHi _ _ Ei) by discriminate. intros H Hn. exact (IHr _ _ _ H Hn).
    + rewrite (IHi _ _ Ei) by discriminate. intros H _. exact H.
    + intros <- Hn. contradiction.
  - intros s r. rewrite (p_iter_S (S f)), (p_iter_S f).
    destruct (p_op s) as [[o' s1]|]; [|intros H _; exact H].
    destruct (p_term f (skip_ws s1)) as [[t' s2]| |] eqn:Et; cbn [pbind].
    + rewrite (IHt _ _ Et) by discriminate. intros H _. exact H.
    + rewrite (IHt _ _ Et) by discriminate. intros H _. exact H.
    + intros <- Hn. contradiction.
  - intros s r. rewrite (p_term_S (S f)), (p_term_S f).
    destruct (p_num s) as [[n r0]|]; [intros H _; exact H|].
    destruct s as [|c r0]; [intros H _; exact H|]. destruct (c =? 40); [|intros H _; exact H].
    destruct (p_expr f (skip_ws r0)) as [[inner s1]| |] eqn:Ee; cbn [pbind].
    + rewrite (IHe _ _ Ee) by discriminate. intros H _. exact H.
    + rewrite (IHe _ _ Ee) by discriminate. intros H _. exact H.
    + intros <- Hn. contradiction.
Qed.

Lemma p_expr_mono_le f f' s r : (f <= f')%nat -> p_expr f s = r -> r <> PFuel -> p_expr f' s = r.
Proof.
  intros Hle. induction Hle as [|m Hm IH]; [auto|].
  intros H Hn. apply (proj1 (parser_mono m)); [apply IH; assumption|exact Hn].
Qed.

(** with any fuel of at least 2n+3 the result is the one [parse_calc] computes with its own fuel *)
Theorem p_expr_any_fuel (s : str) (f1 f2 : nat) :
  (2 * length s + 3 <= f1)%nat -> (2 * length s + 3 <= f2)%nat -> p_expr f1 s = p_expr f2 s.
Proof.
  intros H1 H2.
  pose proof (p_expr_fuel_suffices s (2 * length s + 3) (le_n _)) as Hn.
  rewrite (p_expr_mono_le _ f1 s _ H1 eq_refl Hn).
  rewrite (p_expr_mono_le _ f2 s _ H2 eq_refl Hn). reflexivity.
Qed.
