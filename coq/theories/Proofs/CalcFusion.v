(** Evaluating while parsing (what the closures of eval_int do inside the
    Pratt parser) equals folding the tree the parser builds: post-order, left to
    right, the first panic wins. Generic in value type and table. *)
From Cicada Require Import Base.Chars Model.Calc.
Local Open Scope N_scope.

Lemma bind_assoc {A B C} (r : res A) (f : A -> res B) (g : B -> res C) :
  bind (bind r f) g = bind r (fun a => bind (f a) g).
Proof. destruct r; reflexivity. Qed.

Lemma bind_ext {A B} (r : res A) (f g : A -> res B) : (forall a, f a = g a) -> bind r f = bind r g.
Proof. intros H. destruct r; cbn; auto. Qed.

Section Fusion.
  Variable L T : Type.
  Variable prec : op -> N.
  Variable left : op -> bool.
  Variable prim_num : L -> res T.
  Variable infix : T -> op -> T -> res T.

  Fixpoint fold (t : tree L) : res T :=
    match t with
    | Leaf l => prim_num l
    | Node o a b => bind (fold a) (fun x => bind (fold b) (fun y => infix x o y))
    end.

  Notation exprT := (expr (L := L) (T := tree L) prec left (fun l => Ok (Leaf l)) (fun a o b => Ok (Node o a b))).
  Notation loopT := (loop (L := L) (T := tree L) prec left (fun l => Ok (Leaf l)) (fun a o b => Ok (Node o a b))).
  Notation exprG := (expr (L := L) (T := T) prec left prim_num infix).
  Notation loopG := (loop (L := L) (T := T) prec left prim_num infix).

  Lemma exprT_S f ps rbp :
    exprT (S f) ps rbp =
    match ps with
    | [] => Panic SStruct
    | POp _ :: _ => Panic SStruct
    | PNum l :: ps1 => bind (Ok (Leaf l)) (fun lhs => loopT f lhs ps1 rbp)
    | PExpr inner :: ps1 =>
      bind (bind (exprT f inner 0) (fun '(v, _) => Ok v)) (fun lhs => loopT f lhs ps1 rbp)
    end.
  Proof. reflexivity. Qed.
  Lemma exprG_S f ps rbp :
    exprG (S f) ps rbp =
    match ps with
    | [] => Panic SStruct
    | POp _ :: _ => Panic SStruct
    | PNum l :: ps1 => bind (prim_num l) (fun lhs => loopG f lhs ps1 rbp)
    | PExpr inner :: ps1 =>
      bind (bind (exprG f inner 0) (fun '(v, _) => Ok v)) (fun lhs => loopG f lhs ps1 rbp)
    end.
  Proof. reflexivity. Qed.
  Lemma loopT_S f lhs ps rbp :
    loopT (S f) lhs ps rbp =
    match ps with
    | [] => Ok (lhs, [])
    | POp o :: ps1 =>
      if rbp <? prec o then
        bind (exprT f ps1 (rb prec left o)) (fun '(rhs, ps2) =>
        bind (Ok (Node o lhs rhs)) (fun v => loopT f v ps2 rbp))
      else Ok (lhs, ps)
    | _ :: _ => Panic SStruct
    end.
  Proof. reflexivity. Qed.
  Lemma loopG_S f lhs ps rbp :
    loopG (S f) lhs ps rbp =
    match ps with
    | [] => Ok (lhs, [])
    | POp o :: ps1 =>
      if rbp <? prec o then
        bind (exprG f ps1 (rb prec left o)) (fun '(rhs, ps2) =>
        bind (infix lhs o rhs) (fun v => loopG f v ps2 rbp))
      else Ok (lhs, ps)
    | _ :: _ => Panic SStruct
    end.
  Proof. reflexivity. Qed.

  Lemma fusion fuel :
    (forall ps rbp t rest, exprT fuel ps rbp = Ok (t, rest) ->
       exprG fuel ps rbp = bind (fold t) (fun v => Ok (v, rest))) /\
    (forall lt ps rbp t rest, loopT fuel lt ps rbp = Ok (t, rest) ->
       bind (fold lt) (fun lv => loopG fuel lv ps rbp) = bind (fold t) (fun v => Ok (v, rest))).
  Proof.
    induction fuel as [|f [IHe IHl]]; [split; intros; discriminate|]. split.
    - intros ps rbp t rest. rewrite exprT_S, exprG_S.
      destruct ps as [|[l|inner|o] ps1]; try discriminate.
      + cbn [bind]. intros H. apply (IHl (Leaf l)) in H. exact H.
      + destruct (exprT f inner 0) as [[ti ri]| |] eqn:Ei; try discriminate.
        cbn [bind]. intros H. rewrite (IHe _ _ _ _ Ei).
        apply (IHl ti) in H. rewrite <- H.
        destruct (fold ti); reflexivity.
    - intros lt ps rbp t rest. rewrite loopT_S.
      destruct ps as [|[l|inner|o] ps1]; try discriminate.
      + intros H. injection H as <- <-. apply bind_ext. intros a. rewrite loopG_S. reflexivity.
      + destruct (rbp <? prec o) eqn:C.
        * destruct (exprT f ps1 (rb prec left o)) as [[rt ps2]| |] eqn:Er; try discriminate.
          cbn [bind]. intros H. apply (IHl (Node o lt rt)) in H. rewrite <- H.
          cbn [fold]. rewrite !bind_assoc. apply bind_ext. intros lv.
          rewrite loopG_S, C. rewrite (IHe _ _ _ _ Er). rewrite !bind_assoc. cbn [bind].
          rewrite ?bind_assoc. reflexivity.
        * intros H. injection H as <- <-. apply bind_ext. intros a. rewrite loopG_S, C. reflexivity.
  Qed.

  Theorem pratt_fold fuel ps t :
    pratt prec left (fun l => Ok (Leaf l)) (fun a o b => Ok (Node o a b)) fuel ps = Ok t ->
    pratt prec left prim_num infix fuel ps = fold t.
  Proof.
    unfold pratt. destruct (exprT fuel ps 0) as [[t' rest]| |] eqn:E; try discriminate.
    cbn [bind]. intros H. injection H as <-.
    rewrite (proj1 (fusion fuel) _ _ _ _ E). rewrite bind_assoc. cbn [bind].
    destruct (fold t'); reflexivity.
  Qed.
End Fusion.
Arguments fold {L T} prim_num infix t.
