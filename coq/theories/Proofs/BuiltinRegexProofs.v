(** Matchers of Model/Vars.v against the regexes of read.rs, export.rs and execute.rs (drain_env_tokens), as
    regenerated from the source on every run (Gen/BuiltinRegexes.v). For export.rs / execute.rs the model
    ([split_env_strict]) also returns the two captured groups; the yes/no decision ([is_env]) is what is tied. Round 9. *)
From Coq Require Import List NArith Bool Lia.
From Cicada Require Import Base.Chars Base.Regex Gen.BuiltinRegexes Model.Vars Proofs.RegexCalc Proofs.RegexClasses
  Proofs.ToolsRegexProofs.
Import ListNotations.
Local Open Scope N_scope.

Lemma forallb_alnum_us s : forallb (in_cs false [(97, 122); (65, 90); (48, 57); (95, 95)]) s = forallb is_alnum_us s.
Proof. induction s as [|c t IH]; [reflexivity|]. cbn [forallb]. rewrite IH, cls_alnum_us_lower_first. reflexivity. Qed.

Theorem valid_ident_is_source_regex s : valid_ident s = rx_search rx_read_ident s.
Proof.
  unfold rx_read_ident. rewrite rc_anchored, rc_Cat_Chr. destruct s as [|c t]; [reflexivity|].
  rewrite rc_Star_Chr, forallb_alnum_us, cls_ident_head_lower_first. reflexivity.
Qed.

Lemma is_env_grouped s :
  is_env s = matchb (Cat (Cat (Chr false [(97, 122); (65, 90); (95, 95)]) (Star (Chr false [(97, 122); (65, 90); (48, 57); (95, 95)])))
                         (Cat (Chr false [(61, 61)]) (Star (Chr true [])))) s.
Proof.
  rewrite rc_Cat_assoc, rc_Cat_Chr.
  unfold is_env, split_env_strict. destruct s as [|c t]; [reflexivity|].
  rewrite name_eq_rest_any, cls_ident_head_lower_first. unfold eq_after_name, split_env_loose.
  cbn [span_name]. destruct (is_digit c) eqn:D; [reflexivity|]. cbn [negb andb].
  destruct (is_alnum_us c) eqn:A.
  - destruct (span_name t) as [a b]. cbn [snd]. destruct b as [|d v]; [reflexivity|].
    change c_eq with 61. destruct (d =? 61); reflexivity.
  - reflexivity.
Qed.

Theorem export_name_is_source_regex s :
  (match split_env_strict s with Some _ => true | None => false end) = rx_search rx_export_name s.
Proof. unfold rx_export_name. rewrite rc_anchored. exact (is_env_grouped s). Qed.
Theorem exec_env_is_source_regex s :
  (match split_env_strict s with Some _ => true | None => false end) = rx_search rx_exec_env s.
Proof. unfold rx_exec_env. rewrite rc_anchored. exact (is_env_grouped s). Qed.
