(** The candidates complete_path offers for a word whose last token is a plain
    file-name prefix (no directory part, no bar, no home / environment form):
    exactly the entries of the current directory that start with the prefix
    (directories only for the cd completer), each rendered by [comp_of],
    in sorted order. *)
From Cicada Require Import Base.Chars Base.Tag Model.Tokenizer Model.Redirect Model.Complete.
From Coq Require Import Sorting.Permutation.
Local Open Scope N_scope.

Lemma insert_comp_perm c l : Permutation (insert_comp c l) (c :: l).
Proof.
  induction l as [|x l IH]; [apply Permutation_refl|]. cbn [insert_comp].
  destruct (str_leb (cp_text c) (cp_text x)); [apply Permutation_refl|].
  eapply Permutation_trans; [apply perm_skip, IH|apply perm_swap].
Qed.

Lemma sort_comps_perm l : Permutation (sort_comps l) l.
Proof.
  induction l as [|x l IH]; [apply Permutation_refl|]. unfold sort_comps in *. cbn [fold_right].
  eapply Permutation_trans; [apply insert_comp_perm|now apply perm_skip].
Qed.

(** adjacent elements of the result are in order *)
Fixpoint sorted_comps (l : list completion) : bool :=
  match l with
  | a :: ((b :: _) as r) => str_leb (cp_text a) (cp_text b) && sorted_comps r
  | _ => true
  end.

Lemma str_leb_total a : forall b, str_leb a b = false -> str_leb b a = true.
Proof.
  induction a as [|x a IH]; intros [|y b]; cbn; try congruence.
  destruct (N.ltb_spec x y); [congruence|]. destruct (N.ltb_spec y x); [reflexivity|]. apply IH.
Qed.

Lemma sorted_cons a b r : sorted_comps (a :: b :: r) = str_leb (cp_text a) (cp_text b) && sorted_comps (b :: r).
Proof. reflexivity. Qed.

Lemma insert_comp_sorted c l : sorted_comps l = true -> sorted_comps (insert_comp c l) = true.
Proof.
  induction l as [|x l IH]; [reflexivity|]. intros Hs. cbn [insert_comp].
  destruct (str_leb (cp_text c) (cp_text x)) eqn:E.
  - rewrite sorted_cons, E, Hs. reflexivity.
  - apply str_leb_total in E. destruct l as [|y l].
    + cbn [insert_comp]. rewrite sorted_cons, E. reflexivity.
    + rewrite sorted_cons in Hs. apply andb_true_iff in Hs as [Hxy Hr]. specialize (IH Hr).
      cbn [insert_comp] in *. destruct (str_leb (cp_text c) (cp_text y)) eqn:E2.
      * rewrite sorted_cons, E, IH. reflexivity.
      * rewrite sorted_cons, Hxy, IH. reflexivity.
Qed.

Lemma sort_comps_sorted l : sorted_comps (sort_comps l) = true.
Proof.
  induction l as [|x l IH]; [reflexivity|]. unfold sort_comps in *. cbn [fold_right]. now apply insert_comp_sorted.
Qed.

Lemma split_dir_file_plain p : has_char c_slash p = false -> split_dir_file p = ([], p).
Proof. unfold split_dir_file. now intros ->. Qed.

Theorem candidates_exact fs getenv word for_dir sep pfx entries :
  last_token (parse_line word) = (sep, pfx) ->
  has_char c_slash pfx = false -> has_char c_pipe pfx = false ->
  needs_expand_home pfx = false -> starts_with_c c_dollar pfx = false ->
  fs [c_dot] = Some entries ->
  exists l, complete_path fs getenv word for_dir = COk l /\
    sorted_comps l = true /\
    Permutation l (map (fun e => comp_of [] sep (is_env_prefix word) (fst e, entry_is_dir e))
                       (filter (fun e => (negb for_dir || entry_is_dir e) && starts_with (fst e) pfx) entries)).
Proof.
  intros Ht Hs Hp Hh Hd Hfs. unfold complete_path. rewrite Ht.
  assert (Esp : split_pathname pfx = ([], pfx)).
  { unfold split_pathname, is_pipelined. rewrite Hp. cbn [andb]. now apply split_dir_file_plain. }
  rewrite Esp, Hh.
  assert (Eenv : expand_env_string getenv pfx = EnvText pfx).
  { unfold expand_env_string. destruct pfx as [|d [|n r]]; try reflexivity.
    cbn [starts_with_c] in Hd. rewrite Hd. reflexivity. }
  rewrite Eenv, Esp. cbn [is_empty]. rewrite Hfs.
  eexists. split; [reflexivity|]. split; [apply sort_comps_sorted|apply sort_comps_perm].
Qed.

(** an entry that is a directory THROUGH a symbolic link is offered like a directory, also to the
    cd completer, with the directory suffix *)
Corollary dir_entry_offered fs getenv word for_dir sep pfx entries e :
  last_token (parse_line word) = (sep, pfx) ->
  has_char c_slash pfx = false -> has_char c_pipe pfx = false ->
  needs_expand_home pfx = false -> starts_with_c c_dollar pfx = false ->
  fs [c_dot] = Some entries ->
  In e entries -> entry_is_dir e = true -> starts_with (fst e) pfx = true ->
  exists l c, complete_path fs getenv word for_dir = COk l /\ In c l /\ cp_dir c = true /\
              c = comp_of [] sep (is_env_prefix word) (fst e, true).
Proof.
  intros Ht Hs Hp Hh Hd Hfs Hin Hdir Hpre.
  destruct (candidates_exact fs getenv word for_dir sep pfx entries Ht Hs Hp Hh Hd Hfs) as (l & E & _ & P).
  exists l, (comp_of [] sep (is_env_prefix word) (fst e, true)). split; [exact E|]. split.
  - apply (Permutation_in _ (Permutation_sym P)).
    rewrite <- Hdir. apply (in_map (fun e0 => comp_of [] sep (is_env_prefix word) (fst e0, entry_is_dir e0))).
    apply filter_In. split; [exact Hin|]. now rewrite Hdir, Hpre, orb_true_r.
  - split; [|reflexivity]. unfold comp_of. cbn [cp_dir]. reflexivity.
Qed.

Example link_to_dir_is_dir : entry_is_dir ([108], ELinkDir) = true /\ entry_is_dir ([108], ELinkFile) = false /\
                             entry_is_dir ([108], ELinkDangling) = false.
Proof. repeat split. Qed.
