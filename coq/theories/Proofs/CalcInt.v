(** eval_int against the reference evaluator: wrap-around i64 arithmetic,
    division truncating toward zero, exact powers (wrapped). *)
From Coq Require Import ZArith Lia Zpow_facts.
From Cicada Require Import Base.Chars Model.Calc Proofs.CalcFusion.
Local Open Scope Z_scope.

(* ------------------------------------------------------------------ *)
(** * wrap64 *)

Lemma in_i64_iff z : in_i64 z = true <-> - 2 ^ 63 <= z <= 2 ^ 63 - 1.
Proof. unfold in_i64, i64_min, i64_max. rewrite andb_true_iff, !Z.leb_le. reflexivity. Qed.

Lemma wrap64_id z : in_i64 z = true -> wrap64 z = z.
Proof. rewrite in_i64_iff. intros H. unfold wrap64. rewrite Z.mod_small; lia. Qed.

Lemma wrap64_range z : in_i64 (wrap64 z) = true.
Proof.
  rewrite in_i64_iff. unfold wrap64.
  pose proof (Z.mod_pos_bound (z + 2 ^ 63) (2 ^ 64) ltac:(lia)). lia.
Qed.

Lemma wrap64_eqm x y : x mod 2 ^ 64 = y mod 2 ^ 64 -> wrap64 x = wrap64 y.
Proof.
  intros H. unfold wrap64. f_equal.
  rewrite (Z.add_mod x), (Z.add_mod y), H by lia. reflexivity.
Qed.

Lemma wrap64_mod x : wrap64 x mod 2 ^ 64 = x mod 2 ^ 64.
Proof.
  unfold wrap64. rewrite Zminus_mod, Z.mod_mod by lia. rewrite <- Zminus_mod.
  f_equal. lia.
Qed.

Lemma wrap64_mul x y : wrap64 (wrap64 x * wrap64 y) = wrap64 (x * y).
Proof.
  apply wrap64_eqm. rewrite Z.mul_mod, !wrap64_mod by lia. rewrite <- Z.mul_mod by lia. reflexivity.
Qed.

Lemma wrap64_mul_pow a b k :
  0 <= k -> wrap64 (wrap64 a * wrap64 b ^ k) = wrap64 (a * b ^ k).
Proof.
  intros Hk. apply wrap64_eqm.
  rewrite Z.mul_mod, wrap64_mod by lia.
  rewrite (Zpower_mod (wrap64 b)), wrap64_mod, <- Zpower_mod by lia.
  rewrite <- Z.mul_mod by lia. reflexivity.
Qed.

Lemma wrap64_mul_pow_r a b k : wrap64 (a * wrap64 b ^ k) = wrap64 (a * b ^ k).
Proof.
  apply wrap64_eqm.
  rewrite Z.mul_mod by lia.
  rewrite (Zpower_mod (wrap64 b)), wrap64_mod, <- Zpower_mod by lia.
  rewrite <- Z.mul_mod by lia. reflexivity.
Qed.

(* ------------------------------------------------------------------ *)
(** * wrapping_pow *)

Lemma pow_split_odd base e : 0 < e -> Z.odd e = true -> base ^ e = base * (base * base) ^ (e / 2).
Proof.
  intros He Ho. rewrite (Zdiv2_odd_eqn e) at 1. rewrite Ho, <- Z.div2_div.
  assert (0 <= Z.div2 e) by (rewrite Z.div2_div; apply Z.div_pos; lia).
  rewrite Z.pow_add_r, Z.pow_1_r, Z.pow_mul_r by lia.
  replace (base ^ 2) with (base * base) by lia. lia.
Qed.

Lemma pow_split_even base e : 0 < e -> Z.odd e = false -> base ^ e = (base * base) ^ (e / 2).
Proof.
  intros He Ho. rewrite (Zdiv2_odd_eqn e) at 1. rewrite Ho, <- Z.div2_div.
  assert (0 <= Z.div2 e) by (rewrite Z.div2_div; apply Z.div_pos; lia).
  rewrite Z.add_0_r, Z.pow_mul_r by lia.
  replace (base ^ 2) with (base * base) by lia. reflexivity.
Qed.

Lemma half_pos_even e : 0 < e -> Z.odd e = false -> 0 < e / 2.
Proof.
  intros He Ho. pose proof (Zdiv2_odd_eqn e) as E. rewrite Ho, <- Z.div2_div in *. lia.
Qed.

Lemma half_pos_odd e : 0 < e -> Z.odd e = true -> e <> 1 -> 0 < e / 2.
Proof.
  intros He Ho H1. pose proof (Zdiv2_odd_eqn e) as E. rewrite Ho, <- Z.div2_div in *. lia.
Qed.

Lemma half_lt e n : 0 < e -> e < 2 ^ Z.of_nat (S n) -> e / 2 < 2 ^ Z.of_nat n.
Proof.
  intros He H. rewrite Nat2Z.inj_succ, Z.pow_succ_r in H by lia.
  apply Z.div_lt_upper_bound; lia.
Qed.

Lemma div2_nonneg e : 0 <= e -> 0 <= e / 2.
Proof. intros. apply Z.div_pos; lia. Qed.

Lemma half_lt' e n : 0 <= e -> e < 2 ^ Z.of_nat (S n) -> e / 2 < 2 ^ Z.of_nat n.
Proof.
  intros He H. rewrite Nat2Z.inj_succ, Z.pow_succ_r in H by lia.
  apply Z.div_lt_upper_bound; lia.
Qed.

Lemma wpow_S f base exp acc :
  wpow_loop (S f) base exp acc =
  if 0 <? exp then wpow_loop f (wrap64 (base * base)) (exp / 2) (if Z.odd exp then wrap64 (acc * base) else acc)
  else Ok acc.
Proof. reflexivity. Qed.

(** square and multiply with wrapping multiplications is the exact power, wrapped *)
Lemma wpow_loop_ok f : forall base exp acc,
  0 <= exp < 2 ^ Z.of_nat f -> in_i64 acc = true ->
  wpow_loop (S f) base exp acc = Ok (wrap64 (acc * base ^ exp)).
Proof.
  induction f as [|f IH]; intros base exp acc He Ha.
  - assert (exp = 0) as -> by (cbn in He; lia). cbn. rewrite Z.mul_1_r, wrap64_id by exact Ha. reflexivity.
  - rewrite wpow_S. destruct (Z.ltb_spec 0 exp) as [Hp|Hz].
    + destruct (Z.odd exp) eqn:Ho.
      * rewrite IH; [| split; [apply div2_nonneg; lia | apply half_lt'; lia] | apply wrap64_range].
        f_equal. rewrite (pow_split_odd base exp Hp Ho).
        rewrite wrap64_mul_pow by (apply div2_nonneg; lia). f_equal. lia.
      * rewrite IH; [| split; [apply div2_nonneg; lia | apply half_lt'; lia] | exact Ha].
        f_equal. rewrite (pow_split_even base exp Hp Ho). apply wrap64_mul_pow_r.
    + assert (exp = 0) as -> by lia. rewrite Z.pow_0_r, Z.mul_1_r, wrap64_id by exact Ha. reflexivity.
Qed.

Theorem wrapping_pow_ok base exp :
  0 <= exp < 2 ^ 64 -> wrapping_pow base exp = Ok (wrap64 (base ^ exp)).
Proof.
  intros He. unfold wrapping_pow. change 65%nat with (S 64).
  rewrite wpow_loop_ok; [f_equal; f_equal; lia | exact He | reflexivity].
Qed.

(* ------------------------------------------------------------------ *)
(** * The reference evaluator *)

(** 64-bit two's-complement arithmetic as the property states it: results
    wrap, division truncates toward zero, powers are exact powers wrapped;
    an unreadable (out-of-range) literal and a negative exponent give a
    diagnostic, the leftmost one in evaluation order; dividing by zero gives
    the saturated value the implementation documents by its code (the property
    allows any value or a diagnostic here). *)
Fixpoint ref_eval (t : tree str) : ires :=
  match t with
  | Leaf s => match parse_i64 s with Some z => IVal z | None => IDiag DRange end
  | Node o a b =>
    match ref_eval a with
    | IDiag d => IDiag d
    | IVal x =>
      match ref_eval b with
      | IDiag d => IDiag d
      | IVal y =>
        match o with
        | Add => IVal (wrap64 (x + y))
        | Sub => IVal (wrap64 (x - y))
        | Mul => IVal (wrap64 (x * y))
        | Div => if y =? 0 then IVal (if 0 <? x then i64_max else if x <? 0 then i64_min else 0)
                 else IVal (wrap64 (Z.quot x y))
        | Pow => if y <? 0 then IDiag DNegExp else IVal (wrap64 (x ^ y))
        end
      end
    end
  end.

Definition eval_tree (t : tree str) : res ires := fold int_prim int_infix t.

Lemma parse_i64_range s z : parse_i64 s = Some z -> in_i64 z = true.
Proof.
  unfold parse_i64.
  destruct (match s with
            | [] => (false, s)
            | c :: r => if (c =? 45)%N then (true, r) else if (c =? 43)%N then (false, r) else (false, s)
            end) as [neg ds].
  destruct ds; [discriminate|]. destruct (digits_val 0 (c :: ds)); [|discriminate].
  destruct (in_i64 (if neg then - z0 else z0)) eqn:R; [|discriminate]. intros H. injection H as <-. exact R.
Qed.

Lemma ref_eval_range t z : ref_eval t = IVal z -> in_i64 z = true.
Proof.
  destruct t as [s|o a b]; cbn [ref_eval].
  - destruct (parse_i64 s) eqn:E; [|discriminate]. intros H. injection H as <-. exact (parse_i64_range _ _ E).
  - destruct (ref_eval a) as [x|]; [|discriminate]. destruct (ref_eval b) as [y|]; [|discriminate].
    destruct o; try (intros H; injection H as <-; apply wrap64_range).
    + destruct (y =? 0); intros H; injection H as <-; [|apply wrap64_range].
      destruct (0 <? x); [reflexivity|]. destruct (x <? 0); reflexivity.
    + destruct (y <? 0); [discriminate|]. intros H; injection H as <-; apply wrap64_range.
Qed.

(** integer evaluation of a tree IS the reference, for every tree *)
Theorem eval_tree_ref t : eval_tree t = Ok (ref_eval t).
Proof.
  unfold eval_tree. induction t as [s|o a IHa b IHb]; [reflexivity|].
  cbn [fold ref_eval]. rewrite IHa, IHb. cbn [bind]. unfold int_infix.
  destruct (ref_eval a) as [x|d]; [|reflexivity].
  destruct (ref_eval b) as [y|d] eqn:Eb; [|reflexivity].
  destruct o; try reflexivity.
  - destruct (y =? 0); reflexivity.
  - destruct (Z.ltb_spec y 0); [reflexivity|].
    pose proof (ref_eval_range b y Eb) as R. apply in_i64_iff in R.
    rewrite wrapping_pow_ok; [reflexivity|]. split; [lia|].
    assert (2 ^ 63 < 2 ^ 64) by (apply Z.pow_lt_mono_r; lia). lia.
Qed.

Theorem eval_int_ref fuel ps t :
  pratt_tree fuel ps = Ok t -> eval_int fuel ps = Ok (ref_eval t).
Proof.
  intros Ht. unfold eval_int. unfold pratt_tree in Ht.
  rewrite (pratt_fold _ _ _ _ int_prim int_infix fuel ps t Ht).
  exact (eval_tree_ref t).
Qed.

(** the closures never fail: the only panic sites left are the structural ones *)
Lemma int_prim_total s : exists v, int_prim s = Ok v.
Proof. unfold int_prim. eauto. Qed.

Lemma int_infix_total x o y :
  (forall z, y = IVal z -> in_i64 z = true) -> exists v, int_infix x o y = Ok v.
Proof.
  intros Hy. unfold int_infix. destruct x as [x|d]; [|eauto]. destruct y as [y|d]; [|eauto].
  destruct o; eauto.
  - destruct (y =? 0); eauto.
  - destruct (Z.ltb_spec y 0); [eauto|].
    specialize (Hy y eq_refl). apply in_i64_iff in Hy.
    rewrite wrapping_pow_ok; [cbn; eauto|]. split; [lia|].
    assert (2 ^ 63 < 2 ^ 64) by (apply Z.pow_lt_mono_r; lia). lia.
Qed.

(** the low 32 bits of 2^32 are zero: the old code computed 2^0 *)
Lemma trunc_witness : wrap64 (2 ^ 4294967296) = 0.
Proof.
  rewrite (wrap64_eqm _ 0); [reflexivity|].
  replace 4294967296 with (64 + 4294967232) by reflexivity.
  rewrite Z.pow_add_r by lia. rewrite Z.mul_comm, Z.mod_mul by lia. reflexivity.
Qed.

(** text for examples *)
From Coq Require Import String Ascii.
Definition s2l (s : string) : str := List.map N_of_ascii (list_ascii_of_string s).
