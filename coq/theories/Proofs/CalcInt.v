(** eval_int against the reference evaluator: wrap-around i64 arithmetic,
    division truncating toward zero, exact powers (wrapped). *)
From Coq Require Import ZArith Lia Zpow_facts.
From Cicada Require Import Base.Chars Model.Calc Proofs.CalcFusion.
Local Open Scope Z_scope.

(* ------------------------------------------------------------------ *)
(** * wrap64 *)

Lemma in_i64_iff z : in_i64 z = true <-> - 2 ^ 63 <= z <= 2 ^ 63 - 1.
Proof. unfold in_i64, i64_min, i64_max. rewrite andb_true_iff, !Z.leb_le. reflexivity. Qed.

Lemma wrap64_id z : in_i64 z = true -> wrap64 z = z.
Proof. rewrite in_i64_iff. intros H. unfold wrap64. rewrite Z.mod_small; lia. Qed.

Lemma wrap64_range z : in_i64 (wrap64 z) = true.
Proof.
  rewrite in_i64_iff. unfold wrap64.
  pose proof (Z.mod_pos_bound (z + 2 ^ 63) (2 ^ 64) ltac:(lia)). lia.
Qed.

Lemma wrap64_eqm x y : x mod 2 ^ 64 = y mod 2 ^ 64 -> wrap64 x = wrap64 y.
Proof.
  intros H. unfold wrap64. f_equal.
  rewrite (Z.add_mod x), (Z.add_mod y), H by lia. reflexivity.
Qed.

Lemma wrap64_mod x : wrap64 x mod 2 ^ 64 = x mod 2 ^ 64.
Proof.
  unfold wrap64. rewrite Zminus_mod, Z.mod_mod by lia. rewrite <- Zminus_mod.
  f_equal. lia.
Qed.

Lemma wrap64_mul x y : wrap64 (wrap64 x * wrap64 y) = wrap64 (x * y).
Proof.
  apply wrap64_eqm. rewrite Z.mul_mod, !wrap64_mod by lia. rewrite <- Z.mul_mod by lia. reflexivity.
Qed.

Lemma wrap64_mul_pow a b k :
  0 <= k -> wrap64 (wrap64 a * wrap64 b ^ k) = wrap64 (a * b ^ k).
Proof.
  intros Hk. apply wrap64_eqm.
  rewrite Z.mul_mod, wrap64_mod by lia.
  rewrite (Zpower_mod (wrap64 b)), wrap64_mod, <- Zpower_mod by lia.
  rewrite <- Z.mul_mod by lia. reflexivity.
Qed.

Lemma wrap64_mul_pow_r a b k : wrap64 (a * wrap64 b ^ k) = wrap64 (a * b ^ k).
Proof.
  apply wrap64_eqm.
  rewrite Z.mul_mod by lia.
  rewrite (Zpower_mod (wrap64 b)), wrap64_mod, <- Zpower_mod by lia.
  rewrite <- Z.mul_mod by lia. reflexivity.
Qed.

(* ------------------------------------------------------------------ *)
(** * i64::pow *)

Lemma pow_split_odd base e : 0 < e -> Z.odd e = true -> base ^ e = base * (base * base) ^ (e / 2).
Proof.
  intros He Ho. rewrite (Zdiv2_odd_eqn e) at 1. rewrite Ho, <- Z.div2_div.
  assert (0 <= Z.div2 e) by (rewrite Z.div2_div; apply Z.div_pos; lia).
  rewrite Z.pow_add_r, Z.pow_1_r, Z.pow_mul_r by lia.
  replace (base ^ 2) with (base * base) by lia. lia.
Qed.

Lemma pow_split_even base e : 0 < e -> Z.odd e = false -> base ^ e = (base * base) ^ (e / 2).
Proof.
  intros He Ho. rewrite (Zdiv2_odd_eqn e) at 1. rewrite Ho, <- Z.div2_div.
  assert (0 <= Z.div2 e) by (rewrite Z.div2_div; apply Z.div_pos; lia).
  rewrite Z.add_0_r, Z.pow_mul_r by lia.
  replace (base ^ 2) with (base * base) by lia. reflexivity.
Qed.

Lemma half_pos_even e : 0 < e -> Z.odd e = false -> 0 < e / 2.
Proof.
  intros He Ho. pose proof (Zdiv2_odd_eqn e) as E. rewrite Ho, <- Z.div2_div in *. lia.
Qed.

Lemma half_pos_odd e : 0 < e -> Z.odd e = true -> e <> 1 -> 0 < e / 2.
Proof.
  intros He Ho H1. pose proof (Zdiv2_odd_eqn e) as E. rewrite Ho, <- Z.div2_div in *. lia.
Qed.

Lemma half_lt e n : 0 < e -> e < 2 ^ Z.of_nat (S n) -> e / 2 < 2 ^ Z.of_nat n.
Proof.
  intros He H. rewrite Nat2Z.inj_succ, Z.pow_succ_r in H by lia.
  apply Z.div_lt_upper_bound; lia.
Qed.

(** squares are not 2^63 *)
Lemma square_bound b : b * b <= 2 ^ 63 -> b * b <= 2 ^ 63 - 1.
Proof.
  intros H. assert (Z.abs b <= 3037000499 \/ 3037000500 <= Z.abs b) as [A|A] by lia.
  - assert (b * b = Z.abs b * Z.abs b) as -> by lia. nia.
  - assert (b * b = Z.abs b * Z.abs b) as E by lia. rewrite E in H. exfalso. nia.
Qed.

(** a factor of an in-range product, the cofactor being positive, is in range *)
Lemma factor_in_range x p : 1 <= p -> in_i64 (x * p) = true -> in_i64 x = true.
Proof. rewrite !in_i64_iff. intros Hp H. nia. Qed.

Lemma even_pow_pos base k : base <> 0 -> 0 <= k -> 1 <= (base * base) ^ k.
Proof.
  intros Hb Hk. assert (1 <= base * base) by nia.
  pose proof (Z.pow_pos_nonneg (base * base) k ltac:(lia) Hk). lia.
Qed.

Lemma square_in_range acc base k :
  0 <= k -> (base <> 0 -> acc <> 0) -> in_i64 (acc * (base * base) ^ (k + 1)) = true ->
  in_i64 (base * base) = true.
Proof.
  intros Hk Hacc H. destruct (Z.eq_dec base 0) as [->|Hb]; [reflexivity|].
  specialize (Hacc Hb). rewrite Z.pow_add_r, Z.pow_1_r in H by lia.
  pose proof (even_pow_pos base k Hb Hk) as Hp.
  set (p := (base * base) ^ k) in *. set (s := base * base) in *.
  assert (0 < s) by (subst s; nia).
  rewrite in_i64_iff in *. split; [lia|]. apply square_bound. fold s.
  assert (1 <= Z.abs (acc * p)) by (rewrite Z.abs_mul; nia).
  assert (Z.abs (acc * (p * s)) = Z.abs (acc * p) * s) by (rewrite Z.mul_assoc, Z.abs_mul; lia).
  assert (Z.abs (acc * (p * s)) <= 2 ^ 63) by lia. nia.
Qed.

Lemma pow_loop_ok checks fuel : forall e base acc,
  0 < e -> e < 2 ^ Z.of_nat fuel ->
  (checks = true -> in_i64 base = true /\ in_i64 acc = true /\
                    in_i64 (acc * base ^ e) = true /\ (base <> 0 -> acc <> 0)) ->
  pow_loop checks fuel e base acc = Ok (wrap64 (acc * base ^ e)).
Proof.
  induction fuel as [|f IH]; intros e base acc He Hlt Hc; [cbn in Hlt; lia|].
  cbn [pow_loop]. pose proof (half_lt e f He Hlt) as Hhalf.
  destruct (Z.odd e) eqn:Ho.
  - (* acc = acc * base *)
    assert (Hm1 : mul_chk checks acc base = Ok (wrap64 (acc * base))).
    { unfold mul_chk. destruct checks; [|reflexivity]. destruct (Hc eq_refl) as (_ & _ & HR & Hnz).
      rewrite (pow_split_odd base e He Ho) in HR.
      destruct (Z.eq_dec base 0) as [->|Hb]; [rewrite Z.mul_0_r; reflexivity|].
      assert (0 <= e / 2) by (apply Z.div_pos; lia).
      rewrite Z.mul_assoc in HR. rewrite (factor_in_range _ _ (even_pow_pos base (e / 2) Hb H) HR). reflexivity. }
    rewrite Hm1. cbn [bind]. destruct (Z.eqb_spec e 1) as [->|H1].
    + rewrite Z.pow_1_r. reflexivity.
    + pose proof (half_pos_odd e He Ho H1) as Hk.
      assert (Hm2 : mul_chk checks base base = Ok (wrap64 (base * base))).
      { unfold mul_chk. destruct checks; [|reflexivity]. destruct (Hc eq_refl) as (_ & _ & HR & Hnz).
        rewrite (pow_split_odd base e He Ho) in HR.
        destruct (Z.eq_dec base 0) as [->|Hb]; [reflexivity|].
        replace (e / 2) with ((e / 2 - 1) + 1) in HR by lia. rewrite Z.mul_assoc in HR.
        rewrite (square_in_range (acc * base) base (e / 2 - 1)); [reflexivity|lia| |exact HR].
        intros _. specialize (Hnz Hb). nia. }
      rewrite Hm2. cbn [bind]. rewrite IH; [| exact Hk | exact Hhalf |].
      * f_equal. rewrite (pow_split_odd base e He Ho). rewrite wrap64_mul_pow by lia. f_equal. lia.
      * intros ->. destruct (Hc eq_refl) as (Hb & Ha & HR & Hnz).
        unfold mul_chk in Hm1, Hm2. cbn [andb] in *.
        destruct (in_i64 (acc * base)) eqn:R1; [|discriminate].
        destruct (in_i64 (base * base)) eqn:R2; [|discriminate].
        rewrite !wrap64_id by assumption. repeat split; try assumption.
        -- rewrite (pow_split_odd base e He Ho) in HR. rewrite <- Z.mul_assoc. exact HR.
        -- intros Hbb. assert (base <> 0) as Hb0 by nia. specialize (Hnz Hb0). nia.
  - (* base = base * base only *)
    pose proof (half_pos_even e He Ho) as Hk.
    assert (Hm2 : mul_chk checks base base = Ok (wrap64 (base * base))).
    { unfold mul_chk. destruct checks; [|reflexivity]. destruct (Hc eq_refl) as (_ & _ & HR & Hnz).
      rewrite (pow_split_even base e He Ho) in HR.
      replace (e / 2) with ((e / 2 - 1) + 1) in HR by lia.
      rewrite (square_in_range acc base (e / 2 - 1)); [reflexivity|lia|exact Hnz|exact HR]. }
    rewrite Hm2. cbn [bind]. rewrite IH; [| exact Hk | exact Hhalf |].
    + f_equal. rewrite (pow_split_even base e He Ho). apply wrap64_mul_pow_r.
    + intros ->. destruct (Hc eq_refl) as (Hb & Ha & HR & Hnz).
      unfold mul_chk in Hm2. cbn [andb] in *.
      destruct (in_i64 (base * base)) eqn:R2; [|discriminate].
      rewrite !wrap64_id by assumption. repeat split; try assumption.
      * rewrite (pow_split_even base e He Ho) in HR. exact HR.
      * intros Hbb. apply Hnz. nia.
Qed.

(** the power of an i64 by an exponent in u32 range: exact when it fits (both
    profiles), wrapped when overflow checks are off *)
Theorem pow_i64_ok checks a b :
  in_i64 a = true -> 0 <= b < 2 ^ 32 -> (checks = true -> in_i64 (a ^ b) = true) ->
  pow_i64 checks a b = Ok (wrap64 (a ^ b)).
Proof.
  intros Ha Hb Hc. unfold pow_i64. destruct (Z.eqb_spec b 0) as [->|H0]; [reflexivity|].
  rewrite pow_loop_ok; [f_equal; f_equal; lia | lia | |].
  - change (Z.of_nat 33) with 33. assert (2 ^ 32 < 2 ^ 33) by (apply Z.pow_lt_mono_r; lia). lia.
  - intros C. specialize (Hc C). rewrite Z.mul_1_l. repeat split; try assumption; try reflexivity. lia.
Qed.

Lemma pow_in_range_ok a b : 0 <= b -> pow_in_range a b = true -> in_i64 (a ^ b) = true.
Proof.
  intros Hb. unfold pow_in_range. destruct (Z.leb_spec (Z.abs a) 1) as [H1|H1].
  - intros _. rewrite in_i64_iff.
    assert (Z.abs (a ^ b) <= 1).
    { rewrite Z.abs_pow. assert (Z.abs a = 0 \/ Z.abs a = 1) as [->| ->] by lia.
      - destruct (Z.eq_dec b 0) as [->|]; [cbn; lia|]. rewrite Z.pow_0_l by lia. lia.
      - rewrite Z.pow_1_l by lia. lia. }
    lia.
  - destruct (64 <=? b); [discriminate|]. auto.
Qed.

(* ------------------------------------------------------------------ *)
(** * The reference evaluator *)

(** 64-bit two's-complement arithmetic as the property states it: results
    wrap, division truncates toward zero; dividing by zero gives the saturated
    value the implementation documents by its code (the property allows any
    value here); powers are exact powers, wrapped. *)
Fixpoint ref_eval (t : tree str) : Z :=
  match t with
  | Leaf s => match parse_i64 s with Some z => z | None => 0 end
  | Node o a b =>
    let x := ref_eval a in
    let y := ref_eval b in
    match o with
    | Add => wrap64 (x + y)
    | Sub => wrap64 (x - y)
    | Mul => wrap64 (x * y)
    | Div => if y =? 0 then (if 0 <? x then i64_max else if x <? 0 then i64_min else 0)
             else wrap64 (Z.quot x y)
    | Pow => wrap64 (x ^ y)
    end
  end.

Definition eval_tree (checks : bool) (t : tree str) : res Z := fold int_prim (int_infix checks) t.

Lemma parse_i64_range s z : parse_i64 s = Some z -> in_i64 z = true.
Proof.
  unfold parse_i64.
  destruct (match s with
            | [] => (false, s)
            | c :: r => if (c =? 45)%N then (true, r) else if (c =? 43)%N then (false, r) else (false, s)
            end) as [neg ds].
  destruct ds; [discriminate|]. destruct (digits_val 0 (c :: ds)); [|discriminate].
  destruct (in_i64 (if neg then - z0 else z0)) eqn:R; [|discriminate]. intros H. injection H as <-. exact R.
Qed.

Lemma ref_eval_range t : in_i64 (ref_eval t) = true.
Proof.
  destruct t as [s|o a b]; cbn [ref_eval].
  - destruct (parse_i64 s) eqn:E; [exact (parse_i64_range _ _ E)|reflexivity].
  - destruct o; try apply wrap64_range.
    destruct (ref_eval b =? 0); [|apply wrap64_range].
    destruct (0 <? ref_eval a); [reflexivity|]. destruct (ref_eval a <? 0); reflexivity.
Qed.

Lemma classes_pow_nil checks a b :
  classes checks (Node Pow a b) = [] ->
  classes checks a = [] /\ classes checks b = [] /\ 0 <= tv b < 2 ^ 32 /\
  (checks = true -> pow_in_range (tv a) (tv b) = true).
Proof.
  cbn [classes]. intros H. apply app_eq_nil in H as [Ha H]. apply app_eq_nil in H as [Hb H].
  destruct (Z.ltb_spec (tv b) 0); [discriminate|].
  destruct (Z.leb_spec (2 ^ 32) (tv b)); [discriminate|].
  repeat split; try assumption; try lia.
  intros ->. cbn [andb] in H. destruct (pow_in_range (tv a) (tv b)); [reflexivity|discriminate].
Qed.

Lemma classes_other_nil checks o a b :
  o <> Pow -> classes checks (Node o a b) = [] -> classes checks a = [] /\ classes checks b = [].
Proof.
  cbn [classes]. intros Ho H. apply app_eq_nil in H as [Ha H]. apply app_eq_nil in H as [Hb H]. auto.
Qed.

Lemma classes_false_of checks t : classes checks t = [] -> classes false t = [].
Proof.
  induction t as [s|o a IHa b IHb]; [auto|]. cbn [classes]. intros H.
  apply app_eq_nil in H as [Ha H]. apply app_eq_nil in H as [Hb H].
  rewrite (IHa Ha), (IHb Hb). cbn [app]. destruct o; try reflexivity.
  destruct (tv b <? 0); [discriminate|]. destruct (2 ^ 32 <=? tv b); [discriminate|]. reflexivity.
Qed.

(** the total release-arithmetic value used by the classes is the reference value *)
Lemma tv_ref t : classes false t = [] -> tv t = ref_eval t.
Proof.
  induction t as [s|o a IHa b IHb]; [reflexivity|]. intros H. cbn [tv ref_eval].
  destruct o;
    try (apply classes_other_nil in H as [Ha Hb]; [|discriminate];
         rewrite (IHa Ha), (IHb Hb); cbn [int_infix]; try reflexivity).
  - destruct (ref_eval b =? 0); reflexivity.
  - apply classes_pow_nil in H as (Ha & Hb & Hr & _).
    rewrite (IHa Ha), (IHb Hb) in *. cbn [int_infix].
    rewrite Z.mod_small by lia.
    rewrite pow_i64_ok; [reflexivity | apply ref_eval_range | exact Hr | discriminate].
Qed.

Theorem eval_tree_ref checks t : classes checks t = [] -> eval_tree checks t = Ok (ref_eval t).
Proof.
  unfold eval_tree. induction t as [s|o a IHa b IHb]; intros H.
  - cbn in *. unfold int_prim. destruct (parse_i64 s); [reflexivity|discriminate].
  - cbn [fold ref_eval].
    destruct o;
      try (apply classes_other_nil in H as [Ha Hb]; [|discriminate];
           rewrite (IHa Ha), (IHb Hb); cbn [bind int_infix]; try reflexivity).
    + destruct (ref_eval b =? 0); reflexivity.
    + apply classes_pow_nil in H as (Ha & Hb & Hr & Hc).
      rewrite (IHa Ha), (IHb Hb). cbn [bind int_infix].
      rewrite (tv_ref a (classes_false_of _ _ Ha)), (tv_ref b (classes_false_of _ _ Hb)) in *.
      rewrite Z.mod_small by lia.
      apply pow_i64_ok; [apply ref_eval_range | exact Hr |].
      intros C. apply pow_in_range_ok; [lia | exact (Hc C)].
Qed.

(** release profile: nothing but an unreadable literal can stop the evaluation *)
Fixpoint lits_ok (t : tree str) : bool :=
  match t with
  | Leaf s => match parse_i64 s with Some _ => true | None => false end
  | Node _ a b => lits_ok a && lits_ok b
  end.

Lemma pow_loop_release fuel : forall e base acc,
  0 < e -> e < 2 ^ Z.of_nat fuel -> exists v, pow_loop false fuel e base acc = Ok v.
Proof. intros. rewrite pow_loop_ok by (auto; discriminate). eauto. Qed.

Lemma int_infix_release x o y : exists v, int_infix false x o y = Ok v.
Proof.
  destruct o; cbn [int_infix]; eauto.
  - destruct (y =? 0); eauto.
  - unfold pow_i64. destruct (y mod 2 ^ 32 =? 0) eqn:E; [eauto|].
    apply Z.eqb_neq in E. pose proof (Z.mod_pos_bound y (2 ^ 32) ltac:(lia)).
    apply pow_loop_release; [lia|].
    change (Z.of_nat 33) with 33. assert (2 ^ 32 < 2 ^ 33) by (apply Z.pow_lt_mono_r; lia). lia.
Qed.

Theorem eval_tree_release t : lits_ok t = true -> exists v, eval_tree false t = Ok v.
Proof.
  unfold eval_tree. induction t as [s|o a IHa b IHb]; cbn [lits_ok fold]; intros H.
  - unfold int_prim. destruct (parse_i64 s); [eauto|discriminate].
  - apply andb_true_iff in H as [Ha Hb]. destruct (IHa Ha) as [x ->]. destruct (IHb Hb) as [y ->].
    cbn [bind]. apply int_infix_release.
Qed.

(* ------------------------------------------------------------------ *)
(** * Lines *)

(** the lines on which integer evaluation is known to crash or to leave the
    reference arithmetic: some class of the tree is non-empty. (The last
    disjunct -- the Pratt model not building a tree from what the PEG model
    produced -- has no known inhabitant; it is excluded rather than assumed away.) *)
Definition Known_C19 (checks : bool) (line : str) : bool :=
  match parse_calc line with
  | POk ps =>
    if has_dot line then false
    else match pratt_tree (2 * tot ps + 1) ps with
         | Ok t => negb (is_empty (classes checks t))
         | _ => true
         end
  | _ => false
  end.

(** the tree of a line that parses *)
Definition line_tree (line : str) : option (tree str) :=
  match parse_calc line with
  | POk ps => match pratt_tree (2 * tot ps + 1) ps with Ok t => Some t | _ => None end
  | _ => None
  end.

Theorem eval_int_ref checks fuel ps t :
  pratt_tree fuel ps = Ok t -> classes checks t = [] -> eval_int checks fuel ps = Ok (ref_eval t).
Proof.
  intros Ht Hc. unfold eval_int. unfold pratt_tree in Ht.
  rewrite (pratt_fold _ _ _ _ int_prim (int_infix checks) fuel ps t Ht).
  exact (eval_tree_ref checks t Hc).
Qed.

Theorem run_calculator_partial checks line r :
  run_calculator checks line = RInt r -> Known_C19 checks line = false ->
  exists t, line_tree line = Some t /\ r = Ok (ref_eval t).
Proof.
  unfold run_calculator, Known_C19, line_tree. destruct (parse_calc line) as [ps| |]; try discriminate.
  destruct (has_dot line); [discriminate|]. intros H. injection H as <-.
  destruct (pratt_tree (2 * tot ps + 1) ps) as [t| |] eqn:Et; try discriminate.
  intros Hk. exists t. split; [reflexivity|]. apply eval_int_ref; [exact Et|].
  destruct (classes checks t); [reflexivity|discriminate].
Qed.

(** the low 32 bits of 2^32 are zero: the implementation computes 2^0 *)
Lemma trunc_witness : wrap64 (2 ^ 4294967296) = 0.
Proof.
  rewrite (wrap64_eqm _ 0); [reflexivity|].
  replace 4294967296 with (64 + 4294967232) by reflexivity.
  rewrite Z.pow_add_r by lia. rewrite Z.mul_comm, Z.mod_mul by lia. reflexivity.
Qed.

(** text for examples *)
From Coq Require Import String Ascii.
Definition s2l (s : string) : str := List.map N_of_ascii (list_ascii_of_string s).
