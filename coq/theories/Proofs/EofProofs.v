(* Who holds which pipe end (the EOF clause of C02), derived from kid_spec. *)
From Coq Require Import List Arith Bool Lia.
From Cicada Require Import Model.OsLite Model.Pipeline Proofs.OsLiteProofs Proofs.PipelineProofs Proofs.ChildProofs.
Import ListNotations.

Definition inh_only (T0 : table) : Prop :=
  forall x o c, lookup T0 x = Some (o, c) -> exists i, o = OInh i.

(* the objects a sink can denote: one of the two it started from, a file, or a capture pipe *)
Definition okobj (o e x : obj) : Prop :=
  x = o \/ x = e \/ (exists p m, x = OFile p m) \/ x = OPipeW PCapOut \/ x = OPipeW PCapErr.

Lemma okobj_redirect : forall o e a b r,
  okobj o e a -> okobj o e b ->
  okobj o e (fst (posix_redirect (a, b) r)) /\ okobj o e (snd (posix_redirect (a, b) r)).
Proof.
  intros o e a b r Ha Hb. unfold posix_redirect.
  destruct (r_fd r), (r_to r); cbn [fst snd]; split; auto; right; right; left; eauto.
Qed.

Lemma sinks_objs : forall rs o e a b, okobj o e a -> okobj o e b ->
  okobj o e (fst (posix_sinks rs (a, b))) /\ okobj o e (snd (posix_sinks rs (a, b))).
Proof.
  induction rs as [|r rest IH]; intros o e a b Ha Hb; [cbn; auto|].
  change (posix_sinks (r :: rest) (a, b)) with (posix_sinks rest (posix_redirect (a, b) r)).
  destruct (okobj_redirect o e a b r Ha Hb) as (H1 & H2).
  destruct (posix_redirect (a, b) r) as [a' b']. apply IH; auto.
Qed.

Lemma final_sinks_objs : forall v capture last rs o e,
  okobj o e (fst (final_sinks v capture last rs o e)) /\ okobj o e (snd (final_sinks v capture last rs o e)).
Proof.
  intros v capture last rs o e. unfold final_sinks.
  assert (Ho : okobj o e o) by (left; reflexivity). assert (He : okobj o e e) by (right; left; reflexivity).
  destruct (last && capture).
  - destruct (v_capfirst v).
    { apply sinks_objs; [right; right; right; left; reflexivity | right; right; right; right; reflexivity]. }
    destruct (sinks_objs (filter is_file_redir rs) o e o e Ho He) as (A & B). cbn [fst snd].
    split; [destruct (has1 rs); [exact A | right; right; right; left; reflexivity]
           | destruct (has2 rs); [exact B | right; right; right; right; reflexivity]].
  - apply sinks_objs; auto.
Qed.

(* an exec'd stage of the code as it is (v0): which stage pipe ends it can hold, and where *)
Lemma kid_holders : forall openable T0 i0 o0 e0 pc capture idx st k,
  std_ok T0 i0 o0 e0 -> inh_only T0 ->
  kid_spec v0 openable (lookup T0) i0 o0 e0 pc capture idx st k -> k_out k = OExec ->
  forall x j c,
    (lookup (tab (k_proc k)) x = Some (OPipeW (PStage j), c) -> j = idx /\ idx < pc /\ (x = 1 \/ x = 2)) /\
    (lookup (tab (k_proc k)) x = Some (OPipeR (PStage j), c) -> idx = S j /\ x = 0).
Proof.
  intros openable T0 i0 o0 e0 pc capture idx st k (S0 & S1 & S2) IO KS HE x j c.
  destruct (IO _ _ _ S0) as (n0 & ->). destruct (IO _ _ _ S1) as (n1 & ->). destruct (IO _ _ _ S2) as (n2 & ->).
  destruct (kid_std_fds _ _ _ _ _ _ _ _ _ _ _ KS HE) as (A & B & C).
  set (fs := final_sinks v0 capture (idx =? pc) (s_redirs st) (pro_out (OInh n1) pc idx) (OInh n2)) in *.
  destruct (final_sinks_objs v0 capture (idx =? pc) (s_redirs st) (pro_out (OInh n1) pc idx) (OInh n2)) as (OB & OC).
  fold fs in OB, OC.
  assert (PO : forall y, okobj (pro_out (OInh n1) pc idx) (OInh n2) y ->
               (y = OPipeW (PStage j) -> j = idx /\ idx < pc) /\ y <> OPipeR (PStage j)).
  { intros y [ -> | [ -> | [ (p & m & ->) | [ -> | -> ] ] ] ]; try (split; [discriminate | discriminate]).
    unfold pro_out. destruct (Nat.ltb_spec idx pc); split; try discriminate.
    intro E. injection E as <-. split; [reflexivity | assumption]. }
  destruct x as [|[|[|x]]].
  - rewrite A. split; intro E; injection E as E _.
    + unfold std_in in E. destruct (s_from st); try discriminate. destruct idx; discriminate.
    + unfold std_in in E. destruct (s_from st); try discriminate. destruct idx; [discriminate|]. injection E as ->. auto.
  - rewrite B. destruct (PO _ OB) as (P1 & P2). split; intro E; injection E as E _.
    + destruct (P1 E) as (-> & L). auto.
    + contradiction.
  - rewrite C. destruct (PO _ OC) as (P1 & P2). split; intro E; injection E as E _.
    + destruct (P1 E) as (-> & L). auto.
    + contradiction.
  - assert (CL : clean v0 capture (idx =? pc) (s_redirs st) = true).
    { unfold clean, dirty, v0. cbn [v_dupclose v_capclose v_capfirst negb andb]. rewrite !andb_false_r. reflexivity. }
    rewrite (kid_clean_above _ _ _ _ _ _ _ _ _ _ _ KS HE CL (S (S (S x)))) by lia.
    destruct (lookup T0 (S (S (S x)))) as [[o cx]|] eqn:EL; [|cbn; split; discriminate].
    destruct (IO _ _ _ EL) as (i & ->). destruct cx; cbn; split; discriminate.
Qed.
