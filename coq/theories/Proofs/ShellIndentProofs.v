(** C15, round 9c: INDENTED flat texts (function bodies as they are written) from C14_parse_indented
    to [flat_parsed]. *)
From Cicada Require Import Base.Chars Base.Peg Gen.LocustGrammar Model.Script Model.ScriptAst Model.Args Model.ShellScript
  Proofs.SetEProofs Proofs.LocustParse Proofs.LocustIndent Proofs.ShellCallsProofs Proofs.ShellTextProofs.
From Coq Require Import ZArith Lia.
Local Open Scope N_scope.

(** a block of command lines only, each with any indentation *)
Fixpoint cmd_lines (b : block) : option (list str) :=
  match b with
  | BNil => Some []
  | BCons (SCmd _ line) r => option_map (cons line) (cmd_lines r)
  | BCons _ _ => None
  end.

Lemma cmd_lines_kids : forall b ls, cmd_lines b = Some ls -> kids_of_block b = map cmd_node ls.
Proof.
  fix IH 1. intros b ls H. destruct b as [|s r]; cbn [cmd_lines] in H.
  - injection H as <-. reflexivity.
  - destruct s as [ind line|ws|ind|ind| | | ]; try discriminate H.
    destruct (cmd_lines r) as [ls'|] eqn:E; [|discriminate H]. injection H as <-.
    change (kids_of_block (BCons (SCmd ind line) r)) with (tree_of_stmt (SCmd ind line) :: kids_of_block r).
    rewrite (IH r ls' E). reflexivity.
Qed.

Theorem parse_ok_kids_flat_parsed_gen : forall b ls, kids_of_block b = map cmd_node ls -> parse_ok b ->
  flat_parsed (render_block b) (filter nonempty_l ls).
Proof.
  intros b ls Hk [p [kids [Hp Hm]]].
  destruct kids as [|k [|k2 kids]]; try discriminate Hm.
  cbn [map] in Hm. injection Hm as Hm.
  destruct (annotate (render_block b) k) as [r x kids0] eqn:A.
  unfold tree_of_script in Hm. cbn [strip_eoi] in Hm. injection Hm as Hr Hx Hf.
  rewrite Hk in Hf.
  exists p, [], [k], r, x, kids0. split; [exact Hp|]. split; [cbn [map]; rewrite A; reflexivity|].
  apply skel_of_strip_gen, Hf.
Qed.

Theorem parse_ok_kids_flat_parsed : forall b ls, forallb nonempty_l ls = true ->
  kids_of_block b = map cmd_node ls -> parse_ok b -> flat_parsed (render_block b) ls.
Proof.
  intros b ls Hn Hk P. rewrite <- (filter_ne_id ls Hn). apply parse_ok_kids_flat_parsed_gen; assumption.
Qed.

Lemma cmd_lines_ne : forall b ls, fragI_block b = true -> cmd_lines b = Some ls -> forallb nonempty_l ls = true.
Proof.
  fix IH 1. intros b ls Hf H. destruct b as [|s r]; cbn [cmd_lines] in H.
  - injection H as <-. reflexivity.
  - destruct s as [ind line|ws|ind|ind| | | ]; try discriminate H.
    destruct (cmd_lines r) as [ls'|] eqn:E; [|discriminate H]. injection H as <-.
    change (fragI_block (BCons (SCmd ind line) r)) with (wfp_ind ind && cmd_ok2 line && fragI_block r) in Hf.
    apply andb_prop in Hf as [Hf Hr]. apply andb_prop in Hf as [_ Hc].
    cbn [forallb]. rewrite (IH r ls' Hr E), andb_true_r.
    unfold cmd_ok2 in Hc. apply andb_prop in Hc as [Hc _]. apply andb_prop in Hc as [Hc _].
    apply andb_prop in Hc as [_ Hc]. destruct line; [discriminate Hc | reflexivity].
Qed.

Theorem indented_text_parsed : forall b ls, fragI_block b = true -> cmd_lines b = Some ls ->
  parse_from l_grammar L_EXP (render_block b) = PFuel \/ flat_parsed (render_block b) ls.
Proof.
  intros b ls H Hc. destruct (parse_indented_from b H) as [F|P]; [left; exact F|right].
  apply parse_ok_kids_flat_parsed; [exact (cmd_lines_ne b ls H Hc) | apply cmd_lines_kids, Hc | exact P].
Qed.

(** ... with BLANK LINES: [body_lines] lists every line of the block, a blank line as the empty text; the
    parse gives the non-empty ones (exp_loop skips a CMD pair with empty text, and so does skel) *)
Fixpoint body_lines (b : block) : option (list str) :=
  match b with
  | BNil => Some []
  | BCons (SCmd _ line) r => option_map (cons line) (body_lines r)
  | BCons (SBlank _) r => option_map (cons []) (body_lines r)
  | BCons _ _ => None
  end.

Lemma body_lines_kids : forall b ls, body_lines b = Some ls -> kids_of_block b = map cmd_node ls.
Proof.
  fix IH 1. intros b ls H. destruct b as [|s r]; cbn [body_lines] in H.
  - injection H as <-. reflexivity.
  - destruct s as [ind line|ws|ind|ind| | | ]; try discriminate H;
      (destruct (body_lines r) as [ls'|] eqn:E; [|discriminate H]); injection H as <-.
    + change (kids_of_block (BCons (SCmd ind line) r)) with (tree_of_stmt (SCmd ind line) :: kids_of_block r).
      rewrite (IH r ls' E). reflexivity.
    + change (kids_of_block (BCons (SBlank ws) r)) with (tree_of_stmt (SBlank ws) :: kids_of_block r).
      rewrite (IH r ls' E). reflexivity.
Qed.

Theorem indented_blank_text_parsed : forall b ls, fragI_block b = true -> body_lines b = Some ls ->
  parse_from l_grammar L_EXP (render_block b) = PFuel \/ flat_parsed (render_block b) (filter nonempty_l ls).
Proof.
  intros b ls H Hc. destruct (parse_indented_from b H) as [F|P]; [left; exact F|right].
  apply parse_ok_kids_flat_parsed_gen; [apply body_lines_kids, Hc | exact P].
Qed.

Theorem tab_ok_indented_blank : forall k b ls ft rt, fragI_block b = true -> body_lines b = Some ls ->
  parse_from l_grammar L_EXP (render_block b) <> PFuel -> forallb ok_line (filter nonempty_l ls) = true ->
  tab_ok ft rt -> tab_ok ((k, render_block b) :: ft) ((k, filter nonempty_l ls) :: rt).
Proof.
  intros k b ls ft rt H Hc Hn Hok Ht. apply tab_cons; [|exact Hok|exact Ht].
  destruct (indented_blank_text_parsed b ls H Hc) as [F|P]; [contradiction | exact P].
Qed.

(** an entry of the function table whose body text is an indented flat text *)
Theorem tab_ok_indented : forall k b ls ft rt, fragI_block b = true -> cmd_lines b = Some ls ->
  parse_from l_grammar L_EXP (render_block b) <> PFuel -> forallb ok_line ls = true ->
  tab_ok ft rt -> tab_ok ((k, render_block b) :: ft) ((k, ls) :: rt).
Proof.
  intros k b ls ft rt H Hc Hn Hok Ht. apply tab_cons; [|exact Hok|exact Ht].
  destruct (indented_text_parsed b ls H Hc) as [F|P]; [contradiction | exact P].
Qed.
