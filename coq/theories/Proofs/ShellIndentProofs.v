(** C15, round 9c: INDENTED flat texts (function bodies as they are written) from C14_parse_indented
    to [flat_parsed]. *)
From Cicada Require Import Base.Chars Base.Peg Gen.LocustGrammar Model.Script Model.ScriptAst Model.Args Model.ShellScript
  Proofs.SetEProofs Proofs.LocustParse Proofs.LocustIndent Proofs.ShellCallsProofs Proofs.ShellTextProofs.
From Coq Require Import ZArith Lia.
Local Open Scope N_scope.

(** a block of command lines only, each with any indentation *)
Fixpoint cmd_lines (b : block) : option (list str) :=
  match b with
  | BNil => Some []
  | BCons (SCmd _ line) r => option_map (cons line) (cmd_lines r)
  | BCons _ _ => None
  end.

Lemma cmd_lines_kids : forall b ls, cmd_lines b = Some ls -> kids_of_block b = map cmd_node ls.
Proof.
  fix IH 1. intros b ls H. destruct b as [|s r]; cbn [cmd_lines] in H.
  - injection H as <-. reflexivity.
  - destruct s as [ind line|ws|ind|ind| | | ]; try discriminate H.
    destruct (cmd_lines r) as [ls'|] eqn:E; [|discriminate H]. injection H as <-.
    change (kids_of_block (BCons (SCmd ind line) r)) with (tree_of_stmt (SCmd ind line) :: kids_of_block r).
    rewrite (IH r ls' E). reflexivity.
Qed.

Theorem parse_ok_kids_flat_parsed : forall b ls, kids_of_block b = map cmd_node ls -> parse_ok b ->
  flat_parsed (render_block b) ls.
Proof.
  intros b ls Hk [p [kids [Hp Hm]]].
  destruct kids as [|k [|k2 kids]]; try discriminate Hm.
  cbn [map] in Hm. injection Hm as Hm.
  destruct (annotate (render_block b) k) as [r x kids0] eqn:A.
  unfold tree_of_script in Hm. cbn [strip_eoi] in Hm. injection Hm as Hr Hx Hf.
  rewrite Hk in Hf.
  exists p, [], [k], r, x, kids0. split; [exact Hp|]. split; [cbn [map]; rewrite A; reflexivity|].
  apply skel_of_strip, Hf.
Qed.

Theorem indented_text_parsed : forall b ls, fragI_block b = true -> cmd_lines b = Some ls ->
  parse_from l_grammar L_EXP (render_block b) = PFuel \/ flat_parsed (render_block b) ls.
Proof.
  intros b ls H Hc. destruct (parse_indented_from b H) as [F|P]; [left; exact F|right].
  apply parse_ok_kids_flat_parsed; [apply cmd_lines_kids, Hc | exact P].
Qed.

(** an entry of the function table whose body text is an indented flat text *)
Theorem tab_ok_indented : forall k b ls ft rt, fragI_block b = true -> cmd_lines b = Some ls ->
  parse_from l_grammar L_EXP (render_block b) <> PFuel -> forallb ok_line ls = true ->
  tab_ok ft rt -> tab_ok ((k, render_block b) :: ft) ((k, ls) :: rt).
Proof.
  intros k b ls ft rt H Hc Hn Hok Ht. apply tab_cons; [|exact Hok|exact Ht].
  destruct (indented_text_parsed b ls H Hc) as [F|P]; [contradiction | exact P].
Qed.
