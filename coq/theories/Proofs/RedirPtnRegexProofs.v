(** tokens_to_redirections: the two attached-redirection patterns ptn1 / ptn2 of the source against
    [Redirect.match_gt] (yes/no: GtFull iff ptn1 matches, GtOpen iff ptn2 matches; the three captured groups are what
    the model returns). ASTs regenerated from parser_line.rs on every run. Round 9 (regexgen). *)
From Coq Require Import List NArith Bool Lia.
From Cicada Require Import Base.Chars Base.Tag Base.Regex Gen.ParserLineRegexes Model.Redirect Proofs.RegexCalc.
Import ListNotations.
Local Open Scope N_scope.

Lemma rc_Cat_ext_r a b b' :
  (forall s, matchb b s = matchb b' s) -> forall s, matchb (Cat a b) s = matchb (Cat a b') s.
Proof.
  intros H. apply matchb_ext. intros s.
  assert (E : forall x, Matches b x <-> Matches b' x) by (intros x; rewrite <- !matchb_spec, H; reflexivity).
  split; intros M; apply cat_inv in M as (s1 & s2 & -> & M1 & M2); constructor; try exact M1; apply E; exact M2.
Qed.

Definition is_full (m : gtmatch) : bool := match m with GtFull _ _ _ => true | _ => false end.
Definition is_open (m : gtmatch) : bool := match m with GtOpen _ _ => true | _ => false end.

(** skip the gt-free prefix, take the first gt: what is left is the text after it *)
Lemma skip_to_gt X w :
  matchb (Cat (Star (Chr true [(62, 62)])) (Cat (Chr false [(62, 62)]) X)) w =
  match snd (split_gt w) with [] => false | _ :: r1 => matchb X r1 end.
Proof.
  induction w as [|c t IH]; [reflexivity|].
  rewrite rc_Cat_Star_Chr, rc_Cat_Chr, in_cs_one, in_cs_not_one, IH. cbn [split_gt]. change c_gt with 62.
  destruct (c =? 62); cbn [negb andb orb snd].
  - apply orb_false_r.
  - destruct (split_gt t) as [a b]. reflexivity.
Qed.

Lemma no_gt_forallb s : forallb (in_cs true [(62, 62)]) s = negb (has_char c_gt s).
Proof.
  induction s as [|c t IH]; [reflexivity|]. cbn [forallb has_char]. rewrite IH, in_cs_not_one, negb_orb. reflexivity.
Qed.

Lemma plus_no_gt s :
  matchb (Cat (Chr true [(62, 62)]) (Star (Chr true [(62, 62)]))) s = negb (is_empty s) && negb (has_char c_gt s).
Proof.
  rewrite rc_Cat_Chr. destruct s as [|c t]; [reflexivity|]. rewrite rc_Star_Chr, no_gt_forallb, in_cs_not_one.
  cbn [is_empty negb andb has_char]. change c_gt with 62. rewrite negb_orb. reflexivity.
Qed.

Theorem ptn2_is_source_regex w : is_open (match_gt w) = rx_search rx_redir_ptn2 w.
Proof.
  unfold rx_redir_ptn2. rewrite rc_anchored, skip_to_gt. unfold match_gt.
  destruct (split_gt w) as [s1 r]. cbn [snd]. destruct r as [|g r1]; [reflexivity|].
  rewrite rc_Alt, rc_Chr, rc_Eps.
  destruct r1 as [|y r2]; [reflexivity|]. change c_gt with 62. cbn [is_empty]. rewrite orb_false_r.
  destruct r2 as [|z r3]; [rewrite in_cs_one|]; destruct (y =? 62); try reflexivity;
    match goal with |- context [if ?b then _ else _] => destruct b end; reflexivity.
Qed.

Theorem ptn1_is_source_regex w : is_full (match_gt w) = rx_search rx_redir_ptn1 w.
Proof.
  unfold rx_redir_ptn1. rewrite rc_anchored.
  rewrite (rc_Cat_ext_r _ _ _ (rc_Cat_assoc _ _ _)).
  rewrite skip_to_gt. unfold match_gt.
  destruct (split_gt w) as [s1 r]. cbn [snd]. destruct r as [|g r1]; [reflexivity|].
  rewrite rc_Cat_Alt, rc_Cat_Eps_l, rc_Cat_Chr.
  destruct r1 as [|y r2]; [reflexivity|]. rewrite !plus_no_gt, in_cs_one. change c_gt with 62.
  cbn [is_empty negb andb has_char].
  destruct (y =? 62) eqn:Y; cbn [andb orb negb].
  - rewrite orb_false_r. destruct r2 as [|z r3]; [reflexivity|]. cbn [is_empty negb andb].
    destruct (has_char 62 (z :: r3)); reflexivity.
  - destruct (has_char 62 r2); reflexivity.
Qed.
