(** Character classes of the generated regex ASTs against the class predicates of Base/Chars.v. Round 9 (regexgen). *)
From Coq Require Import List NArith Bool Lia.
From Cicada Require Import Base.Chars Base.Regex Proofs.RegexCalc.
Import ListNotations.
Local Open Scope N_scope.

Ltac cls_solve :=
  unfold in_cs, is_alnum_us, is_alpha, is_digit; cbn [existsb fst snd];
  repeat match goal with |- context [?a <=? ?b] => destruct (N.leb_spec a b) end;
  repeat match goal with |- context [?a =? ?b] => destruct (N.eqb_spec a b) end;
  cbn; try reflexivity; try discriminate; lia.

Lemma cls_alnum_us_lower_first c : in_cs false [(97, 122); (65, 90); (48, 57); (95, 95)] c = is_alnum_us c.
Proof. cls_solve. Qed.
Lemma cls_alnum_us_upper_first c : in_cs false [(65, 90); (97, 122); (48, 57); (95, 95)] c = is_alnum_us c.
Proof. cls_solve. Qed.
Lemma cls_ident_head_lower_first c : in_cs false [(97, 122); (65, 90); (95, 95)] c = negb (is_digit c) && is_alnum_us c.
Proof. cls_solve. Qed.
Lemma cls_ident_head_upper_first c : in_cs false [(65, 90); (97, 122); (95, 95)] c = negb (is_digit c) && is_alnum_us c.
Proof. cls_solve. Qed.
Lemma cls_digit c : in_cs false [(48, 57)] c = is_digit c.
Proof. cls_solve. Qed.

Lemma alnum_us_not_equals c : is_alnum_us c = true -> (c =? 61) = false.
Proof. cls_solve. Qed.
Lemma digit_alnum_us c : is_digit c = true -> is_alnum_us c = true.
Proof. unfold is_alnum_us. intros ->. reflexivity. Qed.
