(** C09 -- refinement of the transcribed shell state to the abstract store of the property. *)
From Cicada Require Import Base.Chars Model.Vars Model.VarsSpec.
From Coq Require Import Lia.
Local Open Scope N_scope.

Ltac sdes a b :=
  let E := fresh "E" in
  destruct (str_eqb a b) eqn:E;
  [apply str_eqb_eq in E; try subst | apply str_eqb_neq in E].

(* ------------------------------------------------------------------ association lists *)
Section AL.
  Variable V : Type.
  Implicit Types m : list (str * V).

  Lemma aget_aset m k v q : aget (aset m k v) q = if str_eqb k q then Some v else aget m q.
  Proof.
    induction m as [|[k0 v0] r IH]; cbn.
    - reflexivity.
    - sdes k0 k; cbn.
      + sdes k q; [reflexivity|]. sdes k q; [congruence|reflexivity].
      + rewrite IH. sdes k0 q; [|reflexivity]. sdes k q; [congruence|reflexivity].
  Qed.

  Lemma aget_adel m k q : aget (adel m k) q = if str_eqb k q then None else aget m q.
  Proof.
    induction m as [|[k0 v0] r IH]; cbn.
    - destruct (str_eqb k q); reflexivity.
    - sdes k0 k; cbn.
      + rewrite IH. sdes k q; [reflexivity|]. sdes k q; [congruence|reflexivity].
      + rewrite IH. sdes k0 q; [|reflexivity]. sdes k q; [congruence|reflexivity].
  Qed.

  Lemma aget_app m1 m2 q :
    aget (m1 ++ m2) q = match aget m1 q with Some v => Some v | None => aget m2 q end.
  Proof.
    induction m1 as [|[k0 v0] r IH]; cbn; [reflexivity|]. destruct (str_eqb k0 q); [reflexivity|exact IH].
  Qed.

  Lemma aget_none_notin m q : aget m q = None <-> ~ In q (map fst m).
  Proof.
    induction m as [|[k0 v0] r IH]; cbn.
    - split; [intros _ []|reflexivity].
    - sdes k0 q.
      + split; [discriminate|]. intro H. exfalso. apply H. now left.
      + rewrite IH. split; [intros H [H1|H1]; [congruence|contradiction]|]. intros H H1. apply H. now right.
  Qed.

  Lemma in_aset m k v x : In x (map fst (aset m k v)) <-> x = k \/ In x (map fst m).
  Proof.
    induction m as [|[k0 v0] r IH]; cbn.
    - split; [intros [H|[]]; left; congruence | intros [H|[]]; left; congruence].
    - sdes k0 k; cbn.
      + split; [intros [H|H]; [left|right; right]; auto; congruence | intros [H|[H|H]]; [left|left|right]; auto; congruence].
      + rewrite IH. tauto.
  Qed.

  Lemma nodup_aset m k v : NoDup (map fst m) -> NoDup (map fst (aset m k v)).
  Proof.
    induction m as [|[k0 v0] r IH]; cbn; intro H.
    - constructor; [intros []|constructor].
    - inversion H as [|? ? Hn Hr]; subst. sdes k0 k; cbn.
      + constructor; assumption.
      + constructor; [|now apply IH]. rewrite in_aset. intros [H1|H1]; [congruence|contradiction].
  Qed.

  Lemma in_adel m k x : In x (map fst (adel m k)) -> In x (map fst m).
  Proof.
    induction m as [|[k0 v0] r IH]; cbn; [tauto|]. destruct (str_eqb k0 k); cbn; [now right; apply IH|].
    intros [H|H]; [now left|right; now apply IH].
  Qed.

  Lemma nodup_adel m k : NoDup (map fst m) -> NoDup (map fst (adel m k)).
  Proof.
    induction m as [|[k0 v0] r IH]; cbn; intro H; [constructor|].
    inversion H as [|? ? Hn Hr]; subst. destruct (str_eqb k0 k); cbn; [now apply IH|].
    constructor; [|now apply IH]. intro H1. apply Hn. eapply in_adel; eassumption.
  Qed.

  Lemma aset_fresh m k v : aget m k = None -> aset m k v = m ++ [(k, v)].
  Proof.
    induction m as [|[k0 v0] r IH]; cbn; [reflexivity|]. destruct (str_eqb k0 k); [discriminate|].
    intro H. now rewrite IH.
  Qed.
End AL.
Arguments aget_aset {V}. Arguments aget_adel {V}. Arguments aget_app {V}. Arguments aget_none_notin {V}.
Arguments nodup_aset {V}. Arguments nodup_adel {V}. Arguments aset_fresh {V}.

Definition ol (o : option str) : list str := match o with Some v => [v] | None => [] end.

Lemma avalues_app m1 m2 k : avalues (m1 ++ m2) k = avalues m1 k ++ avalues m2 k.
Proof.
  induction m1 as [|[k0 v0] r IH]; cbn; [reflexivity|]. destruct (str_eqb k0 k); cbn; now rewrite IH.
Qed.

Lemma avalues_notin m k : aget m k = None -> avalues m k = [].
Proof.
  induction m as [|[k0 v0] r IH]; cbn; [reflexivity|]. destruct (str_eqb k0 k); [discriminate|exact IH].
Qed.

Lemma avalues_nodup m k : NoDup (map fst m) -> avalues m k = ol (aget m k).
Proof.
  induction m as [|[k0 v0] r IH]; cbn; intro H; [reflexivity|].
  inversion H as [|? ? Hn Hr]; subst. sdes k0 k.
  - rewrite avalues_notin; [reflexivity|]. now apply aget_none_notin.
  - now apply IH.
Qed.

Lemma aget_map_tag (b : bool) (m : alist) k :
  aget (map (fun p => (fst p, (snd p, b))) m) k = match aget m k with Some v => Some (v, b) | None => None end.
Proof.
  induction m as [|[k0 v0] r IH]; cbn; [reflexivity|]. destruct (str_eqb k0 k); [reflexivity|exact IH].
Qed.

(* ------------------------------------------------------------------ the refinement relation *)
Definition R (c : st) (a : ast) : Prop :=
  (forall n, aget (envp c) n = match vget a n with Some (v, true) => Some v | _ => None end) /\
  (forall n, aget (locals c) n = match vget a n with
                                 | Some (v, false) => Some v
                                 | Some (_, true) => aget (ghost a) n
                                 | None => None
                                 end) /\
  NoDup (map fst (envp c)) /\
  cwd c = acwd a /\ prev c = aold a.

Definition obs_ok (so : sout) (o : outcome) : Prop :=
  match so, o with
  | SStatus b, OStatus b' => b = b'
  | SChild argv f d, OChild argv' e d' =>
      argv = argv' /\ d = d' /\ forall m, avalues e m = ol (f m)
  | SVal v, OVal v' => v = v'
  | _, _ => False
  end.

Theorem R_abs c : NoDup (map fst (envp c)) -> R c (abs c).
Proof.
  intro H. unfold R, abs, vget; cbn [vars ghost acwd aold]. repeat split; try assumption.
  - intro n. rewrite aget_app, !aget_map_tag. destruct (aget (envp c) n); [reflexivity|].
    destruct (aget (locals c) n); reflexivity.
  - intro n. rewrite aget_app, !aget_map_tag. destruct (aget (envp c) n); [reflexivity|].
    destruct (aget (locals c) n); reflexivity.
Qed.

Lemma R_dirs c a x y : R c a -> R (mkst (locals c) (envp c) x y) (mkast (vars a) (ghost a) x y).
Proof. intros (R1 & R2 & R3 & _ & _). unfold R, vget in *; cbn. repeat split; assumption. Qed.

Lemma R_same c a : R c a -> R (mkst (locals c) (envp c) (acwd a) (aold a)) a.
Proof. intro H. pose proof (R_dirs c a (acwd a) (aold a) H) as H'. destruct a; exact H'. Qed.

Lemma R_set_env c a n v : R c a -> R (set_env c n v) (spec_assign1 a n v).
Proof.
  intros (R1 & R2 & R3 & R4 & R5). unfold set_env, spec_assign1, is_exported.
  pose proof (R1 n) as E1. pose proof (R2 n) as E2.
  destruct (vget a n) as [[x [|]]|] eqn:Vn; rewrite E1; unfold R, vget in *; cbn [locals envp cwd prev vars ghost acwd aold];
    (split; [|split; [|split; [|split; assumption]]]).
  - intro m. rewrite !aget_aset. sdes n m; [reflexivity|apply R1].
  - intro m. rewrite aget_aset. sdes n m; [exact E2|apply R2].
  - now apply nodup_aset.
  - intro m. rewrite aget_aset. sdes n m; [exact E1|apply R1].
  - intro m. rewrite !aget_aset. sdes n m; [reflexivity|apply R2].
  - assumption.
  - intro m. rewrite aget_aset. sdes n m; [exact E1|apply R1].
  - intro m. rewrite !aget_aset. sdes n m; [reflexivity|apply R2].
  - assumption.
Qed.

Lemma R_env_set c a n v : R c a -> R (env_set c n v) (spec_setenv1 a n v).
Proof.
  intros (R1 & R2 & R3 & R4 & R5). unfold env_set, spec_setenv1.
  pose proof (R2 n) as E2.
  unfold R, vget in *; cbn [locals envp cwd prev vars ghost acwd aold].
  split; [|split; [|split; [|split; assumption]]].
  - intro m. rewrite !aget_aset. sdes n m; [reflexivity|apply R1].
  - intro m. rewrite aget_aset. sdes n m.
    + destruct (aget (vars a) m) as [[x [|]]|]; [exact E2| |].
      * rewrite aget_aset, str_eqb_refl. exact E2.
      * rewrite aget_adel, str_eqb_refl. exact E2.
    + rewrite (R2 m). destruct (aget (vars a) m) as [[y [|]]|]; try reflexivity.
      destruct (aget (vars a) n) as [[x [|]]|]; [reflexivity| |].
      * rewrite aget_aset. sdes n m; [congruence|reflexivity].
      * rewrite aget_adel. sdes n m; [congruence|reflexivity].
  - now apply nodup_aset.
Qed.

Lemma R_export_set c a n v : R c a -> R (export_set c n v) (spec_export1 a n v).
Proof.
  intro HR. unfold export_set, spec_export1.
  destruct HR as (R1 & R2 & R3 & R4 & R5).
  unfold R, vget in *; cbn [locals envp cwd prev vars ghost acwd aold].
  split; [|split; [|split; [|split; assumption]]].
  - intro m. rewrite !aget_aset. sdes n m; [reflexivity|apply R1].
  - intro m. rewrite aget_aset, aget_adel. sdes n m.
    + now rewrite aget_adel, str_eqb_refl.
    + rewrite (R2 m). destruct (aget (vars a) m) as [[y [|]]|]; try reflexivity.
      rewrite aget_adel. sdes n m; [congruence|reflexivity].
  - now apply nodup_aset.
Qed.

Lemma R_remove c a n : R c a -> unset_name_ok n = true ->
  remove_env c n = (fst (remove_env c n), true) /\ R (fst (remove_env c n)) (spec_unset1 a n).
Proof.
  intros (R1 & R2 & R3 & R4 & R5) Hn. unfold remove_env, spec_unset1. rewrite Hn. cbn [fst]. split; [reflexivity|].
  unfold R, vget in *; cbn [locals envp cwd prev vars ghost acwd aold].
  split; [|split; [|split; [|split; assumption]]].
  - intro m. rewrite !aget_adel. sdes n m; [reflexivity|apply R1].
  - intro m. rewrite !aget_adel. sdes n m; [reflexivity|apply R2].
  - now apply nodup_adel.
Qed.

Lemma R_set_shell_vars ps : forall c a, R c a -> R (set_shell_vars c ps) (spec_assign a ps).
Proof.
  induction ps as [|[n v] r IH]; intros c a H; cbn; [assumption|]. apply IH. now apply R_set_env.
Qed.

(* ------------------------------------------------------------------ rendered assignments *)
Lemma span_name_eq n x : forallb is_alnum_us n = true -> span_name (n ++ c_eq :: x) = (n, c_eq :: x).
Proof.
  induction n as [|c r IH]; cbn [app span_name forallb]; intro H.
  - reflexivity.
  - apply andb_true_iff in H as [H1 H2]. rewrite H1, (IH H2). reflexivity.
Qed.

Lemma valid_ident_alnum n : valid_ident n = true ->
  forallb is_alnum_us n = true /\ exists c r, n = c :: r /\ is_digit c = false.
Proof.
  destruct n as [|c r]; cbn; [discriminate|]. intro H.
  apply andb_true_iff in H as [H H3]. apply andb_true_iff in H as [H1 H2].
  split; [now rewrite H2, H3|]. exists c, r. split; [reflexivity|]. now destruct (is_digit c).
Qed.

Lemma split_env_loose_eq n x : valid_ident n = true -> has_nl x = false ->
  split_env_loose (n ++ c_eq :: x) = Some (n, x).
Proof.
  intros Hn Hx. apply valid_ident_alnum in Hn as [Ha (c & r & -> & _)].
  unfold split_env_loose. rewrite (span_name_eq _ _ Ha). rewrite N.eqb_refl. reflexivity.
Qed.

Lemma split_env_strict_eq n x : valid_ident n = true -> has_nl x = false ->
  split_env_strict (n ++ c_eq :: x) = Some (n, x).
Proof.
  intros Hn Hx. pose proof (split_env_loose_eq n x Hn Hx) as E.
  apply valid_ident_alnum in Hn as [_ (c & r & -> & Hd)].
  unfold split_env_strict. cbn [app] in *. rewrite Hd. exact E.
Qed.

Lemma memb_app c a b : memb c (a ++ b) = memb c a || memb c b.
Proof. unfold memb. apply existsb_app. Qed.

Lemma has_nl_quote q v : has_nl (quote_val q v) = has_nl v.
Proof.
  unfold has_nl. destruct q; cbn [quote_val]; try reflexivity.
  - change (c_sq :: v ++ [c_sq]) with ([c_sq] ++ v ++ [c_sq]). rewrite !memb_app. cbn. now rewrite orb_false_r.
  - change (c_dq :: v ++ [c_dq]) with ([c_dq] ++ v ++ [c_dq]). rewrite !memb_app. cbn. now rewrite orb_false_r.
Qed.

Lemma ends_with_last c v : ends_with c (c :: v ++ [c]) = true.
Proof.
  unfold ends_with. cbn [rev]. rewrite rev_app_distr. cbn. apply N.eqb_refl.
Qed.

Lemma strip_ends_wrap c v : strip_ends (c :: v ++ [c]) = v.
Proof. unfold strip_ends. cbn [tl]. apply removelast_last. Qed.

Lemma unquote_quote q v :
  match q with QBare => str_eqb (unquote v) v | _ => true end = true -> unquote (quote_val q v) = v.
Proof.
  destruct q; cbn [quote_val]; intro H.
  - unfold unquote. cbn [starts_with]. change (c_sq =? c_dq) with false. cbn [andb].
    rewrite N.eqb_refl, ends_with_last. cbn [andb]. apply strip_ends_wrap.
  - unfold unquote. cbn [starts_with]. rewrite N.eqb_refl, ends_with_last. cbn [andb]. apply strip_ends_wrap.
  - now apply str_eqb_eq.
Qed.

Record asg_ok (p : asg) : Prop := {
  ok_name : valid_ident (a_name p) = true;
  ok_nl : has_nl (quote_val (a_q p) (a_val p)) = false;
  ok_tilde : memb c_tilde (a_val p) = false;
  ok_unq : unquote (quote_val (a_q p) (a_val p)) = a_val p }.

Lemma wf_asg_ok p : wf_asg p = true -> asg_ok p.
Proof.
  unfold wf_asg. intro H. apply andb_true_iff in H as [H H4]. apply andb_true_iff in H as [H H3].
  apply andb_true_iff in H as [H1 H2]. apply negb_true_iff in H2, H3.
  constructor; try assumption; [now rewrite has_nl_quote|now apply unquote_quote].
Qed.

Definition upd (m : alist) (p : asg) : alist := aset m (a_name p) (a_val p).

Lemma drain_prefix ps : forall acc rest, forallb wf_asg ps = true ->
  drain (map asg_token ps ++ rest) acc = drain rest (fold_left upd ps acc).
Proof.
  induction ps as [|p r IH]; intros acc rest H; [reflexivity|].
  cbn [forallb] in H. apply andb_true_iff in H as [Hp Hr]. destruct (wf_asg_ok p Hp) as [H1 H2 H3 H4].
  cbn [map app fold_left]. unfold asg_token at 1. cbn [drain tag_none].
  rewrite (split_env_loose_eq _ _ H1 H2), H4. now apply IH.
Qed.

Lemma existsb_str_false x l : existsb (str_eqb x) l = false -> ~ In x l.
Proof.
  induction l as [|y r IH]; cbn; [tauto|]. intro H. apply orb_false_iff in H as [H1 H2].
  apply str_eqb_neq in H1. intros [E|E]; [congruence|now apply IH].
Qed.

Lemma nodupb_NoDup l : nodupb l = true -> NoDup l.
Proof.
  induction l as [|x r IH]; cbn; intro H; [constructor|].
  apply andb_true_iff in H as [H1 H2]. apply negb_true_iff in H1.
  constructor; [now apply existsb_str_false|now apply IH].
Qed.

Lemma fold_upd_fresh ps : forall acc, NoDup (map a_name ps) ->
  (forall p, In p ps -> aget acc (a_name p) = None) ->
  fold_left upd ps acc = acc ++ map asg_pair ps.
Proof.
  induction ps as [|p r IH]; intros acc Hd Hf; cbn [fold_left map]; [now rewrite app_nil_r|].
  inversion Hd as [|? ? Hn Hr]; subst. unfold upd at 2. rewrite aset_fresh by (apply Hf; now left).
  rewrite IH; [now rewrite <- app_assoc| assumption |].
  intros q Hq. rewrite aget_app, (Hf q) by now right. cbn. sdes (a_name p) (a_name q); [|reflexivity].
  exfalso. apply Hn. rewrite E. now apply in_map.
Qed.

Lemma drain_render ps rest : wf_prefix ps = true ->
  drain (map asg_token ps ++ rest) [] = drain rest (map asg_pair ps).
Proof.
  unfold wf_prefix. intro H. apply andb_true_iff in H as [H1 H2].
  rewrite drain_prefix by assumption. rewrite fold_upd_fresh; [reflexivity|now apply nodupb_NoDup|reflexivity].
Qed.

Lemma pairs_fst ps : map fst (map asg_pair ps) = map a_name ps.
Proof. induction ps; cbn; congruence. Qed.

Lemma aget_pairs_in ps m v : aget (map asg_pair ps) m = Some v -> exists p, In p ps /\ a_name p = m.
Proof.
  induction ps as [|p r IH]; cbn; [discriminate|]. sdes (a_name p) m.
  - intros _. exists p. split; [now left|reflexivity].
  - intro H. destruct (IH H) as (q & Hq & E'). exists q. split; [now right|assumption].
Qed.

(* ------------------------------------------------------------------ export *)
Lemma export_loop_render w ps : forall c a, R c a -> forallb wf_asg ps = true ->
  exists c', export_loop w c (map asg_token ps) = (c', true) /\ R c' (spec_export a (map asg_pair ps)).
Proof.
  induction ps as [|p r IH]; intros c a HR H; cbn [map export_loop spec_export].
  - exists c. split; [reflexivity|assumption].
  - cbn [forallb] in H. apply andb_true_iff in H as [Hp Hr]. destruct (wf_asg_ok p Hp) as [H1 H2 H3 H4].
    unfold asg_token at 1. cbn [asg_pair].
    assert (Hne : str_eqb (a_name p ++ c_eq :: quote_val (a_q p) (a_val p)) s_export = false).
    { apply str_eqb_neq. intro E. pose proof (split_env_loose_eq _ _ H1 H2) as S. rewrite E in S. vm_compute in S. discriminate. }
    rewrite Hne. unfold is_env. rewrite (split_env_strict_eq _ _ H1 H2). cbn [negb].
    rewrite H4. unfold expand_home. rewrite H3. apply IH; [now apply R_export_set|assumption].
Qed.

(* ------------------------------------------------------------------ read *)
Definition nosep (seps : str) (c : char) : bool := negb (memb c seps).

Lemma break_none seps x : forall f, break_sep seps x = (f, None) -> x = f /\ forallb (nosep seps) f = true.
Proof.
  induction x as [|c r IH]; cbn; intros f H.
  - injection H as <-. split; reflexivity.
  - destruct (memb c seps) eqn:M; [discriminate|].
    destruct (break_sep seps r) as [f0 o0]. injection H as <- ->.
    destruct (IH f0 eq_refl) as [-> H2]. split; [reflexivity|]. cbn [forallb]. rewrite H2, andb_true_r.
    unfold nosep. now rewrite M.
Qed.

Lemma drop_nosep seps f : forallb (nosep seps) f = true -> drop_seps seps f = f.
Proof.
  destruct f as [|c r]; cbn [forallb drop_seps]; [reflexivity|]. intro H. apply andb_true_iff in H as [H _].
  unfold nosep in H. apply negb_true_iff in H. now rewrite H.
Qed.

Lemma trim_nosep seps f : forallb (nosep seps) f = true -> trim_seps seps f = f.
Proof.
  intro H. unfold trim_seps. rewrite (drop_nosep _ _ H).
  assert (H' : forallb (nosep seps) (rev f) = true).
  { apply forallb_forall. intros x Hx. apply in_rev in Hx. revert x Hx. now apply forallb_forall. }
  rewrite (drop_nosep _ _ H'). apply rev_involutive.
Qed.

Definition fl (dflt : bool) (seps : str) (k : nat) (o : option str) : list str :=
  match o with Some x => fields_loop dflt seps k x | None => [] end.

Lemma R_read_assign_n dflt seps ns : ns <> [] -> forall c a o, R c a ->
  R (read_assign c ns (fl dflt seps (length ns) o)) (spec_assign a (combine ns (cut_runs dflt seps (length ns) o))).
Proof.
  induction ns as [|n r IH]; intros NE c a o HR; [congruence|].
  destruct r as [|n2 r].
  - cbn [read_assign length cut_runs combine spec_assign]. destruct o as [x|]; cbn [fl fields_loop join_sp]; now apply R_set_env.
  - cbn [length] in *.
    change (cut_runs dflt seps (S (S (length r))) o)
      with (match o with
            | None => [] :: cut_runs dflt seps (S (length r)) None
            | Some x => let x1 := if dflt then drop_seps seps x else x in
                        let (f, o') := break_sep seps x1 in f :: cut_runs dflt seps (S (length r)) o'
            end).
    change (read_assign c (n :: n2 :: r) (fl dflt seps (S (S (length r))) o))
      with (read_assign (set_env c n (match fl dflt seps (S (S (length r))) o with v :: _ => v | [] => [] end)) (n2 :: r)
              (tl (fl dflt seps (S (S (length r))) o))).
    destruct o as [x|].
    + cbn [fl]. change (fields_loop dflt seps (S (S (length r))) x)
        with (let rest1 := if dflt then drop_seps seps x else x in
              match break_sep seps rest1 with
              | (f, Some r') => f :: fields_loop dflt seps (S (length r)) r'
              | (_, None) => [if dflt then trim_seps seps rest1 else rest1]
              end).
      cbv zeta. set (x1 := if dflt then drop_seps seps x else x).
      destruct (break_sep seps x1) as [f [r'|]] eqn:B; cbn [tl combine spec_assign].
      * apply (IH ltac:(discriminate) _ _ (Some r')). now apply R_set_env.
      * destruct (break_none _ _ _ B) as [E NS].
        assert (HV : (if dflt then trim_seps seps x1 else x1) = f).
        { rewrite E. destruct dflt; [now apply trim_nosep|reflexivity]. }
        rewrite HV. apply (IH ltac:(discriminate) _ _ None). now apply R_set_env.
    + cbn [fl tl combine spec_assign]. apply (IH ltac:(discriminate) _ _ None). now apply R_set_env.
Qed.

Lemma ifs_chars_raw c a envs : R c a -> shadow_free a -> ifs_chars c envs = spec_ifs a envs.
Proof.
  intros (R1 & R2 & _) SF. unfold ifs_chars, spec_ifs, get_env.
  destruct (aget envs s_IFS) as [x|]; [reflexivity|].
  rewrite (R2 s_IFS), (R1 s_IFS). unfold shadow_free, is_exported in SF.
  destruct (vget a s_IFS) as [[v [|]]|]; try reflexivity. now rewrite (SF eq_refl).
Qed.

Lemma split_into_fields_n_eq c line envs k :
  split_into_fields_n c line envs k =
  fields_loop (is_empty (ifs_chars c envs))
    (if is_empty (ifs_chars c envs) then default_seps else ifs_chars c envs) k line.
Proof. unfold split_into_fields_n. cbv zeta. destruct (is_empty (ifs_chars c envs)); reflexivity. Qed.

Lemma avalues_child inh envs k : NoDup (map fst inh) -> NoDup (map fst envs) ->
  avalues (child_env inh envs) k = ol (match aget envs k with Some v => Some v | None => aget inh k end).
Proof.
  intros H1 H2. unfold child_env. rewrite avalues_app, (avalues_nodup envs) by assumption.
  assert (F : avalues (filter (fun p => negb (ahas envs (fst p))) inh) k =
              if ahas envs k then [] else avalues inh k).
  { clear H1. induction inh as [|[k0 v0] r IH]; cbn [filter avalues fst]; [now destruct (ahas envs k)|].
    destruct (ahas envs k0) eqn:A0; cbn [negb avalues].
    - rewrite IH. sdes k0 k; [now rewrite A0|reflexivity].
    - sdes k0 k; [rewrite A0, IH, A0; reflexivity|exact IH]. }
  rewrite F. unfold ahas. destruct (aget envs k); cbn [ol app]; [reflexivity|].
  rewrite app_nil_r. now apply avalues_nodup.
Qed.

(* ------------------------------------------------------------------ one operation *)
Lemma valid_ident_unset n : valid_ident n = true -> unset_name_ok n = true.
Proof.
  destruct n as [|c r]; cbn; [discriminate|]. intro H.
  apply andb_true_iff in H as [H H3]. rewrite H. cbn.
  induction r as [|d r IH]; cbn in *; [reflexivity|]. apply andb_true_iff in H3 as [H1 H2]. rewrite H1. cbn. now apply IH.
Qed.

Lemma map_snd_plain l : map snd (map plain l) = l.
Proof. induction l; cbn; congruence. Qed.

Lemma existsb_false_forall {A} (f : A -> bool) l : existsb f l = false -> forall x, In x l -> f x = false.
Proof.
  induction l as [|y r IH]; cbn; [tauto|]. intros H x [E|E]; apply orb_false_iff in H as [H1 H2]; [now subst|now apply IH].
Qed.

Lemma drain_stop x r acc : split_env_loose x = None -> drain (plain x :: r) acc = (acc, plain x :: r).
Proof. intro H. unfold plain. cbn [drain tag_none]. now rewrite H. Qed.

Definition dispatch (w : world) (c : st) (envs : alist) (x : str) (r : list token) (here : option str) : st * outcome :=
  let rest := (TNone, x) :: r in
  if str_eqb x s_cd then cd_run w c rest
  else if str_eqb x s_export then let (s', ok) := export_loop w c rest in (s', OStatus ok)
  else if str_eqb x s_read then read_run c envs rest here
  else if str_eqb x s_unset then unset_run c rest
  else (c, OChild (map snd rest) (child_env (envp c) envs) (cwd c)).

Lemma run_proc_cmd w c ps x r here : wf_prefix ps = true -> split_env_loose x = None ->
  run_proc w c (map asg_token ps ++ plain x :: r) here = dispatch w c (map asg_pair ps) x r here.
Proof.
  intros H1 H2. unfold run_proc. rewrite (drain_render _ _ H1), (drain_stop _ _ _ H2). reflexivity.
Qed.

Lemma run_proc_cmd0 w c x r here : split_env_loose x = None ->
  run_proc w c (plain x :: r) here = dispatch w c [] x r here.
Proof. intro H. apply (run_proc_cmd w c [] x r here eq_refl H). Qed.

Ltac cd_tail w full c a :=
  destruct (w_exists w full); cbn [negb]; [|first [discriminate | split; [assumption|reflexivity]]];
  let d := fresh "d" in
  destruct (w_canon w full) as [d|]; [|split; [assumption|reflexivity]];
  destruct (w_chdir w d); [|split; [assumption|reflexivity]];
  sdes (acwd a) d; cbn [fst snd]; (split; [|reflexivity]);
  [now apply R_same
  |apply (R_dirs (env_set c s_PWD d) (spec_setenv1 a s_PWD d) d (acwd a)); now apply R_env_set].

Theorem sim_step w c a o : R c a -> shadow_free a -> wf_op o = true ->
  R (fst (step w c (render o))) (fst (spec_step w a o)) /\
  obs_ok (snd (spec_step w a o)) (snd (step w c (render o))).
Proof.
  intros HR SF WF. destruct o as [ps|ps prog args|ps|n|ps names line|arg|n]; cbn [render step spec_step wf_op] in *.
  - (* Assign *)
    apply andb_true_iff in WF as [WF _]. unfold run_proc.
    rewrite <- (app_nil_r (map asg_token ps)), (drain_render _ _ WF). cbn [drain fst snd].
    split; [now apply R_set_shell_vars|reflexivity].
  - (* Prefixed *)
    apply andb_true_iff in WF as [WF W3]. apply andb_true_iff in WF as [WF W2].
    destruct (split_env_loose prog) eqn:SP; [discriminate|]. rewrite (run_proc_cmd w c ps prog args None WF SP). unfold dispatch.
    unfold is_modelled_builtin in W2. apply negb_true_iff in W2.
    apply orb_false_iff in W2 as [W2 Wu]. apply orb_false_iff in W2 as [W2 Wr]. apply orb_false_iff in W2 as [Wc We].
    rewrite Wc, We, Wr, Wu. cbn [fst snd obs_ok map]. split; [assumption|].
    destruct HR as (R1 & R2 & R3 & R4 & R5). split; [reflexivity|]. split; [now symmetry|].
    intro m. unfold wf_prefix in WF. apply andb_true_iff in WF as [_ ND]. apply nodupb_NoDup in ND.
    rewrite avalues_child; [|assumption|now rewrite pairs_fst].
    unfold spec_child. rewrite (R1 m). destruct (aget (map asg_pair ps) m); [reflexivity|].
    destruct (vget a m) as [[x [|]]|]; reflexivity.
  - (* Export *)
    rewrite run_proc_cmd0 by reflexivity. unfold dispatch.
    change (str_eqb s_export s_cd) with false. rewrite str_eqb_refl. cbn iota.
    cbn [export_loop snd]. rewrite str_eqb_refl.
    destruct (export_loop_render w ps c a HR WF) as (c' & E & HR'). rewrite E. cbn [fst snd]. split; [assumption|reflexivity].
  - (* Unset *)
    rewrite run_proc_cmd0 by reflexivity. unfold dispatch, plain.
    change (str_eqb s_unset s_cd) with false. change (str_eqb s_unset s_export) with false.
    change (str_eqb s_unset s_read) with false. rewrite str_eqb_refl. cbn iota. cbn [unset_run].
    destruct (R_remove c a n HR (valid_ident_unset _ WF)) as [E HR']. rewrite E. cbn [fst snd]. split; [assumption|reflexivity].
  - (* Read *)
    apply andb_true_iff in WF as [WF WN]. rewrite (run_proc_cmd w c ps s_read (map plain names) (Some line) WF eq_refl). unfold dispatch.
    change (str_eqb s_read s_cd) with false. change (str_eqb s_read s_export) with false. rewrite str_eqb_refl. cbn iota.
    unfold read_run. cbn [tl].
    assert (NS : (match map plain names with [] => [s_REPLY] | t :: l => map snd (t :: l) end) = read_names names)
      by (destruct names as [|n0 nr]; [reflexivity|cbn [map read_names snd plain]; now rewrite map_snd_plain]).
    rewrite NS.
    assert (VN : forallb valid_ident (read_names names) = true) by (destruct names; [reflexivity|exact WN]).
    rewrite VN. cbn [negb fst snd]. split; [|reflexivity].
    set (pp := map asg_pair ps).
    unfold spec_read. fold (input_line line).
    rewrite split_into_fields_n_eq, (ifs_chars_raw c a pp HR SF). fold (spec_seps a pp).
    change (fields_loop (is_empty (spec_ifs a pp)) (spec_seps a pp) (length (read_names names)) (input_line line))
      with (fl (is_empty (spec_ifs a pp)) (spec_seps a pp) (length (read_names names)) (Some (input_line line))).
    apply R_read_assign_n; [destruct names; discriminate|assumption].
  - (* Cd *)
    destruct HR as (R1 & R2 & R3 & R4 & R5).
    assert (HR : R c a) by (repeat split; assumption).
    destruct arg as [x|]; cbn [render step spec_step].
    + rewrite run_proc_cmd0 by reflexivity. unfold dispatch, plain. rewrite str_eqb_refl. cbn iota.
      unfold cd_run, spec_cd, cd_target. cbn [map snd length tl concat_strs fold_right N.of_nat Pos.of_succ_nat Pos.succ N.ltb N.compare Pos.compare Pos.compare_cont Nat.eqb].
      rewrite app_nil_r, R4, R5. unfold join_path, resolve.
      destruct (str_eqb x s_dash).
      * destruct (is_empty (aold a)); [split; [assumption|reflexivity]|].
        destruct (w_exists w (aold a)); cbn [negb]; [|split; [assumption|reflexivity]].
        destruct (w_canon w (aold a)) as [d|]; [|split; [assumption|reflexivity]].
        destruct (w_chdir w d); [|split; [assumption|reflexivity]].
        sdes (acwd a) d; cbn [fst snd]; (split; [|reflexivity]).
        -- now apply R_same.
        -- apply (R_dirs (env_set c s_PWD d) (spec_setenv1 a s_PWD d) d (acwd a)). now apply R_env_set.
      * destruct (starts_with c_slash x).
        -- cd_tail w x c a.
        -- cd_tail w (acwd a ++ c_slash :: x) c a.
    + rewrite run_proc_cmd0 by reflexivity. unfold dispatch, plain. rewrite str_eqb_refl. cbn iota.
      unfold cd_run, spec_cd. cbn [map snd length N.of_nat Pos.of_succ_nat N.ltb N.compare Pos.compare Pos.compare_cont Nat.eqb].
      assert (EL : expand_lookup c s_HOME = match vget a s_HOME with Some (v, _) => Some v | None => None end).
      { unfold expand_lookup, get_env. rewrite (R1 s_HOME), (R2 s_HOME). destruct (vget a s_HOME) as [[x [|]]|]; reflexivity. }
      rewrite EL, R4, R5. unfold cd_target. clear EL.
      destruct (vget a s_HOME) as [[h b]|]; [|split; [assumption|reflexivity]].
      unfold join_path, resolve.
      destruct (str_eqb h s_dash).
      * destruct (is_empty (aold a)); [split; [assumption|reflexivity]|].
        cd_tail w (aold a) c a.
      * destruct (starts_with c_slash h).
        -- cd_tail w h c a.
        -- cd_tail w (acwd a ++ c_slash :: h) c a.
  - (* Ref *)
    cbn [fst snd obs_ok]. split; [assumption|]. destruct HR as (R1 & R2 & _).
    unfold expand_lookup, get_env. rewrite (R1 n), (R2 n).
    destruct (vget a n) as [[x [|]]|]; reflexivity.
Qed.

Lemma Forall2_nth_ok {A B} (P : A -> B -> Prop) l1 l2 : Forall2 P l1 l2 ->
  forall n d1 d2, (n < length l1)%nat -> P (nth n l1 d1) (nth n l2 d2).
Proof.
  induction 1 as [|x y r1 r2 Hxy Hr IH]; intros n d1 d2 Hn; cbn in *; [lia|].
  destruct n; [assumption|]. apply IH. lia.
Qed.

(* ------------------------------------------------------------------ the invariant, histories *)
Lemma assign1_shadow_free a m v : shadow_free a -> shadow_free (spec_assign1 a m v).
Proof.
  unfold shadow_free, spec_assign1, is_exported, vget; cbn [vars ghost]. intros H. rewrite aget_aset.
  sdes m s_IFS; [|exact H]. intro E. apply H. destruct (aget (vars a) s_IFS) as [[x [|]]|]; congruence.
Qed.

Lemma assign_shadow_free ps : forall a, shadow_free a -> shadow_free (spec_assign a ps).
Proof. induction ps as [|[m v] r IH]; intros a H; cbn; [exact H|]. apply IH. now apply assign1_shadow_free. Qed.

Lemma export1_shadow_free a m v : shadow_free a -> shadow_free (spec_export1 a m v).
Proof.
  intros H. unfold shadow_free, spec_export1, is_exported, vget in *. cbn [vars ghost].
  rewrite aget_aset, aget_adel. sdes m s_IFS; [reflexivity|exact H].
Qed.

Lemma export_shadow_free ps : forall a, shadow_free a -> shadow_free (spec_export a ps).
Proof. induction ps as [|[m v] r IH]; intros a H; cbn; [exact H|]. apply IH. now apply export1_shadow_free. Qed.

Lemma step_shadow_free w a o : shadow_free a -> shadow_free (fst (spec_step w a o)).
Proof.
  intros H. destruct o as [ps|ps prog args|ps|n|ps names line|arg|n]; cbn [spec_step fst]; try assumption.
  - now apply assign_shadow_free.
  - now apply export_shadow_free.
  - unfold shadow_free, spec_unset1, is_exported, vget in *; cbn [vars ghost]. rewrite !aget_adel.
    sdes n s_IFS; [discriminate|exact H].
  - unfold spec_read. now apply assign_shadow_free.
  - unfold spec_cd. destruct (cd_target a arg) as [full|]; [|exact H]. destruct (resolve w full) as [d|]; [|exact H].
    destruct (str_eqb (acwd a) d); [exact H|]. cbn [fst].
    unfold shadow_free, spec_setenv1, is_exported, vget in *; cbn [vars ghost].
    rewrite aget_aset. change (str_eqb s_PWD s_IFS) with false. cbn iota. intro E. specialize (H E).
    destruct (aget (vars a) s_PWD) as [[x [|]]|]; [exact H| |].
    + rewrite aget_aset. change (str_eqb s_PWD s_IFS) with false. exact H.
    + rewrite aget_adel. change (str_eqb s_PWD s_IFS) with false. exact H.
Qed.

Lemma abs_shadow_free c : (aget (envp c) s_IFS <> None -> aget (locals c) s_IFS = None) -> shadow_free (abs c).
Proof.
  intro HS. unfold shadow_free, is_exported, abs, vget; cbn [vars ghost]. rewrite aget_app, aget_map_tag.
  destruct (aget (envp c) s_IFS) as [v|]; [intros _; apply HS; discriminate|].
  rewrite aget_map_tag. destruct (aget (locals c) s_IFS); discriminate.
Qed.

Theorem sim_hist w : forall ops c a, R c a -> shadow_free a -> forallb wf_op ops = true ->
  R (fst (run_hist w c (map render ops))) (fst (spec_hist w a ops)) /\
  Forall2 obs_ok (snd (spec_hist w a ops)) (snd (run_hist w c (map render ops))).
Proof.
  induction ops as [|o r IH]; intros c a HR SF WF; cbn [map run_hist spec_hist forallb] in *.
  - split; [assumption|constructor].
  - apply andb_true_iff in WF as [W1 W2].
    destruct (sim_step w c a o HR SF W1) as [HR' HO]. pose proof (step_shadow_free w a o SF) as SF'.
    destruct (step w c (render o)) as [c1 out]. destruct (spec_step w a o) as [a1 so]. cbn [fst snd] in *.
    specialize (IH c1 a1 HR' SF' W2).
    destruct (run_hist w c1 (map render r)) as [c2 outs]. destruct (spec_hist w a1 r) as [a2 sos]. cbn [fst snd] in *.
    destruct out; try (destruct IH as [I1 I2]; split; [assumption|constructor; assumption]).
    destruct so; contradiction.
Qed.

Theorem full_from_abs w c ops :
  NoDup (map fst (envp c)) -> (aget (envp c) s_IFS <> None -> aget (locals c) s_IFS = None) ->
  forallb wf_op ops = true ->
  Forall2 obs_ok (snd (spec_hist w (abs c) ops)) (snd (run_hist w c (map render ops))) /\
  R (fst (run_hist w c (map render ops))) (fst (spec_hist w (abs c) ops)).
Proof.
  intros H1 HS H2. destruct (sim_hist w ops c (abs c) (R_abs c H1) (abs_shadow_free c HS) H2) as [A B]. split; assumption.
Qed.

(* ------------------------------------------------------------------ $PWD follows the working directory *)
Definition pwd_ok (a : ast) : Prop := vget a s_PWD = Some (acwd a, true).

Lemma existsb_map_eq {A B} (f : B -> bool) (g : A -> B) l : existsb f (map g l) = existsb (fun x => f (g x)) l.
Proof. induction l; cbn; congruence. Qed.

Lemma spec_assign_keep ps : forall a n, existsb (fun p => str_eqb (fst p) n) ps = false ->
  vget (spec_assign a ps) n = vget a n /\ acwd (spec_assign a ps) = acwd a.
Proof.
  induction ps as [|[m v] r IH]; intros a n H; cbn [spec_assign]; [split; reflexivity|].
  cbn [existsb fst] in H. apply orb_false_iff in H as [H1 H2].
  destruct (IH (spec_assign1 a m v) n H2) as [E1 E2]. rewrite E1, E2. split; [|reflexivity].
  unfold spec_assign1, vget; cbn [vars]. now rewrite aget_aset, H1.
Qed.

Lemma spec_export_keep ps : forall a n, existsb (fun p => str_eqb (fst p) n) ps = false ->
  vget (spec_export a ps) n = vget a n /\ acwd (spec_export a ps) = acwd a.
Proof.
  induction ps as [|[m v] r IH]; intros a n H; cbn [spec_export]; [split; reflexivity|].
  cbn [existsb fst] in H. apply orb_false_iff in H as [H1 H2].
  destruct (IH (spec_export1 a m v) n H2) as [E1 E2]. rewrite E1, E2.
  unfold spec_export1, vget. cbn [vars acwd]. now rewrite aget_aset, H1.
Qed.

Lemma combine_names n ns : forall (l : list str), existsb (fun m => str_eqb m n) ns = false ->
  existsb (fun p : str * str => str_eqb (fst p) n) (combine ns l) = false.
Proof.
  induction ns as [|m r IH]; intros l H; [reflexivity|]. destruct l as [|x l]; [reflexivity|].
  cbn in *. apply orb_false_iff in H as [H1 H2]. rewrite H1. cbn. now apply IH.
Qed.

Lemma spec_step_pwd w a o : pwd_ok a -> touches s_PWD o = false -> pwd_ok (fst (spec_step w a o)).
Proof.
  unfold pwd_ok. intros P T. destruct o as [ps|ps prog args|ps|n|ps names line|arg|n]; cbn [spec_step fst touches] in *; try assumption.
  - destruct (spec_assign_keep (map asg_pair ps) a s_PWD) as [E1 E2]; [now rewrite existsb_map_eq|]. now rewrite E1, E2.
  - destruct (spec_export_keep (map asg_pair ps) a s_PWD) as [E1 E2]; [now rewrite existsb_map_eq|]. now rewrite E1, E2.
  - unfold spec_unset1, vget; cbn [vars acwd]. rewrite aget_adel, T. exact P.
  - unfold spec_read. cbv zeta. match goal with |- context [combine ?ns ?l] =>
      destruct (spec_assign_keep (combine ns l) a s_PWD) as [E1 E2]; [now apply combine_names|] end.
    now rewrite E1, E2.
  - unfold spec_cd. destruct (cd_target a arg) as [full|]; [|exact P]. destruct (resolve w full) as [d|]; [|exact P].
    destruct (str_eqb (acwd a) d); [exact P|]. cbn [fst]. unfold vget, spec_setenv1; cbn [vars acwd].
    now rewrite aget_aset, str_eqb_refl.
Qed.

Lemma spec_hist_pwd w : forall ops a, pwd_ok a -> forallb (fun o => negb (touches s_PWD o)) ops = true ->
  pwd_ok (fst (spec_hist w a ops)).
Proof.
  induction ops as [|o r IH]; intros a P T; cbn [spec_hist forallb] in *; [exact P|].
  apply andb_true_iff in T as [T1 T2]. apply negb_true_iff in T1.
  pose proof (spec_step_pwd w a o P T1) as P1. destruct (spec_step w a o) as [a1 so]. cbn [fst] in P1.
  specialize (IH a1 P1 T2). destruct (spec_hist w a1 r) as [a2 sos]. exact IH.
Qed.

Theorem pwd_follows_cwd w c ops :
  NoDup (map fst (envp c)) -> (aget (envp c) s_IFS <> None -> aget (locals c) s_IFS = None) ->
  forallb wf_op ops = true ->
  aget (envp c) s_PWD = Some (cwd c) -> forallb (fun o => negb (touches s_PWD o)) ops = true ->
  let c' := fst (run_hist w c (map render ops)) in expand_lookup c' s_PWD = Some (cwd c').
Proof.
  intros H1 HS H2 HP HT. destruct (full_from_abs w c ops H1 HS H2) as [_ HR].
  assert (P0 : pwd_ok (abs c)).
  { unfold pwd_ok, abs, vget; cbn [vars acwd]. now rewrite aget_app, aget_map_tag, HP. }
  pose proof (spec_hist_pwd w ops (abs c) P0 HT) as P. cbv zeta.
  destruct HR as (R1 & _ & _ & R4 & _). unfold expand_lookup. rewrite (R1 s_PWD), P, R4. reflexivity.
Qed.

(* ------------------------------------------------------------------ the remainder is a piece of the line *)
Lemma drop_seps_suffix seps s : exists p, s = p ++ drop_seps seps s.
Proof.
  induction s as [|c r [p IH]]; cbn; [now exists []|]. destruct (memb c seps); [|now exists []].
  exists (c :: p). cbn. now rewrite <- IH.
Qed.

Lemma trim_seps_infix seps s : exists p q, s = p ++ trim_seps seps s ++ q.
Proof.
  unfold trim_seps. destruct (drop_seps_suffix seps s) as [p Hp].
  destruct (drop_seps_suffix seps (rev (drop_seps seps s))) as [q Hq].
  exists p, (rev q). rewrite Hp at 1. f_equal.
  rewrite <- (rev_involutive (drop_seps seps s)) at 1. rewrite Hq at 1. now rewrite rev_app_distr.
Qed.

Lemma break_some seps x : forall f r, break_sep seps x = (f, Some r) -> exists c, x = f ++ c :: r.
Proof.
  induction x as [|c x IH]; cbn; intros f r H; [discriminate|].
  destruct (memb c seps); [injection H as <- <-; now exists c|].
  destruct (break_sep seps x) as [f0 o0]. injection H as <- ->.
  destruct (IH f0 r eq_refl) as [d ->]. now exists d.
Qed.

Lemma last_cons_ne {A} (a : A) l d : l <> [] -> last (a :: l) d = last l d.
Proof. destruct l; [congruence|reflexivity]. Qed.

Lemma cut_runs_ne dflt seps k o : cut_runs dflt seps (S k) o <> [].
Proof.
  destruct k; cbn; [discriminate|]. destruct o as [x|]; [|discriminate].
  destruct (break_sep seps (if dflt then drop_seps seps x else x)); discriminate.
Qed.

Lemma cut_runs_none_last dflt seps k : last (cut_runs dflt seps k None) [] = [].
Proof.
  induction k as [|k IH]; [reflexivity|]. destruct k as [|k]; [reflexivity|].
  change (cut_runs dflt seps (S (S k)) None) with ([] :: cut_runs dflt seps (S k) None).
  rewrite last_cons_ne by apply cut_runs_ne. exact IH.
Qed.

(** "the remainder in the last": what the last name receives is a contiguous piece of the line *)
Theorem cut_runs_last_infix dflt seps : forall k x,
  exists p q, x = p ++ last (cut_runs dflt seps k (Some x)) [] ++ q.
Proof.
  induction k as [|k IH]; intro x; [exists x, []; cbn; now rewrite app_nil_r|].
  destruct k as [|k].
  - cbn [cut_runs last]. destruct dflt; [apply trim_seps_infix|]. exists [], []. cbn. now rewrite app_nil_r.
  - change (cut_runs dflt seps (S (S k)) (Some x))
      with (let x1 := if dflt then drop_seps seps x else x in
            let (f, o) := break_sep seps x1 in f :: cut_runs dflt seps (S k) o).
    cbv zeta. set (x1 := if dflt then drop_seps seps x else x).
    assert (HX : exists p0, x = p0 ++ x1).
    { unfold x1. destruct dflt; [apply drop_seps_suffix|now exists []]. }
    destruct HX as [p0 HX]. destruct (break_sep seps x1) as [f [r|]] eqn:B.
    + rewrite last_cons_ne by apply cut_runs_ne. destruct (break_some _ _ _ _ B) as [c E].
      destruct (IH r) as (p & q & Hr). exists (p0 ++ f ++ c :: p), q.
      rewrite HX, E. rewrite Hr at 1. rewrite <- !app_assoc. cbn. reflexivity.
    + rewrite last_cons_ne by apply cut_runs_ne. rewrite cut_runs_none_last. exists x, []. cbn. now rewrite app_nil_r.
Qed.
